/-
  C02 — Filtering an hourly collection selects exactly the requested time steps.
  Property theorems only (helper lemmas: Proofs/C02Lemmas.lean, Proofs/C02Index.lean,
  Proofs/C02Cyclic.lean, Proofs/C02Slice.lean, Proofs/C02Order.lean).  No Mathlib.

  The model (Model/Filter.lean, on Model/AP.lean and Model/Cal.lean) is tied to
  ladybug/datacollection.py and ladybug/_datacollectionbase.py by the correspondence ops of
  Drv/C02.lean (harness/props/c02.py).  It describes the code with the five fixes/C02_*.patch
  applied (filters of continuous collections that wrap the year end; order of the discontinuous
  period filter).

  Vocabulary: a collection is its header period and its (minute of the year, value) pairs; values
  have an arbitrary type `α`; `c.pairs` of a continuous collection is `zip (steps of its period) values`.
  All theorems hold for every well-formed period (any dates, all 12 timesteps, leap or not) and every
  value list – nothing is bounded.
-/
import Ladybug.Proofs.C02Slice
import Ladybug.Proofs.C02Order
import Ladybug.Proofs.C02Hist
import Ladybug.Props.C04

open Cal

namespace Filter

theorem mem_map_ofNat (l : List Nat) (n : Nat) : (n : Int) ∈ l.map Int.ofNat ↔ n ∈ l := by
  rw [List.mem_map]
  constructor
  · rintro ⟨a, ha, e⟩
    have : a = n := Int.ofNat.inj e
    rw [← this]; exact ha
  · intro h; exact ⟨n, h, rfl⟩

theorem nodup_of_map_fst {α β : Type} (l : List (α × β)) (h : (l.map Prod.fst).Nodup) : l.Nodup := by
  rw [List.nodup_iff_pairwise_ne] at h ⊢
  rw [List.pairwise_map] at h
  exact h.imp (fun hne' heq => hne' (by rw [heq]))

/-! ### The datetime-by-datetime search (reference path) -/

/-- **The search returns exactly the requested pairs, in source order.**  `_filter_by_moys_slow`
    keeps a pair iff its minute is requested; the result is a sub-sequence of the source (source
    order, nothing added, nothing duplicated). -/
theorem C02_slow_spec {α : Type} (req : List Int) (ps : List (Nat × α)) :
    slow req ps = ps.filter (fun p => decide ((p.1 : Int) ∈ req)) ∧
    (slow req ps).Sublist ps ∧
    ∀ p, p ∈ slow req ps ↔ p ∈ ps ∧ (p.1 : Int) ∈ req := by
  refine ⟨slow_eq_filter req ps, ?_, ?_⟩
  · rw [slow_eq_filter]; exact List.filter_sublist
  · intro p; rw [slow_eq_filter, List.mem_filter]; simp

example : slow [60, -3, 0] [(0, 'a'), (30, 'b'), (60, 'c')] = [(0, 'a'), (60, 'c')] := by decide

/-- **Discontinuous `filter_by_moys`**: a result is returned iff some pair is requested
    (`AssertionError` otherwise: a collection cannot be empty); it has the header period of the
    source and exactly the requested pairs in source order. -/
theorem C02_disc_moys {α : Type} (req : List Int) (c : Disc α) :
    (∀ r, Disc.filterByMoys req c = .ok r →
      r.ap = c.ap ∧ r.pairs = c.pairs.filter (fun p => decide ((p.1 : Int) ∈ req)) ∧
      r.validated = c.validated) ∧
    (Disc.filterByMoys req c = .error .assert ↔ ∀ p ∈ c.pairs, (p.1 : Int) ∉ req) := by
  unfold Disc.filterByMoys Keyed.mk?
  rw [slow_eq_filter]
  constructor
  · intro r h
    split at h
    · cases h
    · injection h with h; subst h; exact ⟨rfl, rfl, rfl⟩
  · constructor
    · intro h
      split at h
      · rename_i he
        intro p hp hreq
        have : p ∈ c.pairs.filter (fun p => decide ((p.1 : Int) ∈ req)) := by
          rw [List.mem_filter]; exact ⟨hp, by simpa using hreq⟩
        rw [List.isEmpty_iff.mp he] at this
        simp at this
      · cases h
    · intro h
      have : c.pairs.filter (fun p => decide ((p.1 : Int) ∈ req)) = [] := by
        rw [List.filter_eq_nil_iff]
        intro p hp; simpa using h p hp
      rw [this]; rfl

/-- **Discontinuous period filter**: requires equal timestep and leap flag (`AssertionError`
    otherwise); the result carries the filter period as header and the `validated_a_period` flag of
    the source, holds exactly the source pairs whose minute is a step of the filter period (as a
    multiset: `Perm`; nothing added, nothing lost), and every result minute is a step of the header
    period in the sense of the independent description `AP.Pred` (C04). -/
theorem C02_disc_period {α : Type} (f : AP) (hf : f.WF) (c : Disc α) (r : Disc α)
    (h : Disc.filterByAP f c = .ok r) :
    checkAP c.ap f = true ∧ r.ap = f ∧ r.validated = c.validated ∧
    r.pairs.Perm (c.pairs.filter (fun p => decide (p.1 ∈ f.moys))) ∧
    ∀ p ∈ r.pairs, p ∈ c.pairs ∧ f.Pred p.1 := by
  obtain ⟨hchk, rfl⟩ := disc_filterByAP_spec f c r h
  refine ⟨hchk, rfl, rfl, sortByPeriod_perm f _, ?_⟩
  intro p hp
  have hp' := (sortByPeriod_perm f _).mem_iff.mp hp
  rw [List.mem_filter] at hp'
  exact ⟨hp'.1, (AP.C04_mem_moys f hf p.1).mp (by simpa using hp'.2)⟩

/-- **The discontinuous period filter answers in the period's time order** (with
    fixes/C02_disc_period_order.patch): along the result the position of the minutes in the period's
    enumeration never decreases, and so does their chronological rank counted cyclically from the
    start moment of the period (`chronoKey`, the order of `C04_moys_chrono`) – whatever the order of
    the source, also for periods that wrap the year end.  (Equal minutes – a discontinuous collection
    may hold a date-time twice – stay in source order: the sort is stable.) -/
theorem C02_disc_period_order {α : Type} (f : AP) (hf : f.WF) (c r : Disc α)
    (h : Disc.filterByAP f c = .ok r) :
    r.pairs.Pairwise (fun p q => f.moys.idxOf p.1 ≤ f.moys.idxOf q.1) ∧
    r.pairs.Pairwise (fun p q => f.chronoKey p.1 ≤ f.chronoKey q.1) := by
  obtain ⟨_, rfl⟩ := disc_filterByAP_spec f c r h
  have hs := sortByPeriod_sorted f (c.pairs.filter fun p => decide (p.1 ∈ f.moys))
  refine ⟨hs, List.Pairwise.imp_of_mem ?_ hs⟩
  intro p q hp hq hpq
  have hp' := (sortByPeriod_perm f _).mem_iff.mp hp
  have hq' := (sortByPeriod_perm f _).mem_iff.mp hq
  rw [List.mem_filter] at hp' hq'
  exact chrono_of_idx f hf p.1 q.1 (by simpa using hp'.2) (by simpa using hq'.2) hpq

-- The witness of the former finding C02-disc-period-order (evaluated): 31 Dec → 1 Jan applied to a
-- collection holding 1 Jan 00:00 before 31 Dec 00:00 now answers 31 Dec first.
#guard (Disc.filterByAP ⟨12, 31, 0, 1, 1, 23, 1, false⟩
    (⟨AP.annual false 1, [(0, 'a'), (524160, 'b')], true⟩ : Disc Char)).toOption.map (·.pairs) =
  some [(524160, 'b'), (0, 'a')]

/-! ### The index arithmetic of continuous collections -/

/-- **Continuous `filter_by_moys` = the pair at each requested minute.**  For every continuous
    collection (period non-wrapping or wrapping the year end, any timestep, leap or not) and every
    non-empty list of minutes that are date-times of the collection, the index arithmetic
    `int(moy / t_s − st_ind)` (and its wrapping branch) succeeds, keeps the header period, returns the
    requested minutes in request order, and each returned (minute, value) pair is a pair of the
    source.  (The minutes of a collection are distinct – `C04_moys_nodup` – so this pins the result.) -/
theorem C02_cont_moys {α : Type} (c : Cont α) (hc : c.WF) (req : List Nat) (hne : req ≠ [])
    (hreq : ∀ m ∈ req, m ∈ c.ap.moys) :
    ∃ r, Cont.filterByMoys (req.map Int.ofNat) c = .ok r ∧ r.ap = c.ap ∧ r.validated = true ∧
      r.pairs.map Prod.fst = req ∧ ∀ p ∈ r.pairs, p ∈ c.pairs := by
  obtain ⟨vs, e1, e2, e3, e4⟩ := pick_moys c hc req hreq
  refine ⟨⟨c.ap, req.zip vs, true⟩, ?_, rfl, rfl, List.map_fst_zip (by omega), e4⟩
  unfold Cont.filterByMoys
  simp only [e1, e2]
  show Keyed.mk? c.ap (req.zip vs) true = _
  unfold Keyed.mk?
  cases req with
  | nil => exact absurd rfl hne
  | cons a as =>
    cases vs with
    | nil => simp at e3
    | cons v vs => rfl

example : decSrc.WF ∧ (decSrc.filterByMoys [0, 480960]).toOption.map (·.pairs) = some [(0, 744), (480960, 0)] := by
  decide +kernel

/-- Pairs of a continuous collection with the same minute are equal (its minutes are distinct). -/
theorem pairs_fst_inj {α : Type} (c : Cont α) (hwf : c.ap.WF) (p q : Nat × α) (hp : p ∈ c.pairs)
    (hq : q ∈ c.pairs) (h : p.1 = q.1) : p = q := by
  unfold Cont.pairs at hp hq
  obtain ⟨i, hi⟩ := List.getElem?_of_mem hp
  obtain ⟨j, hj⟩ := List.getElem?_of_mem hq
  rw [List.getElem?_zip_eq_some] at hi hj
  have hil : i < c.ap.moys.length := by
    rcases Nat.lt_or_ge i c.ap.moys.length with h' | h'
    · exact h'
    · rw [List.getElem?_eq_none h'] at hi; cases hi.1
  have hij : i = j := (List.getElem?_inj hil (AP.C04_moys_nodup c.ap hwf)).mp (by rw [hi.1, hj.1, h])
  subst hij
  have : some p.2 = some q.2 := by rw [← hi.2, ← hj.2]
  injection this with this
  exact Prod.ext h this

/-- **The shortcut agrees with the search.**  For a list of distinct minutes of the collection the
    continuous index arithmetic returns the same pairs as the datetime-by-datetime search on the
    equivalent discontinuous collection (`to_discontinuous()`), up to order: the shortcut answers
    in request order, the search in source order. -/
theorem C02_cont_eq_slow {α : Type} (c : Cont α) (hc : c.WF) (req : List Nat) (hne : req ≠ [])
    (hnd : req.Nodup) (hreq : ∀ m ∈ req, m ∈ c.ap.moys) :
    ∃ r r', Cont.filterByMoys (req.map Int.ofNat) c = .ok r ∧
      Disc.filterByMoys (req.map Int.ofNat) c.toDisc = .ok r' ∧ r.ap = r'.ap ∧ r.pairs.Perm r'.pairs := by
  obtain ⟨r, h1, h2, _, h3, h4⟩ := C02_cont_moys c hc req hne hreq
  have hwf := hc.1
  have hnd_src : c.pairs.Nodup := by
    apply nodup_of_map_fst
    unfold Cont.pairs
    rw [List.map_fst_zip (by rw [hc.2.2.2, AP.len_eq_length c.ap hwf]; exact Nat.le_refl _)]
    exact AP.C04_moys_nodup c.ap hwf
  have hmem : ∀ p, p ∈ r.pairs ↔ p ∈ slow (req.map Int.ofNat) c.pairs := by
    intro p
    rw [(C02_slow_spec _ _).2.2]
    constructor
    · intro hp
      refine ⟨h4 p hp, ?_⟩
      have : p.1 ∈ r.pairs.map Prod.fst := List.mem_map_of_mem hp
      rw [h3] at this
      exact List.mem_map_of_mem this
    · rintro ⟨hp, hr⟩
      have hr' : p.1 ∈ req := by
        rw [List.mem_map] at hr
        obtain ⟨m, hm, e⟩ := hr
        have : m = p.1 := Int.ofNat.inj e
        rw [← this]; exact hm
      rw [← h3, List.mem_map] at hr'
      obtain ⟨q, hq, e⟩ := hr'
      have := pairs_fst_inj c hwf q p (h4 q hq) hp e
      rw [← this]; exact hq
  have hne' : slow (req.map Int.ofNat) c.pairs ≠ [] := by
    cases hr : r.pairs with
    | nil => rw [hr] at h3; exact absurd h3.symm hne
    | cons p ps =>
      intro h0
      have := (hmem p).mp (by rw [hr]; simp)
      rw [h0] at this; simp at this
  refine ⟨r, ⟨c.ap, slow (req.map Int.ofNat) c.pairs, true⟩, h1, ?_, h2, ?_⟩
  · unfold Disc.filterByMoys Keyed.mk? Cont.toDisc
    simp only []
    rw [if_neg (by simpa [List.isEmpty_iff] using hne')]
  · rw [List.perm_ext_iff_of_nodup]
    · exact hmem
    · have : (r.pairs.map Prod.fst).Nodup := by rw [h3]; exact hnd
      exact nodup_of_map_fst _ this
    · exact List.Sublist.nodup (C02_slow_spec _ _).2.1 hnd_src

/-! ### Hour lists -/

/-- `round(x)` is `m` when `x` is within half a minute of the whole minute `m`. -/
theorem round_of_near (x : Rat) (m : Nat) (h1 : (m : Rat) - 1 / 2 < x) (h2 : x < (m : Rat) + 1 / 2) :
    Py.round x = (m : Int) := by
  obtain ⟨a, b⟩ := Cal.round_near x
  have h3 : ((Py.round x - (m : Int) : Int) : Rat) < 1 := by
    simp only [Rat.intCast_sub, Rat.intCast_natCast]; grind
  have h4 : ((-1 : Int) : Rat) < ((Py.round x - (m : Int) : Int) : Rat) := by
    simp only [Rat.intCast_sub, Rat.intCast_natCast]; grind
  have h5 : Py.round x - (m : Int) < 1 := by
    have : ((Py.round x - (m : Int) : Int) : Rat) < ((1 : Int) : Rat) := by simpa using h3
    exact Rat.intCast_lt_intCast.mp this
  have h6 : -1 < Py.round x - (m : Int) := Rat.intCast_lt_intCast.mp h4
  omega

/-- **`filter_by_hoys` is `filter_by_moys` of the rounded minutes** (discontinuous class): when the
    product `hour · 60` of every requested hour (function `g` of the minute it stands for) is within
    half a minute of that minute – which the check verifies for the float `m / 60.0` of every
    minute of both years on every run – the hour filter is the minute filter of those minutes. -/
theorem C02_hoys_disc {α : Type} (g : Nat → Rat) (ms : List Nat) (c : Disc α)
    (hg : ∀ m ∈ ms, (m : Rat) - 1 / 2 < g m ∧ g m < (m : Rat) + 1 / 2) :
    Disc.filterByHoys (ms.map g) c = Disc.filterByMoys (ms.map Int.ofNat) c := by
  unfold Disc.filterByHoys
  congr 1
  rw [List.map_map]
  apply List.map_congr_left
  intro m hm
  exact round_of_near (g m) m (hg m hm).1 (hg m hm).2

/-- **Continuous `filter_by_hoys`**: hours that are hours of the collection (`hoyOf m` for a minute
    `m` of the collection) pass the `h in existing_hoys` test and are then handled as the minutes
    they stand for – so `C02_cont_moys` / `C02_cont_eq_slow` apply to hour lists as well. -/
theorem C02_hoys_cont {α : Type} (hoyOf g : Nat → Rat) (ms : List Nat) (c : Cont α)
    (hms : ∀ m ∈ ms, m ∈ c.ap.moys)
    (hg : ∀ m ∈ ms, (m : Rat) - 1 / 2 < g m ∧ g m < (m : Rat) + 1 / 2) :
    Cont.filterByHoys hoyOf (ms.map fun m => (hoyOf m, g m)) c = Cont.filterByMoys (ms.map Int.ofNat) c := by
  unfold Cont.filterByHoys
  simp only []
  congr 1
  have hkeep : (ms.map fun m => (hoyOf m, g m)).filter
      (fun h => (c.ap.moys.map hoyOf).contains h.1) = ms.map fun m => (hoyOf m, g m) := by
    rw [List.filter_eq_self]
    intro h hh
    rw [List.mem_map] at hh
    obtain ⟨m, hm, rfl⟩ := hh
    rw [List.contains_iff_mem]
    exact List.mem_map_of_mem (hms m hm)
  rw [hkeep, List.map_map]
  apply List.map_congr_left
  intro m hm
  exact round_of_near (g m) m (hg m hm).1 (hg m hm).2

/-- Hours that are not hours of the collection select nothing (continuous class). -/
theorem C02_hoys_cont_foreign {α : Type} (hoyOf : Nat → Rat) (hs : List (Rat × Rat)) (h : Rat × Rat)
    (c : Cont α) (hno : h.1 ∉ c.ap.moys.map hoyOf) :
    Cont.filterByHoys hoyOf (h :: hs) c = Cont.filterByHoys hoyOf hs c := by
  unfold Cont.filterByHoys
  simp only []
  rw [List.filter_cons, if_neg (by rw [List.contains_iff_mem]; exact hno)]

/-! ### Period filters of continuous collections -/

/-- **Hour-window filters go through the minute path.**  When the clipped filter period has an
    hour window (not 0 → 23), the continuous period filter is the continuous minute filter on the
    steps of that period, under the clipped period as header; so by `C02_cont_moys`, when those
    steps are date-times of the collection, the result holds the pair at every step of the period,
    in the period's chronological order (`C04_moys_chrono`), each one a pair of the source, and
    every result minute satisfies the description `AP.Pred` of the header period. -/
theorem C02_window_filter {α : Type} (c : Cont α) (hc : c.WF) (f : AP) (hchk : checkAP c.ap f = true)
    (hwin : ¬ ((apSubset c.ap f).st_hour = 0 ∧ (apSubset c.ap f).end_hour = 23))
    (hwf : (apSubset c.ap f).WF) (hin : ∀ m ∈ (apSubset c.ap f).moys, m ∈ c.ap.moys) :
    ∃ r, Cont.filterByAP f c = .ok (.disc r) ∧ r.ap = apSubset c.ap f ∧ r.validated = true ∧
      r.pairs.map Prod.fst = (apSubset c.ap f).moys ∧ (∀ p ∈ r.pairs, p ∈ c.pairs) ∧
      ∀ p ∈ r.pairs, (apSubset c.ap f).Pred p.1 := by
  have hne : (apSubset c.ap f).moys ≠ [] := by
    intro h0
    have := stMoy_mem _ hwf
    rw [h0] at this
    simp at this
  obtain ⟨r, h1, h2, hv, h3, h4⟩ := C02_cont_moys c hc _ hne hin
  refine ⟨{ r with ap := apSubset c.ap f }, ?_, rfl, hv, h3, h4, ?_⟩
  · unfold Cont.filterByAP
    rw [if_neg (by simp [hchk])]
    simp only []
    rw [if_neg hwin, h1]
    rfl
  · intro p hp
    have : p.1 ∈ r.pairs.map Prod.fst := List.mem_map_of_mem hp
    rw [h3] at this
    exact (AP.C04_mem_moys _ hwf _).mp this

/-- **Whole-day period filter of a continuous collection – the slice is exactly the filter's run of
    pairs.**  Let `f'` be the filter period clipped to the collection (`_get_analysis_period_subset`).
    When `f'` covers whole days (hours 0 → 23), is well formed and its steps are date-times of the
    collection, then for every source period (annual, partial, wrapping the year end), every one of
    the 12 timesteps and both leap flags, and for both slice shapes (`values[st:end]`, and
    `values[st:] + values[:end]` when the filter runs past the last value of a collection that covers
    the whole year):
    * the filter succeeds – in particular the constructor's check `len(values) == len(period)` holds –
      and returns a *continuous* collection `r` whose header period is the clipped filter `f'`;
    * `r` is well formed, so its date-times are the steps of `f'` in chronological order
      (`C04_moys_chrono`) and its pairs are `zip (steps of f') values`;
    * pair number `k` of the result – (step `k` of `f'`, value `k` of the slice) – is a pair of the
      source: the value the source holds at that minute (unique by `C04_moys_nodup`);
    * hence the date-times of the result are exactly the steps of `f'`, none lost or added. -/
theorem C02_cont_period {α : Type} (c : Cont α) (hc : c.WF) (f : AP) (hchk : checkAP c.ap f = true)
    (hday : (apSubset c.ap f).st_hour = 0 ∧ (apSubset c.ap f).end_hour = 23)
    (hwf : (apSubset c.ap f).WF) (hin : ∀ m ∈ (apSubset c.ap f).moys, m ∈ c.ap.moys) :
    ∃ r : Cont α, Cont.filterByAP f c = .ok (.cont r) ∧ r.ap = apSubset c.ap f ∧ r.WF ∧
      (∀ (k m : Nat) (v : α), r.ap.moys[k]? = some m → r.vals[k]? = some v → (m, v) ∈ c.pairs) ∧
      (∀ p ∈ r.pairs, p ∈ c.pairs) ∧ r.pairs.map Prod.fst = (apSubset c.ap f).moys := by
  obtain ⟨vs, h1, h2, h3⟩ := cont_period c hc f hchk hday hwf hin
  refine ⟨⟨apSubset c.ap f, vs⟩, h1, rfl, ⟨hwf, hday.1, hday.2, by rw [h2, AP.len_eq_length _ hwf]⟩, h3, ?_, ?_⟩
  · intro p hp
    unfold Cont.pairs at hp
    obtain ⟨k, hk⟩ := List.getElem?_of_mem hp
    rw [List.getElem?_zip_eq_some] at hk
    exact h3 k p.1 p.2 hk.1 hk.2
  · unfold Cont.pairs
    exact List.map_fst_zip (by rw [h2]; exact Nat.le_refl _)

-- Evaluated instances (tests, `#guard` in Model/Filter.lean): wrapping source 12/1 -> 1/31 with the
-- inner wrapping filter 12/15 -> 1/15 (768 values, ids 336 .. 1103), a filter after the year end, a
-- clipped filter, an hour-window filter, a timestep mismatch.

/-- Non-vacuity of `C02_cont_period`: a collection over 30 Dec → 2 Jan at 4 steps per hour of a leap
    year, filtered by 31 Dec → 1 Jan, satisfies every hypothesis. -/
example :
    let c : Cont Nat := ⟨⟨12, 30, 0, 1, 2, 23, 4, true⟩, List.range 384⟩
    let f : AP := ⟨12, 31, 0, 1, 1, 23, 4, true⟩
    c.WF ∧ checkAP c.ap f = true ∧ (apSubset c.ap f) = f ∧ f.WF ∧ (∀ m ∈ f.moys, m ∈ c.ap.moys) := by
  decide +kernel

/-- The clipping keeps timestep and leap flag of the filter, and an annual collection never clips. -/
theorem C02_subset_keeps (src f : AP) :
    (apSubset src f).leap = f.leap ∧ (apSubset src f).timestep = f.timestep ∧
    (src.isAnnual = true → apSubset src f = f) := by
  refine ⟨?_, ?_, ?_⟩
  · unfold apSubset; split <;> rfl
  · unfold apSubset; split <;> rfl
  · intro h; unfold apSubset; rw [if_pos h]

/-! ### Value and key filters -/

/-- **Pattern filter**: position `i` is kept iff `pattern[i mod len(pattern)]` is true; an empty
    pattern raises `ZeroDivisionError`. -/
theorem C02_pattern {β : Type} (pat : List Bool) (l : List β) :
    (pat ≠ [] → patternFilter pat l =
      .ok (((l.zipIdx).filter fun x => pat.getD (x.2 % pat.length) false).map Prod.fst)) ∧
    (pat = [] → l ≠ [] → patternFilter pat l = .error .zero) := by
  unfold patternFilter
  constructor
  · intro h
    rw [if_neg (by simp [h]), patternKeep_eq]
  · intro h hl
    rw [if_pos (by simp [h, hl])]

example : patternFilter [true, false, false] [10, 11, 12, 13, 14, 15, 16] = .ok [10, 13, 16] := by decide

/-- **Range and statement filters** keep exactly the pairs whose value satisfies the predicate
    (`greater_than < a < less_than`, or the evaluated statement), in source order; the header is the
    source's; the result is rejected (`AssertionError`) iff nothing satisfies it. -/
theorem C02_pred {κ α : Type} (p : α → Bool) (c : Keyed κ α) :
    (∀ r, Keyed.filterByPred p c = .ok r → r.ap = c.ap ∧ r.pairs = c.pairs.filter (fun x => p x.2)) ∧
    (Keyed.filterByPred p c = .error .assert ↔ ∀ x ∈ c.pairs, p x.2 = false) := by
  unfold Keyed.filterByPred Keyed.mk? predFilter
  constructor
  · intro r h
    split at h
    · cases h
    · injection h with h; subst h; exact ⟨rfl, rfl⟩
  · constructor
    · intro h
      split at h
      · rename_i he
        have := List.isEmpty_iff.mp he
        rw [List.filter_eq_nil_iff] at this
        intro x hx; simpa using this x hx
      · cases h
    · intro h
      have : c.pairs.filter (fun x => p x.2) = [] := by
        rw [List.filter_eq_nil_iff]; intro x hx; simp [h x hx]
      rw [this]; rfl

/-- `filter_by_range` is the predicate filter with `lo < a < hi` (strict on both sides). -/
theorem C02_range (lo hi : Int) (a : Int) : inRange (some lo) (some hi) a = true ↔ lo < a ∧ a < hi := by
  simp [inRange]

/-- **Daily / monthly / monthly-per-hour collections filter by their own keys the same way**: the
    result holds exactly the pairs whose key is requested, in source order, under the source header
    (`filter_by_doys`, `filter_by_months`, `filter_by_months_per_hour`). -/
theorem C02_keys {κ α : Type} [DecidableEq κ] (req : List κ) (c : Keyed κ α) (r : Keyed κ α)
    (h : Keyed.filterByKeys req c = .ok r) :
    r.ap = c.ap ∧ r.pairs = c.pairs.filter (fun p => decide (p.1 ∈ req)) ∧ r.pairs.Sublist c.pairs := by
  unfold Keyed.filterByKeys Keyed.mk? at h
  rw [keyFilter_eq_filter] at h
  split at h
  · cases h
  · injection h with h; subst h; exact ⟨rfl, rfl, List.filter_sublist⟩

/-- Their period filters request the listings of the period (`doys_int`, `months_int`,
    `months_per_hour`, characterised in C04) and put the filter period on the header. -/
theorem C02_keys_period {α : Type} (f : AP) (c r : Keyed Nat α) (h : dailyFilterByAP f c = .ok r) :
    c.ap.leap = f.leap ∧ r.ap = f ∧ r.pairs = c.pairs.filter (fun p => decide (p.1 ∈ f.doysInt)) := by
  unfold dailyFilterByAP at h
  split at h
  · cases h
  · rename_i hl
    cases h1 : Keyed.filterByKeys f.doysInt c with
    | error e => rw [h1] at h; cases h
    | ok r0 =>
      rw [h1] at h; injection h with h; subst h
      exact ⟨by simpa using hl, rfl, (C02_keys _ _ _ h1).2.1⟩

/-- **Monthly collections**: the period filter requests `months_int` of the period (C04: the months in
    which the period has a step), keeps source order, puts the filter period on the header; no
    check of timestep or leap flag is made. -/
theorem C02_keys_period_monthly {α : Type} (f : AP) (c r : Keyed Nat α) (h : monthlyFilterByAP f c = .ok r) :
    r.ap = f ∧ r.pairs = c.pairs.filter (fun p => decide (p.1 ∈ f.monthsInt)) ∧ r.pairs.Sublist c.pairs := by
  unfold monthlyFilterByAP at h
  cases h1 : Keyed.filterByKeys f.monthsInt c with
  | error e => rw [h1] at h; cases h
  | ok r0 =>
    rw [h1] at h; injection h with h; subst h
    exact ⟨rfl, (C02_keys _ _ _ h1).2.1, (C02_keys _ _ _ h1).2.2⟩

/-- **Monthly-per-hour collections**: the period filter requests `months_per_hour` of the period –
    by `C04_months_per_hour_sound` the (month, hour, minute) keys whose month is a month of the period
    and whose time of day is a grid step inside its hour window – keeps source order and puts the
    filter period on the header. -/
theorem C02_keys_period_mph {α : Type} (f : AP) (hf : f.WF) (c r : Keyed (Nat × Nat × Nat) α)
    (h : mphFilterByAP f c = .ok r) :
    r.ap = f ∧ (∀ p, p ∈ r.pairs ↔ p ∈ c.pairs ∧ p.1 ∈ f.monthsPerHour) ∧
    r.pairs.Sublist c.pairs ∧
    ∀ p ∈ r.pairs, p.1.1 ∈ f.monthsInt ∧ ∃ x, x < 1440 ∧ x % f.step = 0 ∧ f.inWindow x ∧
      p.1.2.1 = x / 60 ∧ p.1.2.2 = x % 60 := by
  unfold mphFilterByAP at h
  cases h1 : Keyed.filterByKeys f.monthsPerHour c with
  | error e => rw [h1] at h; cases h
  | ok r0 =>
    rw [h1] at h; injection h with h; subst h
    have hmem : ∀ p, p ∈ r0.pairs ↔ p ∈ c.pairs ∧ p.1 ∈ f.monthsPerHour := by
      intro p
      have h2 := h1
      unfold Keyed.filterByKeys Keyed.mk? at h2
      split at h2
      · cases h2
      · injection h2 with h2; subst h2
        exact mem_keyFilter _ _ p
    refine ⟨rfl, hmem, (C02_keys _ _ _ h1).2.2, ?_⟩
    intro p hp
    exact (AP.C04_months_per_hour_sound f hf p.1).mp ((hmem p).mp hp).2

/-! ### The `validated_a_period` flag -/

/-- **Propagation of `validated_a_period`.**  The filters of the hourly discontinuous class and the
    value filters of the base class hand the flag of the source on; everything filtered out of a
    continuous collection is marked validated (see also `C02_cont_moys`, `C02_window_filter`,
    `C02_disc_moys`, `C02_disc_period`); the key filters of the daily / monthly / monthly-per-hour
    classes build a fresh collection, whose flag is False whatever the source said. -/
theorem C02_validated {κ α : Type} [DecidableEq κ] (c r : Keyed κ α) :
    (∀ pat, Keyed.filterByPattern pat c = .ok r → r.validated = c.validated) ∧
    (∀ p, Keyed.filterByPred p c = .ok r → r.validated = c.validated) ∧
    (∀ req, Keyed.filterByKeys req c = .ok r → r.validated = false) := by
  refine ⟨?_, ?_, ?_⟩
  · intro pat h
    unfold Keyed.filterByPattern at h
    cases h1 : patternFilter pat c.pairs with
    | error e => rw [h1] at h; cases h
    | ok ps =>
      rw [h1] at h
      simp only [bind, Except.bind, Keyed.mk?] at h
      split at h
      · cases h
      · injection h with h; subst h; rfl
  · intro p h
    unfold Keyed.filterByPred Keyed.mk? at h
    split at h
    · cases h
    · injection h with h; subst h; rfl
  · intro req h
    unfold Keyed.filterByKeys Keyed.mk? at h
    split at h
    · cases h
    · injection h with h; subst h; rfl

/-- The value filters of a continuous collection mark their result validated. -/
theorem C02_validated_cont {α : Type} (c : Cont α) (r : Disc α) :
    (∀ pat, Cont.filterByPattern pat c = .ok r → r.validated = true) ∧
    (∀ p, Cont.filterByPred p c = .ok r → r.validated = true) := by
  constructor
  · intro pat h; exact (C02_validated c.toDisc r).1 pat h
  · intro p h; exact (C02_validated c.toDisc r).2.1 p h

/-! ### Histories on one object (Model/FilterObj.lean)

  A collection is an object with setters (`values = …`, `coll[i] = v`), an in-place operation
  (`convert_to_culled_timestep`), immutable twins that refuse them, conversions to a twin, and – on
  the continuous class – the lazily filled slot `_datetimes`.  `Obj` is the object as the code holds
  it (slot included), `o.view` what a filter can see of it, `o.fresh` the object a constructor builds
  from that public state, `step` / `run` one operation / a history, `Coherent` the side condition
  that every in-place cull of a *continuous* object leaves date-times and header period in step (it
  does when the new timestep divides the old one; `C02_cull_nondividing_counterexample` shows what
  happens otherwise). -/

/-- **Reads are pure.**  What a filter (or a plain look at the collection) answers is the answer of a
    fresh object built from the public state; a read leaves the public state (view, mutability) as
    it was; and the answer to a question does not depend on the questions asked before it. -/
theorem C02_read_pure (hoyOf : Nat → Rat) (o : Obj) (h : o.Inv) (r r' : Read) :
    (o.observe hoyOf r).1 = (o.fresh.observe hoyOf r).1 ∧
    (o.observe hoyOf r).2.view = o.view ∧ (o.observe hoyOf r).2.mutable = o.mutable ∧
    (o.observe hoyOf r).2.Inv ∧
    ((o.observe hoyOf r).2.observe hoyOf r').1 = (o.observe hoyOf r').1 := by
  obtain ⟨h1, h2, h3⟩ := observe_obj hoyOf o r
  refine ⟨?_, h1, h2, h3 h, ?_⟩
  · show o.view.answer hoyOf r = o.fresh.view.answer hoyOf r
    rw [view_fresh o h]
  · show (o.observe hoyOf r).2.view.answer hoyOf r' = o.view.answer hoyOf r'
    rw [h1]

/-- **A refused operation changes nothing.**  When an operation of a history is refused (the caller
    sees an exception: wrong-length or non-list values, an index out of range, an invalid timestep,
    any setter of an immutable twin, a conversion the class does not have, a filter that fails), the
    object keeps its public state and every later question is answered as before. -/
theorem C02_refused_preserves (hoyOf : Nat → Rat) (o : Obj) (op : Op) (e : OErr)
    (herr : (step hoyOf o op).2 = .err e) (r : Read) :
    (step hoyOf o op).1.view = o.view ∧ (step hoyOf o op).1.mutable = o.mutable ∧
    ((step hoyOf o op).1.observe hoyOf r).1 = (o.observe hoyOf r).1 := by
  obtain ⟨h1, h2⟩ := step_refused hoyOf o op e herr
  refine ⟨h1, h2, ?_⟩
  show (step hoyOf o op).1.view.answer hoyOf r = o.view.answer hoyOf r
  rw [h1]

/-- **A history is indistinguishable from a fresh object.**  After any history of operations
    (reads in any order and number, setters, in-place culls, refused operations, conversions to
    twins, going on with a filter result) the slot of the object is coherent with its public state,
    and every question is answered exactly as a fresh object built from the final public state
    answers it.  Induction over the history. -/
theorem C02_history_refines_fresh (hoyOf : Nat → Rat) (o : Obj) (ops : List Op) (h : o.Inv)
    (hc : Coherent hoyOf o ops) (r : Read) :
    (run hoyOf o ops).1.Inv ∧
    ((run hoyOf o ops).1.observe hoyOf r).1 = ((run hoyOf o ops).1.fresh.observe hoyOf r).1 := by
  have hi := run_inv hoyOf ops o h hc
  exact ⟨hi, (C02_read_pure hoyOf _ hi r r).1⟩

private def exObj : Obj := ⟨.cont, true, ⟨1, 1, 0, 1, 1, 23, 2, false⟩, (List.range 48).map Int.ofNat, none, true⟩
private def exHoy : Nat → Rat := fun m => (m : Rat) / 60

/-- Non-vacuity: a history with a read, a refused assignment, an in-place cull to the hourly steps, a
    conversion to the immutable twin and a refused item assignment satisfies the hypotheses. -/
example : exObj.Inv ∧ Coherent exHoy exObj
    [.read (.keys [0, 30]), .setValues [1, 2, 3], .cull 1, .toImmutable, .setItem 0 5] := by
  refine ⟨by decide, trivial, trivial, ?_, trivial, trivial, trivial⟩
  intro _
  decide +kernel

/-- **After any history the filters are the pure filters of the public state** (continuous class):
    the minute filter and the period filter of the object reached by a history are
    `Cont.filterByMoys` / `Cont.filterByAP` on (header period, values) – so `C02_cont_moys`,
    `C02_cont_eq_slow`, `C02_cont_period`, `C02_window_filter` speak about every object a history can
    produce, not only about fresh ones. -/
theorem C02_history_cont_filters (hoyOf : Nat → Rat) (o : Obj) (ops : List Op) (h : o.Inv)
    (hc : Coherent hoyOf o ops) (hk : (run hoyOf o ops).1.kind = .cont) (req : List Int) (f : AP) :
    ((run hoyOf o ops).1.observe hoyOf (.keys req)).1 =
      outOfKeyed .disc (Cont.filterByMoys req ⟨(run hoyOf o ops).1.ap, (run hoyOf o ops).1.vals⟩) ∧
    ((run hoyOf o ops).1.observe hoyOf (.period f)).1 =
      outOfRes (Cont.filterByAP f ⟨(run hoyOf o ops).1.ap, (run hoyOf o ops).1.vals⟩) := by
  have hi := run_inv hoyOf ops o h hc
  constructor
  · show (run hoyOf o ops).1.view.answer hoyOf (.keys req) = _
    rw [← contMoys_eq _ hi hk]
    simp only [View.answer, Obj.view, hk]
  · show (run hoyOf o ops).1.view.answer hoyOf (.period f) = _
    rw [← contPeriod_eq _ hi hk]
    simp only [View.answer, Obj.view, hk]

/-- **After any history a requested minute of a continuous collection gets its pair**: the
    combination of `C02_history_cont_filters` and `C02_cont_moys`. -/
theorem C02_history_cont_moys (hoyOf : Nat → Rat) (o : Obj) (ops : List Op) (h : o.Inv)
    (hc : Coherent hoyOf o ops) (hk : (run hoyOf o ops).1.kind = .cont)
    (hwf : (⟨(run hoyOf o ops).1.ap, (run hoyOf o ops).1.vals⟩ : Cont Int).WF)
    (req : List Nat) (hne : req ≠ []) (hreq : ∀ m ∈ req, m ∈ (run hoyOf o ops).1.ap.moys) :
    ∃ ps, ((run hoyOf o ops).1.observe hoyOf (.keys (req.map Int.ofNat))).1 =
        .keyed .disc (run hoyOf o ops).1.ap true ps ∧
      ps.map Prod.fst = req ∧
      ∀ p ∈ ps, p ∈ (run hoyOf o ops).1.ap.moys.zip (run hoyOf o ops).1.vals := by
  obtain ⟨r, h1, h2, h3, h4, h5⟩ := C02_cont_moys _ hwf req hne hreq
  refine ⟨r.pairs, ?_, h4, h5⟩
  rw [(C02_history_cont_filters hoyOf o ops h hc hk (req.map Int.ofNat) (AP.annual false 1)).1, h1]
  simp only [outOfKeyed, h2, h3]

/-- Evaluated instances of the side condition (a test, not a theorem): culling 5-minute data over one day
    in place to every timestep that divides 12 keeps date-times and header in step; the general statement
    "new timestep ∣ old timestep → `cullCoherent`" is not proved. -/
example : ∀ ts ∈ [1, 2, 3, 4, 6, 12],
    cullCoherent ⟨.cont, true, ⟨2, 28, 0, 2, 28, 23, 12, false⟩, (List.range 288).map Int.ofNat, none, true⟩ ts := by
  decide +kernel

private def cxObj : Obj :=
  ⟨.cont, true, ⟨1, 1, 0, 1, 1, 23, 4, false⟩, (List.range 96).map Int.ofNat, none, true⟩

/-- **The in-place cull of a continuous collection to a timestep that does not divide its own breaks
    the filters** (the code as it is; recorded finding `C02-cont-cull-nondividing-timestep`):
    a quarter-hourly collection over 1 Jan culled in place to 3 steps per hour keeps its 24 hourly
    values under a header of 3 steps per hour; asked for 01:00 (minute 60, present) it answers with
    the pair of 03:00, while a fresh object with the same date-times answers (60, 4).  So the side
    condition `Coherent` of `C02_history_refines_fresh` cannot be dropped. -/
theorem C02_cull_nondividing_counterexample :
    cxObj.Inv ∧ ¬ cullCoherent cxObj 3 ∧ ¬ (step exHoy cxObj (.cull 3)).1.Inv ∧
    ((step exHoy cxObj (.cull 3)).1.observe exHoy (.keys [60])).1 =
      .keyed .disc ⟨1, 1, 0, 1, 1, 23, 3, false⟩ true [(180, 12)] ∧
    ((⟨.disc, true, (step exHoy cxObj (.cull 3)).1.ap, (step exHoy cxObj (.cull 3)).1.vals,
        (step exHoy cxObj (.cull 3)).1.dts, true⟩ : Obj).observe exHoy (.keys [60])).1 =
      .keyed .disc ⟨1, 1, 0, 1, 1, 23, 3, false⟩ true [(60, 4)] := by
  decide +kernel

/-! ### Round 4: sibling classes, container of the request, the float form of an hour -/

/-- **Mutable and immutable twins answer alike.**  What a filter (or a look at the collection) answers
    does not depend on the mutability flag of the object: the immutable twin of every class gives the
    answer of the mutable one for every question (the twins differ only in refusing setters and
    in-place operations, `C02_refused_preserves`).  So every filter theorem of this file holds for both
    twins of all classes. -/
theorem C02_twins_agree (hoyOf : Nat → Rat) (o : Obj) (b : Bool) (r : Read) :
    ({ o with mutable := b } : Obj).answer hoyOf r = o.answer hoyOf r ∧
    (({ o with mutable := b } : Obj).observe hoyOf r).1 = (o.observe hoyOf r).1 ∧
    ({ o with mutable := b } : Obj).view = o.view :=
  ⟨rfl, rfl, rfl⟩

/-- **The container of the request does not matter, only its elements in their order.**  The model
    takes the request as the list of its elements in iteration order (what a list, a tuple, a
    generator, an iterator or a `map` object yield; the harness feeds the same elements in every one
    of these shapes to the real filters).  Moreover the ORDER in which a continuous collection is
    asked for minutes of its own only permutes the answer: asked for a permutation of the request
    (a `set`, dictionary keys, a shuffled list) the index arithmetic returns a permutation of the
    same pairs. -/
theorem C02_request_order {α : Type} (c : Cont α) (hc : c.WF) (req req' : List Nat) (hne : req ≠ [])
    (hreq : ∀ m ∈ req, m ∈ c.ap.moys) (hp : req'.Perm req) :
    ∃ r r', Cont.filterByMoys (req.map Int.ofNat) c = .ok r ∧
      Cont.filterByMoys (req'.map Int.ofNat) c = .ok r' ∧
      (r'.pairs.map Prod.fst).Perm (r.pairs.map Prod.fst) ∧
      (∀ p, p ∈ r'.pairs ↔ p ∈ r.pairs) := by
  have hne' : req' ≠ [] := by
    intro h0
    rw [h0] at hp
    exact hne (List.Perm.eq_nil (hp.symm))
  have hreq' : ∀ m ∈ req', m ∈ c.ap.moys := fun m hm => hreq m (hp.mem_iff.mp hm)
  obtain ⟨r, h1, _, _, h3, h4⟩ := C02_cont_moys c hc req hne hreq
  obtain ⟨r', h1', _, _, h3', h4'⟩ := C02_cont_moys c hc req' hne' hreq'
  refine ⟨r, r', h1, h1', by rw [h3, h3']; exact hp, ?_⟩
  -- a pair of either answer is the source pair at its minute, and both answers hold the same minutes
  have key : ∀ (a b : Disc α), (∀ p ∈ a.pairs, p ∈ c.pairs) → (∀ p ∈ b.pairs, p ∈ c.pairs) →
      (∀ m, m ∈ a.pairs.map Prod.fst → m ∈ b.pairs.map Prod.fst) → ∀ p ∈ a.pairs, p ∈ b.pairs := by
    intro a b ha hb hm p hpa
    have : p.1 ∈ b.pairs.map Prod.fst := hm _ (List.mem_map_of_mem hpa)
    obtain ⟨q, hq, hq1⟩ := List.mem_map.mp this
    have := pairs_fst_inj c hc.1 q p (hb q hq) (ha p hpa) hq1
    rw [← this]
    exact hq
  intro p
  constructor
  · exact key r' r h4' h4 (fun m hm => by rw [h3]; rw [h3'] at hm; exact hp.mem_iff.mp hm) p
  · exact key r r' h4 h4' (fun m hm => by rw [h3']; rw [h3] at hm; exact hp.mem_iff.mpr hm) p

/-- The exact value of the double `m / 60.0` at 01:40 (minute 100) is `0x3FFAAAAAAAAAAAAB`; the double
    `1 + 40 / 60.0` (what `DateTime.hoy` computes for that step) is one unit in the last place below. -/
private def hoyQuot : Nat → Rat := fun m =>
  if m = 100 then (7505999378950827 : Rat) / 4503599627370496 else (m : Rat) / 60
private def hoySum100 : Rat := (7505999378950826 : Rat) / 4503599627370496

/-- **An hour of the year in another float form is lost by the continuous class only** (the code as
    it is; recorded finding `C02-cont-hoys-datetime-hoy`): a 20-minute collection over 1 Jan holds
    01:40; asked for the hour `1 + 40/60.0` – what `DateTime.hoy` answers for that very step, one bit
    below `100 / 60.0` – the continuous `filter_by_hoys` drops the request (`h in existing_hoys` is an
    exact float comparison) and fails on the empty result, while the discontinuous twin rounds
    `hour * 60` to minute 100 and returns the pair.  So "`C02_hoys_cont` = `C02_hoys_disc`" needs its
    hypothesis that the hours ARE the floats `m / 60.0`. -/
theorem C02_hoys_other_float_counterexample :
    let c : Cont Nat := ⟨⟨1, 1, 0, 1, 1, 23, 3, false⟩, List.range 72⟩
    c.WF ∧ 100 ∈ c.ap.moys ∧ Py.round (hoySum100 * 60) = 100 ∧ hoySum100 ≠ hoyQuot 100 ∧
    (Cont.filterByHoys hoyQuot [(hoySum100, hoySum100 * 60)] c).toOption.map (·.pairs) = none ∧
    (Disc.filterByHoys [hoySum100 * 60] c.toDisc).toOption.map (·.pairs) = some [(100, 5)] := by
  decide +kernel

/-! ### The strict in-place cull (fixes/C13_continuous_cull_in_place_divisor.patch)

`stepS true` / `runS true` is the machine of a tree whose continuous class asserts that the new timestep
divides the current one before it culls in place; `stepS false = step` is the machine of a tree without that
assert, for which `C02_cull_nondividing_counterexample` stands. -/

/-- **The strict class refuses the non-dividing cull and nothing changes**: on a mutable continuous object a
    cull to a timestep that does not divide the current one answers AssertionError, the object is the one
    before, and every question is answered as before (so the broken state of
    `C02_cull_nondividing_counterexample` is unreachable); a timestep that divides is handled as by the
    non-strict machine; and without the assert the strict machine IS the old one. -/
theorem C02_strict_cull_refused (hoyOf : Nat → Rat) (o : Obj) (ts : Nat) (hk : o.kind = .cont)
    (hm : o.mutable = true) :
    (o.ap.timestep % ts ≠ 0 → stepS true hoyOf o (.cull ts) = (o, .err .assert) ∧
      ∀ r, ((stepS true hoyOf o (.cull ts)).1.observe hoyOf r).1 = (o.observe hoyOf r).1) ∧
    (o.ap.timestep % ts = 0 → stepS true hoyOf o (.cull ts) = step hoyOf o (.cull ts)) ∧
    (∀ op, stepS false hoyOf o op = step hoyOf o op) := by
  refine ⟨?_, ?_, fun op => stepS_false hoyOf o op⟩
  · intro hnd
    have e : stepS true hoyOf o (.cull ts) = (o, .err .assert) := by
      unfold stepS
      have : strictRefuses true o (.cull ts) = true := by
        simp [strictRefuses, hk, hm, hnd]
      rw [this]; rfl
    exact ⟨e, fun r => by rw [e]⟩
  · intro hd
    unfold stepS
    have : strictRefuses true o (.cull ts) = false := by
      simp [strictRefuses, hk, hd]
    rw [this]; rfl

/-- **Refused operations and histories on the strict machine.**  Whatever the tree (strict or not): an
    operation that answers an error leaves the public state and every later answer unchanged, and after any
    history every question is answered as by a fresh object built from the final public state.  On the
    strict machine the side condition is needed only for culls it accepts (`CoherentS`: a refused cull needs
    none). -/
theorem C02_strict_history_refines_fresh (strict : Bool) (hoyOf : Nat → Rat) (o : Obj) (ops : List Op)
    (h : o.Inv) (hc : CoherentS strict hoyOf o ops) (r : Read) :
    (runS strict hoyOf o ops).1.Inv ∧
    ((runS strict hoyOf o ops).1.observe hoyOf r).1 = ((runS strict hoyOf o ops).1.fresh.observe hoyOf r).1 ∧
    (∀ (op : Op) (e : OErr), (stepS strict hoyOf o op).2 = .err e →
      (stepS strict hoyOf o op).1.view = o.view ∧ (stepS strict hoyOf o op).1.mutable = o.mutable) := by
  have hi := runS_inv strict hoyOf ops o h hc
  refine ⟨hi, (C02_read_pure hoyOf _ hi r r).1, ?_⟩
  intro op e herr
  rcases stepS_cases strict hoyOf o op with ⟨_, e1⟩ | ⟨_, e1⟩
  · rw [e1]; exact ⟨rfl, rfl⟩
  · rw [e1] at herr ⊢
    exact ⟨(C02_refused_preserves hoyOf o op e herr .all).1, (C02_refused_preserves hoyOf o op e herr .all).2.1⟩

/-- Non-vacuity: on the strict machine the history of the former finding (quarter-hourly data, cull to 3 steps
    per hour, ask for 01:00) refuses the cull and answers (60, 4) - the pair of 01:00. -/
example : CoherentS true exHoy cxObj [.cull 3, .read (.keys [60])] ∧
    (runS true exHoy cxObj [.cull 3, .read (.keys [60])]).2 =
      [.err .assert, .keyed .disc ⟨1, 1, 0, 1, 1, 23, 4, false⟩ true [(60, 4)]] := by
  refine ⟨⟨Or.inl (by decide +kernel), Or.inr trivial, trivial⟩, by decide +kernel⟩

end Filter
