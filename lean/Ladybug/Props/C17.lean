/-
  C17 — Plots place each datum at the cell of its own time or bin, in its own colour.
  Property theorems only (helper lemmas: Proofs/C17Lemmas.lean).
  The model (Model/Plot.lean, on Model/AP.lean) is tied to hourlyplot.py, _datacollectionbase.py,
  windrose.py, monthlychart.py and psychchart.py by the correspondence ops of Drv/C17.lean
  (harness/props/c17.py).  It describes the code with the three fixes/C17_*.patch applied.

  Coverage of the statement (all theorems quantify over all inputs of their clause, no size bounds):
    * hourly plot, non-wrapping periods, any hour window (incl. overnight), all 12 timesteps, leap or
      not, windowed/sparse data (`C17_hourly_cells`), y axis reversed (`C17_hourly_cells_reversed`,
      `C17_reversed_order`), continuous collections (`C17_hourly_cells_continuous`); pieces:
      `C17_hourly_pattern`, `C17_hourly_face_count`, `C17_hourly_grid`;
    * colours: each face carries the colour computed from its own value (`C17_colour_follows_value`);
    * histogram: `C17_hist_partition`, `C17_hist_bin_edges`, `C17_hist_inner_sum`;
    * circular histogram: `C17_circ_bin_contains`; wind rose: `C17_windrose_counts` (Σ sector counts +
      calms = samples, each kept sample in the one sector that takes it), `C17_prevailing_argmax`;
    * bars: `C17_bar_height_affine`, `C17_bars_column_monthly`, `C17_bars_column_daily`;
    * psychrometric chart: `C17_psych_bins`, `C17_psych_cell_bounds`.
    * objects and histories (round 3, Model/PlotObj.lean): for every operation history on one WindRose /
      PsychrometricChart (reads in any order, setters, refused calls) each answer is the answer of a
      fresh object built from the public state established so far (`C17_history_refines_fresh`,
      `C17_psych_history_refines_fresh`), refused calls change nothing (`C17_refused_preserves`,
      `C17_psych_refused_preserves`, `C17_bars_ignored_preserves`), reads are pure and commute
      (`C17_read_pure`, `C17_psych_read_pure`, `C17_bars_read_pure`); the data of a rose, its calm count
      and its prevailing direction do not depend on any setting (`C17_prevailing_independent_of_settings`);
      the cut of `histogram_data` keeps a prefix of every sector (`C17_cut_prefix`); the default-hours
      cut raises (`C17_windrose_default_hours_cut_counterexample`, known finding).  HourlyPlot has no
      state that enters its observables (every read is `hourlyFaces`).
    * round 6 (input forms of the psychrometric chart: number / hourly at a timestep / daily, on either
      argument): the hours one value stands for are the same whichever argument is the collection
      (`C17_psych_hours_either_argument`, `C17_psych_hours_of_form`, `C17_psych_hours_later_collection`), every
      face carries its cell's count times those hours (`C17_psych_cell_hours`) and the cells add up
      (`C17_psych_hours_sum`).
    * round 6 (input forms of the psychrometric chart: number / hourly at a timestep / daily, on either
      argument): the hours one value stands for are the same whichever argument is the collection
      (`C17_psych_hours_either_argument`, `C17_psych_hours_of_form`, `C17_psych_hours_later_collection`), every
      face carries its cell's count times those hours (`C17_psych_cell_hours`) and the cells add up
      (`C17_psych_hours_sum`).
    * NOT proved, compared with the real code and oracle-checked on every run: year-wrapping periods
      of the hourly plot (`is_reversed`), the IP psychrometric chart, `histogram` on edges that are not
      increasing (the docstring excludes them), `histogram_circular` with `hist_range=None`.
-/
import Ladybug.Proofs.C17Lemmas
import Ladybug.Proofs.C17Hist
import Ladybug.Proofs.C17Bars
import Ladybug.Proofs.C17Rev
import Ladybug.Proofs.C17Obj
import Ladybug.Proofs.C17Shape
import Mathlib.Tactic.Ring

open Cal

namespace Plot

/-! ### Hourly plot -/

/-- **The face pattern marks exactly the data.**  When the data date-times are a sub-list (same
    chronological order) of the steps of the period that indexes the faces, the steps at the
    `True` positions of the pattern are the data, one for one and in order. -/
theorem C17_hourly_pattern (M D : List Nat) (h : D.Sublist M) : pickTrue M (pattern M D) = D :=
  pickTrue_pattern M D h

example : pickTrue [10, 20, 30, 40] (pattern [10, 20, 30, 40] [20, 40]) = [20, 40] := by decide

/-- **One face per value**: the number of kept faces equals the number of data values (any
    sub-list of the steps: continuous, windowed or sparse). -/
theorem C17_hourly_face_count (M D : List Nat) (h : D.Sublist M) :
    (keptFrom 0 (pattern M D)).length = D.length := by
  rw [keptFrom_length_pick M _ 0 (pattern_length M D), pickTrue_pattern M D h]

/-- **The steps of a period are the day × time-of-day grid**: for every non-wrapping period with a
    daytime or whole-day hour window (all 12 timesteps, leap or not) the enumeration `moys` is, day
    column by day column, `numY` rows from the first hour of the window – so the step at position
    `c * numY + r` is day `c`, row `r`, and the grid has exactly `numX * numY` cells. -/
theorem C17_hourly_grid (mp : AP) (hwf : mp.WF) (hno : mp.st_hour ≤ mp.end_hour)
    (hnr : mp.isReversed = false) :
    mp.moys = gridList mp.stMoy (numX mp) (numY mp) mp.step ∧ mp.moys.length = numX mp * numY mp :=
  ⟨moys_eq_grid mp hwf hno hnr, moys_length_grid mp hwf hno hnr⟩

example : numX ⟨1, 1, 5, 1, 3, 23, 2, false⟩ * numY ⟨1, 1, 5, 1, 3, 23, 2, false⟩ =
    (⟨1, 1, 5, 1, 3, 23, 2, false⟩ : AP).moys.length := by decide

/-- **Each datum at the cell of its own time** (y axis not reversed).  For every well-formed,
    non-wrapping period – any hour window including overnight ones, any timestep, leap or not – and
    every data list whose date-times are a chronological sub-list of the period's steps (what
    `validate_analysis_period` establishes; continuous, windowed and sparse data alike), the coloured
    mesh has exactly one face per value, in data order, and the face of the value at minute `m` of
    the year lies in column `m / 1440 − start day` and in the row of its time of day counted in
    steps from the first hour of the plotted window. -/
theorem C17_hourly_cells {α : Type} (ap : AP) (hwf : ap.WF) (hnr : ap.isReversed = false)
    (data : List (Nat × α)) (hsub : (data.map (·.1)).Sublist (mAper ap).moys) :
    hourlyFaces ap false false data = .ok (data.map fun p => (colOf ap p.1, rowOf ap p.1, p.2)) := by
  obtain ⟨mwf, mno, mnr, hx, hy, hst, hstep⟩ := mAper_facts ap hwf hnr
  have hlen : (pattern (mAper ap).moys (data.map (·.1))).length = numX ap * numY ap := by
    rw [pattern_length, moys_length_grid _ mwf mno mnr, hx, hy]
  have hk := keptFrom_pick (mAper ap).moys _ 0 0 (pattern_length (mAper ap).moys (data.map (·.1)))
  rw [pickTrue_pattern _ _ hsub] at hk
  have hkl : (keptFrom 0 (pattern (mAper ap).moys (data.map (·.1)))).length = data.length := by
    rw [C17_hourly_face_count _ _ hsub]; simp
  simp only [hourlyFaces, facePattern, plotValues, Bool.false_eq_true, if_false, hlen, if_true,
    List.length_map, hkl]
  congr 1
  have hk' : (keptFrom 0 (pattern (mAper ap).moys (data.map (·.1)))).map
      (fun j => (mAper ap).moys.getD j 0) = data.map (·.1) := by
    simpa using hk
  have := faces_of_kept (keptFrom 0 (pattern (mAper ap).moys (data.map (·.1)))) data (mAper ap).moys
    (fun j => ((cellOf (numY ap) j).1, (cellOf (numY ap) j).2))
    (fun m => (colOf ap m, rowOf ap m)) hk' ?_
  · have h3 := congrArg (List.map fun (p : (Nat × Nat) × α) => (p.1.1, p.1.2, p.2)) this
    rw [List.map_map, List.map_map] at h3
    exact h3
  · intro j hj
    have hjlt : j < numX (mAper ap) * numY (mAper ap) := by
      rw [← moys_length_grid _ mwf mno mnr, ← pattern_length _ (data.map (·.1))]
      simpa using keptFrom_lt _ 0 j hj
    obtain ⟨m, hm, hc, hr⟩ := grid_cell (mAper ap) mwf mno mnr j hjlt
    have hget : (mAper ap).moys.getD j 0 = m := by
      simp [List.getD, hm]
    rw [hget]
    simp only [cellOf, colOf, rowOf]
    rw [← hst, ← hstep, hc, hr, hy]

example : hourlyFaces ⟨1, 1, 22, 1, 3, 3, 2, false⟩ false false [(1350, 'a'), (1440, 'b'), (2910, 'c')]
    = .ok [(0, 45, 'a'), (1, 0, 'b'), (2, 1, 'c')] := by decide +kernel

/-- **What `reverse_y` does to the order of the data**: the per-day rearrangement `revAll` (the
    `values` / `colors` loop) is a permutation – every value keeps its single occurrence – and it
    reverses a first day's run and continues with the later days. -/
theorem C17_reversed_order {β : Type} (d : Nat) (A B : List (Nat × β)) (hA : ∀ p ∈ A, p.1 = d)
    (hB : ∀ p ∈ B, p.1 ≠ d) :
    revAll (A ++ B) = (A.map (·.2)).reverse ++ revAll B ∧ (revAll (A ++ B)).Perm ((A ++ B).map (·.2)) :=
  ⟨revAll_split d A B hA hB, revAll_perm _⟩

/-- **Each datum at the mirrored cell of its own time** (`reverse_y = True`).  For every
    well-formed non-wrapping period – any hour window including overnight ones, all 12 timesteps, leap
    or not – and every non-empty data list whose date-times are a chronological sub-list of the
    period's steps (continuous, windowed, sparse): the coloured mesh has one face per value; the faces
    come day column by day column, within a column in the reverse order of the day's data
    (`C17_reversed_order`); and the face of the value at minute `m` lies in the column of its day and
    in row `numY − 1 − (row of its time of day)`. -/
theorem C17_hourly_cells_reversed {α : Type} (ap : AP) (hwf : ap.WF) (hnr : ap.isReversed = false)
    (data : List (Nat × α)) (hne : data ≠ []) (hsub : (data.map (·.1)).Sublist (mAper ap).moys) :
    hourlyFaces ap false true data = .ok ((revAll (data.map fun p => (dayOf p.1, p))).map fun p =>
      (colOf ap p.1, numY ap - 1 - rowOf ap p.1, p.2)) :=
  hourly_cells_reversed ap hwf hnr data hne hsub

example : hourlyFaces ⟨1, 1, 9, 1, 2, 10, 1, false⟩ false true [(540, 'w'), (600, 'x'), (1980, 'y')]
    = .ok [(0, 0, 'x'), (0, 1, 'w'), (1, 1, 'y')] := by decide +kernel

/-- **Continuous collections** (the branch that removes no face): for a well-formed non-wrapping
    period with the whole-day window and data holding every step of the period, the mesh is the one
    the pattern branch gives for the full data – so `C17_hourly_cells` / `C17_hourly_cells_reversed`
    apply: every value at the cell of its own time, mirrored when the y axis is reversed. -/
theorem C17_hourly_cells_continuous {α : Type} (ap : AP) (hwf : ap.WF) (hnr : ap.isReversed = false)
    (h0 : ap.st_hour = 0) (h23 : ap.end_hour = 23) (data : List (Nat × α))
    (hM : data.map (·.1) = ap.moys) :
    hourlyFaces ap true false data = .ok (data.map fun p => (colOf ap p.1, rowOf ap p.1, p.2)) ∧
    (data ≠ [] → hourlyFaces ap true true data =
      .ok ((revAll (data.map fun p => (dayOf p.1, p))).map fun p =>
        (colOf ap p.1, numY ap - 1 - rowOf ap p.1, p.2))) := by
  have hm : mAper ap = ap := by unfold mAper; simp [h0]
  obtain ⟨mwf, mno, mnr, hx, hy, _, _⟩ := mAper_facts ap hwf hnr
  obtain ⟨htd, _, hny, _⟩ := tDiff_eq_numY (mAper ap) mwf mno
  have hlen : (mAper ap).moys.length = numX ap * numY ap := by
    rw [moys_length_grid _ mwf mno mnr, hx, hy]
  have hM' : data.map (·.1) = (mAper ap).moys := by rw [hm]; exact hM
  have hsub : (data.map (·.1)).Sublist (mAper ap).moys := by rw [hM']
  refine ⟨?_, fun hne => ?_⟩
  · rw [hourly_continuous_eq ap false data hM' hlen (by rw [htd, hy]) (by rw [← hy]; exact hny)]
    exact C17_hourly_cells ap hwf hnr data hsub
  · rw [hourly_continuous_eq ap true data hM' hlen (by rw [htd, hy]) (by rw [← hy]; exact hny)]
    exact hourly_cells_reversed ap hwf hnr data hne hsub

/-! ### Colours -/

theorem revDaysGo_map {α β : Type} (f : α → β) (l : List (Nat × α)) (cur : Nat) (acc : List α) :
    revDaysGo cur (acc.map f) (l.map fun p => (p.1, f p.2)) = (revDaysGo cur acc l).map f := by
  induction l generalizing cur acc with
  | nil => simp [revDaysGo]
  | cons p ps ih =>
    obtain ⟨d, v⟩ := p
    simp only [List.map_cons, revDaysGo]
    split
    · rw [← ih]; simp
    · rw [List.map_append, ← ih]; simp

/-- **Each face carries the colour of its own value** – for both orientations of the y axis.  The
    list `colors` assigned to the kept faces is obtained from `value_colors` by the same per-day
    rearrangement as `values`, so colouring commutes with it: for any colour function `f` (the
    legend's `color_range.color`, modelled for C15), `colors = values.map f`, face by face. -/
theorem C17_colour_follows_value {α β : Type} (f : α → β) (rev : Bool) (data : List (Nat × α)) :
    plotValues rev (data.map fun p => (p.1, f p.2)) = (plotValues rev data).map (List.map f) := by
  cases rev with
  | false => simp [plotValues, Except.map, List.map_map, Function.comp]
  | true =>
    have e : (data.map fun p => (p.1, f p.2)).map (fun p => (dayOf p.1, p.2)) =
        (data.map fun p => (dayOf p.1, p.2)).map (fun p => (p.1, f p.2)) := by
      simp [List.map_map, Function.comp]
    simp only [plotValues, if_true]
    rw [e]
    generalize (data.map fun p => (dayOf p.1, p.2)) = l
    cases l with
    | nil => simp [revDays, Except.map]
    | cons q qs =>
      have := revDaysGo_map f (q :: qs) q.1 []
      simp only [List.map_nil] at this
      simp only [revDays, List.map_cons, Except.map]
      rw [← this]
      simp

example : plotValues true [(0, 1), (60, 2), (1440, 3)] = .ok [2, 1, 3] := by decide

/-! ### Circular histogram -/

/-- **A sample goes to a bin that contains it, and to one bin only.**  `circBin` is a function, so a
    sample is never counted twice; when it answers bin `i` the sample is inside the histogram range
    and bin `i` takes it, where "takes" means: for increasing edges `a < b` the half-open interval
    `a ≤ k < b`; for the wrapping bin (`a ≥ b`) both arcs, `a ≤ k ≤ hi` or `lo ≤ k < b`. -/
theorem C17_circ_bin_contains (bins : List Rat) (lo hi k : Rat) (i : Nat)
    (h : circBin bins lo hi k = some i) :
    lo ≤ k ∧ k < hi ∧ ∃ a b, bins[i]? = some a ∧ bins[i + 1]? = some b ∧
      ((a < b ∧ a ≤ k ∧ k < b) ∨ (¬ a < b ∧ ((k ≤ hi ∧ a ≤ k) ∨ (k < b ∧ lo ≤ k)))) := by
  unfold circBin at h
  split at h
  · simp at h
  · rename_i hr
    have ht := List.find?_some h
    unfold circTakes at ht
    refine ⟨Rat.not_lt.mp (fun hc => hr (Or.inl hc)), Rat.not_le.mp (fun hc => hr (Or.inr hc)), ?_⟩
    split at ht
    · rename_i a b ha hb
      refine ⟨a, b, ha, hb, ?_⟩
      split at ht
      · rename_i hab; exact Or.inl ⟨hab, by simpa using ht⟩
      · rename_i hab; exact Or.inr ⟨hab, by simpa using ht⟩
    · simp at ht

example : circBin (angles 8) 0 360 350 = some 0 ∧ circBin (angles 8) 0 360 10 = some 0 ∧
    circBin (angles 8) 0 360 (45 / 2) = some 1 := by decide +kernel

/-! ### Bars -/

/-- **Bar heights are affine in the value**: within one data-type group of a monthly/daily chart
    there are a slope and an intercept such that every bar's height is `slope * value + intercept`;
    the slope is `y_dim / (max − min)` (`y_dim` when max = min). -/
theorem C17_bar_height_affine (c : BarCfg) :
    ∃ b : Rat, ∀ v : Rat, c.hgt v = c.yDim / c.dRange * v + b := by
  rcases Bool.eq_false_or_eq_true c.cumulative with hc | hc
  · refine ⟨- (c.yDim / c.dRange * c.minV) + c.zeroVal, fun v => ?_⟩
    simp only [BarCfg.hgt, hc, if_true]
    ring
  · refine ⟨- (c.yDim / c.dRange * c.minV), fun v => ?_⟩
    simp only [BarCfg.hgt, hc, Bool.false_eq_true, if_false]
    ring

/-- **Monthly bars stand in their month's column.**  In a group of collections of one data type whose
    running bar number stays below the chart's horizontal bar count (`bc + #collections ≤ nBars`, what
    `_horizontal_bar_count()` provides), the bar of the `mi`-th month of every collection has positive
    width and its x range lies inside `[base_x + mi·x_dim, base_x + (mi+1)·x_dim]`, stacked or not,
    for every `x_dim > 0`. -/
theorem C17_bars_column_monthly (c : BarCfg) (nBars : Nat) (hx : 0 < c.xDim) (datas : List (List Rat))
    (bc : Nat) (lines : List (Rat × Rat)) (hle : bc + datas.length ≤ nBars) :
    ∀ bars ∈ (monthlyGroup c nBars bc datas lines).1, ∀ (mi : Nat) (b : Bar), bars[mi]? = some b →
      c.baseX + (mi : Rat) * c.xDim ≤ b.x ∧ b.x + b.w ≤ c.baseX + ((mi : Rat) + 1) * c.xDim ∧ 0 < b.w :=
  monthlyGroup_columns c nBars hx datas bc lines hle

/-- **Daily bars stand in the column of their day's month – also when the period does not start on
    the 1st.**  `dayAt dpm (0, st_day − 1) i` is the calendar walk: the (month index, day) reached `i`
    days after the start day, stepping into the next listed month after a month's last day.  As long
    as that walk stays inside the listed months (the data is not longer than the period), the bar of
    the `i`-th value of every collection has positive width and its x range lies inside the column of
    the month of its own day. -/
theorem C17_bars_column_daily (c : BarCfg) (nBig : Nat) (dpm : List Nat) (stDay : Nat) (hx : 0 < c.xDim)
    (datas : List (List Rat)) (bc : Nat) (lines : List (Rat × Rat)) (hle : bc + datas.length ≤ nBig)
    (k : Nat) (bars : List Bar) (hk : (dailyGroup c nBig dpm stDay bc datas lines).1[k]? = some bars)
    (i : Nat) (b : Bar) (hb : bars[i]? = some b)
    (hvalid : ∀ j, j ≤ i → validDay dpm (dayAt dpm (0, stDay - 1) j)) :
    let md := dayAt dpm (0, stDay - 1) i
    c.baseX + (md.1 : Rat) * c.xDim ≤ b.x ∧ b.x + b.w ≤ c.baseX + ((md.1 : Rat) + 1) * c.xDim ∧ 0 < b.w :=
  dailyGroup_columns c nBig dpm stDay hx datas bc lines hle k bars hk i b hb hvalid

-- 15 Jan + 17 days = 1 Feb (month index 1, day 0); the walk is valid up to there
example : dayAt [31, 28, 31] (0, 14) 17 = (1, 0) ∧ validDay [31, 28, 31] (dayAt [31, 28, 31] (0, 14) 17) := by
  unfold validDay; decide

/-! ### Histogram -/

/-- **What `binOf` means in terms of the edges.**  For increasing edges, a key has exactly `j` edges
    at or below it iff `j` is the position between the last edge `≤ k` and the first edge `> k`:
    `edge_{j-1} ≤ k < edge_j` (no lower condition for `j = 0`, no upper one for `j = len`). -/
theorem C17_hist_bin_edges (bins : List Rat) (hs : bins.Pairwise (· ≤ ·)) (k : Rat) (j : Nat) :
    binOf bins k = j ↔ j ≤ bins.length ∧ (∀ x, 0 < j → bins[j - 1]? = some x → x ≤ k) ∧
      (∀ x, bins[j]? = some x → k < x) := by
  constructor
  · rintro rfl
    obtain ⟨hA, hB⟩ := binOf_prefix bins hs k
    exact ⟨binOf_le bins k, fun x h hx => hA _ x (by omega) hx, fun x hx => hB _ x (Nat.le_refl _) hx⟩
  · rintro ⟨h1, h2, h3⟩
    exact binOf_unique bins hs k j h1 h2 h3

/-- **`histogram` partitions its input by the half-open edges.**  For every value list, key function
    and non-empty list of increasing edges (repeated edges allowed): the result has `len + 1` lists;
    list `j` is exactly the (stably sorted) values whose key lies in `[edge_{j-1}, edge_j)` – list `0`
    everything below the first edge, list `len` everything at/above the last edge, as the code does
    (`C17_hist_bin_edges` spells `binOf` out); hence every value is in exactly one list, and the sizes
    add up to the number of values. -/
theorem C17_hist_partition {α : Type} (key : α → Rat) (values : List α) (bins : List Rat)
    (hne : bins ≠ []) (hs : bins.Pairwise (· ≤ ·)) :
    ∃ h, histogram key values bins = .ok h ∧ h.length = bins.length + 1 ∧
      (∀ j, j ≤ bins.length → h[j]? = some ((sortByKey key values).filter fun a => binOf bins (key a) == j)) ∧
      (∀ j a, j ≤ bins.length → (a ∈ h.getD j [] ↔ a ∈ values ∧ binOf bins (key a) = j)) ∧
      (h.map List.length).sum = values.length := by
  refine ⟨_, histogram_eq key values bins hne hs, by simp, ?_, ?_, ?_⟩
  · intro j hj
    rw [List.getElem?_map, List.getElem?_range (by omega)]; rfl
  · intro j a hj
    rw [List.getD_eq_getElem?_getD, List.getElem?_map, List.getElem?_range (by omega)]
    simp only [Option.map_some, Option.getD_some, List.mem_filter, beq_iff_eq]
    rw [(sortByKey_perm key values).mem_iff]
  · rw [List.map_map]
    have := sum_classes (sortByKey key values) (fun a => binOf bins (key a)) (bins.length + 1)
    simp only [Function.comp_def]
    rw [this, ← (sortByKey_perm key values).length_eq]
    congr 1
    rw [List.filter_eq_self]
    intro a _
    have := binOf_le bins (key a)
    simp; omega

/-- **Σ of the inner bins = number of in-range samples** (first edge `≤ key <` last edge). -/
theorem C17_hist_inner_sum {α : Type} (key : α → Rat) (values : List α) (bins : List Rat)
    (hs : bins.Pairwise (· ≤ ·)) (lo hi : Rat) (hlo : bins[0]? = some lo)
    (hhi : bins[bins.length - 1]? = some hi) :
    ((List.range (bins.length - 1)).map fun i =>
      ((sortByKey key values).filter fun a => binOf bins (key a) == i + 1).length).sum =
    (values.filter fun a => decide (lo ≤ key a) && decide (key a < hi)).length := by
  have hn : 0 < bins.length := by
    rcases Nat.eq_zero_or_pos bins.length with h | h
    · rw [List.length_eq_zero_iff] at h; subst h; simp at hlo
    · exact h
  have h := sum_classes (sortByKey key values)
    (fun a => if binOf bins (key a) = 0 then bins.length else binOf bins (key a) - 1) (bins.length - 1)
  have e1 : ∀ i, i ∈ List.range (bins.length - 1) →
      ((sortByKey key values).filter fun a => binOf bins (key a) == i + 1).length =
      ((sortByKey key values).filter fun a =>
        (if binOf bins (key a) = 0 then bins.length else binOf bins (key a) - 1) == i).length := by
    intro i hi
    have hi' : i < bins.length - 1 := by simpa using hi
    congr 1
    apply List.filter_congr
    intro a _
    by_cases h0 : binOf bins (key a) = 0
    · simp [h0]; omega
    · simp [h0]; omega
  rw [List.map_congr_left e1, h, ← ((sortByKey_perm key values).filter _).length_eq]
  congr 1
  apply List.filter_congr
  intro a _
  have hle := binOf_le bins (key a)
  have hz : binOf bins (key a) = 0 ↔ key a < lo := by
    rw [C17_hist_bin_edges bins hs (key a) 0]
    constructor
    · intro h; exact h.2.2 lo hlo
    · intro h; refine ⟨Nat.zero_le _, fun x h0 => by omega, ?_⟩
      intro x hx; rw [hlo] at hx; have : lo = x := by simpa using hx
      rw [← this]; exact h
  have ht : binOf bins (key a) = bins.length ↔ hi ≤ key a := by
    rw [C17_hist_bin_edges bins hs (key a) bins.length]
    constructor
    · intro h; exact h.2.1 hi hn hhi
    · intro h; refine ⟨Nat.le_refl _, ?_, ?_⟩
      · intro x _ hx; rw [hhi] at hx; have : hi = x := by simpa using hx
        rw [← this]; exact h
      · intro x hx; simp at hx
  have hf : (if binOf bins (key a) = 0 then bins.length else binOf bins (key a) - 1) < bins.length - 1 ↔
      (¬ binOf bins (key a) = 0 ∧ ¬ binOf bins (key a) = bins.length) := by
    split <;> omega
  rw [Bool.eq_iff_iff]
  simp only [decide_eq_true_eq, Bool.and_eq_true]
  rw [hf, hz, ht, not_lt, not_le]

example : binOf [0, 1, 2, 3] (3 / 2) = 2 ∧ binOf [0, 1, 1, 2] 1 = 3 ∧ binOf [0, 1, 2, 3] (-1) = 0 := by
  decide +kernel

example : ([0, 1, 1, 2] : List Rat) ≠ [] ∧ ([0, 1, 1, 2] : List Rat).Pairwise (· ≤ ·) := by
  refine ⟨by simp, ?_⟩
  simp only [List.pairwise_cons, List.mem_cons, List.not_mem_nil, or_false, forall_eq_or_imp, forall_eq,
    List.Pairwise.nil, and_true, false_imp_iff, implies_true]
  norm_num

/-! ### Wind rose -/

/-- **Every sample is counted once: Σ sector counts + calms = samples.**  For every direction count
    `n ≥ 1`, every series of (direction, analysis value) samples whose directions are reduced to
    `[0, 360)` (what `d % 360.0` delivers – except for the tiny negative directions of the recorded
    finding), speed or not: there are `n` sectors; sector `j` holds exactly the non-calm samples
    whose direction bin `j` takes (first taker, `C17_circ_bin_contains`); calms are the samples with
    `¬ v > 1e-10` of a speed series; and the sector sizes plus the calm count equal the number of
    samples. -/
theorem C17_windrose_counts (n : Nat) (hn : 1 ≤ n) (isSpeed : Bool) (samples : List (Rat × Rat))
    (hdir : ∀ s ∈ samples, 0 ≤ s.1 ∧ s.1 < 360) :
    let kept := if isSpeed then samples.filter fun p => decide (calmThreshold < p.2) else samples
    ∃ h calm, windroseData n isSpeed samples = .ok (h, calm) ∧ h.length = n ∧
      calm = samples.length - kept.length ∧
      (∀ j, j < n → h[j]? = some (((sortByKey (·.1) kept).filter fun s =>
        circBin (angles n) 0 360 s.1 == some j).map (·.2))) ∧
      (h.map List.length).sum + calm = samples.length := by
  intro kept
  have hlen : (angles n).length - 1 = n := by simp [angles]
  have hk : ∀ s ∈ kept, 0 ≤ s.1 ∧ s.1 < 360 := by
    intro s hs
    apply hdir
    simp only [kept] at hs
    split at hs
    · exact (List.mem_filter.mp hs).1
    · exact hs
  have hkl : kept.length ≤ samples.length := by
    simp only [kept]; split
    · exact List.length_filter_le _ _
    · exact Nat.le_refl _
  have hw : windroseData n isSpeed samples = .ok
      (((List.range ((angles n).length - 1)).map fun j => (sortByKey (·.1) kept).filter fun s =>
        circBin (angles n) 0 360 s.1 == some j).map (·.map (·.2)), samples.length - kept.length) := by
    unfold windroseData
    simp only
    rw [histogramCircular_eq]
  refine ⟨_, _, hw, ?_, rfl, ?_, ?_⟩
  · simp [hlen]
  · intro j hj
    rw [List.getElem?_map, List.getElem?_map, hlen, List.getElem?_range hj]
    rfl
  · rw [List.map_map, List.map_map, hlen]
    have := circ_sum (fun p : Rat × Rat => p.1) (sortByKey (·.1) kept) (angles n) 0 360
    rw [hlen] at this
    simp only [Function.comp_def, List.length_map]
    rw [this, List.filter_eq_self.mpr, (sortByKey_perm _ kept).length_eq]
    · omega
    · intro s hs
      have hs' := (sortByKey_perm _ kept).mem_iff.mp hs
      exact windrose_cover n hn s.1 (hk s hs').1 (hk s hs').2

example : circBin (angles 4) 0 360 0 = some 0 ∧ circBin (angles 4) 0 360 359 = some 0 ∧
    circBin (angles 4) 0 360 45 = some 1 ∧ circBin (angles 1) 0 360 200 = some 0 := by decide +kernel

/-- **The prevailing direction is the arg-max set of the sector counts.**  There is a number `M`
    that bounds every sector count and (for a non-empty rose) is attained; `prevailing` returns the
    directions `i / n * 360` of exactly the sectors whose count is `M`, in increasing order of `i`
    (all sectors when every count is 0). -/
theorem C17_prevailing_argmax (counts : List Nat) :
    ∃ M, (∀ c ∈ counts, c ≤ M) ∧ (counts ≠ [] → M ∈ counts) ∧
      prevailing counts = ((counts.zipIdx).filter fun p => p.1 == M).map
        fun p => (p.2 : Rat) / (counts.length : Rat) * 360 := by
  let pairs := counts.zipIdx.map fun p => (p.1, (p.2 : Rat) / (counts.length : Rat) * 360)
  have hfst : pairs.map (·.1) = counts := by
    simp only [pairs, List.map_map, Function.comp_def]
    exact List.zipIdx_map_fst _ _
  refine ⟨maxFrom 0 pairs, ?_, ?_, ?_⟩
  · intro c hc
    rw [← hfst] at hc
    obtain ⟨p, hp, rfl⟩ := List.mem_map.mp hc
    exact maxFrom_bound pairs 0 p hp
  · intro hne
    rcases maxFrom_attained pairs 0 with h | ⟨p, hp, h⟩
    · rw [h]
      cases hc : counts with
      | nil => exact absurd hc hne
      | cons c cs =>
        have hmem : c ∈ pairs.map (·.1) := by rw [hfst, hc]; simp
        obtain ⟨p, hp, rfl⟩ := List.mem_map.mp hmem
        have := maxFrom_bound pairs 0 p hp
        rw [h] at this
        have : p.1 = 0 := by omega
        rw [← this]; simp
    · rw [← h, ← hfst]; exact List.mem_map.mpr ⟨p, hp, rfl⟩
  · show prevailGo 0 [] pairs = _
    rw [prevailGo_eq]
    simp only [ite_self, List.nil_append, pairs, List.filter_map, List.map_map, Function.comp_def]

example : prevailing [3, 1, 3, 0] = [0, 180] ∧ prevailing [0, 0] = [0, 180] := by decide +kernel

/-! ### Psychrometric chart -/

/-- **Σ matrix = number of on-chart hours, and each cell counts exactly its own hours.**  For every
    SI chart range `minT < maxT` and every series of (temperature, relative humidity) hours: the
    flattened matrix sums to the number of hours with `minT ≤ t ≤ maxT`, and the entry of rh row
    `y < 20`, temperature column `x < maxT − minT` is the number of on-chart hours whose cell
    (`psyCell`, bounds in `C17_psych_cell_bounds`) is `(y, x)`. -/
theorem C17_psych_bins (minT maxT : Int) (hT : minT < maxT) (hours : List (Rat × Rat)) :
    (psyCounts minT maxT hours).sum = (hours.filter fun p => onChart minT maxT p.1).length ∧
    ∀ y x, y < 20 → x < (tCats minT maxT).length →
      (psyCounts minT maxT hours)[y * (tCats minT maxT).length + x]? =
        some ((hours.filter fun p => onChart minT maxT p.1 && (psyCell minT maxT p.1 p.2 == (y, x))).length) := by
  have hnT : 0 < (tCats minT maxT).length := by simp [tCats]; omega
  have hrh : 0 < rhCats.length := by simp [rhCats]
  have hcell : ∀ t rh, (psyCell minT maxT t rh).1 < 20 ∧ (psyCell minT maxT t rh).2 < (tCats minT maxT).length := by
    intro t rh
    have h1 := (catIndex_spec rhCats rh hrh).1
    have h2 := (catIndex_spec (tCats minT maxT) t hnT).1
    have : rhCats.length = 20 := by simp [rhCats]
    exact ⟨by simpa [psyCell, this] using h1, by simpa [psyCell] using h2⟩
  constructor
  · unfold psyCounts
    simp only
    have := sum_classes ((hours.filter fun p => onChart minT maxT p.1).map fun p => psyCell minT maxT p.1 p.2)
      (fun c => c.1 * (tCats minT maxT).length + c.2) (20 * (tCats minT maxT).length)
    rw [this, List.filter_eq_self.mpr, List.length_map]
    intro c hc
    obtain ⟨p, _, rfl⟩ := List.mem_map.mp hc
    obtain ⟨h1, h2⟩ := hcell p.1 p.2
    simp only [decide_eq_true_eq]
    calc _ < (psyCell minT maxT p.1 p.2).1 * (tCats minT maxT).length + (tCats minT maxT).length := by omega
      _ = ((psyCell minT maxT p.1 p.2).1 + 1) * (tCats minT maxT).length := by rw [Nat.succ_mul]
      _ ≤ 20 * (tCats minT maxT).length := Nat.mul_le_mul_right _ (by omega)
  · intro y x hy hx
    unfold psyCounts
    simp only
    have hidx : y * (tCats minT maxT).length + x < 20 * (tCats minT maxT).length := by
      calc _ < y * (tCats minT maxT).length + (tCats minT maxT).length := by omega
        _ = (y + 1) * (tCats minT maxT).length := by rw [Nat.succ_mul]
        _ ≤ 20 * (tCats minT maxT).length := Nat.mul_le_mul_right _ (by omega)
    rw [List.getElem?_map, List.getElem?_range hidx]
    simp only [Option.map_some, Option.some.injEq]
    rw [List.filter_map, List.length_map, List.filter_filter]
    congr 1
    apply List.filter_congr
    intro p _
    obtain ⟨h1, h2⟩ := hcell p.1 p.2
    by_cases hon : onChart minT maxT p.1 = true
    · simp only [hon, Bool.true_and, Function.comp_def, Bool.and_true]
      by_cases hc : psyCell minT maxT p.1 p.2 = (y, x)
      · simp [hc]
      · have : ¬ (psyCell minT maxT p.1 p.2).1 * (tCats minT maxT).length + (psyCell minT maxT p.1 p.2).2 =
            y * (tCats minT maxT).length + x := by
          intro he
          obtain ⟨e1, e2⟩ := pair_index_inj _ _ _ _ _ h2 hx he
          exact hc (Prod.ext e1 e2)
        simp [hc, this]
    · simp [hon]

/-- **The cell of an on-chart hour brackets its humidity and temperature**: row `y` means
    `5·y ≤ rh < 5·(y+1)` (no lower bound in row 0, no upper bound in row 19: humidities below 0 or at/above
    100 are clamped into the end rows); column `x` means `minT + x ≤ t < minT + x + 1`, the last
    column also taking `t = maxT`. -/
theorem C17_psych_cell_bounds (minT maxT : Int) (hT : minT < maxT) (t rh : Rat)
    (hon : onChart minT maxT t = true) :
    let c := psyCell minT maxT t rh
    c.1 < 20 ∧ c.2 < (maxT - minT).toNat ∧
    (c.1 = 0 ∨ ((5 * c.1 : Nat) : Rat) ≤ rh) ∧ (rh < ((5 * (c.1 + 1) : Nat) : Rat) ∨ c.1 = 19) ∧
    ((minT : Rat) + (c.2 : Rat) ≤ t) ∧ (t < (minT : Rat) + (c.2 : Rat) + 1 ∨ c.2 = (maxT - minT).toNat - 1) := by
  intro c
  have hnT : 0 < (tCats minT maxT).length := by simp [tCats]; omega
  have hlenT : (tCats minT maxT).length = (maxT - minT).toNat := by simp [tCats]
  have hrh : 0 < rhCats.length := by simp [rhCats]
  have hlen : rhCats.length = 20 := by simp [rhCats]
  obtain ⟨a1, a2, a3⟩ := catIndex_spec rhCats rh hrh
  obtain ⟨b1, b2, b3⟩ := catIndex_spec (tCats minT maxT) t hnT
  have hrc : ∀ j, j < 20 → rhCats.getD j 0 = ((5 * (j + 1) : Nat) : Rat) := by
    intro j hj; simp [rhCats, List.getD_eq_getElem?_getD, List.getElem?_map, List.getElem?_range hj]
  have htc : ∀ j, j < (maxT - minT).toNat → (tCats minT maxT).getD j 0 = (minT : Rat) + (j : Rat) + 1 := by
    intro j hj
    simp [tCats, List.getD_eq_getElem?_getD, List.getElem?_map, List.getElem?_range hj]
    ring
  have hmin : (minT : Rat) ≤ t := by
    have := hon; simp [onChart] at this; exact this.1
  show (catIndex rhCats rh) < 20 ∧ (catIndex (tCats minT maxT) t) < (maxT - minT).toNat ∧ _
  rw [hlen] at a1
  rw [hlenT] at b1 b3
  refine ⟨a1, b1, ?_, ?_, ?_, ?_⟩
  · rcases Nat.eq_zero_or_pos (catIndex rhCats rh) with h | h
    · exact Or.inl h
    · right
      have := a2 (catIndex rhCats rh - 1) (by omega)
      rw [hrc _ (by omega)] at this
      have e : catIndex rhCats rh - 1 + 1 = catIndex rhCats rh := by omega
      rw [e] at this
      exact not_lt.mp this
  · rcases a3 with h | ⟨h, _⟩
    · left; rw [hrc _ a1] at h; exact h
    · right; rw [hlen] at h; exact h
  · rcases Nat.eq_zero_or_pos (catIndex (tCats minT maxT) t) with h | h
    · show (minT : Rat) + ((catIndex (tCats minT maxT) t : Nat) : Rat) ≤ t
      rw [h]; simpa using hmin
    · have := b2 (catIndex (tCats minT maxT) t - 1) (by omega)
      rw [htc _ (by omega)] at this
      have e : ((catIndex (tCats minT maxT) t - 1 : Nat) : Rat) + 1 = (catIndex (tCats minT maxT) t : Rat) := by
        have : catIndex (tCats minT maxT) t - 1 + 1 = catIndex (tCats minT maxT) t := by omega
        exact_mod_cast this
      have := not_lt.mp this
      show (minT : Rat) + ((catIndex (tCats minT maxT) t : Nat) : Rat) ≤ t
      linarith
  · rcases b3 with h | ⟨h, _⟩
    · left; rw [htc _ b1] at h; exact h
    · right; exact h

example : psyCell (-20) 50 50 100 = (19, 69) ∧ psyCell (-20) 50 (5/2) 95 = (19, 22) ∧
    psyCounts 0 10 [(1/2, 7), (1/2, 3), (11, 50), (10, 100)] ≠ [] := by decide +kernel

/-- Branch theorem of the humidity loop (`for y, rh_cat in enumerate(...): if rh < rh_cat: break` falls
    through): saturated air (`rh ≥ 100`) is counted in the top row, 95..100 %, never dropped. -/
theorem C17_psych_saturated_row (minT maxT : Int) (hT : minT < maxT) (t rh : Rat)
    (hon : onChart minT maxT t = true) (hrh : 100 ≤ rh) : (psyCell minT maxT t rh).1 = 19 := by
  obtain ⟨h1, _, _, h4, _, _⟩ := C17_psych_cell_bounds minT maxT hT t rh hon
  rcases h4 with h | h
  · exfalso
    have hle : (psyCell minT maxT t rh).1 + 1 ≤ 20 := h1
    have : ((5 * ((psyCell minT maxT t rh).1 + 1) : Nat) : Rat) ≤ 100 := by
      have : 5 * ((psyCell minT maxT t rh).1 + 1) ≤ 100 := by omega
      exact_mod_cast this
    linarith
  · exact h

/-- Branch theorem of the temperature loop (falls through for `t = max_temperature`): an hour exactly at
    the maximum temperature of the chart is counted in the last column. -/
theorem C17_psych_max_temperature_column (minT maxT : Int) (hT : minT < maxT) (rh : Rat) :
    (psyCell minT maxT (maxT : Rat) rh).2 = (maxT - minT).toNat - 1 := by
  have hon : onChart minT maxT (maxT : Rat) = true := by
    simp only [onChart, decide_eq_true_eq]
    exact ⟨by exact_mod_cast hT.le, le_refl _⟩
  obtain ⟨_, h2, _, _, _, h6⟩ := C17_psych_cell_bounds minT maxT hT (maxT : Rat) rh hon
  rcases h6 with h | h
  · exfalso
    have hlt : ((psyCell minT maxT (maxT : Rat) rh).2 : Int) < (maxT - minT).toNat := by exact_mod_cast h2
    have hn : ((maxT - minT).toNat : Int) = maxT - minT := Int.toNat_of_nonneg (by omega)
    have : (minT : Rat) + ((psyCell minT maxT (maxT : Rat) rh).2 : Rat) + 1 ≤ (maxT : Rat) := by
      have : minT + ((psyCell minT maxT (maxT : Rat) rh).2 : Int) + 1 ≤ maxT := by omega
      exact_mod_cast this
    linarith
  · exact h

/-! ### Hand-over shapes and conventions (round 4) -/

/-- **The hand-over order of the data does not matter.**  A collection that is not yet validated is
    validated by the plot itself (sorted into the chronological order of the period, `handOver`).  For two
    collections holding the same (date-time, value) pairs in ANY two orders (no date-time twice) the
    validated data – hence the grid, the kept faces, their cells and the value that colours each face –
    are the same. -/
theorem C17_hourly_handover_order_irrelevant {α : Type} (ap : AP) (continuous rev : Bool) (pos : Nat → Nat)
    (d1 d2 : List (Nat × α)) (hp : d1.Perm d2)
    (hinj : ∀ a ∈ d1, ∀ b ∈ d1, pos a.1 = pos b.1 → a = b) :
    hourlyFaces ap continuous rev (handOver pos d1) = hourlyFaces ap continuous rev (handOver pos d2) := by
  rw [handOver_perm_eq pos d1 d2 hp hinj]

/-- **Validation restores the chronological order**: whatever permutation of chronologically ordered
    data (distinct date-times) is handed over, the plot works on the chronological list – the list the
    cell theorems `C17_hourly_cells`, `C17_hourly_cells_reversed` speak about. -/
theorem C17_hourly_handover_restores_order {α : Type} (pos : Nat → Nat) (d handed : List (Nat × α))
    (hs : d.Pairwise fun a b => pos a.1 ≤ pos b.1) (hp : handed.Perm d)
    (hinj : ∀ a ∈ d, ∀ b ∈ d, pos a.1 = pos b.1 → a = b) : handOver pos handed = d := by
  rw [handOver_perm_eq pos handed d hp
    (fun a ha b hb => hinj a (hp.subset ha) b (hp.subset hb)), handOver_sorted pos d hs]

/-- **Month number versus column** (monthly and daily bars, month labels).  In a chart whose period starts in
    month `st` the column `i` shows month `monthOfColumn st i`; the column of a month is its distance from
    `st` modulo 12 – for a period that wraps the year end NOT `month - st` (January in a Nov..Feb chart is
    column 2).  The two maps are inverse to each other on the 12 columns / months. -/
theorem C17_bars_month_column (st : Nat) (hst : 1 ≤ st ∧ st ≤ 12) :
    (∀ i, i < 12 → 1 ≤ monthOfColumn st i ∧ monthOfColumn st i ≤ 12 ∧
      columnOfMonth st (monthOfColumn st i) = i) ∧
    (∀ m, 1 ≤ m → m ≤ 12 → columnOfMonth st m < 12 ∧ monthOfColumn st (columnOfMonth st m) = m) ∧
    (∀ i, i < 12 → st + i ≤ 12 → monthOfColumn st i = st + i) ∧
    (∀ i, i < 12 → 12 < st + i → monthOfColumn st i + 12 = st + i) := by
  simp only [monthOfColumn, columnOfMonth]
  refine ⟨fun i hi => ?_, fun m h1 h2 => ?_, fun i hi h => ?_, fun i hi h => ?_⟩ <;> omega

example : monthOfColumn 11 2 = 1 ∧ columnOfMonth 11 1 = 2 ∧ columnOfMonth 7 6 = 11 := by decide
example : handOver (fun m => m) [(3, 'c'), (1, 'a'), (2, 'b')] = [(1, 'a'), (2, 'b'), (3, 'c')] :=
  C17_hourly_handover_restores_order _ _ _ (by decide) (by decide) (by decide)

/-! ### Objects and operation histories (round 3) -/

end Plot

namespace PlotObj

open Plot

/-- **No history shows.**  Take a wind rose as its constructor leaves it (or any object satisfying the
    invariant of the slots), run ANY list of operations on it – reads in any order and repeated,
    accepted and refused setters – and then ask any question: the answer is the answer a fresh wind
    rose gives that is built from the public state established so far (constructor data and the
    accepted settings, `WPub.apply` folded over the history).  The lazily filled
    `_prevailing_direction` slot, which no setter resets, therefore never makes an observation
    stale. -/
theorem C17_history_refines_fresh (o : WObj) (h : o.Inv) (ops : List WOp) (op : WOp) :
    ∃ f, WObj.fresh (ops.foldl WPub.apply o.pub) = .ok f ∧ ((o.run ops).1.step op).2 = (f.step op).2 := by
  have hi := o.run_inv h ops
  refine ⟨⟨(o.run ops).1.pub, (o.run ops).1.hist, (o.run ops).1.zeros, none⟩, ?_, ?_⟩
  · rw [← o.run_pub ops]; exact WObj.fresh_of_inv _ hi
  · apply WObj.out_of_core _ _ hi
    · exact ⟨hi.1, hi.2.1, Or.inl rfl⟩
    · rfl

/-- The constructor establishes the invariant, so the theorem above applies to every object a user
    can hold. -/
theorem C17_fresh_inv (p : WPub) (o : WObj) (h : WObj.fresh p = .ok o) : o.Inv ∧ o.pub = p :=
  WObj.fresh_inv p o h

/-- **A refused operation changes nothing**: when an operation answers with an error (assertion of a
    setter, a comparison that cannot be made, a read that raises) the object is the one before – all
    slots, not only the public ones – so every later observation is what it would have been. -/
theorem C17_refused_preserves (o : WObj) (op : WOp) (e : OErr) (h : (o.step op).2 = .err e) :
    (o.step op).1 = o := by
  cases op <;> simp only [WObj.step] at h ⊢
  case setFreqHours v => split <;> simp_all
  case setIntervals v => split <;> simp_all
  case setShowZeros b => split <;> simp_all
  case setShowFreq b => simp at h
  case setOther ok => split <;> rfl
  case readPrev => split at h <;> simp at h
  case readFreqMax => split <;> rfl

/-- **Reads are pure and commute.**  A read leaves the public state and the data slots alone, and
    (under the invariant) the answer of any operation `q` is the same before and after any read `r`:
    reading in another order, or twice, cannot change an answer. -/
theorem C17_read_pure (o : WObj) (h : o.Inv) (r q : WOp) (hr : r.isRead = true) :
    (o.step r).1.pub = o.pub ∧ ((o.step r).1.step q).2 = (o.step q).2 := by
  have hp : (o.step r).1.pub = o.pub := by
    rw [(o.step_core r).1]; cases r <;> simp_all [WOp.isRead, WPub.apply]
  refine ⟨hp, ?_⟩
  apply WObj.out_of_core _ _ (o.step_inv h r) h
  simp only [WObj.core, hp, (o.step_core r).2.1, (o.step_core r).2.2]

/-- The sector lists, the calm count and hence the prevailing direction are fixed by the constructor:
    no history changes them (the settings only cut what `histogram_data` shows). -/
theorem C17_prevailing_independent_of_settings (o : WObj) (h : o.Inv) (ops : List WOp) :
    ((o.run ops).1.step .readPrev).2 = .dirs (prevailing (o.hist.map List.length)) ∧
    ((o.run ops).1.step .readZero).2 = .nat o.zeros := by
  have hi := o.run_inv h ops
  obtain ⟨hh, hz⟩ := o.run_core ops
  constructor
  · simp only [WObj.step]
    rcases hi.2.2 with e | e <;> rw [e] <;> simp [hh]
  · simp [WObj.step, hz]

/-- What the cut of `histogram_data` shows of a sector is a prefix of that sector's samples (so each
    shown sample is still in the sector containing its direction), never longer than the sector. -/
theorem C17_cut_prefix (h : List (List Rat)) (fh ic : Option Nat) (c : List (List Rat))
    (hc : cutHist h fh ic = .ok c) :
    c.length = h.length ∧ ∀ i (hi : i < h.length) (hi' : i < c.length), c[i] <+: h[i] := by
  unfold cutHist at hc
  split at hc
  · cases hc; exact ⟨rfl, fun i _ _ => List.prefix_refl _⟩
  · split at hc
    · cases hc
      refine ⟨by simp, fun i hi hi' => ?_⟩
      simp only [List.getElem_map]
      exact List.take_prefix _ _
    · cases hc; exact ⟨rfl, fun i _ _ => List.prefix_refl _⟩

/-- **The cut never raises** (fixes/C17_windrose_default_hours_cut.patch): for every sector table and every
    combination of assigned / default `frequency_hours` and `frequency_intervals_compass`,
    `histogram_data` is a table of sector lists. -/
theorem C17_cut_never_raises (h : List (List Rat)) (fh ic : Option Nat) :
    ∃ c, cutHist h fh ic = .ok c := by
  unfold cutHist
  split
  · exact ⟨_, rfl⟩
  · split <;> exact ⟨_, rfl⟩

/-- **What the cut shows**: when the assigned number of compass intervals `k` is below the number the
    data needs, every sector shows `min (its count) (k * frequency_hours)` samples – the default 200
    hours when none were assigned – and otherwise the sectors are shown whole. -/
theorem C17_cut_counts (h : List (List Rat)) (fh : Option Nat) (k : Nat) :
    cutHist h fh (some k) = .ok (if k < ceilDiv (maxLen h) (fh.getD 200)
      then h.map (·.take (k * fh.getD 200)) else h) ∧
    ∀ l : List Rat, (l.take (k * fh.getD 200)).length = min (k * fh.getD 200) l.length := by
  refine ⟨?_, fun l => List.length_take⟩
  simp only [cutHist]
  split <;> rfl

/-- Former finding C17-windrose-default-hours-cut, repaired: 201 hours in one sector, one compass interval
    and the default `frequency_hours` – the sector is cut to its first 200 samples (the unrepaired slice
    with the float 200.0 raised TypeError). -/
theorem C17_windrose_default_hours_cut_fixed :
    cutHist [List.replicate 201 1, []] none (some 1) = .ok [List.replicate 200 1, []] := by decide +kernel

/-- **Psychrometric chart: no history shows.**  After any list of operations (reads in any order,
    `data_mesh` calls accepted or refused, legend edits) every answer is the answer of a fresh chart of
    the same data; the lazily built `_colored_mesh` never makes the faces stale. -/
theorem C17_psych_history_refines_fresh (o : PObj) (h : o.Inv) (ops : List POp) (op : POp) :
    ((o.run ops).1.step op).2 = ((⟨o.pub, psyCounts o.pub.minT o.pub.maxT o.pub.hours, none⟩ : PObj).step op).2 := by
  have hi := o.run_inv h ops
  obtain ⟨hp, hc⟩ := o.run_core ops
  apply PObj.out_of_core _ _ hi ⟨rfl, Or.inl rfl⟩
  simp only [PObj.core, hp, hc, h.1]

/-- A refused `data_mesh` (collection of another length) leaves the chart as it was. -/
theorem C17_psych_refused_preserves (o : PObj) (op : POp) (e : OErr) (h : (o.step op).2 = .err e) :
    (o.step op).1 = o := by
  cases op <;> simp only [PObj.step] at h ⊢
  case readMesh => split at h <;> simp at h
  case dataMesh v =>
    split
    · rfl
    · rename_i hv; simp only [hv, if_false] at h; split at h <;> simp at h
  all_goals simp at h

/-- Reads of the chart are pure: the answer of `q` is the same before and after any operation `r`
    (no operation of the chart changes its data). -/
theorem C17_psych_read_pure (o : PObj) (h : o.Inv) (r q : POp) :
    ((o.step r).1.step q).2 = (o.step q).2 := by
  apply PObj.out_of_core _ _ (o.step_inv h r) h
  simp only [PObj.core, (o.step_core r).1, (o.step_core r).2]

/-- The faces of the chart are the non-empty cells and `hour_values` their counts, in the same
    (matrix) order: face `k` carries the hours of its own cell. -/
theorem C17_psych_faces_hours (nT : Nat) (counts : List Nat) :
    (facesOfCounts nT counts).length = (hourValues counts).length := by
  simp only [facesOfCounts, hourValues, List.length_map]
  have : ∀ (l : List Nat) (k : Nat),
      ((l.zipIdx k).filter fun p => decide (p.1 ≠ 0)).length = (l.filter fun x => decide (x ≠ 0)).length := by
    intro l
    induction l with
    | nil => intro k; rfl
    | cons a t ih =>
      intro k
      simp only [List.zipIdx_cons, List.filter_cons]
      have ih' := ih (k + 1)
      simp only [ne_eq, decide_not] at ih' ⊢
      by_cases ha : a = 0 <;> simp [ha, ih']
  exact this counts 0

/-- **Monthly chart: a setter with an index outside the chart's data types is ignored** – the call
    returns normally and the object (hence every bar) is unchanged. -/
theorem C17_bars_ignored_preserves (o : MObj) (op : MOp) (h : op.ignoredOn o = true) :
    o.step op = (o, .unit) := by
  cases op <;> simp only [MOp.ignoredOn, Option.isNone_iff_eq_none] at h <;> simp_all [MObj.step]

/-- Reading the bars is pure: `data_meshes` is recomputed from the axis ranges established so far, the
    object is unchanged, so reading twice or in between setters cannot change a later answer. -/
theorem C17_bars_read_pure (o : MObj) : (o.step .readMeshes).1 = o := rfl

/-- An accepted `set_minimum_by_index` changes the minimum of exactly the addressed data type; the
    next read draws with it (the bars are a function of the object, which has no other slot). -/
theorem C17_bars_set_min (o : MObj) (v : Rat) (idx : Int) (i : Nat) (hi : pyIndex idx o.groups.length = some i) :
    (o.step (.setMin v idx)).1.groups = o.groups.modify i fun g => { g with minV := v } := by
  simp [MObj.step, hi, setAt]

/-! ### Round 6: the hours one value stands for do not depend on WHICH input is the collection -/

/-- **Psychrometric chart: either argument may be the collection.**  Whatever the form `f` of the data
    (hourly at any timestep, daily), a chart of a constant temperature with humidity data `f`, a chart of
    temperature data `f` with a constant humidity, and a chart of two collections of form `f` all give one
    value the same number of hours (the class of change "a side effect of the shared input check is kept
    on one argument path only" breaks exactly this). -/
theorem C17_psych_hours_either_argument (f : PForm) :
    hoursPerValue .const f = hoursPerValue f .const ∧ hoursPerValue f f = hoursPerValue f .const := by
  cases f <;> exact ⟨rfl, rfl⟩

/-- The hours of one value are those of the data form: a day for daily data, `1 / timestep` of an hour for
    (sub-)hourly data, on either argument path; two numbers count as one hour. -/
theorem C17_psych_hours_of_form :
    (∀ ts, hoursPerValue .const (.hourly ts) = 1 / (ts : Rat) ∧ hoursPerValue (.hourly ts) .const = 1 / (ts : Rat)) ∧
    hoursPerValue .const .daily = 24 ∧ hoursPerValue .daily .const = 24 ∧ hoursPerValue .const .const = 1 :=
  ⟨fun _ => ⟨rfl, rfl⟩, rfl, rfl, rfl⟩

/-- Where both inputs are collections the humidity (checked last) decides: the statement is only about
    pairs of the same form, for which this is immaterial (`C17_psych_hours_either_argument`). -/
theorem C17_psych_hours_later_collection (t rh : PForm) (h : Rat) (hr : rh.hoursPer? = some h) :
    hoursPerValue t rh = h := by
  simp [hoursPerValue, hr]

/-- **Cells hold hours, not samples**: `hour_values` has one entry per face (non-empty cell) and entry `k`
    is the count of that cell times the hours one value stands for, for every pair of input forms. -/
theorem C17_psych_cell_hours (t rh : PForm) (nT : Nat) (counts : List Nat) :
    (cellHours t rh counts).length = (facesOfCounts nT counts).length ∧
    ∀ k : Nat, (cellHours t rh counts)[k]? = ((hourValues counts)[k]?).map fun c => ((c : Nat) : Rat) * hoursPerValue t rh := by
  refine ⟨?_, fun k => ?_⟩
  · rw [C17_psych_faces_hours]; simp [cellHours]
  · simp [cellHours]

private theorem foldl_scale (h : Rat) (l : List Rat) (a : Rat) :
    (l.map (· * h)).foldl (· + ·) (a * h) = (l.foldl (· + ·) a) * h := by
  induction l generalizing a with
  | nil => rfl
  | cons x t ih =>
    simp only [List.map_cons, List.foldl_cons]
    rw [← Rat.add_mul]
    exact ih (a + x)

/-- The hours of all cells add up to the number of on-chart values times the hours of one value
    (sub-hourly data of one day fills the chart with 24 hours, ten daily values with 240). -/
theorem C17_psych_hours_sum (t rh : PForm) (counts : List Nat) :
    sumRat (cellHours t rh counts)
      = sumRat ((hourValues counts).map fun c => ((c : Nat) : Rat)) * hoursPerValue t rh := by
  have := foldl_scale (hoursPerValue t rh) ((hourValues counts).map fun c => ((c : Nat) : Rat)) 0
  simp only [Rat.zero_mul, List.map_map] at this
  simpa [sumRat, cellHours, Function.comp_def] using this

example : cellHours .const (.hourly 4) [0, 3, 0, 8] = cellHours (.hourly 4) (.hourly 4) [0, 3, 0, 8] := by decide +kernel
example : cellHours .const .daily [2, 0] = [48] := by decide +kernel

example : (⟨{ n := 4, isSpeed := true, samples := [] }, [[], [], [], []], 0, none⟩ : WObj).Inv :=
  ⟨by decide +kernel, by decide, Or.inl rfl⟩

example : cutHist [[1, 2, 3], [4]] (some 1) (some 2) = .ok [[1, 2], [4]] := by decide +kernel
example : (⟨0, 0, 10, 40, false, 1, none, [⟨false, 0, 10, [[1, 2]]⟩]⟩ : MObj).step (.setMin 5 3)
    = (⟨0, 0, 10, 40, false, 1, none, [⟨false, 0, 10, [[1, 2]]⟩]⟩, .unit) := by decide +kernel

end PlotObj
