/-
  C17 — Plots place each datum at the cell of its own time or bin, in its own colour.
  Property theorems only (helper lemmas: Proofs/C17Lemmas.lean).
  The model (Model/Plot.lean, on Model/AP.lean) is tied to hourlyplot.py, _datacollectionbase.py,
  windrose.py, monthlychart.py and psychchart.py by the correspondence ops of Drv/C17.lean
  (harness/props/c17.py).  It describes the code with the three fixes/C17_*.patch applied.

  Coverage of the statement:
    * hourly plot, reverse_y = False, non-wrapping period, any hour window (incl. overnight), any of
      the 12 timesteps, leap or not, continuous/windowed/sparse data: PROVED (`C17_hourly_cells`,
      from `C17_hourly_pattern`, `C17_hourly_face_count`, `C17_hourly_grid`);
    * colours: PROVED that each face carries the colour computed from its own value
      (`C17_colour_follows_value`), for both orientations;
    * circular histogram: a sample is put in one bin only and that bin contains it, the wrapping
      bin taking both arcs: PROVED (`C17_circ_bin_contains`);
    * bar heights affine in the value: PROVED over `Rat` (`C17_bar_height_affine`);
    * compared with the real code and oracle-checked on every run, NOT proved: mirrored rows under
      reverse_y = True; year-wrapping periods; `histogram` partition by the edges; the wind-rose
      sectors cover the circle / Σ sector counts + calms = samples / prevailing direction = arg-max
      set; bars stand in their month's/day's column; psychrometric cell counts and their sum.
-/
import Ladybug.Proofs.C17Lemmas
import Mathlib.Tactic.Ring

open Cal

namespace Plot

/-! ### Hourly plot -/

/-- **The face pattern marks exactly the data.**  When the data date-times are a sub-list (same
    chronological order) of the steps of the period that indexes the faces, the steps at the
    `True` positions of the pattern are the data, one for one and in order. -/
theorem C17_hourly_pattern (M D : List Nat) (h : D.Sublist M) : pickTrue M (pattern M D) = D :=
  pickTrue_pattern M D h

example : pickTrue [10, 20, 30, 40] (pattern [10, 20, 30, 40] [20, 40]) = [20, 40] := by decide

/-- **One face per value**: the number of kept faces equals the number of data values (any
    sub-list of the steps: continuous, windowed or sparse). -/
theorem C17_hourly_face_count (M D : List Nat) (h : D.Sublist M) :
    (keptFrom 0 (pattern M D)).length = D.length := by
  rw [keptFrom_length_pick M _ 0 (pattern_length M D), pickTrue_pattern M D h]

/-- **The steps of a period are the day × time-of-day grid**: for every non-wrapping period with a
    daytime or whole-day hour window (all 12 timesteps, leap or not) the enumeration `moys` is, day
    column by day column, `numY` rows from the first hour of the window – so the step at position
    `c * numY + r` is day `c`, row `r`, and the grid has exactly `numX * numY` cells. -/
theorem C17_hourly_grid (mp : AP) (hwf : mp.WF) (hno : mp.st_hour ≤ mp.end_hour)
    (hnr : mp.isReversed = false) :
    mp.moys = gridList mp.stMoy (numX mp) (numY mp) mp.step ∧ mp.moys.length = numX mp * numY mp :=
  ⟨moys_eq_grid mp hwf hno hnr, moys_length_grid mp hwf hno hnr⟩

example : numX ⟨1, 1, 5, 1, 3, 23, 2, false⟩ * numY ⟨1, 1, 5, 1, 3, 23, 2, false⟩ =
    (⟨1, 1, 5, 1, 3, 23, 2, false⟩ : AP).moys.length := by decide

/-- **Each datum at the cell of its own time** (y axis not reversed).  For every well-formed,
    non-wrapping period – any hour window including overnight ones, any timestep, leap or not – and
    every data list whose date-times are a chronological sub-list of the period's steps (what
    `validate_analysis_period` establishes; continuous, windowed and sparse data alike), the coloured
    mesh has exactly one face per value, in data order, and the face of the value at minute `m` of
    the year lies in column `m / 1440 − start day` and in the row of its time of day counted in
    steps from the first hour of the plotted window. -/
theorem C17_hourly_cells {α : Type} (ap : AP) (hwf : ap.WF) (hnr : ap.isReversed = false)
    (data : List (Nat × α)) (hsub : (data.map (·.1)).Sublist (mAper ap).moys) :
    hourlyFaces ap false false data = .ok (data.map fun p => (colOf ap p.1, rowOf ap p.1, p.2)) := by
  obtain ⟨mwf, mno, mnr, hx, hy, hst, hstep⟩ := mAper_facts ap hwf hnr
  have hlen : (pattern (mAper ap).moys (data.map (·.1))).length = numX ap * numY ap := by
    rw [pattern_length, moys_length_grid _ mwf mno mnr, hx, hy]
  have hk := keptFrom_pick (mAper ap).moys _ 0 0 (pattern_length (mAper ap).moys (data.map (·.1)))
  rw [pickTrue_pattern _ _ hsub] at hk
  have hkl : (keptFrom 0 (pattern (mAper ap).moys (data.map (·.1)))).length = data.length := by
    rw [C17_hourly_face_count _ _ hsub]; simp
  simp only [hourlyFaces, facePattern, plotValues, Bool.false_eq_true, if_false, hlen, if_true,
    List.length_map, hkl]
  congr 1
  have hk' : (keptFrom 0 (pattern (mAper ap).moys (data.map (·.1)))).map
      (fun j => (mAper ap).moys.getD j 0) = data.map (·.1) := by
    simpa using hk
  have := faces_of_kept (keptFrom 0 (pattern (mAper ap).moys (data.map (·.1)))) data (mAper ap).moys
    (fun j => ((cellOf (numY ap) j).1, (cellOf (numY ap) j).2))
    (fun m => (colOf ap m, rowOf ap m)) hk' ?_
  · have h3 := congrArg (List.map fun (p : (Nat × Nat) × α) => (p.1.1, p.1.2, p.2)) this
    rw [List.map_map, List.map_map] at h3
    exact h3
  · intro j hj
    have hjlt : j < numX (mAper ap) * numY (mAper ap) := by
      rw [← moys_length_grid _ mwf mno mnr, ← pattern_length _ (data.map (·.1))]
      simpa using keptFrom_lt _ 0 j hj
    obtain ⟨m, hm, hc, hr⟩ := grid_cell (mAper ap) mwf mno mnr j hjlt
    have hget : (mAper ap).moys.getD j 0 = m := by
      simp [List.getD, hm]
    rw [hget]
    simp only [cellOf, colOf, rowOf]
    rw [← hst, ← hstep, hc, hr, hy]

example : hourlyFaces ⟨1, 1, 22, 1, 3, 3, 2, false⟩ false false [(1350, 'a'), (1440, 'b'), (2910, 'c')]
    = .ok [(0, 45, 'a'), (1, 0, 'b'), (2, 1, 'c')] := by decide +kernel

/-! ### Colours -/

theorem revDaysGo_map {α β : Type} (f : α → β) (l : List (Nat × α)) (cur : Nat) (acc : List α) :
    revDaysGo cur (acc.map f) (l.map fun p => (p.1, f p.2)) = (revDaysGo cur acc l).map f := by
  induction l generalizing cur acc with
  | nil => simp [revDaysGo]
  | cons p ps ih =>
    obtain ⟨d, v⟩ := p
    simp only [List.map_cons, revDaysGo]
    split
    · rw [← ih]; simp
    · rw [List.map_append, ← ih]; simp

/-- **Each face carries the colour of its own value** – for both orientations of the y axis.  The
    list `colors` assigned to the kept faces is obtained from `value_colors` by the same per-day
    rearrangement as `values`, so colouring commutes with it: for any colour function `f` (the
    legend's `color_range.color`, modelled for C15), `colors = values.map f`, face by face. -/
theorem C17_colour_follows_value {α β : Type} (f : α → β) (rev : Bool) (data : List (Nat × α)) :
    plotValues rev (data.map fun p => (p.1, f p.2)) = (plotValues rev data).map (List.map f) := by
  cases rev with
  | false => simp [plotValues, Except.map, List.map_map, Function.comp]
  | true =>
    have e : (data.map fun p => (p.1, f p.2)).map (fun p => (dayOf p.1, p.2)) =
        (data.map fun p => (dayOf p.1, p.2)).map (fun p => (p.1, f p.2)) := by
      simp [List.map_map, Function.comp]
    simp only [plotValues, if_true]
    rw [e]
    generalize (data.map fun p => (dayOf p.1, p.2)) = l
    cases l with
    | nil => simp [revDays, Except.map]
    | cons q qs =>
      have := revDaysGo_map f (q :: qs) q.1 []
      simp only [List.map_nil] at this
      simp only [revDays, List.map_cons, Except.map]
      rw [← this]
      simp

example : plotValues true [(0, 1), (60, 2), (1440, 3)] = .ok [2, 1, 3] := by decide

/-! ### Circular histogram -/

/-- **A sample goes to a bin that contains it, and to one bin only.**  `circBin` is a function, so a
    sample is never counted twice; when it answers bin `i` the sample is inside the histogram range
    and bin `i` takes it, where "takes" means: for increasing edges `a < b` the half-open interval
    `a ≤ k < b`; for the wrapping bin (`a ≥ b`) both arcs, `a ≤ k ≤ hi` or `lo ≤ k < b`. -/
theorem C17_circ_bin_contains (bins : List Rat) (lo hi k : Rat) (i : Nat)
    (h : circBin bins lo hi k = some i) :
    lo ≤ k ∧ k < hi ∧ ∃ a b, bins[i]? = some a ∧ bins[i + 1]? = some b ∧
      ((a < b ∧ a ≤ k ∧ k < b) ∨ (¬ a < b ∧ ((k ≤ hi ∧ a ≤ k) ∨ (k < b ∧ lo ≤ k)))) := by
  unfold circBin at h
  split at h
  · simp at h
  · rename_i hr
    have ht := List.find?_some h
    unfold circTakes at ht
    refine ⟨Rat.not_lt.mp (fun hc => hr (Or.inl hc)), Rat.not_le.mp (fun hc => hr (Or.inr hc)), ?_⟩
    split at ht
    · rename_i a b ha hb
      refine ⟨a, b, ha, hb, ?_⟩
      split at ht
      · rename_i hab; exact Or.inl ⟨hab, by simpa using ht⟩
      · rename_i hab; exact Or.inr ⟨hab, by simpa using ht⟩
    · simp at ht

example : circBin (angles 8) 0 360 350 = some 0 ∧ circBin (angles 8) 0 360 10 = some 0 ∧
    circBin (angles 8) 0 360 (45 / 2) = some 1 := by decide +kernel

/-! ### Bars -/

/-- **Bar heights are affine in the value**: within one data-type group of a monthly/daily chart
    there are a slope and an intercept such that every bar's height is `slope * value + intercept`;
    the slope is `y_dim / (max − min)` (`y_dim` when max = min). -/
theorem C17_bar_height_affine (c : BarCfg) :
    ∃ b : Rat, ∀ v : Rat, c.hgt v = c.yDim / c.dRange * v + b := by
  rcases Bool.eq_false_or_eq_true c.cumulative with hc | hc
  · refine ⟨- (c.yDim / c.dRange * c.minV) + c.zeroVal, fun v => ?_⟩
    simp only [BarCfg.hgt, hc, if_true]
    ring
  · refine ⟨- (c.yDim / c.dRange * c.minV), fun v => ?_⟩
    simp only [BarCfg.hgt, hc, Bool.false_eq_true, if_false]
    ring

end Plot
