/-
  C20 — Sky-dome subdivisions tile the hemisphere; sky projections are consistent.
  Property theorems only (helper lemmas: Proofs/C20Lemmas.lean, Proofs/C20Field.lean).

  The model (Model/Dome.lean, Model/Proj.lean) is tied to ladybug/viewsphere.py, compass.py and
  sunpath.py by Gen/DomeTables (translator) and by the correspondence ops of Drv/C20.lean
  (harness/props/c20.py).  It describes the code after fixes/C20_patch_area_angle.patch and
  fixes/C20_solid_angle_slot.patch.

  Not theorems (sampled on the real meshes by the oracle, see harness/props/c20.py): every generated
  vector is unit, points upward and lies inside its own patch (face normals come from ladybug_geometry);
  the tabulated decimal coefficients equal the true solid angles of the generated patches to 1e-6.
-/
import Mathlib.Tactic.NormNum
import Mathlib.Tactic.Positivity
import Mathlib.Tactic.Linarith
import Mathlib.Algebra.Order.Field.Basic
import Mathlib.Analysis.Real.Sqrt
import Ladybug.Model.Proj
import Ladybug.Model.DomeObj
import Ladybug.Gen.CompassSetters
import Ladybug.Proofs.C20Lemmas
import Ladybug.Proofs.C20Field
import Ladybug.Proofs.C20Hist

namespace Dome

/-! ### Patch counts -/

/-- The Tregenza row table extracted from the source has 144 patches in 7 rows, none empty, the last with 6. -/
theorem C20_tregenza_table :
    Gen.Dome.tregenzaRows.sum = 144 ∧ Gen.Dome.tregenzaRows.length = 7 ∧
    (∀ c ∈ Gen.Dome.tregenzaRows, 0 < c) ∧ Gen.Dome.tregenzaRows.getLast? = some 6 := by
  decide

/-- For every division count `n ≥ 1` the dome has `144 n² + 1` patches (145 Tregenza, 577 Reinhart). -/
theorem C20_count (n : Int) (hn : 1 ≤ n) : patchCount n = 144 * n.toNat ^ 2 + 1 := by
  unfold patchCount rowCounts
  rw [sum_rowCountsOf _ n hn, C20_tregenza_table.1]
  ring

example : patchCount 1 = 145 ∧ patchCount 2 = 577 ∧ patchCount 6 = 5185 := by decide

/-- Every row of every subdivision has at least one patch (so no area is divided by zero). -/
theorem C20_rows_pos (n : Int) (hn : 1 ≤ n) : ∀ c ∈ rowCounts n, 0 < c :=
  rowCountsOf_pos _ n hn C20_tregenza_table.2.2.1

/-- `dome_patches(n, in_place)` succeeds for every `n ≥ 1` and returns one vector per patch
(`144 n² + 1`), a mesh of `144 n² + 6 n` faces (the zenith patch is drawn with `6 n` triangles) on
`2 Σrows + 2 (number of rows) + 1` vertices. -/
theorem C20_dome_shape (n : Int) (hn : 1 ≤ n) (ip : Bool) :
    ∃ m, domeShape n ip = .ok m ∧ m.vectorCount = patchCount n ∧
      m.faces.length = 144 * n.toNat ^ 2 + 6 * n.toNat ∧
      m.vertexCount = 2 * (rowCounts n).sum + 2 * (rowCounts n).length + 1 := by
  have hlast : (rowCounts n).getLast? = some (6 * n.toNat) :=
    getLast?_rowCountsOf _ n hn 6 C20_tregenza_table.2.2.2
  have hpos := C20_rows_pos n hn
  have hany : (rowCounts n).any (· == 0) = false := by
    rw [List.any_eq_false]
    intro c hc
    have := hpos c hc
    simp; omega
  have hden : meshAngleDen (rowCounts n).length n ip ≠ 0 := by
    unfold meshAngleDen; split <;> omega
  have hsum : (rowCounts n).sum = 144 * n.toNat ^ 2 := by
    have := C20_count n hn; unfold patchCount at this; omega
  have hshape : domeShape n ip = .ok
      ⟨quadVertexCount (rowCounts n) + 1,
       (quadFaces (rowCounts n) 0).map (·.map Int.ofNat) ++
         capFaces (quadVertexCount (rowCounts n)) (6 * n.toNat),
       (((quadFaces (rowCounts n) 0).map (·.map Int.ofNat) ++
         capFaces (quadVertexCount (rowCounts n)) (6 * n.toNat)).length - 6 * n.toNat) + 1⟩ := by
    unfold domeShape
    simp only [hden, if_false, hlast, hany]
    rfl
  refine ⟨_, hshape, ?_, ?_, ?_⟩
  · simp [patchCount, length_quadFaces, length_capFaces]
  · simp [length_quadFaces, length_capFaces, hsum]
  · simp [quadVertexCount_eq]

example : (domeShape 2 false).map (·.vectorCount) = .ok 577 := by decide +kernel

/-- All quad faces of the dome mesh index existing row vertices (well-formed mesh). -/
theorem C20_dome_quads_wellformed (n : Int) :
    ∀ f ∈ quadFaces (rowCounts n) 0, ∀ i ∈ f, i < quadVertexCount (rowCounts n) := by
  intro f hf i hi
  have := quadFaces_bound (rowCounts n) 0 f hf i hi
  omega

/-! ### Sphere = dome followed by its mirror image -/

/-- The sphere has twice the patches, vertices and faces of the dome, for every `n ≥ 1`; its vector list is
the dome's followed by the mirrored dome's (`z ↦ −z`), index by index. -/
theorem C20_sphere (n : Int) (hn : 1 ≤ n) (ip : Bool) :
    ∃ d s, domeShape n ip = .ok d ∧ sphereShape n ip = .ok s ∧
      s.vectorCount = 2 * patchCount n ∧ s.faces.length = 2 * d.faces.length ∧
      s.vertexCount = 2 * d.vertexCount ∧ s.faces.take d.faces.length = d.faces := by
  obtain ⟨d, hd, hv, _, _⟩ := C20_dome_shape n hn ip
  refine ⟨d, mirrorShape d, hd, ?_, ?_, ?_, ?_, ?_⟩
  · simp [sphereShape, hd, Except.map]
  · simp [mirrorShape, hv]
  · simp [mirrorShape]; omega
  · simp [mirrorShape]
  · simp [mirrorShape]

theorem C20_sphere_vectors {β : Type} [Neg β] (top : List (β × β × β)) :
    (sphereVectors top).length = 2 * top.length ∧
    (sphereVectors top).take top.length = top ∧
    ∀ i (h : i < top.length), (sphereVectors top)[top.length + i]? =
      some (top[i].1, top[i].2.1, -top[i].2.2) := by
  refine ⟨by simp [sphereVectors]; omega, by simp [sphereVectors], ?_⟩
  intro i h
  simp [sphereVectors, List.getElem?_append_right, h]

example : (sphereShape 1 false).map (·.vectorCount) = .ok 290 := by decide +kernel

/-! ### Radial domes -/

/-- `dome_radial_patches(az, alt)` with `az ≥ 1` and `alt ≥ 2` has exactly one face and one vector per
azimuth–altitude cell. -/
theorem C20_radial (az alt : Nat) (haz : 1 ≤ az) (halt : 2 ≤ alt) :
    ∃ m, radialShape az alt = .ok m ∧ m.vectorCount = az * alt ∧ m.faces.length = az * alt := by
  have h1 : az ≠ 0 := by omega
  have h2 : alt ≠ 0 := by omega
  have h3 : alt ≠ 1 := by omega
  have key : (alt - 1) * az + az = az * alt := by
    have : alt = (alt - 1) + 1 := by omega
    conv_rhs => rw [this, Nat.mul_add, Nat.mul_one, Nat.mul_comm]
  have hshape : radialShape az alt = .ok
      ⟨quadVertexCount (List.replicate (alt - 1) az) + 1,
       (quadFaces (List.replicate (alt - 1) az) 0).map (·.map Int.ofNat) ++
         capFaces (quadVertexCount (List.replicate (alt - 1) az)) az,
       ((quadFaces (List.replicate (alt - 1) az) 0).map (·.map Int.ofNat) ++
         capFaces (quadVertexCount (List.replicate (alt - 1) az)) az).length⟩ := by
    unfold radialShape; simp only [h1, h2, h3, if_false]
  refine ⟨_, hshape, ?_, ?_⟩
  · simp [length_quadFaces, length_capFaces, sum_replicate_nat, key]
  · simp [length_quadFaces, length_capFaces, sum_replicate_nat, key]

example : (radialShape 72 18).map (·.vectorCount) = .ok 1296 := by decide +kernel

/-- Known finding C20-radial-single-altitude-row: with a single altitude row the code does not return
`az × 1` cells but fails (IndexError in the mesh constructor), for every azimuth count. -/
theorem C20_radial_single_row_counterexample (az : Nat) (haz : 1 ≤ az) :
    radialShape az 1 = .error .index := by
  have h1 : az ≠ 0 := by omega
  unfold radialShape; simp [h1]

/-! ### Patch areas tile the hemisphere; weights average to one and align with the vectors -/

section Areas
variable {α : Type} [Field α] [CharZero α]

/-- The patch areas of `_dome_patch_areas` add up to the hemisphere `2π`, for **any** sequence of row
sines `s` (hence for any vertical angle) and any table of positive row counts: the cap differences telescope. -/
theorem C20_solid_angle_sum (twoPi : α) (s : Nat → α) (rows : List Nat) (h : ∀ c ∈ rows, 0 < c) :
    (patchAreas twoPi s rows).sum = twoPi := by
  simp only [patchAreas, List.sum_append, sum_rowsAreas twoPi s rows 0 h, List.sum_cons, List.sum_nil,
    Nat.zero_add, add_zero]
  simp [capAt]

/-- … in particular for the row layout of every division count `n ≥ 1` (Python's left-to-right `sum`). -/
theorem C20_solid_angle_sum_rows (twoPi : α) (s : Nat → α) (n : Int) (hn : 1 ≤ n) :
    sumL (patchAreas twoPi s (rowCounts n)) = twoPi := by
  rw [sumL_eq_sum]; exact C20_solid_angle_sum twoPi s _ (C20_rows_pos n hn)

omit [CharZero α] in
/-- One area / weight per patch: `|areas| = |weights| = Σ rows + 1`. -/
theorem C20_areas_length (twoPi : α) (s : Nat → α) (rows : List Nat) :
    (patchAreas twoPi s rows).length = rows.sum + 1 ∧
    (domeWeights twoPi s rows).length = rows.sum + 1 ∧
    (sphereWeights twoPi s rows).length = 2 * (rows.sum + 1) := by
  simp [patchAreas, domeWeights, sphereWeights, length_rowsAreas]; omega

/-- The weights align one-to-one with the vectors: for every `n ≥ 1` and either subdivision mode,
`dome_patch_weights` has as many entries as `dome_patches` has vectors, and `sphere_patch_weights` as many
as `sphere_patches`. -/
theorem C20_weights_aligned (twoPi : α) (s : Nat → α) (n : Int) (hn : 1 ≤ n) (ip : Bool) :
    ∃ d sp, domeShape n ip = .ok d ∧ sphereShape n ip = .ok sp ∧
      (domeWeights twoPi s (rowCounts n)).length = d.vectorCount ∧
      (sphereWeights twoPi s (rowCounts n)).length = sp.vectorCount := by
  obtain ⟨d, sp, hd, hs, hsv, _, _, _⟩ := C20_sphere n hn ip
  obtain ⟨d', hd', hv, _, _⟩ := C20_dome_shape n hn ip
  have : d = d' := by rw [hd] at hd'; exact Except.ok.inj hd'
  subst this
  refine ⟨d, sp, hd, hs, ?_, ?_⟩
  · rw [(C20_areas_length twoPi s _).2.1, hv]; rfl
  · rw [(C20_areas_length twoPi s _).2.2, hsv]; rfl

/-- The dome weights average to one (and so do the sphere weights), for any row sines and any positive rows. -/
theorem C20_weights_avg_one (twoPi : α) (htp : twoPi ≠ 0) (s : Nat → α) (rows : List Nat)
    (h : ∀ c ∈ rows, 0 < c) :
    (domeWeights twoPi s rows).sum / ((domeWeights twoPi s rows).length : α) = 1 ∧
    (sphereWeights twoPi s rows).sum / ((sphereWeights twoPi s rows).length : α) = 1 := by
  have hlen := (C20_areas_length twoPi s rows).2.1
  have hlenA := (C20_areas_length twoPi s rows).1
  have hN : ((rows.sum + 1 : Nat) : α) ≠ 0 := Nat.cast_ne_zero.mpr (Nat.succ_ne_zero _)
  have hsum : (domeWeights twoPi s rows).sum = ((rows.sum + 1 : Nat) : α) := by
    unfold domeWeights
    simp only []
    rw [sum_map_div, C20_solid_angle_sum twoPi s rows h, hlenA]
    field_simp
  constructor
  · rw [hsum, hlen]; field_simp
  · have : (sphereWeights twoPi s rows).length = 2 * (rows.sum + 1) := (C20_areas_length twoPi s rows).2.2
    have h2 : ((2 * (rows.sum + 1) : Nat) : α) = 2 * ((rows.sum + 1 : Nat) : α) := by
      simp only [Nat.cast_mul, Nat.cast_ofNat]
    rw [this, h2]
    simp only [sphereWeights, List.sum_append, hsum]
    generalize ((rows.sum + 1 : Nat) : α) = N at hN
    field_simp
    ring

/-- … for the layout of every division count `n ≥ 1`. -/
theorem C20_weights_avg_one_rows (twoPi : α) (htp : twoPi ≠ 0) (s : Nat → α) (n : Int) (hn : 1 ≤ n) :
    sumL (domeWeights twoPi s (rowCounts n)) / ((domeWeights twoPi s (rowCounts n)).length : α) = 1 := by
  rw [sumL_eq_sum]; exact (C20_weights_avg_one twoPi htp s _ (C20_rows_pos n hn)).1

/-- True solid angles of the patches of a dome whose row `i` spans the altitudes with sines `s i … s (i+1)`
and is cut into `c` equal azimuth sectors (`(2π / c)·(s (i+1) − s i)` each), closed by the zenith cap
`2π (1 − s R)`. -/
def trueSolidAngles (twoPi : α) (s : Nat → α) : List Nat → Nat → List α
  | [], i => [twoPi * (1 - s i)]
  | c :: rest, i => List.replicate c (twoPi / (c : α) * (s (i + 1) - s i)) ++ trueSolidAngles twoPi s rest (i + 1)

omit [CharZero α] in
/-- The areas behind the weights are exactly the true solid angles of the generated patches, provided the
row sines are those of the generated mesh and start at the horizon (`s 0 = sin 0 = 0`) … -/
theorem C20_areas_are_solid_angles (twoPi : α) (s : Nat → α) (h0 : s 0 = 0) (rows : List Nat) :
    patchAreas twoPi s rows = trueSolidAngles twoPi s rows 0 := by
  have gen : ∀ (rows : List Nat) (i : Nat),
      rowsAreas twoPi s rows i ++ [capAt twoPi s (i + rows.length)] = trueSolidAngles twoPi s rows i ∨
      (i + rows.length = 0) := by
    intro rows
    induction rows with
    | nil =>
      intro i
      by_cases hi : i = 0
      · right; simp [hi]
      · left; simp [rowsAreas, trueSolidAngles, capAt, hi]
    | cons c rest ih =>
      intro i
      left
      have hrow : (capAt twoPi s i - capAt twoPi s (i + 1)) / (c : α) = twoPi / (c : α) * (s (i + 1) - s i) := by
        by_cases hi : i = 0
        · subst hi; simp [capAt, h0]; ring
        · simp [capAt, hi]; ring
      rcases ih (i + 1) with h | h
      · simp only [rowsAreas, trueSolidAngles, List.append_assoc, hrow]
        have : i + (c :: rest).length = i + 1 + rest.length := by simp; omega
        rw [this, h]
      · omega
  rcases gen rows 0 with h | h
  · simpa [patchAreas] using h
  · have : rows = [] := by
      cases rows with
      | nil => rfl
      | cons c r => simp at h
    subst this
    simp [patchAreas, rowsAreas, trueSolidAngles, capAt, h0]

/-- … and the mesh and the areas do use the same vertical angle `π / d` (this is what
fixes/C20_patch_area_angle.patch repairs: the pinned code had `d = 2·rows + n` for the areas and
`d = 2·rows + 1` for the default mesh), as does the row count of the horizontal band. Together with
`C20_areas_are_solid_angles`: weight = true solid angle · N / 2π for every patch. -/
theorem C20_area_angle_is_mesh_angle (rowsLen : Nat) (n : Int) (ip : Bool) :
    areaAngleDen rowsLen n ip = meshAngleDen rowsLen n ip ∧
    offsetAngleDen rowsLen n ip = meshAngleDen rowsLen n ip := ⟨rfl, rfl⟩

/-- Weights are proportional to the true solid angles with the constant `N / 2π` (`N` patches). -/
theorem C20_weights_proportional (twoPi : α) (s : Nat → α) (h0 : s 0 = 0) (rows : List Nat) :
    domeWeights twoPi s rows =
      (trueSolidAngles twoPi s rows 0).map (· / (twoPi / ((rows.sum + 1 : Nat) : α))) := by
  have hl := (C20_areas_length twoPi s rows).1
  show (patchAreas twoPi s rows).map (fun p => p / (twoPi / ((patchAreas twoPi s rows).length : α))) = _
  rw [hl, C20_areas_are_solid_angles twoPi s h0 rows]

omit [CharZero α] in
/-- Radial dome: the areas behind `dome_radial_patch_weights` are exactly the true solid angles of the
generated `az × alt` cells (rows at the sines `s`, `s 0 = 0`), so the weights are those solid angles / 2π. -/
theorem C20_radial_areas_are_solid_angles (twoPi : α) (s : Nat → α) (h0 : s 0 = 0) (az alt : Nat) :
    radialAreas twoPi s az alt = trueRadialAngles twoPi s az alt 0 ∧
    radialWeights twoPi s az alt = (trueRadialAngles twoPi s az alt 0).map (· / twoPi) := by
  have h := rowsAreas_replicate_eq twoPi s h0 az alt 0
  exact ⟨h, by simp only [radialWeights, radialAreas, h]⟩

/-- Sphere and horizontal band: `sphere_patch_weights` are the dome weights twice, hence proportional (same
constant) to the true solid angles of the dome patches and of their mirror images; the band weights are the
true solid angles of the first `k` patches divided by their mean, for the upper and the mirrored lower band. -/
theorem C20_sphere_and_band_weights_proportional (twoPi : α) (s : Nat → α) (h0 : s 0 = 0) (rows : List Nat)
    (k : Nat) :
    sphereWeights twoPi s rows =
      (trueSolidAngles twoPi s rows 0 ++ trueSolidAngles twoPi s rows 0).map
        (· / (twoPi / ((rows.sum + 1 : Nat) : α))) ∧
    offsetWeights twoPi s rows k =
      (let rel := (trueSolidAngles twoPi s rows 0).take k
       let avg := sumL rel / (rel.length : α)
       rel.map (· / avg) ++ rel.map (· / avg)) := by
  constructor
  · simp only [sphereWeights, C20_weights_proportional twoPi s h0 rows, List.map_append]
  · simp only [offsetWeights, C20_areas_are_solid_angles twoPi s h0 rows]

/-- Radial dome: the `az × alt` cell areas add up to `2π·s alt`; with `s alt = sin(π/2) = 1` that is the
hemisphere, and `dome_radial_patch_weights` (areas / 2π) then **sum** to one (this function normalises the
sum, not the mean — as the repository's own test asserts), one weight per cell also for `alt = 1`. -/
theorem C20_radial_weights (twoPi : α) (htp : twoPi ≠ 0) (s : Nat → α) (az alt : Nat) (haz : 0 < az)
    (halt : 0 < alt) (htop : s alt = 1) :
    (radialAreas twoPi s az alt).sum = twoPi ∧ (radialWeights twoPi s az alt).sum = 1 ∧
    (radialWeights twoPi s az alt).length = az * alt := by
  have hpos : ∀ c ∈ List.replicate alt az, 0 < c := by
    intro c hc; rw [List.mem_replicate] at hc; omega
  have hsum : (radialAreas twoPi s az alt).sum = twoPi := by
    unfold radialAreas
    rw [sum_rowsAreas twoPi s _ 0 hpos]
    have : alt ≠ 0 := by omega
    simp [capAt, this, htop]
  refine ⟨hsum, ?_, ?_⟩
  · unfold radialWeights; rw [sum_map_div, hsum]; field_simp
  · simp [radialWeights, radialAreas, length_rowsAreas, Nat.mul_comm]

/-- Horizontal band: `horizontal_radial_patch_weights` has two weights per selected patch (aligned with the
upper and the mirrored lower vectors) and they average to one whenever the selected areas do not sum to zero. -/
theorem C20_offset_weights (twoPi : α) (s : Nat → α) (rows : List Nat) (k : Nat)
    (hk : 0 < min k (rows.sum + 1))
    (hs : ((patchAreas twoPi s rows).take k).sum ≠ 0) :
    (offsetWeights twoPi s rows k).length = 2 * min k (rows.sum + 1) ∧
    (offsetWeights twoPi s rows k).sum / ((offsetWeights twoPi s rows k).length : α) = 1 := by
  have hlen : ((patchAreas twoPi s rows).take k).length = min k (rows.sum + 1) := by
    simp [(C20_areas_length twoPi s rows).1]
  have hl : (offsetWeights twoPi s rows k).length = 2 * min k (rows.sum + 1) := by
    simp only [offsetWeights, List.length_append, List.length_map, hlen]; omega
  refine ⟨hl, ?_⟩
  rw [hl]
  simp only [offsetWeights, List.sum_append, sum_map_div, sumL_eq_sum, hlen]
  have hm : ((min k (rows.sum + 1) : Nat) : α) ≠ 0 := by exact_mod_cast (Nat.pos_iff_ne_zero.mp hk)
  push_cast
  field_simp
  ring

end Areas

section Pos
variable {α : Type} [Field α] [LinearOrder α] [IsStrictOrderedRing α]

/-- Every patch has a positive area and a positive weight (no patch is empty, none is counted negatively):
rows of positive counts, row sines strictly increasing from the horizon (`s 0 = sin 0 = 0`) and below `1` at
the top ring — which is what the generated meshes have (`layout` correspondence: row `i` at `i·π / d`,
`d > 2·rows`). With `C20_solid_angle_sum`: the positive patch areas add up to the hemisphere, i.e. the patches
tile it. -/
theorem C20_areas_pos (twoPi : α) (htp : 0 < twoPi) (s : Nat → α) (h0 : s 0 = 0)
    (hs : ∀ i, s i < s (i + 1)) (rows : List Nat) (hr : ∀ c ∈ rows, 0 < c) (hne : rows ≠ [])
    (htop : s rows.length < 1) :
    (∀ a ∈ patchAreas twoPi s rows, 0 < a) ∧ (∀ w ∈ domeWeights twoPi s rows, 0 < w) := by
  have hlen : rows.length ≠ 0 := by simpa using hne
  have hA : ∀ a ∈ patchAreas twoPi s rows, 0 < a := by
    intro a ha
    simp only [patchAreas, List.mem_append, List.mem_singleton] at ha
    rcases ha with ha | rfl
    · exact rowsAreas_pos twoPi htp s h0 hs rows hr 0 a ha
    · simp only [capAt, hlen, if_false]
      have : 0 < 1 - s rows.length := by linarith
      positivity
  refine ⟨hA, ?_⟩
  intro w hw
  simp only [domeWeights, List.mem_map] at hw
  obtain ⟨a, ha, rfl⟩ := hw
  have hl : (0 : α) < ((patchAreas twoPi s rows).length : α) := by
    have : 0 < (patchAreas twoPi s rows).length := by simp [patchAreas]
    exact_mod_cast this
  exact div_pos (hA a ha) (div_pos htp hl)

end Pos

example : ∀ a ∈ patchAreas (6 : ℚ) (fun i => (i : ℚ) / 8) [2, 1], 0 < a :=
  (C20_areas_pos 6 (by norm_num) _ (by norm_num) (fun i => by push_cast; linarith) [2, 1]
    (by decide) (by simp) (by norm_num)).1

example : (patchAreas (6 : ℚ) (fun i => (i : ℚ) / 8) [2, 1]).sum = 6 := by
  simp [patchAreas, rowsAreas, capAt]; norm_num

/-! ### Tabulated solid angles -/

/-- The tabulated solid angles align one-to-one with the vectors (145 / 577 entries), the Reinhart row
table is the one the generator produces for `n = 2`, and every tabulated value is positive. -/
theorem C20_solid_angle_tables_aligned :
    tregenzaSolidAngles.length = patchCount 1 ∧ reinhartSolidAngles.length = patchCount 2 ∧
    Gen.Dome.reinhartRows = rowCounts 2 ∧
    Gen.Dome.tregenzaCoefficients.length = Gen.Dome.tregenzaRows.length + 1 ∧
    Gen.Dome.reinhartCoefficients.length = Gen.Dome.reinhartRows.length + 1 := by
  decide +kernel

/-- Both tables add up to the hemisphere `2π` within `10⁻⁶` (for every rational enclosure of π to 8 decimals).
(That each coefficient equals the true solid angle of its generated patch is sampled numerically, not proved.) -/
theorem C20_solid_angle_tables_sum (p : ℚ) (h1 : 3.14159265 < p) (h2 : p < 3.14159266) :
    |tregenzaSolidAngles.sum - 2 * p| < 1 / 1000000 ∧ |reinhartSolidAngles.sum - 2 * p| < 1 / 1000000 := by
  simp only [tregenzaSolidAngles, reinhartSolidAngles, sum_solidAngles, Gen.Dome.tregenzaCoefficients,
    Gen.Dome.tregenzaRows, Gen.Dome.reinhartCoefficients, Gen.Dome.reinhartRows,
    List.cons_append, List.nil_append, List.zipWith_cons_cons, List.zipWith_nil_left, List.sum_cons,
    List.sum_nil]
  norm_num at h1 h2
  constructor <;> rw [abs_lt] <;> constructor <;> norm_num <;> linarith

/-- Read-order independence (after fixes/C20_solid_angle_slot.patch): whatever sequence of reads is made on
a fresh `ViewSphere`, every read of `tregenza_solid_angles` returns the Tregenza table and every read of
`reinhart_solid_angles` the Reinhart table. -/
theorem C20_solid_angle_reads (seq : List Bool) :
    readSeq {} seq = seq.map fun b => if b then reinhartSolidAngles else tregenzaSolidAngles := by
  have gen : ∀ (st : SAState), (st.treg = none ∨ st.treg = some tregenzaSolidAngles) →
      (st.rein = none ∨ st.rein = some reinhartSolidAngles) → ∀ seq : List Bool,
      readSeq st seq = seq.map fun b => if b then reinhartSolidAngles else tregenzaSolidAngles := by
    intro st ht hr seq
    induction seq generalizing st with
    | nil => simp [readSeq]
    | cons b rest ih =>
      cases b
      · rcases ht with ht | ht
        · simp only [readSeq, SAState.read, ht, List.map_cons, Bool.false_eq_true, if_false]
          exact congrArg _ (ih _ (Or.inr rfl) hr)
        · simp only [readSeq, SAState.read, ht, List.map_cons, Bool.false_eq_true, if_false]
          rw [ih _ (Or.inr ht) hr]
      · rcases hr with hr | hr
        · simp only [readSeq, SAState.read, hr, List.map_cons, if_true]
          exact congrArg _ (ih _ ht (Or.inr rfl))
        · simp only [readSeq, SAState.read, hr, List.map_cons, if_true]
          rw [ih _ ht (Or.inr hr)]
  exact gen {} (Or.inl rfl) (Or.inl rfl) seq

example : (readSeq {} [false, true, false]).map List.length = [145, 577, 145] := by decide +kernel

/-! ### The lazily built `tregenza_*` / `reinhart_*` properties -/

/-- Getter by getter: whatever a getter stores goes into the slot of the property that is documented to
hold exactly that content (no getter fills another property's slot with foreign data). -/
theorem C20_lazy_writes_designated (p : LazyProp) : ∀ w ∈ p.writes, w.2 = w.1.designated := by
  cases p <;> decide

/-- Read-order independence of all eleven lazy properties: on an object whose slots are empty or correctly
filled (a fresh `ViewSphere`, or the module singleton after any earlier reads), every read of every property,
in any order and with any repetitions, returns the content documented for that property — e.g. the 145
vectors of `dome_patches(1)` for `tregenza_dome_vectors`, also after `tregenza_dome_mesh_high_res` — and
leaves the object in such a state. -/
theorem C20_lazy_reads (st : LState) (h : LazyInv st) (seq : List LazyProp) :
    lazyReadSeq st seq = seq.map fun p => some p.designated := by
  induction seq generalizing st with
  | nil => simp [lazyReadSeq]
  | cons p rest ih =>
    simp only [lazyReadSeq, List.map_cons]
    unfold LState.read
    cases hp : st p.slot with
    | some c =>
      have : c = p.designated := by
        rcases h p.slot with h' | h'
        · rw [hp] at h'; cases h'
        · rw [hp] at h'; exact Option.some.inj h'
      simp only [this]
      exact congrArg _ (ih st h)
    | none =>
      simp only [lazy_assign_own]
      exact congrArg _ (ih _ (lazy_assign_inv st _ h (C20_lazy_writes_designated p)))

/-- … in particular on a fresh object. -/
theorem C20_lazy_reads_fresh (seq : List LazyProp) :
    lazyReadSeq LState.empty seq = seq.map fun p => some p.designated :=
  C20_lazy_reads _ (fun _ => Or.inl rfl) seq

/-- Sizes of what the properties return: 145 / 577 dome vectors and solid angles (aligned one-to-one),
290 / 1154 sphere vectors, meshes of 150 / 588 / 300 / 1176 faces and 1314 for the display mesh. -/
theorem C20_lazy_counts :
    LazyProp.all.map (fun p => p.designated.count) =
      [.ok 145, .ok 290, .ok 150, .ok 1314, .ok 300, .ok 145, .ok 577, .ok 1154, .ok 588, .ok 1176, .ok 577] := by
  decide +kernel

example : lazyReadSeq LState.empty [.tDomeMeshHi, .tDomeVec] =
    [some (.domeMesh 3 true), some (.domeVec 1 false)] := by decide

/-! ### Histories on one `ViewSphere` (round 3): reads, calls, refused calls, edited results -/

section History
variable {C E R : Type} (ans : C → Except E R)

/-- **History refines fresh.** After *any* history of property reads, calls of the plain methods (answered
or refused) and edits of returned lists on one `ViewSphere` — started on a fresh object, on the module
singleton, or on any object whose slots are empty or correctly filled — every observation (each of the eleven
properties, each method with each argument list) equals the observation on a fresh object. -/
theorem C20_history_refines_fresh (st : Obj) (h : LazyInv st) (ops : List (Op C)) (o : Op C) :
    observe ans (runState ans st ops) o = observe ans LState.empty o :=
  observe_of_inv ans _ (runState_inv ans st h ops) o

/-- … step by step: the observations of a whole history are those of its steps, each on a fresh object. -/
theorem C20_history_outs (st : Obj) (h : LazyInv st) (ops : List (Op C)) :
    runOuts ans st ops = ops.map (observe ans LState.empty) := by
  induction ops generalizing st with
  | nil => rfl
  | cons o rest ih =>
    simp only [runOuts, List.map_cons]
    rw [ih _ (step_inv ans st h o)]
    exact congrArg (· :: _) (observe_of_inv ans st h o)

/-- **Refused operations preserve.** A call that raises (wrong argument type, zero / negative counts, `nan`
offsets, a single altitude row …) leaves the object exactly as it was — as does every answered call and every
edit of a returned list: only getters write, and only into slots. Hence every later observation is unchanged. -/
theorem C20_refused_preserves (st : Obj) (o : Op C) (hr : (step ans st o).2.isRefused = true) :
    (step ans st o).1 = st ∧ ∀ o', observe ans (step ans st o).1 o' = observe ans st o' := by
  have hst : (step ans st o).1 = st := by
    cases o with
    | read p => simp [step, Out.isRefused] at hr
    | call c => simp only [step]; split <;> rfl
    | scribble => rfl
    | renew => simp [step, Out.isRefused] at hr
  exact ⟨hst, fun o' => by rw [hst]⟩

/-- Calls and edits never change the object (refused or not). -/
theorem C20_call_preserves (st : Obj) (c : C) :
    (step ans st (.call c)).1 = st ∧ (step ans st (.scribble : Op C)).1 = st := by
  refine ⟨?_, rfl⟩
  simp only [step]; split <;> rfl

/-- **Reads are pure / order independence.** On a well-formed object, what a step shows is the same before
and after any other step (so the same question asked twice has the same answer), and permuting a history
permutes its observations. -/
theorem C20_read_pure (st : Obj) (h : LazyInv st) (a b : Op C) :
    observe ans (step ans st a).1 b = observe ans st b ∧
    observe ans (step ans st a).1 a = observe ans st a := by
  have h' := step_inv ans st h a
  exact ⟨by rw [observe_of_inv ans _ h' b, observe_of_inv ans st h b],
         by rw [observe_of_inv ans _ h' a, observe_of_inv ans st h a]⟩

theorem C20_history_order_independent (st : Obj) (h : LazyInv st) (ops ops' : List (Op C))
    (hp : ops.Perm ops') : (runOuts ans st ops).Perm (runOuts ans st ops') := by
  rw [C20_history_outs ans st h, C20_history_outs ans st h]
  exact hp.map _

end History

/-- The statement's counts hold after **any** history: whatever was read, called, refused or edited before on
the object (or on earlier objects), `dome_patches(n, in_place)` answers with `144 n² + 1` vectors and
`144 n² + 6 n` faces, `sphere_patches` with twice as many, `dome_radial_patches(az, alt)` with `az · alt`
cells (`n ≥ 1`, `az ≥ 1`, `alt ≥ 2`). -/
theorem C20_history_counts (st : Obj) (h : LazyInv st) (ops : List (Op ShapeCall)) (n : Int) (hn : 1 ≤ n)
    (ip : Bool) (az alt : Nat) (haz : 1 ≤ az) (halt : 2 ≤ alt) :
    (∃ m, observe shapeAns (runState shapeAns st ops) (.call (.dome n ip)) = .result m ∧
      m.vectorCount = 144 * n.toNat ^ 2 + 1 ∧ m.faces.length = 144 * n.toNat ^ 2 + 6 * n.toNat) ∧
    (∃ m, observe shapeAns (runState shapeAns st ops) (.call (.sphere n ip)) = .result m ∧
      m.vectorCount = 2 * (144 * n.toNat ^ 2 + 1)) ∧
    (∃ m, observe shapeAns (runState shapeAns st ops) (.call (.radial az alt)) = .result m ∧
      m.vectorCount = az * alt ∧ m.faces.length = az * alt) := by
  simp only [C20_history_refines_fresh shapeAns st h ops]
  obtain ⟨d, hd, hv, hf, _⟩ := C20_dome_shape n hn ip
  obtain ⟨d', sp, hd', hs, hsv, _⟩ := C20_sphere n hn ip
  obtain ⟨r, hr, hrv, hrf⟩ := C20_radial az alt haz halt
  refine ⟨⟨d, ?_, ?_, hf⟩, ⟨sp, ?_, ?_⟩, ⟨r, ?_, hrv, hrf⟩⟩
  · simp [observe, step, shapeAns, hd]
  · rw [hv, C20_count n hn]
  · simp [observe, step, shapeAns, hs]
  · rw [hsv, C20_count n hn]
  · simp [observe, step, shapeAns, hr]

-- non-vacuity: a history with a refused call in the middle, on concrete answers
example : runOuts (fun (n : Nat) => if n = 0 then (.error "zero" : Except String Nat) else .ok (144 * n * n + 1))
    LState.empty [.call 0, .read .tDomeMeshHi, .call 2, .scribble, .read .tDomeVec, .renew, .call 2] =
    [.refused "zero", .content (some (.domeMesh 3 true)), .result 577, .unit,
     .content (some (.domeVec 1 false)), .unit, .result 577] := by
  simp [runOuts, step, LState.read, LState.empty, LState.assign, LazyProp.slot, LazyProp.writes]

end Dome

/-! ### One `Compass`: setters and the projected altitude circles (round 3) -/

namespace CompassObj

/-- With the repaired setters (validate, then store) a refused assignment leaves the compass as it was. -/
theorem C20_compass_refused_preserves_repaired {α : Type} [Add α] [Sub α] [Mul α] [Div α] [OfNat α 0]
    [OfNat α 1] [LT α] [DecidableLT α] (alts : List (α × α)) (st : St α) (o : Op α)
    (hr : (stepRepaired alts st o).2.isRefused = true) : (stepRepaired alts st o).1 = st := by
  cases o <;> simp only [stepRepaired, step] at hr ⊢
  all_goals first
    | rfl
    | (split <;> simp_all [Out.isRefused])
    | (simp [Out.isRefused] at hr)

/-- The configured step is the code as pinned (store, then assert) for `false false` and the repaired one
(assert, then store) for `true true`; the driver runs it with the flags the translator reads from compass.py. -/
theorem C20_compass_cfg {α : Type} [Add α] [Sub α] [Mul α] [Div α] [OfNat α 0] [OfNat α 1] [LT α]
    [DecidableLT α] (alts : List (α × α)) (st : St α) (o : Op α) :
    stepCfg false false alts st o = step alts st o ∧ stepCfg true true alts st o = stepRepaired alts st o := by
  cases o <;> exact ⟨rfl, rfl⟩

/-- For the tree under check: if its setters validate first (flags regenerated from compass.py on every run),
a refused assignment leaves the compass as it was. (On the pinned tree the flags are `false`: see
`C20_compass_refused_counterexample`.) -/
theorem C20_compass_refused_preserves_current {α : Type} [Add α] [Sub α] [Mul α] [Div α] [OfNat α 0]
    [OfNat α 1] [LT α] [DecidableLT α] (alts : List (α × α)) (st : St α) (o : Op α)
    (h1 : Gen.Compass.radiusValidatesFirst = true) (h2 : Gen.Compass.spacingValidatesFirst = true)
    (hr : (stepCfg Gen.Compass.radiusValidatesFirst Gen.Compass.spacingValidatesFirst alts st o).2.isRefused
      = true) :
    (stepCfg Gen.Compass.radiusValidatesFirst Gen.Compass.spacingValidatesFirst alts st o).1 = st := by
  rw [h1, h2] at hr ⊢
  rw [(C20_compass_cfg alts st o).2] at hr ⊢
  exact C20_compass_refused_preserves_repaired alts st o hr

/-- Reads never change the compass, and what they show is a function of the public state alone (there is no
hidden slot): a compass that went through any history shows what a fresh compass with the same radius and
center shows. -/
theorem C20_compass_history_refines_fresh {α : Type} [Add α] [Sub α] [Mul α] [Div α] [OfNat α 0]
    [OfNat α 1] [LT α] [DecidableLT α] (alts : List (α × α)) (st : St α) (ops : List (Op α)) :
    let fin := runState (step alts) st ops
    (step alts fin .readStereo).1 = fin ∧ (step alts fin .readOrtho).1 = fin ∧
    (step alts fin .readStereo).2 = (step alts ⟨fin.radius, fin.cx, fin.cy, st.north, st.spacing⟩ .readStereo).2 ∧
    (step alts fin .readOrtho).2 = (step alts ⟨fin.radius, fin.cx, fin.cy, st.north, st.spacing⟩ .readOrtho).2 :=
  ⟨rfl, rfl, rfl, rfl⟩

/-- Known finding C20-compass-refused-setter-keeps-value: as the code is (store, then assert), the refused
assignment `radius = -5` changes the compass, and the altitude circles that could be read before can no
longer be read. -/
theorem C20_compass_refused_counterexample :
    let alts : List (Int × Int) := [(1, 0)]
    let st : St Int := ⟨100, 0, 0, 0, 1⟩
    (step alts st .readStereo).2 = .circles 0 0 [100] ∧
    (step alts st (.setRadius (-5))).2 = .refused .assert ∧
    (step alts st (.setRadius (-5))).1 ≠ st ∧
    (step alts (step alts st (.setRadius (-5))).1 .readStereo).2 = .refused .assert ∧
    (stepRepaired alts (stepRepaired alts st (.setRadius (-5))).1 .readStereo).2 = .circles 0 0 [100] := by
  decide

end CompassObj

/-! ### Projections (over the reals) -/

namespace Proj

/-- Orthographic projection sends every point of the sphere of radius `r` around `(ox, oy, oz)` inside the
compass circle of radius `r` around `(ox, oy)`. -/
theorem C20_ortho_inside (x y z r ox oy oz : ℝ)
    (hs : (x - ox) ^ 2 + (y - oy) ^ 2 + (z - oz) ^ 2 = r ^ 2) :
    ((ortho x y z).1 - ox) ^ 2 + ((ortho x y z).2 - oy) ^ 2 ≤ r ^ 2 := by
  simp only [ortho]; nlinarith [sq_nonneg (z - oz)]

/-- Stereographic projection sends every point of the upper hemisphere (`z ≥ oz`) of the sphere of radius
`r > 0` around the origin point inside the compass circle. -/
theorem C20_stereo_inside (x y z r ox oy oz : ℝ) (hr : 0 < r)
    (hs : (x - ox) ^ 2 + (y - oy) ^ 2 + (z - oz) ^ 2 = r ^ 2) (hz : oz ≤ z) :
    ((stereo x y z r ox oy oz).1 - ox) ^ 2 + ((stereo x y z r ox oy oz).2 - oy) ^ 2 ≤ r ^ 2 := by
  simp only [stereo]
  have hd : 0 < r + (z - oz) := by linarith
  have hd' : r + (z - oz) ≠ 0 := ne_of_gt hd
  have h1 : (x - ox) / (r + (z - oz)) * r + ox - ox = (x - ox) * r / (r + (z - oz)) := by ring
  have h2 : (y - oy) / (r + (z - oz)) * r + oy - oy = (y - oy) * r / (r + (z - oz)) := by ring
  rw [h1, h2, div_pow, div_pow, ← add_div, div_le_iff₀ (by positivity)]
  have hc : 0 ≤ z - oz := by linarith
  nlinarith [mul_nonneg hc (le_of_lt hr), mul_nonneg hc hc, sq_nonneg r, mul_pos hr hr,
    mul_nonneg (mul_nonneg hc (le_of_lt hr)) (mul_nonneg (le_of_lt hr) (le_of_lt hr))]

/-- Both projections keep the azimuth: the image, seen from the compass centre, is a non-negative multiple
of `(x − ox, y − oy)` (factor `1` orthographic, `r / (r + z − oz) > 0` stereographic). -/
theorem C20_azimuth_kept (x y z r ox oy oz : ℝ) (hr : 0 < r) (hz : oz ≤ z) :
    (∃ k : ℝ, 0 < k ∧ (ortho x y z).1 - ox = k * (x - ox) ∧ (ortho x y z).2 - oy = k * (y - oy)) ∧
    (∃ k : ℝ, 0 < k ∧ (stereo x y z r ox oy oz).1 - ox = k * (x - ox) ∧
      (stereo x y z r ox oy oz).2 - oy = k * (y - oy)) := by
  have hd : 0 < r + (z - oz) := by linarith
  refine ⟨⟨1, one_pos, by simp [ortho], by simp [ortho]⟩, ⟨r / (r + (z - oz)), div_pos hr hd, ?_, ?_⟩⟩
  · simp only [stereo]; field_simp; ring
  · simp only [stereo]; field_simp; ring

/-- The inverse stereographic formula returns the projected point, for every point of the sphere other than
the projection pole (in particular on the whole upper hemisphere). -/
theorem C20_stereo_inverse (x y z r ox oy oz : ℝ) (hr : 0 < r)
    (hs : (x - ox) ^ 2 + (y - oy) ^ 2 + (z - oz) ^ 2 = r ^ 2) (hz : -r < z - oz) :
    stereoInv (stereo x y z r ox oy oz).1 (stereo x y z r ox oy oz).2 r ox oy oz = (x, y, z) := by
  have hd : 0 < r + (z - oz) := by linarith
  have hd' : r + (z - oz) ≠ 0 := ne_of_gt hd
  have hr' : r ≠ 0 := ne_of_gt hr
  set cx := x - ox with hcx
  set cy := y - oy with hcy
  set cz := z - oz with hcz
  have hsum : cx ^ 2 + cy ^ 2 = (r - cz) * (r + cz) := by nlinarith
  have hu : ((cx / (r + cz) * r + ox) - ox) / r = cx / (r + cz) := by
    rw [add_sub_cancel_right]; field_simp
  have hv : ((cy / (r + cz) * r + oy) - oy) / r = cy / (r + cz) := by
    rw [add_sub_cancel_right]; field_simp
  have hD : 1 + cx / (r + cz) * (cx / (r + cz)) + cy / (r + cz) * (cy / (r + cz)) = 2 * r / (r + cz) := by
    field_simp
    nlinarith
  have hD' : (2 * r / (r + cz)) ≠ 0 := by positivity
  simp only [stereo, stereoInv, ← hcx, ← hcy, ← hcz, hu, hv, hD]
  refine Prod.ext ?_ (Prod.ext ?_ ?_)
  · simp only; field_simp; ring
  · simp only; field_simp; ring
  · simp only
    have : 1 - cx / (r + cz) * (cx / (r + cz)) - cy / (r + cz) * (cy / (r + cz)) = 2 * cz / (r + cz) := by
      field_simp
      nlinarith
    rw [this]; field_simp; ring

/-- The inverse orthographic formula (upper root) returns the projected point on the upper hemisphere. -/
theorem C20_ortho_inverse (x y z r ox oy oz : ℝ)
    (hs : (x - ox) ^ 2 + (y - oy) ^ 2 + (z - oz) ^ 2 = r ^ 2) (hz : oz ≤ z) :
    orthoInv Real.sqrt (ortho x y z).1 (ortho x y z).2 r ox oy oz = (x, y, z) := by
  simp only [ortho, orthoInv]
  have h : r * r - (x - ox) * (x - ox) - (y - oy) * (y - oy) = (z - oz) ^ 2 := by nlinarith
  rw [h, Real.sqrt_sq (by linarith)]
  simp

/-- `Sun.position_2d`: for a unit reversed sun vector above the horizon the 2D position lies inside the
circle of radius `r` around the 2D origin, in both projections, on the ray of `(vx, vy)`. -/
theorem C20_sun_position_2d (vx vy vz r ox oy : ℝ) (hr : 0 < r)
    (hu : vx ^ 2 + vy ^ 2 + vz ^ 2 = 1) (hz : 0 ≤ vz) :
    ((position2dOrtho vx vy vz r ox oy).1 - ox) ^ 2 + ((position2dOrtho vx vy vz r ox oy).2 - oy) ^ 2 ≤ r ^ 2 ∧
    ((position2dStereo vx vy vz r ox oy).1 - ox) ^ 2 + ((position2dStereo vx vy vz r ox oy).2 - oy) ^ 2 ≤ r ^ 2 ∧
    (position2dOrtho vx vy vz r ox oy).1 - ox = r * vx ∧ (position2dOrtho vx vy vz r ox oy).2 - oy = r * vy ∧
    ∃ k : ℝ, 0 < k ∧ (position2dStereo vx vy vz r ox oy).1 - ox = k * vx ∧
      (position2dStereo vx vy vz r ox oy).2 - oy = k * vy := by
  have hsph : (vx * r + ox - ox) ^ 2 + (vy * r + oy - oy) ^ 2 + (vz * r + 0 - 0) ^ 2 = r ^ 2 := by
    have : (vx * r + ox - ox) ^ 2 + (vy * r + oy - oy) ^ 2 + (vz * r + 0 - 0) ^ 2
        = (vx ^ 2 + vy ^ 2 + vz ^ 2) * r ^ 2 := by ring
    rw [this, hu, one_mul]
  have hzz : (0 : ℝ) ≤ vz * r + 0 := by positivity
  refine ⟨?_, ?_, ?_, ?_, ?_⟩
  · exact C20_ortho_inside _ _ _ r ox oy 0 hsph
  · exact C20_stereo_inside _ _ _ r ox oy 0 hr hsph hzz
  · simp [position2dOrtho, position3d, ortho]; ring
  · simp [position2dOrtho, position3d, ortho]; ring
  · obtain ⟨_, k, hk, h1, h2⟩ := C20_azimuth_kept (vx * r + ox) (vy * r + oy) (vz * r + 0) r ox oy 0 hr hzz
    refine ⟨k * r, by positivity, ?_, ?_⟩
    · simp only [position2dStereo, position3d] at h1 ⊢; rw [h1]; ring
    · simp only [position2dStereo, position3d] at h2 ⊢; rw [h2]; ring

/-- Consumers of the projections, `Compass.stereographic_altitude_circles` / `orthographic_altitude_circles`:
the tabulated radius `point3d_to_stereographic((cos a, 0, sin a), 1).x · R` (resp. `R · cos a`) is exactly
the distance from the compass center of the projected point of altitude `a` on the compass's own sphere
(radius `R`, origin the center), it is non-negative and inside the compass circle. -/
theorem C20_compass_circles_are_projected_rings (R cx cy c s : ℝ) (hR : 0 < R)
    (hu : c ^ 2 + s ^ 2 = 1) (hc : 0 ≤ c) (hs : 0 ≤ s) :
    (stereo (cx + R * c) cy (R * s) R cx cy 0).1 - cx = (stereo c 0 s 1 0 0 0).1 * R ∧
    (stereo (cx + R * c) cy (R * s) R cx cy 0).2 = cy ∧
    0 ≤ (stereo c 0 s 1 0 0 0).1 * R ∧ (stereo c 0 s 1 0 0 0).1 * R ≤ R ∧
    (ortho (cx + R * c) cy (R * s)).1 - cx = R * c ∧ R * c ≤ R := by
  have h1 : (0 : ℝ) < 1 + s := by linarith
  have hR' : R ≠ 0 := ne_of_gt hR
  have hc1 : c ≤ 1 := by nlinarith [sq_nonneg s, sq_nonneg (c - 1)]
  have hfrac : c / (1 + s) ≤ 1 := by rw [div_le_one h1]; linarith
  have hfrac0 : 0 ≤ c / (1 + s) := div_nonneg hc (le_of_lt h1)
  refine ⟨?_, ?_, ?_, ?_, ?_, ?_⟩
  · simp only [stereo]
    have e : R + (R * s - 0) = R * (1 + s) := by ring
    have h1' : (1 : ℝ) + (s - 0) = 1 + s := by ring
    rw [show cx + R * c - cx = R * c by ring, e, h1']
    have h1ne : (1 : ℝ) + s ≠ 0 := ne_of_gt h1
    field_simp
    ring
  · simp only [stereo]; simp
  · simp only [stereo, sub_zero, mul_one, add_zero]; exact mul_nonneg hfrac0 (le_of_lt hR)
  · simp only [stereo, sub_zero, mul_one, add_zero]; nlinarith
  · simp only [ortho]; ring
  · nlinarith

example : stereo (0 : ℝ) 100 0 100 0 0 0 = (0, 100) := by simp [stereo]
example : stereoInv (0 : ℝ) 100 100 0 0 0 = (0, 100, 0) := by simp [stereoInv]; norm_num

end Proj

/-! ### Round 4: branch theorems of the case splits, sibling functions, container shapes

The harness feeds the real functions the same data as tuple / list / generator / `iter` / `map` / dict view /
deque and the flag as any truthy / falsy object; the model takes `List`s and `Bool`s only, so on the model side
there is one answer per content — what is proved here are the *branch* facts (each arm of a case split in the
anchored code gives what the other arm / the general formula would give where they meet) and the *sibling*
facts (functions the statement makes agree do agree). -/

namespace Dome

/-- Branch theorem of `_patch_row_count_array`: the `division_count == 1` shortcut (the class constant itself,
a tuple) is exactly what the general comprehension `[c * n for c in base for i in range(n)]` gives for `n = 1`
(a list): the two arms of the `if` agree where they meet. -/
theorem C20_rows_shortcut_agrees (base : List Nat) :
    rowCountsOf base 1 = base.flatMap fun c => List.replicate (1 : Int).toNat (c * (1 : Int).toNat) := by
  induction base with
  | nil => simp [rowCountsOf]
  | cons c rest ih => simp [rowCountsOf] at ih ⊢

/-- The band count of `_patch_count_in_radial_offset` when `int(round(q))` is a natural number `k`: the patches
of the first `k` rows (Python slice `rows[:k]`, any `k`, also past the end). -/
theorem C20_band_prefix (rows : List Nat) (q : Rat) (k : Nat) (h : Py.round q = (k : Int)) :
    offsetPatchCountQ rows q = (rows.take k).sum := by
  unfold offsetPatchCountQ Py.slice Py.clampIdx
  rw [h]
  simp only [le_refl, if_true, Int.toNat_zero, Nat.zero_min, List.drop_zero, Nat.sub_zero,
    Int.natCast_nonneg, Int.toNat_natCast]
  rw [List.take_eq_take_min]
  -- `take (min k len)` = `take k`
  congr 1
  simp

/-- Empty-band branch (`round` gives 0: offset below half a row): no patch is selected. -/
theorem C20_band_empty (rows : List Nat) (q : Rat) (h : Py.round q = 0) : offsetPatchCountQ rows q = 0 := by
  have := C20_band_prefix rows q 0 (by simpa using h)
  simpa using this

/-- Saturation branch (`round` reaches or passes the number of rows: offsets of 90° − half a row and more): the
band holds every quad patch and never the zenith patch — the slice stops at the end of the row table. -/
theorem C20_band_saturates (rows : List Nat) (q : Rat) (k : Nat) (h : Py.round q = (k : Int))
    (hk : rows.length ≤ k) : offsetPatchCountQ rows q = rows.sum := by
  rw [C20_band_prefix rows q k h, List.take_of_length_le hk]

/-- Whatever the offset (negative ones included: Python slices from the end), the band never holds more than
the quad patches: its weights are a prefix of the dome areas that excludes the zenith patch. -/
theorem C20_band_le (rows : List Nat) (q : Rat) : offsetPatchCountQ rows q ≤ rows.sum := by
  unfold offsetPatchCountQ Py.slice
  exact List.Sublist.sum_le_sum ((List.take_sublist _ _).trans (List.drop_sublist _ _)) (by simp)

/-- Python's `round` (ties to even) lands within half a unit of its argument, ties included. -/
theorem C20_round_within_half (q : Rat) : |((Py.round q : Int) : Rat) - q| ≤ 1 / 2 := by
  have h1 := Rat.floor_le q
  have h2 : q < (q.floor : Rat) + 1 := by
    have := Rat.lt_floor_add_one q
    push_cast at this
    exact this
  unfold Py.round
  simp only
  rw [abs_le]
  split_ifs with ha hb hc <;> constructor <;> push_cast <;> linarith

/-- Convention theorem for the offset angle (kind g): with rows `v` high (`v > 0`, the offset and `v` in the SAME
unit) the band selected by `_patch_count_in_radial_offset` ends at `round(off / v) · v`, which is within half a
row of the offset angle — as long as the rounded row count does not pass the last row (`C20_band_saturates`
then cuts it there). The oracle measures exactly this on the generated mesh (`band_extent`). -/
theorem C20_band_reaches_offset (off v : Rat) (hv : 0 < v) :
    |((Py.round (off / v) : Int) : Rat) * v - off| ≤ v / 2 := by
  have h := C20_round_within_half (off / v)
  have e : ((Py.round (off / v) : Int) : Rat) * v - off = (((Py.round (off / v) : Int) : Rat) - off / v) * v := by
    field_simp
  rw [e, abs_mul, abs_of_pos hv]
  calc |((Py.round (off / v) : Int) : Rat) - off / v| * v ≤ (1 / 2) * v :=
        mul_le_mul_of_nonneg_right h (le_of_lt hv)
    _ = v / 2 := by ring

section Siblings
variable {α : Type} [Add α] [Sub α] [Mul α] [Div α] [OfNat α 0] [OfNat α 1] [NatCast α]

/-- Sibling functions: `sphere_patch_weights` is `dome_patch_weights` followed by itself (upper half, mirrored
lower half), for every row table and every row angle — the copy-pasted normalisation of the two functions is
one and the same in the model, and the correspondence compares each with the real function. -/
theorem C20_sphere_weights_are_dome_twice (twoPi : α) (s : Nat → α) (rows : List Nat) :
    (sphereWeights twoPi s rows).take (domeWeights twoPi s rows).length = domeWeights twoPi s rows ∧
    (sphereWeights twoPi s rows).drop (domeWeights twoPi s rows).length = domeWeights twoPi s rows := by
  simp [sphereWeights]

/-- Sibling halves of the horizontal band: the weights of the mirrored lower band are those of the upper band. -/
theorem C20_band_weights_halves (twoPi : α) (s : Nat → α) (rows : List Nat) (k : Nat) :
    ∃ half : List α, offsetWeights twoPi s rows k = half ++ half ∧
      half.length = ((patchAreas twoPi s rows).take k).length := by
  refine ⟨((patchAreas twoPi s rows).take k).map
    (· / (sumL ((patchAreas twoPi s rows).take k) / (((patchAreas twoPi s rows).take k).length : α))), ?_, ?_⟩
  · rfl
  · simp

end Siblings

-- non-vacuity: the Tregenza table, offsets of 30° (quotient exactly 2.5: ties to even), 6° and 90°
example : offsetPatchCountQ [30, 30, 24, 24, 18, 12, 6] (5 / 2) = 60 := by decide +kernel
example : Py.round (15 / 2) = 8 ∧ offsetPatchCountQ [30, 30, 24, 24, 18, 12, 6] (15 / 2) = 144 := by decide +kernel
example : rowCountsOf [30, 24] 1 = [30, 24] := by decide

end Dome
