/-
  C14 — Derived objects never share state with, or mutate, the objects they came from.
  Property theorems about the heap model `Model/Heap.lean` (helper lemmas: Proofs/C14Lemmas.lean,
  Proofs/C14Spec.lean).  No Mathlib.

  The model is tied to `_datacollectionbase.py`, `datacollection.py`, `datacollectionimmutable.py`,
  `header.py`, `windrose.py` by the sharing-signature correspondence of harness/props/c14.py
  (`Mode.fixed` = the tree with fixes/C14_*.patch; `Mode.pinned` = the pinned tree, used only by the
  `_counterexample` theorems below).
-/
import Ladybug.Proofs.C14Spec

namespace LbHeap

/-! ### Frame theorem -/

/-- **Frame.**  In a heap whose live collections are separated (no live collection reads a header,
    metadata dict or values list that another one may overwrite), any successful mutator
    (`convert_to_unit/ip/si`, `values =`, `__setitem__`, `header.metadata[k] = v`, `header.metadata = …`,
    `convert_to_culled_timestep`) applied to `a` leaves the snapshot (values, unit, data type, period,
    metadata, datetimes, class, flags) of every other live collection `b` unchanged — for the pinned and
    for the fixed code alike.  A failing mutator returns no heap at all (`Except.error`). -/
theorem C14_frame {m : Mode} {h h' : Heap} {live : List Nat} {a b : Nat} {op : MOp}
    (inv : Inv h live) (ha : a ∈ live) (hb : b ∈ live) (ne : b ≠ a)
    (e : mutate m h a op = .ok h') : obs h' b = obs h b :=
  (local_inv inv ha (mutate_local inv.1 (inv.2.1 a ha) e)).2 b hb ne

/-- Mutators keep the live collections separated (a mutator re-points its target only to new cells). -/
theorem C14_sep_preserved_mutate {m : Mode} {h h' : Heap} {live : List Nat} {a : Nat} {op : MOp}
    (inv : Inv h live) (ha : a ∈ live) (e : mutate m h a op = .ok h') : Inv h' live :=
  (local_inv inv ha (mutate_local inv.1 (inv.2.1 a ha) e)).1

/-! ### Deriving operations -/

/-- **Argument hygiene of every deriving operation** (arithmetic, filters, `to_unit/ip/si`, `duplicate`,
    `to_mutable/to_immutable`, `to_discontinuous`, `get_aligned_collection`, aggregations, validation,
    interpolation, culling, `compute_function_aligned`): the call only allocates, so the snapshot of every
    live collection – the operands included – is what it was; when the call fails there is no new heap.
    Holds for the pinned code too (its defects are aliasing, not editing, except WindRose: see below). -/
theorem C14_args_unchanged_derive {m : Mode} {h h' : Heap} {live : List Nat} {c r : Nat} {op : DOp}
    (inv : Inv h live) (e : derive m h c op = .ok (h', r)) : ∀ b ∈ live, obs h' b = obs h b :=
  fun b hb => (obs_ext inv.1 (derive_ext inv.1 e).1 (inv.2.1 b hb)).1

/-- **Separation is preserved by every deriving operation of the fixed code**: the result gets a new
    header, a new metadata dict and new values (or, for an immutable result, the source's tuple); it may
    share the analysis-period object, which has no setters. -/
theorem C14_sep_preserved_derive {h h' : Heap} {live : List Nat} {c r : Nat} {op : DOp}
    (inv : Inv h live) (e : derive .fixed h c op = .ok (h', r)) :
    Inv h' (live ++ [r]) ∧ h.next ≤ r := by
  unfold derive at e
  split at e
  · cases e
  · rename_i sp hsp
    have e' : mkColl h sp = (h', r) := Except.ok.inj e
    cases hs : src h c with
    | error x => simp [specOf, hs, bind, Except.bind] at hsp
    | ok s =>
      have fr := mkColl_fresh inv.1 (copying_of_shape hs (specOf_fixed_shape hs hsp))
      rw [e'] at fr
      simp only at fr
      refine ⟨(fresh_inv inv fr).1, ?_⟩
      obtain ⟨k, hd, _, _, _, _, e1, e2, _⟩ := fr.typed
      exact fr.owned_new _ (by simp [owned, foot_of_typed e1 e2])

/-- `Header.duplicate()` as used by every copying operation: new header cell, new metadata dict, new
    period object, same observable content. -/
theorem C14_header_duplicate_fresh (s : Src) :
    ∃ m ap, dupHdr s = .new s.hd.dtype s.hd.unit (.new ap) (.new m) ∧ m = s.md ∧ ap = s.ap :=
  ⟨_, _, rfl, rfl, rfl⟩

/-! ### Histories -/

/-- One step of a history on the fixed code; `i`, `j` index the list of live collections. -/
inductive Step
  | derive (i : Nat) (op : DOp)
  | mutate (i : Nat) (op : MOp)

structure St where
  h : Heap
  live : List Nat

/-- Failing steps (and steps addressing a non-existent object) leave everything as it is. -/
def step (st : St) : Step → St
  | .derive i op =>
    match st.live[i]? with
    | none => st
    | some c =>
      match derive .fixed st.h c op with
      | .ok (h', r) => ⟨h', st.live ++ [r]⟩
      | .error _ => st
  | .mutate i op =>
    match st.live[i]? with
    | none => st
    | some c =>
      match mutate .fixed st.h c op with
      | .ok h' => ⟨h', st.live⟩
      | .error _ => st

def run (st : St) (l : List Step) : St := l.foldl step st

/-- Does the step apply a mutator to live object number `j`? -/
def Step.touches (j : Nat) : Step → Bool
  | .mutate i _ => i = j
  | .derive _ _ => false

/-- Separated, and no object listed twice, all below `next`. -/
def Good (st : St) : Prop := Inv st.h st.live ∧ st.live.Nodup

theorem step_good (st : St) (g : Good st) (s : Step) :
    Good (step st s) ∧ (∃ extra, (step st s).live = st.live ++ extra) ∧
    ∀ j b, st.live[j]? = some b → s.touches j = false → obs (step st s).h b = obs st.h b := by
  obtain ⟨inv, nd⟩ := g
  cases s with
  | derive i op =>
    simp only [step]
    split
    · exact ⟨⟨inv, nd⟩, ⟨[], by simp⟩, fun _ _ _ _ => rfl⟩
    · rename_i c hc
      split
      · rename_i h' r e
        have hp := C14_sep_preserved_derive inv e
        refine ⟨⟨hp.1, ?_⟩, ⟨[r], rfl⟩, fun j b hj _ => ?_⟩
        · refine List.nodup_append.2 ⟨nd, by simp, ?_⟩
          intro x hx y hy
          simp only [List.mem_cons, List.not_mem_nil, or_false] at hy
          subst hy
          obtain ⟨k, _, _, _, _, _, e1, _⟩ := inv.2.1 x hx
          have := lt_next_of_some inv.1 e1
          have := hp.2
          omega
        · exact C14_args_unchanged_derive inv e b (List.mem_of_getElem? hj)
      · exact ⟨⟨inv, nd⟩, ⟨[], by simp⟩, fun _ _ _ _ => rfl⟩
  | mutate i op =>
    simp only [step]
    split
    · exact ⟨⟨inv, nd⟩, ⟨[], by simp⟩, fun _ _ _ _ => rfl⟩
    · rename_i c hc
      have hcl : c ∈ st.live := List.mem_of_getElem? hc
      split
      · rename_i h' e
        refine ⟨⟨C14_sep_preserved_mutate inv hcl e, nd⟩, ⟨[], by simp⟩, fun j b hj ht => ?_⟩
        have hne : b ≠ c := by
          intro e'
          subst e'
          simp only [Step.touches, decide_eq_false_iff_not] at ht
          have hi := (List.getElem?_eq_some_iff.1 hc)
          have hj' := (List.getElem?_eq_some_iff.1 hj)
          obtain ⟨hi1, hi2⟩ := hi
          obtain ⟨hj1, hj2⟩ := hj'
          exact ht ((List.getElem_inj nd).1 (hi2.trans hj2.symm))
        exact C14_frame inv hcl (List.mem_of_getElem? hj) hne e
      · exact ⟨⟨inv, nd⟩, ⟨[], by simp⟩, fun _ _ _ _ => rfl⟩

/-- **Non-interference for every history.**  Start from separated live collections (e.g. freshly built
    sources).  Run ANY sequence – of any length – of deriving operations and mutators of the fixed code,
    each addressed to any live object (sources or earlier results).  Then (1) the live collections are
    still separated, and (2) every object that was live at the start and was never itself the target of a
    mutator reports exactly the snapshot it had at the start – whatever was derived from it and whatever
    was done to the derived objects, and vice versa (apply the theorem from the state in which the derived
    object appeared). -/
theorem C14_noninterference (l : List Step) (st : St) (g : Good st) :
    Good (run st l) ∧
    ∀ j b, st.live[j]? = some b → (∀ s ∈ l, s.touches j = false) →
      obs (run st l).h b = obs st.h b := by
  induction l generalizing st with
  | nil => exact ⟨g, fun _ _ _ _ => rfl⟩
  | cons s l ih =>
    obtain ⟨g1, ⟨extra, hex⟩, hobs⟩ := step_good st g s
    obtain ⟨g2, hrest⟩ := ih (step st s) g1
    refine ⟨g2, fun j b hj ht => ?_⟩
    have hj' : (step st s).live[j]? = some b := by
      rw [hex]
      obtain ⟨hj1, hj2⟩ := List.getElem?_eq_some_iff.1 hj
      exact List.getElem?_eq_some_iff.2 ⟨by simp; omega, by rw [List.getElem_append_left hj1]; exact hj2⟩
    have := hrest j b hj' (fun s' hs' => ht s' (List.mem_cons_of_mem _ hs'))
    simp only [run, List.foldl_cons] at this ⊢
    rw [this]
    exact hobs j b hj (ht s (List.mem_cons_self))

/-! ### Immutability -/

/-- **Immutability (values, unit, datetimes, period).**  On the fixed code every mutator other than a
    metadata edit is rejected for an immutable collection, so nothing changes. -/
theorem C14_immutable {h : Heap} {c : Nat} {s : Src} (hs : src h c = .ok s) (him : s.k.isMut = false)
    (op : MOp) (hop : ∀ k v, op ≠ .metaSet k v) (hop' : ∀ m, op ≠ .metaReplace m) :
    mutate .fixed h c op = .error .attr := by
  unfold mutate
  simp only [hs, bind, Except.bind, him]
  cases op with
  | metaSet k v => exact absurd rfl (hop k v)
  | metaReplace m => exact absurd rfl (hop' m)
  | cullInplace ts => by_cases hh : isHourly s.k.cls <;> simp [hh]
  | _ => simp

/-- Derived objects do not open a route either: whatever is derived from an immutable collection and
    then mutated, the immutable collection keeps its snapshot (instance of `C14_noninterference`). -/
theorem C14_immutable_through_derived (l : List Step) (st : St) (g : Good st) (j b : Nat)
    (hj : st.live[j]? = some b) (ht : ∀ s ∈ l, s.touches j = false) :
    obs (run st l).h b = obs st.h b :=
  (C14_noninterference l st g).2 j b hj ht

/-! ### Sources, WindRose -/

theorem inv_empty : Inv Heap.empty [] := by
  refine ⟨fun _ _ => rfl, ?_, ?_⟩ <;> intro c hc <;> cases hc

/-- A collection built from new parts (new header, new metadata dict, new list) is separated from
    everything that exists: histories may start from any number of such sources. -/
theorem C14_build_separated {h : Heap} {live : List Nat} (inv : Inv h live) (cls : Cls)
    (mt vd : Bool) (dt u : Nat) (ap : List Nat) (md : List (Nat × MV)) (dts : List Nat) (vals : List Rat) :
    Inv (build h cls mt vd dt u ap md dts vals).1 (live ++ [(build h cls mt vd dt u ap md dts vals).2]) := by
  have cp : NewSpec.Copying h ⟨.new dt u (.new ap) (.new md), newVals mt vals, dts, mt, cls, vd⟩ := by
    refine ⟨⟨_, _, _, _, rfl, fun r hr => by cases hr⟩, fun r hr => by simp [newVals] at hr, ?_⟩
    intro v t hv hb
    simp only [newVals, ValSrc.new.injEq] at hv
    simp only at hb
    rw [← hv.2, hb]; rfl
  exact (fresh_inv inv (mkColl_fresh inv.1 cp)).1

/-- **WindRose construction (fixed code)** keeps two new immutable collections: the caller's direction
    and analysis collections – and every other live object – are unchanged, and the chart's collections
    are separated from them (so later edits on either side do not show on the other). -/
theorem C14_windrose_fixed {h h' : Heap} {live : List Nat} {d a rd ra : Nat} (inv : Inv h live)
    (e : windrose .fixed h d a = .ok (h', rd, ra)) :
    Inv h' (live ++ [rd] ++ [ra]) ∧ ∀ b ∈ live, obs h' b = obs h b := by
  unfold windrose at e
  cases hd : src h d with
  | error x => simp [hd, bind, Except.bind] at e
  | ok sd =>
    cases ha : src h a with
    | error x => simp [hd, ha, bind, Except.bind] at e
    | ok sa =>
      simp only [hd, ha, bind, Except.bind, pure, Except.pure] at e
      split at e
      · cases e
      split at e
      · cases e
      split at e
      · cases e
      split at e
      · cases e
      rename_i h2 ra' e2
      have e' := Except.ok.inj e
      simp only [Prod.mk.injEq] at e'
      obtain ⟨rfl, rfl, rfl⟩ := e'
      have fr := mkColl_fresh inv.1 (copying_of_shape hd
        (shape_dup sd none none none false (sd.vals.map ratMod360) sd.k.dts sd.k.cls
          (if sd.k.cls = .hc then true else sd.k.validated)))
      have i1 := fresh_inv inv fr
      have i2 := C14_sep_preserved_derive i1.1 e2
      refine ⟨i2.1, fun b hb => ?_⟩
      rw [C14_args_unchanged_derive i1.1 e2 b (List.mem_append_left _ hb)]
      exact i1.2 b hb

/-! ### Non-vacuity and counterexamples (evaluated by the kernel) -/

/-- A one-value continuous source with a non-empty metadata dict. -/
def exSrc (mt : Bool) : Heap × Nat :=
  build Heap.empty .hc mt true 0 0 [1, 1, 0, 1, 1, 23, 1, 0] [(1, "1")] [0] [5]

/-- Non-vacuity: a built source satisfies the hypothesis of the history theorem. -/
example : Good ⟨(exSrc true).1, [(exSrc true).2]⟩ :=
  ⟨C14_build_separated inv_empty .hc true true 0 0 _ _ _ _, by simp⟩

/-- Non-vacuity of `C14_noninterference`: a concrete history (derive, then two mutators on the derived
    object) really runs (two live objects) and the source keeps unit C and its single metadata key. -/
example :
    let st : St := ⟨(exSrc true).1, [(exSrc true).2]⟩
    let fin := run st [.derive 0 .neg, .mutate 1 (.convUnit 1), .mutate 1 (.metaSet 2 "9")]
    fin.live.length = 2 ∧ (obs fin.h (exSrc true).2).map (·.unit) = some 0 ∧
      (obs fin.h (exSrc true).2).map (·.md.length) = some 1 ∧
      (fin.live[1]?.bind (obs fin.h)).map (·.unit) = some 1 := by decide

/-- Non-vacuity of `C14_frame` / `C14_immutable`: an immutable source rejects `convert_to_unit`. -/
example : mutate .fixed (exSrc false).1 (exSrc false).2 (.convUnit 1) = .error .attr :=
  C14_immutable (s := ⟨⟨2, 3, [0], false, .hc, true, false⟩, ⟨0, 0, 0, 1⟩, [(1, "1")],
    [1, 1, 0, 1, 1, 23, 1, 0], [5], true⟩) rfl rfl _ (by intro k v h; cases h) (by intro m h; cases h)

/-- `r = -a; r.convert_to_unit('F')` and what `a` reports afterwards: (unit before, unit after). -/
def cxNeg (m : Mode) : Option (Nat × Nat) :=
  let (h0, a) := exSrc true
  match derive m h0 a .neg with
  | .ok (h1, r) =>
    match mutate m h1 r (.convUnit 1) with
    | .ok h2 => match obs h0 a, obs h2 a with
      | some o0, some o2 => some (o0.unit, o2.unit)
      | _, _ => none
    | .error _ => none
  | .error _ => none

/-- **Pinned tree: continuous arithmetic shares the header.**  After `r = -a; r.convert_to_unit('F')`
    the source `a` reports unit F (its values are still in C).  Repaired by
    fixes/C14_continuous_arithmetic_header.patch: with the fixed code `a` keeps unit C. -/
theorem C14_continuous_arith_shares_pinned_counterexample :
    cxNeg .pinned = some (0, 1) ∧ cxNeg .fixed = some (0, 0) := by decide

/-- `i = a.to_immutable(); a.convert_to_unit('F')`: unit reported by the immutable copy. -/
def cxImm (m : Mode) : Option (Nat × Nat) :=
  let (h0, a) := exSrc true
  match derive m h0 a .toImmutable with
  | .ok (h1, r) =>
    match mutate m h1 a (.convUnit 1) with
    | .ok h2 => match obs h1 r, obs h2 r with
      | some o0, some o2 => some (o0.unit, o2.unit)
      | _, _ => none
    | .error _ => none
  | .error _ => none

/-- **Pinned tree: `to_immutable` shares the header** – the immutable copy changes unit when the mutable
    source is converted.  Repaired by fixes/C14_to_immutable_header.patch. -/
theorem C14_to_immutable_shares_pinned_counterexample :
    cxImm .pinned = some (0, 1) ∧ cxImm .fixed = some (0, 0) := by decide

/-- `g = a.get_aligned_collection(5); g.header.metadata[2] = "9"`: number of metadata keys of `a`. -/
def cxAligned (m : Mode) : Option (Nat × Nat) :=
  let (h0, a) := exSrc true
  match derive m h0 a (.aligned (.scalar 5) none none) with
  | .ok (h1, r) =>
    match mutate m h1 r (.metaSet 2 "9") with
    | .ok h2 => match obs h0 a, obs h2 a with
      | some o0, some o2 => some (o0.md.length, o2.md.length)
      | _, _ => none
    | .error _ => none
  | .error _ => none

/-- **Pinned tree: `get_aligned_collection` shares the metadata dict** (when it is not empty).  Repaired
    by fixes/C14_aligned_header_metadata.patch. -/
theorem C14_aligned_shares_metadata_pinned_counterexample :
    cxAligned .pinned = some (1, 2) ∧ cxAligned .fixed = some (1, 1) := by decide

/-- `imm.convert_to_unit('F')` on an immutable collection: does it succeed? -/
def cxImmConvert (m : Mode) : Bool :=
  let (h0, a) := exSrc false
  match mutate m h0 a (.convUnit 1) with
  | .ok _ => true
  | .error _ => false

/-- **Pinned tree: `convert_to_unit` edits an immutable collection**; the fixed code raises
    (fixes/C14_immutable_convert_raises.patch). -/
theorem C14_immutable_convert_pinned_counterexample :
    cxImmConvert .pinned = true ∧ cxImmConvert .fixed = false := by decide

/-- `imm.header.metadata[2] = "9"` on an immutable collection (fixed code): metadata keys before/after. -/
def cxImmMeta : Option (Nat × Nat) :=
  let (h0, a) := exSrc false
  match mutate .fixed h0 a (.metaSet 2 "9") with
  | .ok h2 => match obs h0 a, obs h2 a with
    | some o0, some o2 => some (o0.md.length, o2.md.length)
    | _, _ => none
  | .error _ => none

/-- **Open finding (also after the fixes): the metadata of an immutable collection can be edited through
    its header** – the immutability theorem `C14_immutable` therefore excludes the two metadata mutators.
    known_findings.d/C14.json: C14-immutable-header-metadata-editable. -/
theorem C14_immutable_metadata_counterexample : cxImmMeta = some (1, 2) := by decide

end LbHeap
