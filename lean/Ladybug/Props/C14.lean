/-
  C14 — Derived objects never share state with, or mutate, the objects they came from.
  Property theorems about the heap model `Model/Heap.lean` (helper lemmas: Proofs/C14Lemmas.lean,
  Proofs/C14Spec.lean, Proofs/C14Any.lean).  No Mathlib.

  The model is tied to `_datacollectionbase.py`, `datacollection.py`, `datacollectionimmutable.py`,
  `header.py`, `windrose.py` by the sharing-signature correspondence of harness/props/c14.py
  (`Mode.fixed` = the tree as repaired; `Mode.pinned` = the tree as it was pinned, used only by the
  `_counterexample` theorems below).

  Live objects are collections, plain Python lists the caller holds (and passes as arguments) and the
  argument list of `compute_function_aligned`; `obsA` is what is observed of each, `Inv anyFP h live`
  says that the live objects are well formed and separated.
-/
import Ladybug.Proofs.C14Epw

namespace LbHeap

theorem live_lt {h : Heap} {live : List Nat} (inv : Inv anyFP h live) : ∀ b ∈ live, b < h.next :=
  fun b hb => ltA inv.1 (inv.2.1 b hb) b (self_mem_readsA (inv.2.1 b hb))

/-- The target of a successful collection mutator is a well-formed collection. -/
theorem typed_target {h : Heap} {live : List Nat} {a : Nat} (inv : Inv anyFP h live) (ha : a ∈ live)
    {s : Src} (hs : src h a = .ok s) : Typed h a :=
  typed_of_typedA (src_ok hs).1 (inv.2.1 a ha)

theorem src_of_mutate {m : Mode} {h h' : Heap} {a : Nat} {op : MOp} (e : mutate m h a op = .ok h') :
    ∃ s, src h a = .ok s := by
  unfold mutate at e
  cases hs : src h a with
  | error x => simp [hs, bind, Except.bind] at e
  | ok s => exact ⟨s, rfl⟩

/-! ### Frame theorem -/

/-- **Frame.**  In a heap whose live objects are separated (no live object reads a header, metadata
    dict, nested metadata list or values list that another one may overwrite), any successful mutator
    (`convert_to_unit/ip/si`, `values =` with a literal or with a list the caller holds, `__setitem__`,
    `header.metadata[k] = v`, `header.metadata[k].append(x)`, `header.metadata = …`,
    `convert_to_culled_timestep`) applied to collection `a` leaves what is observed of every other live
    object `b` unchanged – the snapshot of a collection (values, unit, data type, period, metadata with
    nested lists read through, datetimes, class, flags), the content of a caller's list, the items of an
    argument list – for the pinned and for the fixed code alike.  A failing mutator returns no heap. -/
theorem C14_frame {m : Mode} {h h' : Heap} {live : List Nat} {a b : Nat} {op : MOp}
    (inv : Inv anyFP h live) (ha : a ∈ live) (hb : b ∈ live) (ne : b ≠ a)
    (e : mutate m h a op = .ok h') : obsA h' b = obsA h b := by
  obtain ⟨s, hs⟩ := src_of_mutate e
  have ty := typed_target inv ha hs
  exact (local_inv anyFP inv ha (localA_of_coll ty (mutate_local inv.1 ty e))).2 b hb ne

/-- Mutators keep the live objects separated (a mutator re-points its target only to new cells). -/
theorem C14_sep_preserved_mutate {m : Mode} {h h' : Heap} {live : List Nat} {a : Nat} {op : MOp}
    (inv : Inv anyFP h live) (ha : a ∈ live) (e : mutate m h a op = .ok h') : Inv anyFP h' live := by
  obtain ⟨s, hs⟩ := src_of_mutate e
  have ty := typed_target inv ha hs
  exact (local_inv anyFP inv ha (localA_of_coll ty (mutate_local inv.1 ty e))).1

/-- **The caller's own list.**  When the caller edits a list he holds (`lst[i] = x`, `lst.append(x)`),
    no collection – in particular none that was built from that list, received it through the values
    setter, `get_aligned_collection(value=lst)` or a constructor – changes; and the objects stay
    separated. -/
theorem C14_frame_list {h h' : Heap} {live : List Nat} {a : Nat} {op : LOp}
    (inv : Inv anyFP h live) (ha : a ∈ live) (e : mutList h a op = .ok h') :
    Inv anyFP h' live ∧ ∀ b ∈ live, b ≠ a → obsA h' b = obsA h b :=
  local_inv anyFP inv ha (mutList_local inv.1 e)

/-! ### Deriving operations -/

/-- **Argument hygiene of every deriving operation** (arithmetic, filters, `to_unit/ip/si`, `duplicate`,
    `to_mutable/to_immutable`, `to_discontinuous`, `get_aligned_collection` – also with the caller's list
    as value –, aggregations, validation, interpolation, culling, `compute_function_aligned` – also with
    the caller's own argument list –, `normalize_by_area`, `aggregate_by_area`, `to_time_aggregated`,
    `to_time_rate_of_change`): the call only allocates, so what is observed of every live object – the
    operands, the caller's lists – is what it was; when the call fails there is no new heap. -/
theorem C14_args_unchanged_derive {m : Mode} {h h' : Heap} {live : List Nat} {c r : Nat} {op : DOp}
    (inv : Inv anyFP h live) (e : derive m h c op = .ok (h', r)) : ∀ b ∈ live, obsA h' b = obsA h b :=
  fun b hb => (anyFP.ext inv.1 (derive_ext inv.1 e).1 (inv.2.1 b hb)).1

/-- **Separation is preserved by every deriving operation of the fixed code**: the result gets a new
    header, a new metadata dict whose nested lists are new lists (deep copy) and new values (or, for an
    immutable result, the source's tuple); it may share the analysis-period object, which has no
    setters.  In particular the result never holds a list the caller passed in. -/
theorem C14_sep_preserved_derive {h h' : Heap} {live : List Nat} {c r : Nat} {op : DOp}
    (inv : Inv anyFP h live) (e : derive .fixed h c op = .ok (h', r)) :
    Inv anyFP h' (live ++ [r]) ∧ h.next ≤ r := by
  unfold derive at e
  split at e
  · cases e
  · rename_i sp hsp
    have e' : mkColl h sp = (h', r) := Except.ok.inj e
    cases hs : src h c with
    | error x => simp [specOf, hs, bind, Except.bind] at hsp
    | ok s =>
      have fr := mkColl_fresh inv.1 (copying_of_shape hs (specOf_fixed_shape hs hsp))
      rw [e'] at fr
      simp only at fr
      exact ⟨(fresh_inv anyFP inv (live_lt inv) (freshA_of_coll fr)).1, fr.self_new⟩

/-- A copying spec (new header, deep-copied metadata, new values) always gives a separated object. -/
theorem C14_copying_separated {h : Heap} {live : List Nat} (inv : Inv anyFP h live) {sp : NewSpec}
    (cp : sp.Copying h) :
    Inv anyFP (mkColl h sp).1 (live ++ [(mkColl h sp).2]) ∧ h.next ≤ (mkColl h sp).2 ∧
    ∀ b ∈ live, obsA (mkColl h sp).1 b = obsA h b :=
  have fr := mkColl_fresh inv.1 cp
  ⟨(fresh_inv anyFP inv (live_lt inv) (freshA_of_coll fr)).1, fr.self_new,
   (fresh_inv anyFP inv (live_lt inv) (freshA_of_coll fr)).2⟩

/-! ### Wea -/

/-- **Wea constructors and derivations (fixed code).**  `Wea.from_dict` (and the other constructors that
    build their own collections), `Wea.duplicate()` and `Wea.filter_by_*` return a Wea that is separated
    from everything that exists – its two collections have their own headers and metadata dicts (they
    share one AnalysisPeriod object and, for the filters, look at the same Location: neither is edited by
    any modelled operation) – and leave every live object as it was. -/
theorem C14_wea_fresh_separated {h h' : Heap} {live : List Nat} {w : Nat} (inv : Inv anyFP h live)
    (fr : Fresh anyFP h h' w) :
    Inv anyFP h' (live ++ [w]) ∧ (∀ b ∈ live, obsA h' b = obsA h b) ∧ h.next ≤ w :=
  ⟨(fresh_inv anyFP inv (live_lt inv) fr).1, (fresh_inv anyFP inv (live_lt inv) fr).2, fr.self_new⟩

theorem C14_wea_new {h h' : Heap} {live : List Nat} {w : Nat} (inv : Inv anyFP h live)
    {loc : List MV} {tags ap dts : List Nat} {dni dhi : List Rat} {cont : Bool}
    (e : weaNew h loc tags ap dts dni dhi cont = .ok (h', w)) :
    Inv anyFP h' (live ++ [w]) ∧ (∀ b ∈ live, obsA h' b = obsA h b) ∧ h.next ≤ w :=
  C14_wea_fresh_separated inv (weaNew_fresh inv.1 e)

theorem C14_wea_duplicate {h h' : Heap} {live : List Nat} {w w' : Nat} (inv : Inv anyFP h live)
    (e : weaDup h w = .ok (h', w')) :
    Inv anyFP h' (live ++ [w']) ∧ (∀ b ∈ live, obsA h' b = obsA h b) ∧ h.next ≤ w' :=
  C14_wea_fresh_separated inv (weaDup_fresh inv.1 e)

theorem C14_wea_filter {h h' : Heap} {live : List Nat} {w w' : Nat} {op : DOp} (inv : Inv anyFP h live)
    (e : weaFilter h w op = .ok (h', w')) :
    Inv anyFP h' (live ++ [w']) ∧ (∀ b ∈ live, obsA h' b = obsA h b) ∧ h.next ≤ w' :=
  C14_wea_fresh_separated inv (weaFilter_fresh inv.1 e)

/-- A collection derived from a Wea (`global_horizontal_irradiance`, `direct_horizontal_irradiance`, each
    of the four results of `directional_irradiance`, …) has its own header and a deep copy of the Wea's
    metadata (a395d2d, 69061a8): it is separated from the Wea and from everything else. -/
theorem C14_wea_derived {h h' : Heap} {live : List Nat} {w r dt : Nat} {sh : Bool} {vals : List Rat}
    (inv : Inv anyFP h live) (e : weaDerived h w dt sh vals = .ok (h', r)) :
    Inv anyFP h' (live ++ [r]) ∧ (∀ b ∈ live, obsA h' b = obsA h b) ∧ h.next ≤ r :=
  C14_wea_fresh_separated inv (freshA_of_coll (weaDerived_fresh inv.1 e))

/-- **Frame for composite objects.**  A mutator applied to one of the two collections of a Wea
    (`wea.direct_normal_irradiance.convert_to_unit(..)`, `…[i] = x`, metadata edits, …) or an edit of
    `wea.metadata` changes nothing outside that Wea. -/
theorem C14_frame_member {h h' : Heap} {live : List Nat} {w i : Nat} {op : MOp}
    (inv : Inv anyFP h live) (hw : w ∈ live) (e : compMember h w i op = .ok h') :
    Inv anyFP h' live ∧ ∀ b ∈ live, b ≠ w → obsA h' b = obsA h b :=
  local_inv anyFP inv hw (compMember_local inv.1 (inv.2.1 w hw) e)

theorem C14_frame_comp_metadata {h h' : Heap} {live : List Nat} {w k : Nat} {v : MV}
    (inv : Inv anyFP h live) (hw : w ∈ live) (e : compMetaSet h w k v = .ok h') :
    Inv anyFP h' live ∧ ∀ b ∈ live, b ≠ w → obsA h' b = obsA h b :=
  local_inv anyFP inv hw (compMetaSet_local inv.1 (inv.2.1 w hw) e)

/-! ### EPW -/

theorem C14_epw_new {h h' : Heap} {live : List Nat} {w : Nat} (inv : Inv anyFP h live)
    {ap dts : List Nat} {db dp : List Rat} (e : epwNew h ap dts db dp = .ok (h', w)) :
    Inv anyFP h' (live ++ [w]) ∧ (∀ b ∈ live, obsA h' b = obsA h b) ∧ h.next ≤ w :=
  C14_wea_fresh_separated inv (epwNew_fresh inv.1 e)

/-- `EPW.convert_to_ip()` / `convert_to_si()` edits only the EPW's own collections. -/
theorem C14_frame_epw_convert {h h' : Heap} {live : List Nat} {w : Nat} {toIp : Bool}
    (inv : Inv anyFP h live) (hw : w ∈ live) (e : epwConvert h w toIp = .ok h') :
    Inv anyFP h' live ∧ ∀ b ∈ live, b ≠ w → obsA h' b = obsA h b :=
  local_inv anyFP inv hw (epwConvert_local inv.1 (inv.2.1 w hw) e)

/-- The fields of an EPW are in the units its IP flag says (F when IP; the model has the temperature
    fields only). -/
def EpwUnitsConsistent (h : Heap) (x : Comp) : Prop :=
  ∀ mb ∈ x.members, ∀ o, obs h mb = some o → (epwIsIp x = true → o.unit = 1)

/-- **`EPW.to_file_string()` leaves the object as it was, also when it fails** (f030132).  The call
    converts an IP object to SI, rotates the value lists of the point-in-time fields in place, writes, and
    undoes both in a `finally` block.  In the model the heap after the call is the same whether the export
    succeeded (`exported = true`) or raised `ValueError` (`false`); every live object – the EPW included,
    with every field collection's values, unit, period, metadata – is observed as before, and the live
    objects are still separated. -/
theorem C14_epw_to_file_string_restores {h h' : Heap} {live : List Nat} {w : Nat} {x : Comp}
    {exported : Bool} (inv : Inv anyFP h live) (hw : w ∈ live) (hk : h.cells w = some (.comp x))
    (hu : EpwUnitsConsistent h x) (e : epwToFileString h w = .ok (exported, h')) :
    Inv anyFP h' live ∧ ∀ b ∈ live, obsA h' b = obsA h b := by
  have cty : CompTyped h x := by
      have ty : TypedA h w := inv.2.1 w hw
      simpa only [TypedA, hk] using ty
  unfold epwToFileString at e
  simp only [getComp, hk] at e
  split at e
  · rename_i h1 e1
    have eh : h1 = h' := (Prod.mk.inj (Except.ok.inj e)).2
    subst eh
    have r := export_restores inv.1 hk cty (export_ops_ok (epwIsIp x))
      (fun mb hmb o ho => export_ops_restore (epwIsIp x) o (hu mb hmb o ho)) e1
    have li := local_inv anyFP inv hw r.1
    refine ⟨li.1, fun b hb => ?_⟩
    by_cases eb : b = w
    · subst eb; exact r.2
    · exact li.2 b hb eb
  · cases e

/-- **`EPW.to_wea()` leaves the object as it was, also when it fails** (77cbf95). -/
theorem C14_epw_to_wea_restores {h h' : Heap} {live : List Nat} {w : Nat} {x : Comp}
    {exported : Bool} {hoys : List Nat} (inv : Inv anyFP h live) (hw : w ∈ live)
    (hk : h.cells w = some (.comp x)) (hu : EpwUnitsConsistent h x)
    (e : epwToWea h w hoys = .ok (exported, h')) :
    Inv anyFP h' live ∧ ∀ b ∈ live, obsA h' b = obsA h b := by
  have cty : CompTyped h x := by
      have ty : TypedA h w := inv.2.1 w hw
      simpa only [TypedA, hk] using ty
  unfold epwToWea at e
  simp only [getComp, hk] at e
  split at e
  · rename_i h1 e1
    have eh : h1 = h' := (Prod.mk.inj (Except.ok.inj e)).2
    subst eh
    have r := export_restores inv.1 hk cty (wea_ops_ok (epwIsIp x))
      (fun mb hmb o ho => wea_ops_restore (epwIsIp x) o (hu mb hmb o ho)) e1
    have li := local_inv anyFP inv hw r.1
    refine ⟨li.1, fun b hb => ?_⟩
    by_cases eb : b = w
    · subst eb; exact r.2
    · exact li.2 b hb eb
  · cases e

/-- Without the hypothesis on the units the exports are still local steps: nothing but the EPW itself can
    change (this is what the history theorem uses). -/
theorem C14_frame_epw_export {h h' : Heap} {live : List Nat} {w : Nat} {exported : Bool}
    (inv : Inv anyFP h live) (hw : w ∈ live)
    (e : epwToFileString h w = .ok (exported, h') ∨ ∃ hoys, epwToWea h w hoys = .ok (exported, h')) :
    Inv anyFP h' live ∧ ∀ b ∈ live, b ≠ w → obsA h' b = obsA h b := by
  have key : ∀ ops x, h.cells w = some (.comp x) →
      foldMembers (fun h mb => mutSeq h mb ops) h x.members = .ok h' →
      Inv anyFP h' live ∧ ∀ b ∈ live, b ≠ w → obsA h' b = obsA h b := by
    intro ops x hk e1
    have cty : CompTyped h x := by
      have ty : TypedA h w := inv.2.1 w hw
      simpa only [TypedA, hk] using ty
    exact local_inv anyFP inv hw (fold_local x.members inv.1 hk cty (fun _ hmb => hmb) e1).1
  rcases e with e | ⟨hoys, e⟩
  · unfold epwToFileString at e
    split at e
    · rename_i x hx
      split at e
      · rename_i h1 e1
        have eh : h1 = h' := (Prod.mk.inj (Except.ok.inj e)).2
        subst eh
        exact key _ x (getComp_some hx) e1
      · cases e
    · cases e
  · unfold epwToWea at e
    split at e
    · rename_i x hx
      split at e
      · rename_i h1 e1
        have eh : h1 = h' := (Prod.mk.inj (Except.ok.inj e)).2
        subst eh
        exact key _ x (getComp_some hx) e1
      · cases e
    · cases e

/-- `EPW.sky_temperature` (with the proposed repair fixes/C14_epw_sky_temperature_metadata.patch): a new
    collection with its own copy of the EPW's metadata. -/
theorem C14_epw_sky_separated {h h' : Heap} {live : List Nat} {w r : Nat} {ap dts : List Nat}
    {vals : List Rat} (inv : Inv anyFP h live) (e : epwSky h w ap dts vals = .ok (h', r)) :
    Inv anyFP h' (live ++ [r]) ∧ (∀ b ∈ live, obsA h' b = obsA h b) ∧ h.next ≤ r :=
  C14_wea_fresh_separated inv (freshA_of_coll (epwSky_fresh inv.1 e))

theorem build_copying (h : Heap) (cls : Cls) (mt vd : Bool) (dt u : Nat) (ap : List Nat)
    (md : List (Nat × OV)) (dts : List Nat) (vals : List Rat) :
    NewSpec.Copying h ⟨.new dt u (.new ap) (.new md), newVals mt vals, dts, mt, cls, vd⟩ := by
  refine ⟨⟨_, _, _, _, rfl, fun r hr => by cases hr⟩, fun r hr => by simp [newVals] at hr, ?_⟩
  intro v t hv hb
  simp only [newVals, ValSrc.new.injEq] at hv
  simp only at hb
  rw [← hv.2, hb]; rfl

/-- A collection built from new parts – also when its values come from a list the caller holds
    (`list(values)` in the values setter) – is separated from everything that exists. -/
theorem C14_build_separated {h : Heap} {live : List Nat} (inv : Inv anyFP h live) (cls : Cls)
    (mt vd : Bool) (dt u : Nat) (ap : List Nat) (md : List (Nat × OV)) (dts : List Nat) (vals : List Rat) :
    Inv anyFP (build h cls mt vd dt u ap md dts vals).1
      (live ++ [(build h cls mt vd dt u ap md dts vals).2]) ∧
    ∀ b ∈ live, obsA (build h cls mt vd dt u ap md dts vals).1 b = obsA h b :=
  have r := C14_copying_separated inv (build_copying h cls mt vd dt u ap md dts vals)
  ⟨r.1, r.2.2⟩

/-! ### WindRose -/

/-- **WindRose construction (fixed code)** keeps two new immutable collections: the caller's direction
    and analysis collections – and every other live object – are unchanged, and the chart's collections
    are separated from them (so later edits on either side do not show on the other). -/
theorem C14_windrose_fixed {h h' : Heap} {live : List Nat} {d a rd ra : Nat} (inv : Inv anyFP h live)
    (e : windrose .fixed h d a = .ok (h', rd, ra)) :
    Inv anyFP h' (live ++ [rd] ++ [ra]) ∧ (∀ b ∈ live, obsA h' b = obsA h b) ∧ h.next ≤ rd ∧ rd < ra := by
  unfold windrose at e
  cases hd : src h d with
  | error x => simp [hd, bind, Except.bind] at e
  | ok sd =>
    cases ha : src h a with
    | error x => simp [hd, ha, bind, Except.bind] at e
    | ok sa =>
      simp only [hd, ha, bind, Except.bind, pure, Except.pure] at e
      split at e
      · cases e
      split at e
      · cases e
      split at e
      · cases e
      split at e
      · cases e
      rename_i h2 ra' e2
      have e' := Except.ok.inj e
      simp only [Prod.mk.injEq] at e'
      obtain ⟨rfl, rfl, rfl⟩ := e'
      have cp := copying_of_shape hd
        (shape_dup sd none none none none false (sd.vals.map ratMod360) sd.k.dts sd.k.cls
          (if sd.k.cls = .hc then true else sd.k.validated))
      have i1 := C14_copying_separated inv cp
      have i2 := C14_sep_preserved_derive i1.1 e2
      refine ⟨i2.1, fun b hb => ?_, i1.2.1, ?_⟩
      · rw [C14_args_unchanged_derive i1.1 e2 b (List.mem_append_left _ hb)]
        exact i1.2.2 b hb
      · have := live_lt i1.1 _ (List.mem_append_right _ (List.mem_singleton_self _))
        exact Nat.lt_of_lt_of_le this i2.2

/-! ### Histories -/

/-- One step of a history on the fixed code; `i`, `j` index the list of live objects. -/
inductive Step
  /-- a deriving operation on live collection `i` -/
  | derive (i : Nat) (op : DOp)
  /-- a mutator on live collection `i` -/
  | mutate (i : Nat) (op : MOp)
  /-- `WindRose(live[i], live[j])`: its two collections become live -/
  | windrose (i j : Nat)
  /-- a new source collection -/
  | build (cls : Cls) (mt vd : Bool) (dt u : Nat) (ap : List Nat) (md : List (Nat × OV))
      (dts : List Nat) (vals : List Rat)
  /-- a constructor call with the caller's list `live[i]` as values -/
  | buildFrom (cls : Cls) (mt vd : Bool) (dt u : Nat) (ap : List Nat) (md : List (Nat × OV))
      (dts : List Nat) (i : Nat)
  /-- the caller creates a list / an argument list -/
  | newList (v : List Rat)
  | newArgs (l : List Operand)
  /-- the caller edits his list `live[i]` -/
  | listMut (i : Nat) (op : LOp)
  /-- `Wea.from_dict(..)`: a Wea that builds its own collections -/
  | weaNew (loc : List MV) (tags ap dts : List Nat) (dni dhi : List Rat) (cont : Bool)
  | weaDup (i : Nat)
  /-- `wea.filter_by_*` (the same collection filter on both collections) -/
  | weaFilter (i : Nat) (op : DOp)
  /-- a collection derived from Wea `live[i]` -/
  | weaDerived (i : Nat) (dt : Nat) (shareAp : Bool) (vals : List Rat)
  /-- a mutator on collection number `k` of composite `live[i]` -/
  | compMember (i k : Nat) (op : MOp)
  /-- `live[i].metadata[k] = v` -/
  | compMetaSet (i k : Nat) (v : MV)
  /-- `EPW.from_missing_values()` with two temperature fields -/
  | epwNew (ap dts : List Nat) (db dp : List Rat)
  | epwConvert (i : Nat) (toIp : Bool)
  /-- `live[i].to_file_string()` (succeeding or not) -/
  | epwToFileString (i : Nat)
  /-- `live[i].to_wea(path, hoys)` (succeeding or not) -/
  | epwToWea (i : Nat) (hoys : List Nat)
  | epwSky (i : Nat) (ap dts : List Nat) (vals : List Rat)

structure St where
  h : Heap
  live : List Nat

/-- Failing steps (and steps addressing a non-existent object) leave everything as it is. -/
def step (st : St) : Step → St
  | .derive i op =>
    match st.live[i]? with
    | none => st
    | some c =>
      match derive .fixed st.h c op with
      | .ok (h', r) => ⟨h', st.live ++ [r]⟩
      | .error _ => st
  | .mutate i op =>
    match st.live[i]? with
    | none => st
    | some c =>
      match mutate .fixed st.h c op with
      | .ok h' => ⟨h', st.live⟩
      | .error _ => st
  | .windrose i j =>
    match st.live[i]?, st.live[j]? with
    | some d, some a =>
      match windrose .fixed st.h d a with
      | .ok (h', rd, ra) => ⟨h', st.live ++ [rd] ++ [ra]⟩
      | .error _ => st
    | _, _ => st
  | .build cls mt vd dt u ap md dts vals =>
    ⟨(build st.h cls mt vd dt u ap md dts vals).1, st.live ++ [(build st.h cls mt vd dt u ap md dts vals).2]⟩
  | .buildFrom cls mt vd dt u ap md dts i =>
    match st.live[i]? with
    | none => st
    | some l =>
      match buildFrom st.h cls mt vd dt u ap md dts l with
      | .ok (h', r) => ⟨h', st.live ++ [r]⟩
      | .error _ => st
  | .newList v => ⟨(newList st.h v).1, st.live ++ [(newList st.h v).2]⟩
  | .newArgs l => ⟨(newArgs st.h l).1, st.live ++ [(newArgs st.h l).2]⟩
  | .listMut i op =>
    match st.live[i]? with
    | none => st
    | some c =>
      match mutList st.h c op with
      | .ok h' => ⟨h', st.live⟩
      | .error _ => st
  | .weaNew loc tags ap dts dni dhi cont =>
    match weaNew st.h loc tags ap dts dni dhi cont with
    | .ok (h', r) => ⟨h', st.live ++ [r]⟩
    | .error _ => st
  | .weaDup i =>
    match st.live[i]? with
    | none => st
    | some c =>
      match weaDup st.h c with
      | .ok (h', r) => ⟨h', st.live ++ [r]⟩
      | .error _ => st
  | .weaFilter i op =>
    match st.live[i]? with
    | none => st
    | some c =>
      match weaFilter st.h c op with
      | .ok (h', r) => ⟨h', st.live ++ [r]⟩
      | .error _ => st
  | .weaDerived i dt sh vals =>
    match st.live[i]? with
    | none => st
    | some c =>
      match weaDerived st.h c dt sh vals with
      | .ok (h', r) => ⟨h', st.live ++ [r]⟩
      | .error _ => st
  | .compMember i k op =>
    match st.live[i]? with
    | none => st
    | some c =>
      match compMember st.h c k op with
      | .ok h' => ⟨h', st.live⟩
      | .error _ => st
  | .compMetaSet i k v =>
    match st.live[i]? with
    | none => st
    | some c =>
      match compMetaSet st.h c k v with
      | .ok h' => ⟨h', st.live⟩
      | .error _ => st
  | .epwNew ap dts db dp =>
    match epwNew st.h ap dts db dp with
    | .ok (h', r) => ⟨h', st.live ++ [r]⟩
    | .error _ => st
  | .epwConvert i t =>
    match st.live[i]? with
    | none => st
    | some c =>
      match epwConvert st.h c t with
      | .ok h' => ⟨h', st.live⟩
      | .error _ => st
  | .epwToFileString i =>
    match st.live[i]? with
    | none => st
    | some c =>
      match epwToFileString st.h c with
      | .ok (_, h') => ⟨h', st.live⟩
      | .error _ => st
  | .epwToWea i hoys =>
    match st.live[i]? with
    | none => st
    | some c =>
      match epwToWea st.h c hoys with
      | .ok (_, h') => ⟨h', st.live⟩
      | .error _ => st
  | .epwSky i ap dts vals =>
    match st.live[i]? with
    | none => st
    | some c =>
      match epwSky st.h c ap dts vals with
      | .ok (h', r) => ⟨h', st.live ++ [r]⟩
      | .error _ => st

def run (st : St) (l : List Step) : St := l.foldl step st

/-- Does the step edit live object number `j` in place? -/
def Step.touches (j : Nat) : Step → Bool
  | .mutate i _ => i = j
  | .listMut i _ => i = j
  | .compMember i _ _ => i = j
  | .compMetaSet i _ _ => i = j
  | .epwConvert i _ => i = j
  | .epwToFileString i => i = j
  | .epwToWea i _ => i = j
  | _ => false

/-- Separated, and no object listed twice. -/
def Good (st : St) : Prop := Inv anyFP st.h st.live ∧ st.live.Nodup

theorem nodup_append_fresh {h : Heap} {live : List Nat} (inv : Inv anyFP h live) (nd : live.Nodup)
    {r : Nat} (hr : h.next ≤ r) : (live ++ [r]).Nodup := by
  refine List.nodup_append.2 ⟨nd, by simp, ?_⟩
  intro x hx y hy
  simp only [List.mem_cons, List.not_mem_nil, or_false] at hy
  subst hy
  have := live_lt inv x hx
  omega

theorem index_ne {live : List Nat} (nd : live.Nodup) {i j : Nat} {c b : Nat}
    (hc : live[i]? = some c) (hj : live[j]? = some b) (ht : ¬ i = j) : b ≠ c := by
  intro e'
  subst e'
  obtain ⟨hi1, hi2⟩ := List.getElem?_eq_some_iff.1 hc
  obtain ⟨hj1, hj2⟩ := List.getElem?_eq_some_iff.1 hj
  exact ht ((List.getElem_inj nd).1 (hi2.trans hj2.symm))

theorem step_good (st : St) (g : Good st) (s : Step) :
    Good (step st s) ∧ (∃ extra, (step st s).live = st.live ++ extra) ∧
    ∀ j b, st.live[j]? = some b → s.touches j = false → obsA (step st s).h b = obsA st.h b := by
  obtain ⟨inv, nd⟩ := g
  have stay : Good st ∧ (∃ extra, st.live = st.live ++ extra) ∧
      ∀ j b, st.live[j]? = some b → s.touches j = false → obsA st.h b = obsA st.h b :=
    ⟨⟨inv, nd⟩, ⟨[], by simp⟩, fun _ _ _ _ => rfl⟩
  cases s with
  | derive i op =>
    simp only [step]
    split
    · exact stay
    · rename_i c hc
      split
      · rename_i h' r e
        have hp := C14_sep_preserved_derive inv e
        exact ⟨⟨hp.1, nodup_append_fresh inv nd hp.2⟩, ⟨[r], rfl⟩,
          fun j b hj _ => C14_args_unchanged_derive inv e b (List.mem_of_getElem? hj)⟩
      · exact stay
  | mutate i op =>
    simp only [step]
    split
    · exact stay
    · rename_i c hc
      have hcl : c ∈ st.live := List.mem_of_getElem? hc
      split
      · rename_i h' e
        refine ⟨⟨C14_sep_preserved_mutate inv hcl e, nd⟩, ⟨[], by simp⟩, fun j b hj ht => ?_⟩
        simp only [Step.touches, decide_eq_false_iff_not] at ht
        exact C14_frame inv hcl (List.mem_of_getElem? hj) (index_ne nd hc hj ht) e
      · exact stay
  | windrose i j =>
    simp only [step]
    split
    · rename_i d a hd ha
      split
      · rename_i h' rd ra e
        have hp := C14_windrose_fixed inv e
        have inv1 : Inv anyFP h' (st.live ++ [rd]) := by
          obtain ⟨wf, ty, sep⟩ := hp.1
          exact ⟨wf, fun c hc => ty c (List.mem_append_left _ hc),
            fun x hx y hy => sep x (List.mem_append_left _ hx) y (List.mem_append_left _ hy)⟩
        have nd1 : (st.live ++ [rd]).Nodup := nodup_append_fresh inv nd hp.2.2.1
        have nd2 : (st.live ++ [rd] ++ [ra]).Nodup := by
          refine List.nodup_append.2 ⟨nd1, by simp, ?_⟩
          intro x hx y hy
          simp only [List.mem_cons, List.not_mem_nil, or_false] at hy
          subst hy
          rcases List.mem_append.1 hx with h1 | h1
          · have := live_lt inv x h1; have := hp.2.2.1; have := hp.2.2.2; omega
          · simp only [List.mem_cons, List.not_mem_nil, or_false] at h1
            have := hp.2.2.2; omega
        exact ⟨⟨hp.1, nd2⟩, ⟨[rd, ra], by simp⟩,
          fun j b hj _ => hp.2.1 b (List.mem_of_getElem? hj)⟩
      · exact stay
    · exact stay
  | build cls mt vd dt u ap md dts vals =>
    simp only [step]
    have hp := C14_copying_separated inv (build_copying st.h cls mt vd dt u ap md dts vals)
    exact ⟨⟨hp.1, nodup_append_fresh inv nd hp.2.1⟩, ⟨[_], rfl⟩,
      fun j b hj _ => hp.2.2 b (List.mem_of_getElem? hj)⟩
  | buildFrom cls mt vd dt u ap md dts i =>
    simp only [step]
    split
    · exact stay
    · rename_i l hl
      split
      · rename_i h' r e
        unfold buildFrom at e
        split at e
        · rename_i v t _
          split at e
          · cases e
          have e' := Except.ok.inj e
          have hp := C14_copying_separated inv (build_copying st.h cls mt vd dt u ap md dts v)
          unfold build at e'
          rw [e'] at hp
          exact ⟨⟨hp.1, nodup_append_fresh inv nd hp.2.1⟩, ⟨[r], rfl⟩,
            fun j b hj _ => hp.2.2 b (List.mem_of_getElem? hj)⟩
        · cases e
      · exact stay
  | newList v =>
    simp only [step]
    have fr := freshA_alloc inv.1 (.vals v false) (Or.inl ⟨v, rfl⟩)
    have hp := fresh_inv anyFP inv (live_lt inv) fr
    exact ⟨⟨hp.1, nodup_append_fresh inv nd fr.self_new⟩, ⟨[_], rfl⟩,
      fun j b hj _ => hp.2 b (List.mem_of_getElem? hj)⟩
  | newArgs l =>
    simp only [step]
    have fr := freshA_alloc inv.1 (.args l) (Or.inr ⟨l, rfl⟩)
    have hp := fresh_inv anyFP inv (live_lt inv) fr
    exact ⟨⟨hp.1, nodup_append_fresh inv nd fr.self_new⟩, ⟨[_], rfl⟩,
      fun j b hj _ => hp.2 b (List.mem_of_getElem? hj)⟩
  | listMut i op =>
    simp only [step]
    split
    · exact stay
    · rename_i c hc
      have hcl : c ∈ st.live := List.mem_of_getElem? hc
      split
      · rename_i h' e
        have hp := C14_frame_list inv hcl e
        refine ⟨⟨hp.1, nd⟩, ⟨[], by simp⟩, fun j b hj ht => ?_⟩
        simp only [Step.touches, decide_eq_false_iff_not] at ht
        exact hp.2 b (List.mem_of_getElem? hj) (index_ne nd hc hj ht)
      · exact stay
  | weaNew loc tags ap dts dni dhi cont =>
    simp only [step]
    split
    · rename_i h' r e
      have hp := C14_wea_new inv e
      exact ⟨⟨hp.1, nodup_append_fresh inv nd hp.2.2⟩, ⟨[r], rfl⟩,
        fun j b hj _ => hp.2.1 b (List.mem_of_getElem? hj)⟩
    · exact stay
  | weaDup i =>
    simp only [step]
    split
    · exact stay
    · split
      · rename_i h' r e
        have hp := C14_wea_duplicate inv e
        exact ⟨⟨hp.1, nodup_append_fresh inv nd hp.2.2⟩, ⟨[r], rfl⟩,
          fun j b hj _ => hp.2.1 b (List.mem_of_getElem? hj)⟩
      · exact stay
  | weaFilter i op =>
    simp only [step]
    split
    · exact stay
    · split
      · rename_i h' r e
        have hp := C14_wea_filter inv e
        exact ⟨⟨hp.1, nodup_append_fresh inv nd hp.2.2⟩, ⟨[r], rfl⟩,
          fun j b hj _ => hp.2.1 b (List.mem_of_getElem? hj)⟩
      · exact stay
  | weaDerived i dt sh vals =>
    simp only [step]
    split
    · exact stay
    · split
      · rename_i h' r e
        have hp := C14_wea_derived inv e
        exact ⟨⟨hp.1, nodup_append_fresh inv nd hp.2.2⟩, ⟨[r], rfl⟩,
          fun j b hj _ => hp.2.1 b (List.mem_of_getElem? hj)⟩
      · exact stay
  | compMember i k op =>
    simp only [step]
    split
    · exact stay
    · rename_i c hc
      have hcl : c ∈ st.live := List.mem_of_getElem? hc
      split
      · rename_i h' e
        have hp := C14_frame_member inv hcl e
        refine ⟨⟨hp.1, nd⟩, ⟨[], by simp⟩, fun j b hj ht => ?_⟩
        simp only [Step.touches, decide_eq_false_iff_not] at ht
        exact hp.2 b (List.mem_of_getElem? hj) (index_ne nd hc hj ht)
      · exact stay
  | compMetaSet i k v =>
    simp only [step]
    split
    · exact stay
    · rename_i c hc
      have hcl : c ∈ st.live := List.mem_of_getElem? hc
      split
      · rename_i h' e
        have hp := C14_frame_comp_metadata inv hcl e
        refine ⟨⟨hp.1, nd⟩, ⟨[], by simp⟩, fun j b hj ht => ?_⟩
        simp only [Step.touches, decide_eq_false_iff_not] at ht
        exact hp.2 b (List.mem_of_getElem? hj) (index_ne nd hc hj ht)
      · exact stay
  | epwNew ap dts db dp =>
    simp only [step]
    split
    · rename_i h' r e
      have hp := C14_epw_new inv e
      exact ⟨⟨hp.1, nodup_append_fresh inv nd hp.2.2⟩, ⟨[r], rfl⟩,
        fun j b hj _ => hp.2.1 b (List.mem_of_getElem? hj)⟩
    · exact stay
  | epwConvert i t =>
    simp only [step]
    split
    · exact stay
    · rename_i c hc
      have hcl : c ∈ st.live := List.mem_of_getElem? hc
      split
      · rename_i h' e
        have hp := C14_frame_epw_convert inv hcl e
        refine ⟨⟨hp.1, nd⟩, ⟨[], by simp⟩, fun j b hj ht => ?_⟩
        simp only [Step.touches, decide_eq_false_iff_not] at ht
        exact hp.2 b (List.mem_of_getElem? hj) (index_ne nd hc hj ht)
      · exact stay
  | epwToFileString i =>
    simp only [step]
    split
    · exact stay
    · rename_i c hc
      have hcl : c ∈ st.live := List.mem_of_getElem? hc
      split
      · rename_i ex h' e
        have hp := C14_frame_epw_export inv hcl (Or.inl e)
        refine ⟨⟨hp.1, nd⟩, ⟨[], by simp⟩, fun j b hj ht => ?_⟩
        simp only [Step.touches, decide_eq_false_iff_not] at ht
        exact hp.2 b (List.mem_of_getElem? hj) (index_ne nd hc hj ht)
      · exact stay
  | epwToWea i hoys =>
    simp only [step]
    split
    · exact stay
    · rename_i c hc
      have hcl : c ∈ st.live := List.mem_of_getElem? hc
      split
      · rename_i ex h' e
        have hp := C14_frame_epw_export inv hcl (Or.inr ⟨hoys, e⟩)
        refine ⟨⟨hp.1, nd⟩, ⟨[], by simp⟩, fun j b hj ht => ?_⟩
        simp only [Step.touches, decide_eq_false_iff_not] at ht
        exact hp.2 b (List.mem_of_getElem? hj) (index_ne nd hc hj ht)
      · exact stay
  | epwSky i ap dts vals =>
    simp only [step]
    split
    · exact stay
    · split
      · rename_i h' r e
        have hp := C14_epw_sky_separated inv e
        exact ⟨⟨hp.1, nodup_append_fresh inv nd hp.2.2⟩, ⟨[r], rfl⟩,
          fun j b hj _ => hp.2.1 b (List.mem_of_getElem? hj)⟩
      · exact stay

/-- **Non-interference for every history.**  Start from separated live objects (e.g. nothing at all).
    Run ANY sequence – of any length – of steps of the fixed code: building sources (from literals or
    from a list the caller holds), deriving operations, WindRose constructions, mutators of collections,
    the caller creating and editing his own lists and argument lists, Wea constructions (`from_dict`,
    `duplicate`, `filter_by_*`), collections derived from a Wea, mutators applied to a Wea's collections
    or to its metadata, EPW objects with their unit conversions and exports (`to_file_string`, `to_wea`,
    which count as edits of the EPW here; that they in fact restore it is
    `C14_epw_to_file_string_restores` / `C14_epw_to_wea_restores`); each step addressed to any live
    object (sources or earlier results).  Then (1) the live objects are still separated, and (2) every
    object that was live at the start and was never itself edited in place reports exactly what it
    reported at the start – whatever was derived from it and whatever was done to the derived objects,
    and vice versa (apply the theorem from the state in which the derived object appeared).  For a list
    the caller passed as an argument this is argument hygiene: neither the call nor anything done later
    to the result changes it, and editing it later does not change the result. -/
theorem C14_noninterference (l : List Step) (st : St) (g : Good st) :
    Good (run st l) ∧
    ∀ j b, st.live[j]? = some b → (∀ s ∈ l, s.touches j = false) →
      obsA (run st l).h b = obsA st.h b := by
  induction l generalizing st with
  | nil => exact ⟨g, fun _ _ _ _ => rfl⟩
  | cons s l ih =>
    obtain ⟨g1, ⟨extra, hex⟩, hobs⟩ := step_good st g s
    obtain ⟨g2, hrest⟩ := ih (step st s) g1
    refine ⟨g2, fun j b hj ht => ?_⟩
    have hj' : (step st s).live[j]? = some b := by
      rw [hex]
      obtain ⟨hj1, hj2⟩ := List.getElem?_eq_some_iff.1 hj
      exact List.getElem?_eq_some_iff.2 ⟨by simp; omega, by rw [List.getElem_append_left hj1]; exact hj2⟩
    have := hrest j b hj' (fun s' hs' => ht s' (List.mem_cons_of_mem _ hs'))
    simp only [run, List.foldl_cons] at this ⊢
    rw [this]
    exact hobs j b hj (ht s (List.mem_cons_self))

theorem inv_empty : Inv anyFP Heap.empty [] := by
  refine ⟨fun _ _ => rfl, ?_, ?_⟩ <;> intro c hc <;> cases hc

/-- Histories may start from nothing: every source is then built by a step of the history. -/
theorem C14_noninterference_from_empty (l : List Step) :
    Good (run ⟨Heap.empty, []⟩ l) := (C14_noninterference l ⟨Heap.empty, []⟩ ⟨inv_empty, by simp⟩).1

/-! ### Immutability -/

/-- **Immutability (values, unit, datetimes, period).**  On the fixed code every mutator other than a
    metadata edit is rejected for an immutable collection, so nothing changes. -/
theorem C14_immutable {h : Heap} {c : Nat} {s : Src} (hs : src h c = .ok s) (him : s.k.isMut = false)
    (op : MOp) (hop : ∀ k v, op ≠ .metaSet k v) (hop' : ∀ m, op ≠ .metaReplace m)
    (hop'' : ∀ k x, op ≠ .metaAppend k x) :
    mutate .fixed h c op = .error .attr := by
  unfold mutate
  simp only [hs, bind, Except.bind, him]
  cases op with
  | metaSet k v => exact absurd rfl (hop k v)
  | metaReplace m => exact absurd rfl (hop' m)
  | metaAppend k x => exact absurd rfl (hop'' k x)
  | cullInplace ts => by_cases hh : isHourly s.k.cls <;> simp [hh]
  | setValues v => simp [setVals, him]
  | _ => simp

/-- Derived objects do not open a route either: whatever is derived from an immutable collection and
    then mutated, the immutable collection keeps its snapshot (instance of `C14_noninterference`). -/
theorem C14_immutable_through_derived (l : List Step) (st : St) (g : Good st) (j b : Nat)
    (hj : st.live[j]? = some b) (ht : ∀ s ∈ l, s.touches j = false) :
    obsA (run st l).h b = obsA st.h b :=
  (C14_noninterference l st g).2 j b hj ht

/-! ### Non-vacuity and counterexamples (evaluated by the kernel) -/

/-- A one-value continuous source whose metadata holds a token and a nested list. -/
def exSrc (mt : Bool) : Heap × Nat :=
  build Heap.empty .hc mt true 0 0 [1, 1, 0, 1, 1, 23, 1, 0] [(1, .tok "1"), (2, .lst ["1", "2"])] [0] [5]

/-- Non-vacuity: a built source satisfies the hypothesis of the history theorem. -/
example : Good ⟨(exSrc true).1, [(exSrc true).2]⟩ :=
  ⟨(C14_build_separated inv_empty .hc true true 0 0 _ _ _ _).1, by simp⟩

def mdOf (h : Heap) (c : Nat) : Option (List (Nat × OV)) := (obs h c).map (·.md)

/-- Non-vacuity of `C14_noninterference`: a history from the empty heap – a source, a duplicate whose
    nested metadata list is appended to and whose unit is converted, a caller's list that is assigned to
    the source's duplicate and edited afterwards – really runs (3 live objects), the source keeps unit C
    and its nested list `["1","2"]`, the duplicate's nested list grew, and the caller's list still reads
    `[7]` after the collection that received it was edited. -/
example :
    let fin := run ⟨Heap.empty, []⟩
      [.build .hc true true 0 0 [1, 1, 0, 1, 1, 23, 1, 0] [(1, .tok "1"), (2, .lst ["1", "2"])] [0] [5],
       .derive 0 .dup, .mutate 1 (.metaAppend 2 "3"), .mutate 1 (.convUnit 1), .newList [7],
       .mutate 1 (.setValuesRef 9), .mutate 1 (.setItem 0 0)]
    fin.live.length = 3 ∧ (fin.live[0]?.bind (obs fin.h)).map (·.unit) = some 0 ∧
      fin.live[0]?.bind (mdOf fin.h) = some [(1, .tok "1"), (2, .lst ["1", "2"])] ∧
      fin.live[1]?.bind (mdOf fin.h) = some [(1, .tok "1"), (2, .lst ["1", "2", "3"])] ∧
      (fin.live[2]?.map (obsA fin.h)) = some (.list [7]) := by decide

/-- `r = -a; r.convert_to_unit('F')` and what `a` reports afterwards: (unit before, unit after). -/
def cxNeg (m : Mode) : Option (Nat × Nat) :=
  let (h0, a) := exSrc true
  match derive m h0 a .neg with
  | .ok (h1, r) =>
    match mutate m h1 r (.convUnit 1) with
    | .ok h2 => match obs h0 a, obs h2 a with
      | some o0, some o2 => some (o0.unit, o2.unit)
      | _, _ => none
    | .error _ => none
  | .error _ => none

/-- **Pinned tree: continuous arithmetic shared the header.**  After `r = -a; r.convert_to_unit('F')`
    the source `a` reported unit F (its values still in C).  Repaired (1bbd232): `a` keeps unit C. -/
theorem C14_continuous_arith_shares_pinned_counterexample :
    cxNeg .pinned = some (0, 1) ∧ cxNeg .fixed = some (0, 0) := by decide

/-- `i = a.to_immutable(); a.convert_to_unit('F')`: unit reported by the immutable copy. -/
def cxImm (m : Mode) : Option (Nat × Nat) :=
  let (h0, a) := exSrc true
  match derive m h0 a .toImmutable with
  | .ok (h1, r) =>
    match mutate m h1 a (.convUnit 1) with
    | .ok h2 => match obs h1 r, obs h2 r with
      | some o0, some o2 => some (o0.unit, o2.unit)
      | _, _ => none
    | .error _ => none
  | .error _ => none

/-- **Pinned tree: `to_immutable` shared the header** (repaired: d658a02). -/
theorem C14_to_immutable_shares_pinned_counterexample :
    cxImm .pinned = some (0, 1) ∧ cxImm .fixed = some (0, 0) := by decide

/-- `g = a.get_aligned_collection(5); g.header.metadata[3] = "9"`: number of metadata keys of `a`. -/
def cxAligned (m : Mode) : Option (Nat × Nat) :=
  let (h0, a) := exSrc true
  match derive m h0 a (.aligned (.scalar 5) none none) with
  | .ok (h1, r) =>
    match mutate m h1 r (.metaSet 3 (.tok "9")) with
    | .ok h2 => match obs h0 a, obs h2 a with
      | some o0, some o2 => some (o0.md.length, o2.md.length)
      | _, _ => none
    | .error _ => none
  | .error _ => none

/-- **Pinned tree: `get_aligned_collection` shared the metadata dict** (repaired: 1e6921b). -/
theorem C14_aligned_shares_metadata_pinned_counterexample :
    cxAligned .pinned = some (2, 3) ∧ cxAligned .fixed = some (2, 2) := by decide

/-- `imm.convert_to_unit('F')` on an immutable collection: does it succeed? -/
def cxImmConvert (m : Mode) : Bool :=
  let (h0, a) := exSrc false
  match mutate m h0 a (.convUnit 1) with
  | .ok _ => true
  | .error _ => false

/-- **Pinned tree: `convert_to_unit` edited an immutable collection**; the fixed code raises (de57997). -/
theorem C14_immutable_convert_pinned_counterexample :
    cxImmConvert .pinned = true ∧ cxImmConvert .fixed = false := by decide

/-- `imm.header.metadata[3] = "9"` on an immutable collection (fixed code): metadata keys before/after. -/
def cxImmMeta : Option (Nat × Nat) :=
  let (h0, a) := exSrc false
  match mutate .fixed h0 a (.metaSet 3 (.tok "9")) with
  | .ok h2 => match obs h0 a, obs h2 a with
    | some o0, some o2 => some (o0.md.length, o2.md.length)
    | _, _ => none
  | .error _ => none

/-- **Open finding (also after the fixes): the metadata of an immutable collection can be edited through
    its header** – the immutability theorem `C14_immutable` therefore excludes the metadata mutators.
    known_findings.d/C14.json: C14-immutable-header-metadata-editable. -/
theorem C14_immutable_metadata_counterexample : cxImmMeta = some (2, 3) := by decide

/-- The nested list stored under metadata key `k`, as reported. -/
def nestedAt (h : Heap) (c k : Nat) : List MV :=
  match mdOf h c with
  | some m => match m.find? (·.1 = k) with | some (_, .lst l) => l | _ => []
  | none => []

/-- A copy of `a` whose header copies the metadata dict *shallowly* (`dict(metadata)` instead of
    `deepcopy`): new dict, the same nested lists; then `copy.header.metadata[2].append("3")`.
    Returns the source's nested list before and after. -/
def cxShallow (deep : Bool) : Option (List MV × List MV) :=
  let (h0, a) := exSrc true
  match src h0 a with
  | .error _ => none
  | .ok s =>
    let md : MetaSrc := if deep then .new s.md else .shallow s.rmd
    let (h1, r) := mkColl h0 ⟨.new s.hd.dtype s.hd.unit (.new s.ap) md, newVals true s.vals, s.k.dts, true,
      s.k.cls, true⟩
    match mutate .fixed h1 r (.metaAppend 2 "3") with
    | .ok h2 => some (nestedAt h0 a 2, nestedAt h2 a 2)
    | .error _ => none

/-- **Why the copy of the metadata has to be deep.**  With a shallow copy of the metadata dict the nested
    list is the source's own list: appending to it through the copy changes what the source reports
    (`["1","2"]` becomes `["1","2","3"]`); with the deep copy that `Header.duplicate` makes the source is
    unchanged.  (A header copy that shares nested lists is exactly what the sharing signature flags as
    `l`.) -/
theorem C14_shallow_metadata_copy_counterexample :
    cxShallow false = some (["1", "2"], ["1", "2", "3"]) ∧
    cxShallow true = some (["1", "2"], ["1", "2"]) := by decide

/-- A collection whose values cell *is* the caller's list (what a values setter without `list(values)`
    would build), then `coll[0] = 0`: the caller's list before and after. -/
def cxAliasList (copy : Bool) : Option (ObsAny × ObsAny) :=
  let (h0, l) := newList Heap.empty [7, 8]
  let vals : ValSrc := if copy then .new [7, 8] false else .share l
  let (h1, r) := mkColl h0 ⟨.new 0 0 (.new [1, 1, 0, 1, 1, 23, 1, 0]) (.new []), vals, [0, 60], true, .hd, false⟩
  match mutate .fixed h1 r (.setItem 0 0) with
  | .ok h2 => some (obsA h0 l, obsA h2 l)
  | .error _ => none

/-- **Why the values setter has to copy.**  If the collection kept the caller's list, `coll[0] = 0` would
    edit the caller's list; with `list(values)` it does not. -/
theorem C14_aliased_values_list_counterexample :
    cxAliasList false = some (.list [7, 8], .list [0, 8]) ∧
    cxAliasList true = some (.list [7, 8], .list [7, 8]) := by decide

/-! ### Wea and EPW: non-vacuity and the container semantics of `Wea(...)` -/

/-- The values of the member collections of composite `live[i]`, and the size of its metadata. -/
def memberVals (st : St) (i : Nat) : Option (Nat × List (Option (List Rat))) :=
  match st.live[i]?.map (obsA st.h) with
  | some (.comp o) => some (o.md.length, o.members.map fun m => m.map (·.vals))
  | _ => none

/-- A Wea from `from_dict` (two hours), a collection derived from it whose metadata is then edited, a
    filtered Wea, an edit of the first Wea's direct-normal collection: three live objects; the Wea's own
    metadata still has three keys, the filtered Wea still reports the unedited value 7. -/
example :
    let fin := run ⟨Heap.empty, []⟩
      [.weaNew ["'s'", "'c'", "'t'"] [1, 0, 0] [1, 1, 0, 1, 1, 1, 1, 0] [0, 60] [7, 8] [1, 2] false,
       .weaDerived 0 12 true [3, 4], .mutate 1 (.metaSet 1 (.tok "9")),
       .weaFilter 0 (.filterPattern [true]), .compMember 0 0 (.setItem 0 0)]
    fin.live.length = 3 ∧ memberVals fin 0 = some (3, [some [0, 8], some [1, 2]]) ∧
      memberVals fin 2 = some (3, [some [7, 8], some [1, 2]]) := by decide

/-- `w = Wea(loc, dni, dhi)` with a collection the caller holds, then `dni[0] = 0`: first value of the
    Wea's direct-normal collection before and after. -/
def cxWeaInit : Option (Option (List Rat) × Option (List Rat)) :=
  let (h0, d) := build Heap.empty .hd true true 10 7 [1, 1, 0, 1, 1, 1, 1, 0] [] [0, 60] [7, 8]
  let (h1, f) := build h0 .hd true true 11 7 [1, 1, 0, 1, 1, 1, 1, 0] [] [0, 60] [1, 2]
  match weaInit h1 ["'s'", "'c'", "'t'"] d f with
  | .ok (h2, w) =>
    match mutate .fixed h2 d (.setItem 0 0) with
    | .ok h3 =>
      let dni := fun (h : Heap) => match obsA h w with
        | .comp o => (o.members.head?.bind id).map (·.vals)
        | _ => none
      some (dni h2, dni h3)
    | .error _ => none
  | .error _ => none

/-- **`Wea(location, dni, dhi)` keeps the caller's collections** (container semantics, by design): an
    edit of `dni` shows in the Wea.  This constructor is therefore *not* a step of
    `C14_noninterference`; the constructors that build their own collections, `duplicate` and the
    filters are. -/
theorem C14_wea_init_keeps_references_counterexample :
    cxWeaInit = some (some [7, 8], some [0, 8]) := by decide

def exEpw0 : St :=
  run ⟨Heap.empty, []⟩ [.epwNew [1, 1, 0, 1, 1, 1, 1, 0] [0, 60] [5, 10] [0, -5], .epwConvert 0 true]

/-- `to_file_string` on a two-hour EPW in IP units: `(exported, the EPW reads as before)`. -/
def exEpwFlags : Bool × Bool :=
  match exEpw0.live[0]? with
  | some e =>
    match epwToFileString exEpw0.h e with
    | .ok (exported, h') => (exported, decide (obsA h' e = obsA exEpw0.h e))
    | .error _ => (true, false)
  | none => (true, false)

/-- A two-hour "EPW" in IP units (so the export fails: not a full year): `to_file_string` reports the
    failure and the object – in F: 41, 50 / 32, 23 – reads what it read before; instance of
    `C14_epw_to_file_string_restores` evaluated by the kernel. -/
example : exEpwFlags = (false, true) ∧
    memberVals exEpw0 0 = some (0, [some [41, 50], some [32, 23]]) := by decide +kernel

/-! ### Round 3: the history machine with outcomes — refused steps, reads, "asked again" -/

/-- Outcome of one step: the new state, or the error with which the call was refused (`index`: the step
    addresses an object that does not exist).  An export that reports its failure after having restored
    the object (`.ok (false, h')` of `epwToFileString` / `epwToWea`) counts as answered here: that its
    state `h'` reads like the old one is `C14_epw_to_file_string_restores` / `C14_epw_to_wea_restores`. -/
def stepExec (st : St) : Step → Except Err St
  | .derive i op =>
    match st.live[i]? with
    | none => .error .index
    | some c =>
      match derive .fixed st.h c op with
      | .ok (h', r) => .ok ⟨h', st.live ++ [r]⟩
      | .error e => .error e
  | .mutate i op =>
    match st.live[i]? with
    | none => .error .index
    | some c =>
      match mutate .fixed st.h c op with
      | .ok h' => .ok ⟨h', st.live⟩
      | .error e => .error e
  | .windrose i j =>
    match st.live[i]?, st.live[j]? with
    | some d, some a =>
      match windrose .fixed st.h d a with
      | .ok (h', rd, ra) => .ok ⟨h', st.live ++ [rd] ++ [ra]⟩
      | .error e => .error e
    | _, _ => .error .index
  | .build cls mt vd dt u ap md dts vals =>
    .ok ⟨(build st.h cls mt vd dt u ap md dts vals).1,
      st.live ++ [(build st.h cls mt vd dt u ap md dts vals).2]⟩
  | .buildFrom cls mt vd dt u ap md dts i =>
    match st.live[i]? with
    | none => .error .index
    | some l =>
      match buildFrom st.h cls mt vd dt u ap md dts l with
      | .ok (h', r) => .ok ⟨h', st.live ++ [r]⟩
      | .error e => .error e
  | .newList v => .ok ⟨(newList st.h v).1, st.live ++ [(newList st.h v).2]⟩
  | .newArgs l => .ok ⟨(newArgs st.h l).1, st.live ++ [(newArgs st.h l).2]⟩
  | .listMut i op =>
    match st.live[i]? with
    | none => .error .index
    | some c =>
      match mutList st.h c op with
      | .ok h' => .ok ⟨h', st.live⟩
      | .error e => .error e
  | .weaNew loc tags ap dts dni dhi cont =>
    match weaNew st.h loc tags ap dts dni dhi cont with
    | .ok (h', r) => .ok ⟨h', st.live ++ [r]⟩
    | .error e => .error e
  | .weaDup i =>
    match st.live[i]? with
    | none => .error .index
    | some c =>
      match weaDup st.h c with
      | .ok (h', r) => .ok ⟨h', st.live ++ [r]⟩
      | .error e => .error e
  | .weaFilter i op =>
    match st.live[i]? with
    | none => .error .index
    | some c =>
      match weaFilter st.h c op with
      | .ok (h', r) => .ok ⟨h', st.live ++ [r]⟩
      | .error e => .error e
  | .weaDerived i dt sh vals =>
    match st.live[i]? with
    | none => .error .index
    | some c =>
      match weaDerived st.h c dt sh vals with
      | .ok (h', r) => .ok ⟨h', st.live ++ [r]⟩
      | .error e => .error e
  | .compMember i k op =>
    match st.live[i]? with
    | none => .error .index
    | some c =>
      match compMember st.h c k op with
      | .ok h' => .ok ⟨h', st.live⟩
      | .error e => .error e
  | .compMetaSet i k v =>
    match st.live[i]? with
    | none => .error .index
    | some c =>
      match compMetaSet st.h c k v with
      | .ok h' => .ok ⟨h', st.live⟩
      | .error e => .error e
  | .epwNew ap dts db dp =>
    match epwNew st.h ap dts db dp with
    | .ok (h', r) => .ok ⟨h', st.live ++ [r]⟩
    | .error e => .error e
  | .epwConvert i t =>
    match st.live[i]? with
    | none => .error .index
    | some c =>
      match epwConvert st.h c t with
      | .ok h' => .ok ⟨h', st.live⟩
      | .error e => .error e
  | .epwToFileString i =>
    match st.live[i]? with
    | none => .error .index
    | some c =>
      match epwToFileString st.h c with
      | .ok (_, h') => .ok ⟨h', st.live⟩
      | .error e => .error e
  | .epwToWea i hoys =>
    match st.live[i]? with
    | none => .error .index
    | some c =>
      match epwToWea st.h c hoys with
      | .ok (_, h') => .ok ⟨h', st.live⟩
      | .error e => .error e
  | .epwSky i ap dts vals =>
    match st.live[i]? with
    | none => .error .index
    | some c =>
      match epwSky st.h c ap dts vals with
      | .ok (h', r) => .ok ⟨h', st.live ++ [r]⟩
      | .error e => .error e

/-- The machine with outputs: new state and what the caller sees (`none`: answered, `some e`: refused). -/
def stepOut (st : St) (s : Step) : St × Option Err :=
  match stepExec st s with
  | .ok st' => (st', none)
  | .error e => (st, some e)

/-- `step` (the machine of `C14_noninterference`) is the state component of `stepOut`. -/
theorem step_eq_stepOut (st : St) (s : Step) : step st s = (stepOut st s).1 := by
  cases s <;> simp only [step, stepOut, stepExec] <;> (repeat' (first | rfl | split)) <;>
    (first | rfl | simp_all)

/-- **A refused step preserves everything.**  When a step of a history is refused (the call raises: bad
    unit, wrong length, index out of range, immutable target, misaligned operands, a non-existent object
    ...), the state after it IS the state before it – heap and list of live objects – so every live
    object (the target, the arguments, everything else) reports exactly what it reported before. -/
theorem C14_refused_preserves (st : St) (s : Step) (e : Err) (hr : (stepOut st s).2 = some e) :
    step st s = st ∧ ∀ b, obsA (step st s).h b = obsA st.h b := by
  have : step st s = st := by
    rw [step_eq_stepOut]
    unfold stepOut at hr ⊢
    split at hr
    · cases hr
    · rename_i e' he
      simp [he]
  exact ⟨this, fun b => by rw [this]⟩

/-- Reading steps: they build or derive objects and edit nothing in place. -/
def Step.isRead : Step → Bool
  | .mutate .. | .listMut .. | .compMember .. | .compMetaSet .. | .epwConvert .. | .epwToFileString ..
  | .epwToWea .. => false
  | _ => true

theorem isRead_touches {s : Step} (hs : s.isRead = true) (j : Nat) : s.touches j = false := by
  cases s <;> simp_all [Step.isRead, Step.touches]

/-- **Reads are pure, in any order and any number.**  Any sequence of reading steps (every deriving
    operation, WindRose / Wea / EPW constructions, Wea filters and derived collections,
    `sky_temperature`, sources and caller's lists being created), each answered or refused, leaves
    every object that was live before reporting exactly what it reported; hence two different such
    sequences (another order, repetitions, more or fewer questions) leave the same reports. -/
theorem C14_read_pure (st : St) (g : Good st) (l₁ l₂ : List Step)
    (h₁ : ∀ s ∈ l₁, s.isRead = true) (h₂ : ∀ s ∈ l₂, s.isRead = true) (j b : Nat)
    (hj : st.live[j]? = some b) :
    obsA (run st l₁).h b = obsA st.h b ∧ obsA (run st l₁).h b = obsA (run st l₂).h b := by
  have e₁ := (C14_noninterference l₁ st g).2 j b hj (fun s hs => isRead_touches (h₁ s hs) j)
  have e₂ := (C14_noninterference l₂ st g).2 j b hj (fun s hs => isRead_touches (h₂ s hs) j)
  exact ⟨e₁, e₁.trans e₂.symm⟩

/-- **What an object reports is a function of its own public state, not of the history (partial).**
    Take any two histories from the same separated state – different orders, repetitions of the same
    question, answers of earlier questions edited in between, refused steps, other objects converted or
    culled – neither of which edits object `j` in place.  Then `j` reports the same after both, namely
    what a history-free (fresh) `j` reports.  The model has no slot in which an earlier answer could be
    kept: each answered deriving step allocates its result from the CURRENT cells of its sources
    (`derive`, `weaDerived`, `epwSky` are functions of the heap and the arguments only).
    Missing for the full statement `C14_history_refines_fresh`: that the *result* of a deriving step
    asked again observes like the first result (congruence of `specOf` in the observation of its
    sources, for all 25 operations); the harness checks that clause on the real objects (`again`). -/
theorem C14_history_refines_fresh_partial (st : St) (g : Good st) (l₁ l₂ : List Step) (j b : Nat)
    (hj : st.live[j]? = some b) (t₁ : ∀ s ∈ l₁, s.touches j = false) (t₂ : ∀ s ∈ l₂, s.touches j = false) :
    obsA (run st l₁).h b = obsA (run st []).h b ∧ obsA (run st l₁).h b = obsA (run st l₂).h b := by
  have e₁ := (C14_noninterference l₁ st g).2 j b hj t₁
  have e₂ := (C14_noninterference l₂ st g).2 j b hj t₂
  exact ⟨e₁, e₁.trans e₂.symm⟩

/-- Units and first values reported by the objects of a state. -/
def unitsOf (st : St) : List (Option (Nat × List Rat)) :=
  st.live.map fun c => (obs st.h c).map fun o => (o.unit, o.vals)

/-- Non-vacuity ("asked again" in the model): a source; `duplicate()`; the duplicate converted to F and
    overwritten; an `X`-unit conversion that is refused; `duplicate()` asked again.  The second answer
    reads like the source (C, [5]), not like the edited first answer (F, [7]); the refused step reports
    `value` and changes nothing. -/
example :
    let st3 := run ⟨Heap.empty, []⟩
      [.build .hc true true 0 0 [1, 1, 0, 1, 1, 23, 1, 0] [(1, .tok "1"), (2, .lst ["1", "2"])] [0] [5],
       .derive 0 .dup, .mutate 1 (.convUnit 1), .mutate 1 (.setItem 0 7)]
    (stepOut st3 (.mutate 1 (.convUnit 3))).2 = some .value ∧
    unitsOf (run st3 [.mutate 1 (.convUnit 3), .derive 0 .dup]) =
      [some (0, [5]), some (1, [7]), some (0, [5])] := by decide +kernel

/-- Non-vacuity of `C14_refused_preserves` on an immutable target: `imm[0] = 7` is refused (`attr`). -/
example :
    (stepOut ⟨(exSrc false).1, [(exSrc false).2]⟩ (.mutate 0 (.setItem 0 7))).2 = some .attr := by
  decide +kernel

/-! ## Round 4: new object whatever the past of the source; container-type independence; branches of
    `validate_analysis_period` -/

/-- The object graph of a new collection always ends in a new collection cell: whatever the spec says
    about sharing headers or values, the collection object itself is new. -/
theorem mkColl_ref_ge {h : Heap} (wf : WF h) (s : NewSpec) : h.next ≤ (mkColl h s).2 := by
  have e1 := allocHdr_ext wf s.hdr
  have e2 := allocVals_ext e1.2 s.vals
  have : (mkColl h s).2 = (allocVals (allocHdr h s.hdr).1 s.vals).1.next := rfl
  rw [this]
  exact Nat.le_trans e1.1.1 e2.1.1

/-- **A deriving operation never hands back an object that exists already** — in particular not the
    collection it was asked of — for every one of the 25 operations, every collection class, both
    mutabilities, either value of the hidden `validated_a_period` flag, every past of the source, and in
    both modes of the model (the tree as pinned and as repaired).  (The class of change "a subclass
    variant returns `self` when a flag says the work was done before".) -/
theorem C14_derive_new_object {m : Mode} {h h' : Heap} {live : List Nat} {c r : Nat} {op : DOp}
    (inv : Inv anyFP h live) (e : derive m h c op = .ok (h', r)) :
    r ≠ c ∧ ∀ b ∈ live, r ≠ b := by
  unfold derive at e
  split at e
  · cases e
  · rename_i sp hsp
    have e' : mkColl h sp = (h', r) := Except.ok.inj e
    have hr : h.next ≤ r := by
      have := mkColl_ref_ge inv.1 sp
      rw [e'] at this
      exact this
    refine ⟨?_, fun b hb => Nat.ne_of_gt (Nat.lt_of_lt_of_le (live_lt inv b hb) hr)⟩
    intro hrc
    cases hs : src h c with
    | error x => simp [specOf, hs, bind, Except.bind] at hsp
    | ok s =>
      have hc := (src_ok hs).1
      have : h.cells c = none := inv.1 c (hrc ▸ hr)
      rw [this] at hc
      cases hc

/-- Non-vacuity: `validate_analysis_period()` of a discontinuous collection whose flag is set already
    (second source of the example) answers with a new object (index 2), like the unvalidated one. -/
example :
    let st := run ⟨Heap.empty, []⟩
      [.build .hd true true 0 0 [1, 1, 0, 1, 1, 23, 1, 0] [(1, .tok "1")] [0, 60] [5, 6],
       .derive 0 (.validate [1, 1, 0, 1, 1, 23, 1, 0] [0, 60] [5, 6])]
    st.live.length = 2 ∧ st.live.Nodup := by decide +kernel

/-- **Branches of `validate_analysis_period`** (continuous override: a duplicate; the other four
    classes: a rebuilt collection): in both branches, for either value of the source's `validated` flag
    and both mutabilities, the result carries a new header with a deep-copied metadata dict and has its
    flag set; outside the continuous branch the values are a new list and the result is mutable. -/
theorem C14_validate_branches {m : Mode} {h : Heap} {c : Nat} {ap dts : List Nat} {vals : List Rat}
    {s : Src} {sp : NewSpec} (hs : src h c = .ok s)
    (e : specOf m h c (.validate ap dts vals) = .ok sp) :
    sp.validated = true ∧ (∃ dt u a md, sp.hdr = .new dt u (.new a) (.new md)) ∧
    (s.k.cls ≠ .hc → sp.vals = .new vals false ∧ sp.isMut = true ∧ sp.dts = dts) ∧
    (s.k.cls = .hc → sp.isMut = s.k.isMut ∧ sp.dts = s.k.dts) := by
  simp only [specOf, hs, bind, Except.bind] at e
  split at e
  · rename_i hc
    cases e
    exact ⟨rfl, ⟨_, _, _, _, rfl⟩, fun hn => absurd hc hn, fun _ => ⟨rfl, rfl⟩⟩
  · rename_i hc
    split at e
    · cases e
    · cases e
      exact ⟨rfl, ⟨_, _, _, _, rfl⟩, fun _ => ⟨rfl, rfl, rfl⟩, fun hh => absurd hh hc⟩

/-- **Container-type independence of the constructors**: a collection built from a sequence object the
    caller holds is the collection built from the numbers in it — whether that object is a list or a
    tuple (`t`), and nothing of the object itself is kept (the result is `build`, all of whose cells are
    new: `C14_build_separated`). -/
theorem C14_build_container_independent {h : Heap} {cls : Cls} {mt vd t : Bool} {dt u : Nat}
    {ap dts : List Nat} {md : List (Nat × OV)} {lst : Nat} {v : List Rat}
    (hg : getVals h lst = some (v, t)) (hn : checkVals cls dts v.length = true) :
    buildFrom h cls mt vd dt u ap md dts lst = .ok (build h cls mt vd dt u ap md dts v) := by
  simp [buildFrom, hg, hn]

/-- The same for `get_aligned_collection(value=<sequence object>)`: what is allocated and what is shared
    is what `get_aligned_collection(value=[the numbers])` allocates and shares. -/
theorem C14_aligned_container_independent {m : Mode} {h : Heap} {c lst : Nat} {v : List Rat} {t : Bool}
    {u : Option Nat} {mt : Option Bool} (hg : getVals h lst = some (v, t)) :
    specOf m h c (.aligned (.listRef lst) u mt) = specOf m h c (.aligned (.list v) u mt) := by
  cases hs : src h c with
  | error x => simp [specOf, hs, bind, Except.bind]
  | ok s => simp [specOf, hs, hg, bind, Except.bind]

/-- The same for the `values` setter: assigning a sequence object is assigning the numbers in it (the
    collection gets a new list; `C14_frame_list` then says later edits of the caller's list are not seen). -/
theorem C14_set_values_container_independent {m : Mode} {h : Heap} {c lst : Nat} {v : List Rat} {t : Bool}
    (hg : getVals h lst = some (v, t)) :
    mutate m h c (.setValuesRef lst) = mutate m h c (.setValues v) := by
  cases hs : src h c with
  | error x => simp [mutate, hs, bind, Except.bind]
  | ok s =>
    simp only [mutate, hs, hg, bind, Except.bind]
    by_cases hm : s.k.isMut = true
    · simp [hm]
    · simp [hm, setVals]

/-- Non-vacuity of the three container theorems: a caller's list `[5, 6]` at reference 0. -/
example : getVals (newList Heap.empty [5, 6]).1 0 = some ([5, 6], false) := by decide +kernel

/-! ### Round 5: operand pairs that are not alike; composites that keep a setting of their source -/

/-- **Arithmetic leaves its second operand as it is, whatever the two operands' units are.**  `a + b`,
    `a - b`, `a * b`, `a / b` with `b` a collection (base class and continuous override, mutable or
    immutable, in the unit of `a` or in any other unit, of the same data type or not): what is observed of
    `b` – values, unit, data type, period, metadata, datetimes – is what it was.  (The class of change
    "the operation is generalised to operands in different units and brings `b` to the unit of `a` in
    place" contradicts this statement; the correspondence runs the arithmetic on pairs in different units.) -/
theorem C14_arith_operand_kept {m : Mode} {h h' : Heap} {live : List Nat} {c r x : Nat} {bop : BinOp}
    (inv : Inv anyFP h live) (hr : r ∈ live) (e : derive m h c (.arith bop (.coll r)) = .ok (h', x)) :
    obsA h' r = obsA h r ∧ (c ∈ live → obsA h' c = obsA h c) :=
  ⟨C14_args_unchanged_derive inv e r hr, fun hc => C14_args_unchanged_derive inv e c hc⟩

/-- **The result of arithmetic does not look at the header of the second operand**: two second operands
    of the same class with the same numbers – in different units, of different data types, with different
    metadata, mutable or not – give the same result spec (the code combines the numbers as they stand and
    takes unit, data type, period and metadata from the first operand). -/
theorem C14_arith_ignores_operand_header {m : Mode} {h : Heap} {c r r' : Nat} {bop : BinOp} {o o' : Src}
    (ho : src h r = .ok o) (ho' : src h r' = .ok o') (hcls : o.k.cls = o'.k.cls) (hv : o.vals = o'.vals) :
    specOf m h c (.arith bop (.coll r)) = specOf m h c (.arith bop (.coll r')) := by
  cases hs : src h c with
  | error x => simp [specOf, hs, bind, Except.bind]
  | ok s => simp only [specOf, hs, ho, ho', bind, Except.bind, hcls, hv]

/-- Non-vacuity: a Celsius and a Fahrenheit daily collection with the same numbers are such a pair
    (same class, same numbers, units 0 = C and 1 = F). -/
example :
    ((src (build (build Heap.empty .daily true false 0 0 [1, 1, 0, 1, 2, 23, 1, 0] [] [1, 2] [5, 6]).1
        .daily true false 0 1 [1, 1, 0, 1, 2, 23, 1, 0] [] [1, 2] [5, 6]).1
      (build Heap.empty .daily true false 0 0 [1, 1, 0, 1, 2, 23, 1, 0] [] [1, 2] [5, 6]).2).toOption.map
        fun o => (o.k.cls, o.vals, o.hd.unit)) = some (.daily, [5, 6], 0) ∧
    ((src (build (build Heap.empty .daily true false 0 0 [1, 1, 0, 1, 2, 23, 1, 0] [] [1, 2] [5, 6]).1
        .daily true false 0 1 [1, 1, 0, 1, 2, 23, 1, 0] [] [1, 2] [5, 6]).1
      (build (build Heap.empty .daily true false 0 0 [1, 1, 0, 1, 2, 23, 1, 0] [] [1, 2] [5, 6]).1
        .daily true false 0 1 [1, 1, 0, 1, 2, 23, 1, 0] [] [1, 2] [5, 6]).2).toOption.map
        fun o => (o.k.cls, o.vals, o.hd.unit)) = some (.daily, [5, 6], 1) := by decide +kernel

/-- **A new composite and the settings of everything that was there.**  After any step that makes a
    composite `w'` separated from what exists (`Wea.from_dict`, `Wea.duplicate()`, every `Wea.filter_by_*`),
    `w'.metadata[k] = v` changes nothing that was there before – in particular not the Wea it was derived
    from, nor what that Wea reports through the collections it computes (they are read off its observed
    metadata). -/
theorem C14_fresh_comp_metadata_edit {h h1 h2 : Heap} {live : List Nat} {w' k : Nat} {v : MV}
    (inv : Inv anyFP h live) (fr : Fresh anyFP h h1 w') (e2 : compMetaSet h1 w' k v = .ok h2) :
    ∀ b ∈ live, obsA h2 b = obsA h b := by
  obtain ⟨inv1, keep, hge⟩ := C14_wea_fresh_separated inv fr
  have hw' : w' ∈ live ++ [w'] := by simp
  obtain ⟨_, fr2⟩ := C14_frame_comp_metadata inv1 hw' e2
  intro b hb
  have hlt : b < h.next := live_lt inv b hb
  have hne : b ≠ w' := Nat.ne_of_lt (Nat.lt_of_lt_of_le hlt hge)
  rw [fr2 b (by simp [hb]) hne, keep b hb]

/-- The other direction: `w.metadata[k] = v` on a Wea that was there leaves the new composite as it was
    made. -/
theorem C14_source_metadata_edit_after_fresh {h h1 h2 : Heap} {live : List Nat} {w w' k : Nat} {v : MV}
    (inv : Inv anyFP h live) (hw : w ∈ live) (fr : Fresh anyFP h h1 w')
    (e2 : compMetaSet h1 w k v = .ok h2) : obsA h2 w' = obsA h1 w' := by
  obtain ⟨inv1, _, hge⟩ := C14_wea_fresh_separated inv fr
  have hlt : w < h.next := live_lt inv w hw
  have hne : w' ≠ w := Nat.ne_of_gt (Nat.lt_of_lt_of_le hlt hge)
  exact (C14_frame_comp_metadata inv1 (by simp [hw]) e2).2 w' (by simp) hne

/-- **A filtered Wea does not keep the metadata dict of its source** (class of change "a helper hands the
    source's dictionary itself to the new object"): after `w' = w.filter_by_*(..)` an edit of
    `w'.metadata` leaves `w` (and every other live object) as it was, and an edit of `w.metadata` leaves
    `w'` as it was made. -/
theorem C14_wea_filter_metadata_separate {h h1 h2 : Heap} {live : List Nat} {w w' k : Nat} {v : MV} {op : DOp}
    (inv : Inv anyFP h live) (hw : w ∈ live) (e1 : weaFilter h w op = .ok (h1, w')) :
    (compMetaSet h1 w' k v = .ok h2 → ∀ b ∈ live, obsA h2 b = obsA h b) ∧
    (compMetaSet h1 w k v = .ok h2 → obsA h2 w' = obsA h1 w') :=
  ⟨fun e2 => C14_fresh_comp_metadata_edit inv (weaFilter_fresh inv.1 e1) e2,
   fun e2 => C14_source_metadata_edit_after_fresh inv hw (weaFilter_fresh inv.1 e1) e2⟩

/-- The same for `Wea.duplicate()`. -/
theorem C14_wea_duplicate_metadata_separate {h h1 h2 : Heap} {live : List Nat} {w w' k : Nat} {v : MV}
    (inv : Inv anyFP h live) (hw : w ∈ live) (e1 : weaDup h w = .ok (h1, w')) :
    (compMetaSet h1 w' k v = .ok h2 → ∀ b ∈ live, obsA h2 b = obsA h b) ∧
    (compMetaSet h1 w k v = .ok h2 → obsA h2 w' = obsA h1 w') :=
  ⟨fun e2 => C14_fresh_comp_metadata_edit inv (weaDup_fresh inv.1 e1) e2,
   fun e2 => C14_source_metadata_edit_after_fresh inv hw (weaDup_fresh inv.1 e1) e2⟩

/-! ### Round 6: operations DEFINED THROUGH the modelled ones (reflected operators, folds such as `sum`)

Class of change: "a newly added public operation of an anchored class that derives an object, written with a
stock idiom whose degenerate case (`0 + c`, `sum([c])`, an identity operand) hands back the operand".  The
specification of such an operation is its definition through the operations the model has: number + collection
is collection + number FOR EVERY NUMBER, `sum` is the left fold that starts with `0 + c₀`.  With that
definition the degenerate cases are new objects like all others. -/

/-- `q + c` (reflected addition): `c + q`, for every number `q` – zero included. -/
def radd (m : Mode) (h : Heap) (c : Nat) (q : Rat) : Except Err (Heap × Nat) :=
  derive m h c (.arith .add (.scalar q))

/-- One step of the built-in `sum`: `acc + x`. -/
def sumStep (m : Mode) (p : Heap × Nat) (x : Nat) : Except Err (Heap × Nat) :=
  derive m p.1 p.2 (.arith .add (.coll x))

/-- The built-in `sum` over a list of collections: `((0 + c₀) + c₁) + …`; `sum([])` is the number 0 (no
    collection comes back: an error of this model). -/
def sumColl (m : Mode) (h : Heap) : List Nat → Except Err (Heap × Nat)
  | [] => .error .value
  | c :: rest => do
    let p ← radd m h c 0
    rest.foldlM (sumStep m) p

/-- **Arithmetic with an identity operand allocates like any other**: for every operator and EVERY number
    `q` – `c + 0`, `c - 0`, `c * 1`, `c / 1`, `0 + c` included – the result is an object that did not exist
    (not `c`, no live object) and every live object reads as before. -/
theorem C14_identity_operand_new_object {m : Mode} {h h' : Heap} {live : List Nat} {c r : Nat} {bop : BinOp}
    {q : Rat} (inv : Inv anyFP h live) (e : derive m h c (.arith bop (.scalar q)) = .ok (h', r)) :
    r ≠ c ∧ (∀ b ∈ live, r ≠ b) ∧ ∀ b ∈ live, obsA h' b = obsA h b :=
  ⟨(C14_derive_new_object inv e).1, (C14_derive_new_object inv e).2, C14_args_unchanged_derive inv e⟩

/-- … and it is separated from its operand: any in-place change of the result of `c ∘ q` (unit conversion,
    value / item assignment, metadata edits, culling) leaves the operand – and every other live object – as it
    was before the arithmetic; an in-place change of the operand leaves the result as it was made. -/
theorem C14_identity_operand_then_edit {h h1 h2 : Heap} {live : List Nat} {c r : Nat} {bop : BinOp} {q : Rat}
    {mop : MOp} (inv : Inv anyFP h live) (e : derive .fixed h c (.arith bop (.scalar q)) = .ok (h1, r)) :
    (mutate .fixed h1 r mop = .ok h2 → ∀ b ∈ live, obsA h2 b = obsA h b) ∧
    (c ∈ live → mutate .fixed h1 c mop = .ok h2 → obsA h2 r = obsA h1 r) := by
  obtain ⟨inv1, hge⟩ := C14_sep_preserved_derive inv e
  have hne : ∀ b ∈ live, b ≠ r := fun b hb => Nat.ne_of_lt (Nat.lt_of_lt_of_le (live_lt inv b hb) hge)
  refine ⟨fun e2 b hb => ?_, fun hc e2 => ?_⟩
  · rw [C14_frame inv1 (by simp) (by simp [hb]) (hne b hb) e2]
    exact C14_args_unchanged_derive inv e b hb
  · exact C14_frame inv1 (by simp [hc]) (by simp) (fun h' => hne c hc h'.symm) e2

/-- The reflected addition is the addition: `0 + c` is a new object and leaves every live object as it was. -/
theorem C14_radd_zero_new_object {m : Mode} {h h' : Heap} {live : List Nat} {c r : Nat}
    (inv : Inv anyFP h live) (e : radd m h c 0 = .ok (h', r)) :
    r ≠ c ∧ (∀ b ∈ live, r ≠ b) ∧ ∀ b ∈ live, obsA h' b = obsA h b :=
  C14_identity_operand_new_object inv e

/-- The fold of `sum` only ever answers with objects that were not live when it started. -/
theorem sum_fold_new (rest : List Nat) : ∀ (h1 h' : Heap) (live' live : List Nat) (r r' : Nat),
    Inv anyFP h1 live' → (∀ b ∈ live, b ∈ live') → (∀ b ∈ live, r ≠ b) →
    rest.foldlM (sumStep .fixed) (h1, r) = .ok (h', r') → ∀ b ∈ live, r' ≠ b := by
  induction rest with
  | nil =>
    intro h1 h' live' live r r' _ _ hr e
    have : (h1, r) = (h', r') := Except.ok.inj e
    cases this
    exact hr
  | cons x xs ih =>
    intro h1 h' live' live r r' inv sub _ e
    rw [List.foldlM_cons] at e
    cases hs : sumStep .fixed (h1, r) x with
    | error er => rw [hs] at e; cases e
    | ok p =>
      obtain ⟨h2, r2⟩ := p
      rw [hs] at e
      have hd : derive .fixed h1 r (.arith .add (.coll x)) = .ok (h2, r2) := hs
      have inv2 := (C14_sep_preserved_derive inv hd).1
      have hnew := (C14_derive_new_object inv hd).2
      exact ih h2 h' (live' ++ [r2]) live r2 r' inv2
        (fun b hb => by simp [sub b hb]) (fun b hb => hnew b (sub b hb)) e

/-- **`sum` over one, two or more collections answers with a new object** – in particular `sum([c])` is not
    `c` – and (one collection) leaves every live object as it was. -/
theorem C14_sum_new_object {h h' : Heap} {live : List Nat} {cs : List Nat} {r : Nat}
    (inv : Inv anyFP h live) (e : sumColl .fixed h cs = .ok (h', r)) : ∀ b ∈ live, r ≠ b := by
  cases cs with
  | nil => cases e
  | cons c rest =>
    simp only [sumColl, bind, Except.bind] at e
    cases hs : radd .fixed h c 0 with
    | error er => rw [hs] at e; cases e
    | ok p =>
      obtain ⟨h1, r1⟩ := p
      rw [hs] at e
      have inv1 := (C14_sep_preserved_derive inv hs).1
      exact sum_fold_new rest h1 h' (live ++ [r1]) live r1 r inv1 (fun b hb => by simp [hb])
        (C14_derive_new_object inv hs).2 e

theorem C14_sum_single_new_object {h h' : Heap} {live : List Nat} {c r : Nat}
    (inv : Inv anyFP h live) (hc : c ∈ live) (e : sumColl .fixed h [c] = .ok (h', r)) :
    r ≠ c ∧ ∀ b ∈ live, obsA h' b = obsA h b := by
  refine ⟨C14_sum_new_object inv e c hc, ?_⟩
  simp only [sumColl, bind, Except.bind] at e
  cases hs : radd .fixed h c 0 with
  | error er => rw [hs] at e; cases e
  | ok p =>
    rw [hs] at e
    have : p = (h', r) := Except.ok.inj e
    subst this
    exact C14_args_unchanged_derive inv hs

/-- Non-vacuity: `sum([c])` of a mutable daily collection succeeds and answers with object 1 (the source is
    object 0); `sum([c, c])` answers with object 2. -/
example :
    ((sumColl .fixed (build Heap.empty .daily true false 0 0 [1, 1, 0, 1, 2, 23, 1, 0] [] [1, 2] [5, 6]).1
        [(build Heap.empty .daily true false 0 0 [1, 1, 0, 1, 2, 23, 1, 0] [] [1, 2] [5, 6]).2]).toOption.map
      (·.2) ≠ some (build Heap.empty .daily true false 0 0 [1, 1, 0, 1, 2, 23, 1, 0] [] [1, 2] [5, 6]).2) ∧
    ((sumColl .fixed (build Heap.empty .daily true false 0 0 [1, 1, 0, 1, 2, 23, 1, 0] [] [1, 2] [5, 6]).1
        [(build Heap.empty .daily true false 0 0 [1, 1, 0, 1, 2, 23, 1, 0] [] [1, 2] [5, 6]).2]).toOption.isSome
      = true) := by decide +kernel

end LbHeap
