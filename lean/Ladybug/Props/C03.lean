/-
  C03 — Calendar grouping partitions the data; statistics equal those of the groups.
  Property theorems only (helper lemmas: Proofs/C03Dict.lean, Proofs/C03Cont.lean, Proofs/C03Stats.lean).

  The models (Model/Group.lean – polymorphic in the value type – and Model/Stats.lean – exact rationals)
  are tied to ladybug/datacollection.py and ladybug/_datacollectionbase.py by the correspondence ops of
  Drv/C03.lean (harness/props/c03.py).  They describe the code with fixes/C03_1 … C03_5 applied.

  Reading guide.  `Grp.tab keys g` is the dictionary with the keys `keys` (in order) and the list
  `g k` at key `k`; `Grp.groupOf key data k` is the specification of a group: the values of `data`
  whose datetime has key `k`, in the order of the data.
-/
import Ladybug.Proofs.C03Dict
import Ladybug.Proofs.C03Cont
import Ladybug.Proofs.C03Stats
import Ladybug.Proofs.C03Samples
import Ladybug.Proofs.C03Month
import Ladybug.Proofs.C03Mph
import Ladybug.Proofs.C03Obj
import Ladybug.Proofs.C03Cull

open Cal

namespace Grp

/-! ### Datetime-keyed grouping (HourlyDiscontinuousCollection) -/

/-- **group_by_day computes the specification**: for every header period and every list of
    (datetime, value) pairs whose day numbers exist in the year of the header, the result has the keys
    `1 .. 365/366` in order and holds at each day exactly the values whose own datetime falls on that
    day, in the order of the collection.  No bound on the data; values of any type. -/
theorem C03_disc_day {α : Type} (ap : AP) (data : List (DT × α))
    (hall : ∀ x ∈ data, 1 ≤ x.1.doy ∧ x.1.doy ≤ daysInYear ap.leap) :
    discDay ap data = .ok (tab (dayKeys ap.leap) (groupOf DT.doy data)) := by
  apply keyed_ok _ (List.nodup_range' (step := 1) (by omega))
  intro x hx
  have := hall x hx
  simp only [dayKeys, List.mem_range'_1]
  omega

/-- **group_by_month computes the specification** (keys `1 .. 12`). -/
theorem C03_disc_month {α : Type} (data : List (DT × α))
    (hall : ∀ x ∈ data, 1 ≤ x.1.month ∧ x.1.month ≤ 12) :
    discMonth data = .ok (tab monthKeys (groupOf DT.month data)) := by
  apply keyed_ok _ (List.nodup_range' (step := 1) (by omega))
  intro x hx
  have := hall x hx
  simp only [monthKeys, List.mem_range'_1]
  omega

/-- **group_by_month_per_hour computes the specification**, for all 12 valid timesteps: when every
    datetime is a date-time (month 1..12, hour ≤ 23, minute ≤ 59) on the grid of `60 / timestep`
    minutes, the result has the keys `(m, h, mi)` for `m = 1..12` and every step `h:mi` of the day, in
    that order, each built once, and holds at each key exactly the values whose own datetime has that
    month, hour and minute, in the order of the collection. -/
theorem C03_disc_mph {α : Type} (ap : AP) (hts : ap.timestep ∈ Gen.Ap.validTimesteps) (data : List (DT × α))
    (hall : ∀ x ∈ data, 1 ≤ x.1.month ∧ x.1.month ≤ 12 ∧ x.1.hour ≤ 23 ∧ x.1.minute ≤ 59 ∧
      x.1.minute % ap.step = 0) :
    discMph ap data
      = .ok (tab (mphKeys ap.timestep) (groupOf (fun d : DT => (d.month, d.hour, d.minute)) data)) := by
  obtain ⟨p1, p2⟩ := valid_ts_pos ap.timestep hts
  apply keyed_ok _ (mphKeys_nodup ap.timestep p1 p2)
  intro x hx
  obtain ⟨a, b, c, d, e⟩ := hall x hx
  exact grid_mem_mphKeys ap.timestep hts _ _ _ a b c d e

/-- The key list of `group_by_month_per_hour` has no repeated key and contains exactly the
    (month, hour, minute) triples of months 1..12 and the steps of a day. -/
theorem C03_mph_keys (ts : Nat) (hts : ts ∈ Gen.Ap.validTimesteps) :
    (mphKeys ts).Nodup ∧ (mphKeys ts).length = 12 * (24 * ts) ∧
    ∀ mo hr mi, (mo, hr, mi) ∈ mphKeys ts → 1 ≤ mo ∧ mo ≤ 12 ∧ hr ≤ 23 ∧ mi ≤ 59 ∧ mi % (60 / ts) = 0 := by
  obtain ⟨p1, p2⟩ := valid_ts_pos ts hts
  refine ⟨mphKeys_nodup ts p1 p2, ?_, ?_⟩
  · simp only [mphKeys, monthKeys, List.length_flatMap, List.length_map, List.length_range]
    rw [show List.range' 1 12 = [1, 2, 3, 4, 5, 6, 7, 8, 9, 10, 11, 12] from rfl]
    simp only [List.map_cons, List.map_nil, List.sum_cons, List.sum_nil]
    omega
  · intro mo hr mi h
    rw [mem_mphKeys] at h
    obtain ⟨hm, h', hh, e1, e2⟩ := h
    simp only at e1 e2
    rcases AP.ts_cases hts with rfl | rfl | rfl | rfl | rfl | rfl | rfl | rfl | rfl | rfl | rfl | rfl <;>
      simp only [Nat.reduceDiv] at e2 ⊢ <;> omega

/-- **A step off the timestep grid raises KeyError in `group_by_month_per_hour`** (it is not dropped
    or put into a neighbouring key). -/
theorem C03_mph_offgrid {α : Type} (ap : AP) (hts : ap.timestep ∈ Gen.Ap.validTimesteps) (data : List (DT × α))
    (hbad : ∃ x ∈ data, x.1.minute % ap.step ≠ 0) : discMph ap data = .error .key := by
  obtain ⟨p1, p2⟩ := valid_ts_pos ap.timestep hts
  obtain ⟨x, hx, hg⟩ := hbad
  exact keyed_error _ (mphKeys_nodup ap.timestep p1 p2) _ data
    ⟨x, hx, offgrid_not_mem_mphKeys ap.timestep hts _ _ _ hg⟩

example : (3, 23, 30) ∈ mphKeys 2 ∧ (3, 23, 30) ∉ mphKeys 1 := by
  constructor
  · exact grid_mem_mphKeys 2 (by decide) 3 23 30 (by omega) (by omega) (by omega) (by omega) (by decide)
  · exact offgrid_not_mem_mphKeys 1 (by decide) 3 23 30 (by decide)

/-- **A datetime outside the dictionary raises KeyError** (e.g. a step off the timestep grid in
    `group_by_month_per_hour`, or day 366 under a non-leap header) – nothing is silently dropped. -/
theorem C03_keyed_missing_key {κ τ α : Type} [DecidableEq κ] (keys : List κ) (hnd : keys.Nodup)
    (key : τ → κ) (data : List (τ × α)) (hbad : ∃ x ∈ data, key x.1 ∉ keys) :
    keyed keys key data = .error .key :=
  keyed_error keys hnd key data hbad

/-- **The groups partition the data** (any key function: day, month, month-per-hour):
    1. a value is in group `k` iff it is the value of a pair whose datetime has key `k` – so every
       value is in the group named by its own datetime, and nothing is borrowed from another day/month;
    2. every group is a sublist of the collection's values – the original (chronological) order is kept;
    3. the groups concatenated in key order are a permutation of the values – nothing lost, nothing
       duplicated;
    4. when the values are distinct (ids), a value lies in no group other than that of its datetime. -/
theorem C03_keyed_partition {κ τ α : Type} [DecidableEq κ] (keys : List κ) (hnd : keys.Nodup)
    (key : τ → κ) (data : List (τ × α)) (hall : ∀ x ∈ data, key x.1 ∈ keys) :
    (∀ k v, v ∈ groupOf key data k ↔ ∃ x ∈ data, x.2 = v ∧ key x.1 = k) ∧
    (∀ k, (groupOf key data k).Sublist (data.map (·.2))) ∧
    (keys.flatMap (groupOf key data)).Perm (data.map (·.2)) ∧
    ((data.map (·.2)).Nodup → ∀ x ∈ data, ∀ k, x.2 ∈ groupOf key data k → k = key x.1) := by
  refine ⟨mem_groupOf key data, groupOf_sublist key data, groups_perm key keys hnd data hall, ?_⟩
  intro hnodup x hx k hk
  obtain ⟨y, hy, hv, hky⟩ := (mem_groupOf key data k x.2).mp hk
  -- distinct values: the pair is determined by its value
  have : y = x := eq_of_nodup_map (·.2) data hnodup y hy x hx hv
  rw [← hky, this]

example : groupOf (fun m : Nat => m / 1440 + 1) [(0, 'a'), (60, 'b'), (1440, 'c'), (30, 'd')] 1 = ['a', 'b', 'd'] := by
  decide

/-! ### Slice-based grouping (HourlyContinuousCollection) = keyed grouping -/

/-- **Continuous = keyed, by day, for every continuous collection** (annual, partial or wrapping the
    year end; all 12 timesteps; leap or not; any values of any type): `group_by_day` of the continuous
    collection – the slice arithmetic, two loops for wrapping periods – returns exactly the dictionary
    that the datetime-keyed algorithm returns for the same values paired with the period's own
    datetimes `ds`.  Together with `C03_disc_day` / `C03_keyed_partition`: every value sits in the day
    of its own datetime, no day is one value too long, shifted, or phantom. -/
theorem C03_cont_eq_keyed_day {α : Type} (ap : AP) (hwf : ap.WF) (h0 : ap.st_hour = 0) (h23 : ap.end_hour = 23)
    (ds : List DT) (hds : ap.datetimes = ds.map .ok) (vals : List α)
    (hlen : vals.length = ap.len) :
    discDay ap (ds.zip vals) = .ok (contDay ap vals) := by
  have hlen' : vals.length = ap.moys.length := by rw [hlen, AP.C04_len ap hwf]
  obtain ⟨_, _, hdt⟩ := AP.C04_datetimes ap hwf
  -- every datetime is the valid date-time of its minute
  have hlenD : ds.length = ap.moys.length := by
    have := congrArg List.length hds
    simpa [AP.datetimes] using this.symm
  have hkey : ds.map DT.doy = ap.moys.map (· / 1440 + 1) := by
    apply List.ext_getElem
    · simp [hlenD]
    · intro i h1 h2
      simp only [List.getElem_map]
      have hi : i < ap.moys.length := by simpa using h2
      have hi' : i < ds.length := by simpa using h1
      obtain ⟨d, hd1, hd2, hd3, _⟩ := hdt (ap.moys[i]) (List.getElem_mem hi)
      have : (ap.datetimes)[i]'(by simpa [AP.datetimes] using hi) = .ok ds[i] := by
        simp [hds]
      simp only [AP.datetimes, List.getElem_map] at this
      rw [hd1] at this
      cases this
      rw [doy_of_moy _ hd2, hd3]
  rw [Grp.contDay_eq ap hwf h0 h23 vals hlen']
  have hall : ∀ x ∈ ds.zip vals, 1 ≤ x.1.doy ∧ x.1.doy ≤ daysInYear ap.leap := by
    intro x hx
    have hx1 : x.1.doy ∈ ds.map DT.doy := List.mem_map_of_mem (List.of_mem_zip hx).1
    rw [hkey] at hx1
    obtain ⟨m, hm, hmd⟩ := List.mem_map.mp hx1
    have hp := ((AP.C04_mem_moys ap hwf m).mp hm).1
    have hy : minutesInYear ap.leap = 1440 * daysInYear ap.leap := rfl
    omega
  rw [C03_disc_day ap _ hall]
  congr 1
  apply List.map_congr_left
  intro k _
  rw [groupOf_zip_key, hkey]

example : (⟨12, 27, 0, 1, 2, 23, 4, true⟩ : AP).WF ∧ (⟨12, 27, 0, 1, 2, 23, 4, true⟩ : AP).isReversed = true ∧
    (⟨12, 27, 0, 1, 2, 23, 4, true⟩ : AP).len = 672 := by decide

/-- **Continuous = keyed, by month, for every continuous collection** (annual, partial, wrapping the
    year end, and wrapping inside one month so that this month is visited twice; all 12 timesteps; leap
    or not; any values of any type): `group_by_month` of the continuous collection – the slice
    arithmetic `values[indx : indx + days·24·timestep]` – returns exactly the dictionary that the
    datetime-keyed algorithm returns for the same values paired with the period's own datetimes `ds`.
    With `C03_disc_month` / `C03_keyed_partition`: every value sits in the month of its own datetime,
    no month group is one value too long, nothing of a month visited twice is lost.
    Rests on the calendar lemma `month_iff_doy` (a valid date-time is in month `mo` iff its day number
    lies in the run of days of `mo`; from a finite check of `daysBefore` for both years). -/
theorem C03_cont_eq_keyed_month {α : Type} (ap : AP) (hwf : ap.WF) (h0 : ap.st_hour = 0) (h23 : ap.end_hour = 23)
    (ds : List DT) (hds : ap.datetimes = ds.map .ok) (vals : List α)
    (hlen : vals.length = ap.len) :
    discMonth (ds.zip vals) = contMonth ap vals := by
  have hlen' : vals.length = ap.moys.length := by rw [hlen, AP.C04_len ap hwf]
  rw [contMonth_eq ap hwf h0 h23 ds hds vals hlen']
  apply C03_disc_month
  intro x hx
  obtain ⟨hdl, hdf⟩ := ds_facts ap hwf ds hds
  obtain ⟨i, hi, he⟩ := List.getElem_of_mem (List.of_mem_zip hx).1
  obtain ⟨g1, _, _, _⟩ := hdf i hi (by omega)
  rw [← he]
  exact ⟨g1.1, g1.2.1⟩

example : (⟨1, 20, 0, 1, 10, 23, 2, true⟩ : AP).WF ∧ (⟨1, 20, 0, 1, 10, 23, 2, true⟩ : AP).isReversed = true ∧
    (⟨1, 20, 0, 1, 10, 23, 2, true⟩ : AP).monthsInt = [1, 2, 3, 4, 5, 6, 7, 8, 9, 10, 11, 12, 1] := by decide

/-! ### Statistics per interval -/

/-- The value of a statistic on a non-empty group, as a plain number. -/
def statValue (op : Stats.Op) (l : List Rat) : Rat :=
  match op with
  | .average => Stats.total l / (l.length : Rat)
  | .total => Stats.total l
  | .percentile p => Stats.interp l (Stats.rank l p)

theorem apply_ok (op : Stats.Op) (hadm : op.admissible = true) (l : List Rat) (hl : l ≠ []) :
    op.apply l = .ok (statValue op l) := by
  cases op with
  | average =>
    have : l.isEmpty = false := by cases l <;> simp_all
    simp [Stats.Op.apply, Stats.average, statValue, this]
  | total => rfl
  | percentile p =>
    simp only [Stats.Op.admissible, decide_eq_true_eq] at hadm
    exact Stats.percentile_eq_interp l hl p hadm.1 hadm.2

/-- **Each reported value is the statistic of its group** (`_time_interval_operation` and
    `DailyCollection._monthly_operation`): for any dictionary of groups `g` over `keys`, any listing
    `dates` of keys of the dictionary and any of average / total / percentile `0 ≤ p ≤ 100`, the loop
    returns – in listing order, empty groups skipped – the pair (key, statistic of the group of that
    key); average = sum / count, total = sum, percentile = the textbook interpolation (below). -/
theorem C03_stat_of_groups {κ : Type} [DecidableEq κ] (keys : List κ) (g : κ → List Rat)
    (dates : List κ) (hall : ∀ i ∈ dates, i ∈ keys) (op : Stats.Op) (hadm : op.admissible = true) :
    intervalOp (tab keys g) dates op.apply
      = .ok ((dates.filter fun i => !(g i).isEmpty).map fun i => (i, statValue op (g i))) :=
  intervalOp_spec keys g (statValue op) op.apply (apply_ok op hadm) dates hall

/-- **Daily statistics of a discontinuous collection, end to end**: `average_daily`, `total_daily`,
    `percentile_daily` report for every day of `doys_int` (header period, in its order) that has data
    the statistic of exactly the values whose own datetime falls on that day. -/
theorem C03_daily_stats (ap : AP) (hwf : ap.WF) (data : List (DT × Rat))
    (hall : ∀ x ∈ data, 1 ≤ x.1.doy ∧ x.1.doy ≤ daysInYear ap.leap)
    (op : Stats.Op) (hadm : op.admissible = true) :
    (discDay ap data).bind (fun d => intervalOp d ap.doysInt op.apply)
      = .ok ((ap.doysInt.filter fun i => !(groupOf DT.doy data i).isEmpty).map
          fun i => (i, statValue op (groupOf DT.doy data i))) := by
  rw [C03_disc_day ap data hall]
  simp only [bind, Except.bind]
  apply C03_stat_of_groups _ _ _ _ op hadm
  intro i hi
  have := (AP.mem_doysInt ap hwf i).mp hi
  obtain ⟨a1, a2, a3, a4, _⟩ := AP.doy_facts ap hwf
  simp only [dayKeys, List.mem_range'_1]
  omega

/-- **Monthly statistics, end to end** (same statement for `months_int`). -/
theorem C03_monthly_stats (ap : AP) (hwf : ap.WF) (data : List (DT × Rat))
    (hall : ∀ x ∈ data, 1 ≤ x.1.month ∧ x.1.month ≤ 12)
    (op : Stats.Op) (hadm : op.admissible = true) :
    (discMonth data).bind (fun d => intervalOp d ap.monthsInt op.apply)
      = .ok ((ap.monthsInt.filter fun i => !(groupOf DT.month data i).isEmpty).map
          fun i => (i, statValue op (groupOf DT.month data i))) := by
  rw [C03_disc_month data hall]
  simp only [bind, Except.bind]
  apply C03_stat_of_groups _ _ _ _ op hadm
  intro i hi
  have v1 : 1 ≤ ap.st_month := hwf.1.1
  have w2' : ap.end_month ≤ 12 := hwf.2.1.2.1
  have := (AP.mem_monthsInt ap i).mp hi
  simp only [monthKeys, List.mem_range'_1]
  omega

/-- **Month-per-hour statistics of a discontinuous collection, end to end**:
    `average_/total_/percentile_monthly_per_hour` report for every entry of `months_per_hour` (header
    period, in its order) that has data the statistic of exactly the values whose own datetime has
    that month, hour and minute. -/
theorem C03_mph_stats (ap : AP) (hwf : ap.WF) (data : List (DT × Rat))
    (hall : ∀ x ∈ data, 1 ≤ x.1.month ∧ x.1.month ≤ 12 ∧ x.1.hour ≤ 23 ∧ x.1.minute ≤ 59 ∧
      x.1.minute % ap.step = 0)
    (op : Stats.Op) (hadm : op.admissible = true) :
    (discMph ap data).bind (fun d => intervalOp d ap.monthsPerHour op.apply)
      = .ok ((ap.monthsPerHour.filter fun i =>
            !(groupOf (fun d : DT => (d.month, d.hour, d.minute)) data i).isEmpty).map
          fun i => (i, statValue op (groupOf (fun d : DT => (d.month, d.hour, d.minute)) data i))) := by
  rw [C03_disc_mph ap hwf.2.2 data hall]
  simp only [bind, Except.bind]
  exact C03_stat_of_groups _ _ _ (monthsPerHour_subset ap hwf) op hadm

/-- The datetimes of a well-formed period are date-times on its timestep grid. -/
theorem C03_period_datetimes_on_grid (ap : AP) (hwf : ap.WF) (ds : List DT) (hds : ap.datetimes = ds.map .ok)
    (d : DT) (hd : d ∈ ds) :
    1 ≤ d.month ∧ d.month ≤ 12 ∧ d.hour ≤ 23 ∧ d.minute ≤ 59 ∧ d.minute % ap.step = 0 ∧
      1 ≤ d.doy ∧ d.doy ≤ daysInYear ap.leap := by
  obtain ⟨hdl, hdf⟩ := ds_facts ap hwf ds hds
  obtain ⟨i, hi, he⟩ := List.getElem_of_mem hd
  obtain ⟨g1, g2, g3, g4⟩ := hdf i hi (by omega)
  rw [← he]
  have hp := (AP.C04_mem_moys ap hwf _).mp (List.getElem_mem (by omega : i < ap.moys.length))
  have hmin : ds[i].minute = ap.moys[i] % 60 := by
    have : ds[i].moy = ds[i].intHoy * 60 + ds[i].minute := rfl
    have := g1.2.2.2.2.2
    omega
  have hdvd : ap.step ∣ 60 := ⟨ap.timestep, by
    have := (AP.ts_facts ap hwf.2.2 0 0 (by omega) (by omega)).2.2.2.2.2
    rw [Nat.mul_comm]; exact this.symm⟩
  have hy : minutesInYear ap.leap = 1440 * daysInYear ap.leap := rfl
  refine ⟨g1.1, g1.2.1, g1.2.2.2.2.1, g1.2.2.2.2.2, ?_, ?_, ?_⟩
  · rw [hmin, Nat.mod_mod_of_dvd _ hdvd]; exact hp.2.1
  · rw [g3]; omega
  · rw [g3]; have := hp.1; omega

/-- **Statistics of a continuous collection, end to end, for the three intervals**: with `ds` the
    period's own datetimes, `average_/total_/percentile_ daily | monthly | monthly_per_hour` of the
    continuous collection (slice-based groups for day and month, the inherited keyed grouping for
    month-per-hour) report – in `doys_int` / `months_int` / `months_per_hour` order, groups without data
    skipped – the statistic of exactly the values whose own datetime falls on that day / in that month /
    on that month-hour-minute.  Hence continuous and discontinuous collections holding the same data
    give the same statistics (`C03_daily_stats`, `C03_monthly_stats`, `C03_mph_stats` have the same
    right-hand sides). -/
theorem C03_cont_stats (ap : AP) (hwf : ap.WF) (h0 : ap.st_hour = 0) (h23 : ap.end_hour = 23)
    (ds : List DT) (hds : ap.datetimes = ds.map .ok) (vals : List Rat) (hlen : vals.length = ap.len)
    (op : Stats.Op) (hadm : op.admissible = true) :
    intervalOp (contDay ap vals) ap.doysInt op.apply
      = .ok ((ap.doysInt.filter fun i => !(groupOf DT.doy (ds.zip vals) i).isEmpty).map
          fun i => (i, statValue op (groupOf DT.doy (ds.zip vals) i))) ∧
    (contMonth ap vals).bind (fun d => intervalOp d ap.monthsInt op.apply)
      = .ok ((ap.monthsInt.filter fun i => !(groupOf DT.month (ds.zip vals) i).isEmpty).map
          fun i => (i, statValue op (groupOf DT.month (ds.zip vals) i))) ∧
    (discMph ap (ds.zip vals)).bind (fun d => intervalOp d ap.monthsPerHour op.apply)
      = .ok ((ap.monthsPerHour.filter fun i =>
            !(groupOf (fun d : DT => (d.month, d.hour, d.minute)) (ds.zip vals) i).isEmpty).map
          fun i => (i, statValue op (groupOf (fun d : DT => (d.month, d.hour, d.minute)) (ds.zip vals) i))) := by
  have hgrid := fun x (hx : x ∈ ds.zip vals) => C03_period_datetimes_on_grid ap hwf ds hds x.1 (List.of_mem_zip hx).1
  refine ⟨?_, ?_, ?_⟩
  · have h1 := C03_cont_eq_keyed_day ap hwf h0 h23 ds hds vals hlen
    have h2 := C03_daily_stats ap hwf (ds.zip vals) (fun x hx => ⟨(hgrid x hx).2.2.2.2.2.1, (hgrid x hx).2.2.2.2.2.2⟩) op hadm
    rw [h1] at h2
    simpa [bind, Except.bind] using h2
  · have h1 := C03_cont_eq_keyed_month ap hwf h0 h23 ds hds vals hlen
    have h2 := C03_monthly_stats ap hwf (ds.zip vals) (fun x hx => ⟨(hgrid x hx).1, (hgrid x hx).2.1⟩) op hadm
    rw [h1] at h2
    exact h2
  · exact C03_mph_stats ap hwf (ds.zip vals)
      (fun x hx => ⟨(hgrid x hx).1, (hgrid x hx).2.1, (hgrid x hx).2.2.1, (hgrid x hx).2.2.2.1, (hgrid x hx).2.2.2.2.1⟩) op hadm

/-- **No day with data is skipped**: when every datetime of the collection is a valid date-time that
    is a step of the header period, the day of every value is in `doys_int` (so its group is reported). -/
theorem C03_daily_complete (ap : AP) (hwf : ap.WF) (d : DT) (hv : d.valid) (hm : d.moy ∈ ap.moys) :
    d.doy ∈ ap.doysInt := by
  rw [AP.C04_doys ap hwf]
  exact ⟨d.moy, hm, (doy_of_moy d hv).symm⟩

/-- Sub-hourly collections: daily and monthly results carry a period with timestep 1,
    month-per-hour results keep the timestep. -/
theorem C03_result_timestep (ap : AP) :
    resultTimestep ap .daily = 1 ∧ resultTimestep ap .monthly = 1 ∧
    resultTimestep ap .monthlyPerHour = ap.timestep := by
  unfold resultTimestep
  refine ⟨?_, ?_, ?_⟩ <;> by_cases h : ap.timestep = 1 <;> simp [h]

/-! ### DailyCollection.group_by_month -/

/-- **Days are grouped by their calendar month** (normal and leap years): for every day number of
    the year, the month used by `DailyCollection.group_by_month` is the month of `Date.from_doy`
    (which inverts `doy` by `C08_fromDoy_doy`).  Decided by kernel evaluation of all 365 + 366 days. -/
theorem C03_daily_month_key (leap : Bool) (n : Nat) (h1 : 1 ≤ n) (h2 : n ≤ daysInYear leap) :
    ∃ d, fromDoy leap n = .ok d ∧ monthOfDoy leap n = .ok d.month := by
  have := List.all_eq_true.mp (monthChk_all leap) n (by simp only [List.mem_range'_1]; omega)
  unfold monthChk at this
  split at this
  · rename_i d m hd hm
    exact ⟨d, hd, by rw [hm]; simp at this; rw [this]⟩
  · cases this

end Grp

/-! ### Order statistics over exact rationals -/

namespace Stats

/-- **Percentile = textbook linear interpolation**: for every non-empty list and `0 ≤ p ≤ 100`,
    `_percentile` returns the value at rank `k = (n − 1)·p/100` interpolated linearly between the
    order statistics `⌊k⌋` and `⌊k⌋ + 1` of the sorted data; it never fails. -/
theorem C03_percentile_def (vals : List Rat) (hne : vals ≠ []) (p : Rat) (h0 : 0 ≤ p) (h1 : p ≤ 100) :
    percentile vals p = .ok
      (ordStat vals (rank vals p).floor.toNat +
        (rank vals p - ((rank vals p).floor : Rat)) *
          (ordStat vals ((rank vals p).floor.toNat + 1) - ordStat vals (rank vals p).floor.toNat)) :=
  percentile_eq_interp vals hne p h0 h1

/-- `sorted` is the ascending rearrangement of the data (what `ordStat` indexes). -/
theorem C03_sorted (vals : List Rat) :
    (sorted vals).Perm vals ∧ (sorted vals).Pairwise (· ≤ ·) :=
  ⟨sorted_perm vals, sorted_pairwise vals⟩

/-- **p = 0 is the minimum, p = 100 the maximum** (and `min`/`max` are the extreme order statistics). -/
theorem C03_percentile_ends (vals : List Rat) (hne : vals ≠ []) :
    percentile vals 0 = minV vals ∧ percentile vals 100 = maxV vals ∧
    minV vals = .ok (ordStat vals 0) ∧ maxV vals = .ok (ordStat vals (vals.length - 1)) := by
  have hn : 1 ≤ vals.length := List.length_pos_iff.mpr hne
  have r0 : rank vals 0 = ((0 : Nat) : Rat) := by simp [rank]
  have r1 : rank vals 100 = ((vals.length - 1 : Nat) : Rat) := by
    unfold rank
    have : (((vals.length : Int) - 1 : Int) : Rat) = ((vals.length - 1 : Nat) : Rat) := by
      have : ((vals.length : Int) - 1) = ((vals.length - 1 : Nat) : Int) := by omega
      rw [this]; push_cast; rfl
    rw [this]; norm_num
  refine ⟨?_, ?_, minV_eq vals hne, maxV_eq vals hne⟩
  · rw [percentile_eq_interp vals hne 0 (le_refl _) (by norm_num), r0, interp_natCast, minV_eq vals hne]
  · rw [percentile_eq_interp vals hne 100 (by norm_num) (le_refl _), r1, interp_natCast, maxV_eq vals hne]

/-- **The median is the textbook median**: the middle order statistic for an odd count, the mean of
    the two middle ones for an even count. -/
theorem C03_median (vals : List Rat) (m : Nat) :
    (vals.length = 2 * m + 1 → median vals = .ok (ordStat vals m)) ∧
    (vals.length = 2 * m + 2 → median vals = .ok ((ordStat vals m + ordStat vals (m + 1)) / 2)) := by
  constructor
  · intro hl
    have hne : vals ≠ [] := by intro h; rw [h] at hl; simp at hl
    have hr : rank vals 50 = ((m : Nat) : Rat) := by
      unfold rank; rw [hl]; push_cast; ring
    unfold median
    rw [percentile_eq_interp vals hne 50 (by norm_num) (by norm_num), hr, interp_natCast]
  · intro hl
    have hne : vals ≠ [] := by intro h; rw [h] at hl; simp at hl
    have hr : rank vals 50 = (m : Rat) + 1 / 2 := by
      unfold rank; rw [hl]; push_cast; ring
    have hfl : ((m : Rat) + 1 / 2).floor = (m : Int) := by
      have h1 : ((m : Int) : Rat) ≤ (m : Rat) + 1 / 2 := by push_cast; linarith
      have h2 : (m : Rat) + 1 / 2 < (((m : Int) + 1 : Int) : Rat) := by push_cast; linarith
      have a := Rat.le_floor_iff.mpr h1
      have b := Rat.floor_lt_iff.mpr h2
      omega
    unfold median
    rw [percentile_eq_interp vals hne 50 (by norm_num) (by norm_num), hr]
    unfold interp
    rw [hfl]
    simp only [Int.toNat_natCast]
    congr 1
    push_cast
    ring

/-- **min ≤ percentile ≤ max.** -/
theorem C03_percentile_bounds (vals : List Rat) (hne : vals ≠ []) (p : Rat) (h0 : 0 ≤ p) (h1 : p ≤ 100) :
    ordStat vals 0 ≤ interp vals (rank vals p) ∧
    interp vals (rank vals p) ≤ ordStat vals (vals.length - 1) := by
  obtain ⟨hk0, hk1⟩ := rank_bounds vals hne p h0 h1
  have hn : 1 ≤ vals.length := List.length_pos_iff.mpr hne
  obtain ⟨a, b⟩ := interp_between vals _ hk0 hk1
  obtain ⟨hf0, hfm, _, _⟩ := floor_facts _ _ hk0 hk1
  constructor
  · exact le_trans (ordStat_mono vals (Nat.zero_le _) (by omega)) a
  · exact le_trans b (ordStat_mono vals (by omega) (by omega))

/-- **The percentile is monotone in p.** -/
theorem C03_percentile_mono (vals : List Rat) (hne : vals ≠ []) (p q : Rat) (h0 : 0 ≤ p) (hpq : p ≤ q)
    (h1 : q ≤ 100) : interp vals (rank vals p) ≤ interp vals (rank vals q) := by
  have hn : 1 ≤ vals.length := List.length_pos_iff.mpr hne
  have hc : (0 : Rat) ≤ (((vals.length : Int) - 1 : Int) : Rat) := by
    have : (0 : Int) ≤ (vals.length : Int) - 1 := by omega
    exact_mod_cast this
  apply interp_mono vals _ _ (rank_bounds vals hne p h0 (le_trans hpq h1)).1 _
    (rank_bounds vals hne q (le_trans h0 hpq) h1).2
  unfold rank
  apply mul_le_mul_of_nonneg_left _ hc
  linarith

-- evaluated (the kernel does not unfold `mergeSort`): the model on concrete data
#guard percentile [4, 1, 2, 3] 25 = .ok (7 / 4) ∧ median [4, 1, 2, 3] = .ok (5 / 2) ∧ percentile [3, 1, 2] 50 = .ok 2
example : ([4, 1, 2, 3] : List Rat) ≠ [] ∧ (0 : Rat) ≤ 25 ∧ (25 : Rat) ≤ 100 := by
  refine ⟨by simp, by norm_num, by norm_num⟩

/-- **highest_values / lowest_values**: for `1 ≤ count ≤ n` the values are the first `count` entries
    of the descending (ascending) sort, the index list has `count` distinct valid positions, and
    `vals[idx[i]] = values[i]` for every `i`; other counts are rejected. -/
theorem C03_highest_lowest (vals : List Rat) (count : Int) :
    ((1 ≤ count ∧ count ≤ vals.length) →
      ∃ v ix, highestValues vals count = .ok (v, ix) ∧ v = (sortedDesc vals).take count.toNat ∧
        ix.map (fun i => vals.getD i 0) = v ∧ ix.Nodup ∧ ix.length = count.toNat ∧
        (∀ i ∈ ix, i < vals.length) ∧ (sortedDesc vals).Pairwise (· ≥ ·) ∧ (sortedDesc vals).Perm vals) ∧
    ((1 ≤ count ∧ count ≤ vals.length) →
      ∃ v ix, lowestValues vals count = .ok (v, ix) ∧ v = (sorted vals).take count.toNat ∧
        ix.map (fun i => vals.getD i 0) = v ∧ ix.Nodup ∧ ix.length = count.toNat ∧
        (∀ i ∈ ix, i < vals.length)) ∧
    (¬ (1 ≤ count ∧ count ≤ vals.length) →
      highestValues vals count = .error .assert ∧ lowestValues vals count = .error .assert) := by
  refine ⟨?_, ?_, ?_⟩
  · intro ⟨h1, h2⟩
    refine ⟨(sortedDesc vals).take count.toNat, (argsortDesc vals).take count.toNat, ?_, rfl, ?_, ?_, ?_, ?_,
      sortedDesc_pairwise vals, List.mergeSort_perm _ _⟩
    · unfold highestValues
      have a : ¬ ¬ count ≤ (vals.length : Int) := by omega
      have b : ¬ ¬ 0 < count := by omega
      simp only [a, b, ↓reduceIte]
    · rw [List.map_take, argsortDesc_values]
    · exact ((argsortDesc_perm vals).nodup_iff.mpr List.nodup_range).sublist (List.take_sublist _ _)
    · have : (argsortDesc vals).length = vals.length := by
        rw [(argsortDesc_perm vals).length_eq]; simp
      rw [List.length_take, this]; omega
    · intro i hi
      have := (argsortDesc_perm vals).mem_iff.mp (List.mem_of_mem_take hi)
      simpa using this
  · intro ⟨h1, h2⟩
    refine ⟨(sorted vals).take count.toNat, (argsortAsc vals).take count.toNat, ?_, rfl, ?_, ?_, ?_, ?_⟩
    · unfold lowestValues
      have a : ¬ ¬ count ≤ (vals.length : Int) := by omega
      have b : ¬ ¬ 0 < count := by omega
      simp only [a, b, ↓reduceIte]
    · rw [List.map_take, argsortAsc_values]
    · exact ((argsortAsc_perm vals).nodup_iff.mpr List.nodup_range).sublist (List.take_sublist _ _)
    · have : (argsortAsc vals).length = vals.length := by
        rw [(argsortAsc_perm vals).length_eq]; simp
      rw [List.length_take, this]; omega
    · intro i hi
      have := (argsortAsc_perm vals).mem_iff.mp (List.mem_of_mem_take hi)
      simpa using this
  · intro h
    unfold highestValues lowestValues
    by_cases a : count ≤ (vals.length : Int)
    · have b : ¬ 0 < count := by omega
      simp [a, b]
    · simp [a]

#guard highestValues [1, 5, 3, 5] 3 = .ok ([5, 5, 3], [1, 3, 2])

/-- **Stability of the index lists**: along `highest_values`' index list the values descend and equal
    values keep their original order (smaller index first); along `lowest_values`' index list the values
    ascend and equal values keep their original order – Python's `sorted` (also with `reverse=True`) is
    stable.  (The lists returned are prefixes `take count` of these, so the same holds for them.) -/
theorem C03_highest_lowest_stable (vals : List Rat) (count : Nat) :
    ((argsortDesc vals).take count).Pairwise (fun i j =>
      vals.getD j 0 ≤ vals.getD i 0 ∧ (vals.getD i 0 = vals.getD j 0 → i < j)) ∧
    ((argsortAsc vals).take count).Pairwise (fun i j =>
      vals.getD i 0 ≤ vals.getD j 0 ∧ (vals.getD i 0 = vals.getD j 0 → i < j)) :=
  ⟨(argsortDesc_stable vals).sublist (List.take_sublist _ _),
   (argsortAsc_stable vals).sublist (List.take_sublist _ _)⟩

#guard (argsortDesc [2, 5, 2, 5, 1]) = [1, 3, 0, 2, 4] ∧ (argsortAsc [2, 5, 2, 5, 1]) = [4, 0, 2, 1, 3]

/-- `total` does not depend on the order of the values and adds over concatenation – so the total of
    the groups' totals is the total of the collection (with `C03_keyed_partition`, item 3). -/
theorem C03_total_additive (a b : List Rat) :
    total (a ++ b) = total a + total b ∧ (a.Perm b → total a = total b) :=
  ⟨total_append a b, total_perm⟩

end Stats

/-! ### Histories on one object (round 3): Model/GroupObj.lean

  `Obj` is the collection as stored (with the lazily filled `_datetimes` slot of a continuous
  collection), `Pub` the public state, `Pub.fresh` the constructor, `Obj.step` one operation
  (reads; `values = …`, `coll[i] = v`, `convert_to_culled_timestep`), `Obj.after ops` the object after
  a history.  The state machine is compared with the real classes step by step on every run. -/

namespace Grp

/-- **Reads are pure**: a read (it may fill the `_datetimes` slot of a continuous collection) changes
    neither the public state nor the answer of any later read – so the same question asked twice gets
    the same answer, and reads can be made in any order. -/
theorem C03_read_pure (o : Obj) (r r' : Read) :
    (o.read r).1.pub = o.pub ∧ ((o.read r).1.read r').2 = (o.read r').2 ∧
    ((o.read r).1.read r).2 = (o.read r).2 :=
  ⟨same_pub (read_same o r), same_read_out (read_same o r) r', same_read_out (read_same o r) r⟩

theorem after_reads_same (rs : List Read) : ∀ o : Obj, Same (o.after (rs.map .read)) o := by
  induction rs with
  | nil => intro o; exact Same.rfl' o
  | cons r rest ih =>
    intro o
    exact (ih (o.read r).1).trans (read_same o r)

/-- **Order independence of reads**: after any sequence of reads, in any order and with any
    repetitions, every read answers as on the untouched object, and the public state is the same. -/
theorem C03_reads_order_independent (o : Obj) (rs : List Read) (r : Read) :
    ((o.after (rs.map .read)).read r).2 = (o.read r).2 ∧ (o.after (rs.map .read)).pub = o.pub :=
  ⟨same_read_out (after_reads_same rs o) r, same_pub (after_reads_same rs o)⟩

/-- **A refused operation leaves every observation unchanged**: when a step answers with an error
    class (wrong length or non-list for `values =`, index out of range, invalid timestep, any mutator
    on an immutable twin, percentile / count outside the documented range), a refused mutator returns
    the very same object, and after any refused step the public state and the answer of every later
    read are as before. -/
theorem C03_refused_preserves (o : Obj) (op : Op) (e : Refusal) (h : (o.step op).2 = .refused e) :
    (∀ m, op = .mut m → (o.step op).1 = o) ∧ (o.step op).1.pub = o.pub ∧
    ∀ r, ((o.step op).1.read r).2 = (o.read r).2 := by
  rcases op with r0 | m
  · refine ⟨fun m hm => (by cases hm), same_pub (read_same o r0), fun r => same_read_out (read_same o r0) r⟩
  · have hm : (o.mutate m).1 = o := mutate_refused o m e h
    refine ⟨fun _ _ => hm, ?_, fun r => ?_⟩
    · show (o.mutate m).1.pub = o.pub
      rw [hm]
    · show ((o.mutate m).1.read r).2 = (o.read r).2
      rw [hm]

/-- an immutable discontinuous collection with two values (non-vacuity of the refusal) -/
def sampleImm : Obj :=
  Pub.fresh ⟨.disc, true, ⟨1, 1, 0, 1, 1, 23, 1, false⟩, [1, 2], [⟨1, 1, 0, 0, false⟩, ⟨1, 1, 1, 0, false⟩], []⟩

example : (sampleImm.step (Op.mut (Mut.setitem 0 5))).2 = Out.refused Refusal.attr := rfl

/-- **Every history refines the fresh object**: start from any object whose slot is not stale (e.g. a
    freshly constructed one), run ANY history of reads, accepted mutators and refused operations (no
    bound on its length) in which every culling step on a continuous collection is grid-faithful; then
    the slot is still not stale, and every read answers exactly as on the object a constructor call
    would build from the final public state – the hidden `_datetimes` slot never shows.
    (Grid-faithfulness – the datetimes surviving an ACCEPTED `convert_to_culled_timestep(ts)`, i.e. one
    whose `ts` divides the current timestep, are the datetimes of the period at `ts` – is proved in
    `C03_cull_dividing_timestep`; `C03_history_refines_fresh_all` below discharges the hypothesis for every
    history over a well-formed period.) -/
theorem C03_history_refines_fresh (o : Obj) (hinv : Inv o) (ops : List Op) (hf : FaithfulHist o ops)
    (r : Read) :
    Inv (o.after ops) ∧ (o.run ops).1 = o.after ops ∧
    ((o.after ops).read r).2 = ((o.after ops).pub.fresh.read r).2 :=
  ⟨inv_after ops o hinv hf, run_fst ops o,
   same_read_out (inv_same_fresh _ (inv_after ops o hinv hf)) r⟩

theorem step_kind (o : Obj) (op : Op) : (o.step op).1.kind = o.kind := by
  rcases op with r | m
  · exact (read_same o r).1
  · show (o.mutate m).1.kind = o.kind
    unfold Obj.mutate
    by_cases hi : o.imm = true
    · simp [hi]
    · simp only [hi]
      cases m with
      | setvals v =>
        cases v with
        | none => rfl
        | some v => by_cases hc : v.length = o.expectedLen ∧ (o.kind = .cont ∨ v ≠ []) <;> simp [hc]
      | setitem i v =>
        by_cases hc : 0 ≤ (if i < 0 then i + (o.vals.length : Int) else i) ∧
            (if i < 0 then i + (o.vals.length : Int) else i) < (o.vals.length : Int) <;> simp [hc]
      | cull ts =>
        by_cases hd : o.kind = .daily
        · simp [hd]
        · by_cases hc : 0 ≤ ts ∧ ts.toNat ∈ Gen.Ap.validTimesteps
          · by_cases hn : o.kind = .cont ∧ o.ap.timestep % ts.toNat ≠ 0
            · simp [hd, hc, hn]
            · simp [hd, hc, hn]
          · simp [hd, hc]

theorem faithful_of_not_cont (ops : List Op) : ∀ o : Obj, o.kind ≠ .cont → FaithfulHist o ops := by
  induction ops with
  | nil => intro _ _; trivial
  | cons op rest ih =>
    intro o hk
    refine ⟨?_, ih _ (by rw [step_kind]; exact hk)⟩
    rcases op with r | m
    · trivial
    · cases m with
      | cull ts => intro hc; exact absurd hc hk
      | setvals v => trivial
      | setitem i v => trivial

/-- **Discontinuous and daily collections: every history refines the fresh object, unconditionally**
    (any reads, `values =`, `coll[i] =`, `convert_to_culled_timestep`, refused operations, in any
    order and number): every read after the history answers as on the object constructed from the
    final public state. -/
theorem C03_history_refines_fresh_disc (p : Pub) (hk : p.kind ≠ .cont) (ops : List Op) (r : Read) :
    ((p.fresh.after ops).read r).2 = ((p.fresh.after ops).pub.fresh.read r).2 :=
  (C03_history_refines_fresh p.fresh (inv_fresh p) ops (faithful_of_not_cont ops p.fresh hk) r).2.2

/-- **Culling a continuous collection to its own timestep is grid-faithful** (every datetime of a
    well-formed period lies on its own grid, so all survive and the slot holds the period's
    datetimes). -/
theorem C03_cull_same_timestep (o : Obj) (hwf : o.ap.WF) (hinv : Inv o) :
    Faithful o (.mut (.cull (o.ap.timestep : Int))) := by
  intro hk _ _ _
  have hds : o.datetimes = contDts o.ap := by
    unfold Obj.datetimes
    cases hs : o.dts with
    | none => rfl
    | some d => exact hinv hk d hs
  have hap : ({ o.ap with timestep := ((o.ap.timestep : Int)).toNat } : AP) = o.ap := by
    simp
  rw [hap, hds]
  unfold cullDts
  apply List.filter_eq_self.mpr
  intro d hd
  have := contDts_on_grid o.ap hwf d hd
  unfold cullKeep
  simp only [Int.toNat_natCast, decide_eq_true_eq]
  exact this

-- evaluated (a test, not a theorem): culling 4 → 2 → 1 steps per hour on a wrapping leap-year period
#guard cullDts 2 (contDts ⟨12, 30, 0, 1, 2, 23, 4, true⟩) = contDts ⟨12, 30, 0, 1, 2, 23, 2, true⟩ ∧
  cullDts 1 (contDts ⟨12, 30, 0, 1, 2, 23, 2, true⟩) = contDts ⟨12, 30, 0, 1, 2, 23, 1, true⟩ ∧
  cullDts 5 (contDts ⟨2, 28, 0, 3, 1, 23, 60, true⟩) = contDts ⟨2, 28, 0, 3, 1, 23, 5, true⟩

/-! ### Round 4: sibling classes, dividing culls, branch theorems -/

/-- **Culling to a dividing timestep is grid-faithful**: for a well-formed period at `timestep` and a
    valid `ts` that divides it, the datetimes that survive `convert_to_culled_timestep(ts)` are exactly
    the datetimes of the same period at `ts`, in the same order (any hour window; wrapping or not; leap
    or not).  (Generalises `C03_cull_same_timestep`.) -/
theorem C03_cull_dividing_timestep (ap : AP) (hwf : ap.WF) (ts : Nat) (hts : ts ∈ Gen.Ap.validTimesteps)
    (hdiv : ts ∣ ap.timestep) :
    cullDts ts (contDts ap) = contDts { ap with timestep := ts } :=
  cull_contDts ap hwf ts hts (step_dvd_of_timestep_dvd _ hwf.2.2 _ hts hdiv)

example : (2 : Nat) ∣ (⟨12, 30, 0, 1, 2, 23, 4, true⟩ : AP).timestep ∧ (⟨12, 30, 0, 1, 2, 23, 4, true⟩ : AP).WF := by
  decide

theorem faithful_all (o : Obj) (hwf : o.ap.WF) (hinv : Inv o) (op : Op) : Faithful o op := by
  rcases op with r | m
  · trivial
  · cases m with
    | cull ts =>
      intro hk _ hc hdiv
      have hds : o.datetimes = contDts o.ap := by
        unfold Obj.datetimes
        cases hs : o.dts with
        | none => rfl
        | some d => exact hinv hk d hs
      rw [hds]
      exact C03_cull_dividing_timestep o.ap hwf ts.toNat hc.2 (Nat.dvd_of_mod_eq_zero hdiv)
    | setvals v => trivial
    | setitem i v => trivial

theorem step_wf (o : Obj) (op : Op) (hwf : o.ap.WF) : (o.step op).1.ap.WF := by
  rcases op with r | m
  · show (o.read r).1.ap.WF
    rw [(read_same o r).2.2.1]; exact hwf
  · show (o.mutate m).1.ap.WF
    unfold Obj.mutate
    by_cases hi : o.imm = true
    · simpa [hi] using hwf
    · simp only [hi]
      cases m with
      | setvals v =>
        cases v with
        | none => exact hwf
        | some v => by_cases hc : v.length = o.expectedLen ∧ (o.kind = .cont ∨ v ≠ []) <;> simpa [hc] using hwf
      | setitem i v =>
        by_cases hc : 0 ≤ (if i < 0 then i + (o.vals.length : Int) else i) ∧
            (if i < 0 then i + (o.vals.length : Int) else i) < (o.vals.length : Int) <;> simpa [hc] using hwf
      | cull ts =>
        by_cases hd : o.kind = .daily
        · simpa [hd] using hwf
        · by_cases hc : 0 ≤ ts ∧ ts.toNat ∈ Gen.Ap.validTimesteps
          · simp only [hd, hc, and_self, ↓reduceIte]
            by_cases hn : o.kind = .cont ∧ o.ap.timestep % ts.toNat ≠ 0
            · rw [if_pos hn]; exact hwf
            · rw [if_neg hn]; exact atTimestep_wf o.ap hwf _ hc.2
          · simpa [hd, hc] using hwf

theorem faithfulHist_all (ops : List Op) : ∀ o : Obj, o.ap.WF → Inv o → FaithfulHist o ops := by
  induction ops with
  | nil => intro _ _ _; trivial
  | cons op rest ih =>
    intro o hwf hinv
    have hf := faithful_all o hwf hinv op
    exact ⟨hf, ih _ (step_wf o op hwf) (inv_step o op hinv hf)⟩

/-- **Every history refines the fresh object – all classes, no condition on the history.**  Start from a
    freshly constructed collection of any class (continuous, discontinuous, daily; mutable or immutable)
    over a well-formed period; run ANY history of reads, `values =`, `coll[i] =`,
    `convert_to_culled_timestep` and refused operations (no bound on its length); then every read answers
    exactly as on the object a constructor call would build from the final public state – the lazily
    filled `_datetimes` slot of a continuous collection never shows.  The grid-faithfulness hypothesis of
    `C03_history_refines_fresh` is discharged: a continuous collection accepts a culling step only when the
    new timestep divides its own (fix 2b7dc5a; a non-dividing one is refused, see
    `C03_cull_nondividing_refused`), and for a dividing one `C03_cull_dividing_timestep` applies. -/
theorem C03_history_refines_fresh_all (p : Pub) (hwf : p.ap.WF) (ops : List Op) (r : Read) :
    ((p.fresh.after ops).read r).2 = ((p.fresh.after ops).pub.fresh.read r).2 :=
  (C03_history_refines_fresh p.fresh (inv_fresh p) ops
    (faithfulHist_all ops p.fresh hwf (inv_fresh p)) r).2.2

/-- **A continuous collection refuses a culling step whose timestep does not divide its own** (the
    behaviour of fix 2b7dc5a): the call answers with the assertion error class and the object is
    unchanged – so no continuous collection ever holds fewer values than its period has steps. -/
theorem C03_cull_nondividing_refused (o : Obj) (hk : o.kind = .cont) (hi : o.imm = false) (ts : Int)
    (hc : 0 ≤ ts ∧ ts.toNat ∈ Gen.Ap.validTimesteps) (hn : o.ap.timestep % ts.toNat ≠ 0) :
    o.step (.mut (.cull ts)) = (o, .refused .assert) := by
  show o.mutate (.cull ts) = _
  unfold Obj.mutate
  have hd : ¬ o.kind = .daily := by rw [hk]; decide
  simp only [hi, hd, hc, and_self, ↓reduceIte, Bool.false_eq_true]
  rw [if_pos ⟨hk, hn⟩]

/-- a continuous collection at 4 steps per hour, culled to 2 and then to 1 (non-vacuity) -/
def sampleCont : Pub :=
  ⟨.cont, false, ⟨6, 21, 0, 6, 21, 23, 4, false⟩, (List.range 96).map (fun (n : Nat) => ((n : Int) : Rat)), [], []⟩

example : sampleCont.ap.WF ∧ (sampleCont.fresh.step (.mut (.cull 3))).1.ap.timestep = 4 ∧
    (sampleCont.fresh.step (.mut (.cull 2))).1.ap.timestep = 2 ∧ sampleCont.ap.timestep % (3 : Int).toNat ≠ 0 := by
  decide

/-- **Immutable and mutable twins answer alike** (kind e): the answer of every read is the same whether
    the collection is the mutable class or its immutable twin; and the immutable twin refuses every
    mutator, unchanged. -/
theorem C03_twins_agree (o : Obj) (b : Bool) (r : Read) (m : Mut) :
    (({ o with imm := b } : Obj).read r).2 = (o.read r).2 ∧
    ({ o with imm := true } : Obj).mutate m = ({ o with imm := true }, .refused .attr) := by
  constructor
  · rw [read_out, read_out]; rfl
  · simp [Obj.mutate]

/-- **Sibling classes answer alike** (kind e): on a continuous collection (whole-day period, as many
    values as steps, slot not stale) the slice-based `group_by_day` / `group_by_month` and the inherited
    `group_by_month_per_hour` return exactly the dictionaries of its `to_discontinuous()` image, which
    uses the datetime-keyed algorithms of the parent class. -/
theorem C03_siblings_agree (o : Obj) (hk : o.kind = .cont) (hwf : o.ap.WF) (h0 : o.ap.st_hour = 0)
    (h23 : o.ap.end_hour = 23) (hlen : o.vals.length = o.ap.len) (hinv : Inv o) :
    (o.read (.group .day)).2 = (o.read (.twin .day)).2 ∧
    (o.read (.group .month)).2 = (o.read (.twin .month)).2 ∧
    (o.read (.group .mph)).2 = (o.read (.twin .mph)).2 := by
  have hds : o.datetimes = contDts o.ap := by
    unfold Obj.datetimes
    cases hs : o.dts with
    | none => rfl
    | some d => exact hinv hk d hs
  have hdt := datetimes_eq_contDts o.ap hwf
  have hday := C03_cont_eq_keyed_day o.ap hwf h0 h23 (contDts o.ap) hdt o.vals hlen
  have hmon := C03_cont_eq_keyed_month o.ap hwf h0 h23 (contDts o.ap) hdt o.vals hlen
  refine ⟨?_, ?_, ?_⟩
  · rw [read_out, read_out, hk, hds]
    simp [observe, dayGroups, hday]
  · rw [read_out, read_out, hk, hds]
    simp [observe, monthGroups, hmon]
  · rw [read_out, read_out, hk, hds]
    simp [observe, mphGroups]

end Grp

namespace Stats

/-- **The two branches of `_percentile`** (kind j).  `f == c` branch: when the rank `(n − 1)·p/100` is a
    whole number `k`, the answer is the order statistic `k` itself (no interpolation).  Else branch:
    for a rank strictly between `k` and `k + 1` it is the weighted mean of the order statistics `k` and
    `k + 1` with the weights `k + 1 − rank` and `rank − k`. -/
theorem C03_percentile_branches (vals : List Rat) (hne : vals ≠ []) (p : Rat) (h0 : 0 ≤ p) (h1 : p ≤ 100)
    (k : Nat) :
    (rank vals p = ((k : Nat) : Rat) → percentile vals p = .ok (ordStat vals k)) ∧
    (((k : Nat) : Rat) < rank vals p → rank vals p < ((k : Nat) : Rat) + 1 →
      percentile vals p = .ok (ordStat vals k * (((k : Nat) : Rat) + 1 - rank vals p) +
        ordStat vals (k + 1) * (rank vals p - ((k : Nat) : Rat)))) := by
  constructor
  · intro hk
    rw [percentile_eq_interp vals hne p h0 h1, hk, interp_natCast]
  · intro hlo hhi
    have hfl : (rank vals p).floor = (k : Int) := by
      have a := Rat.le_floor_iff.mpr (show (((k : Int)) : Rat) ≤ rank vals p by push_cast; exact le_of_lt hlo)
      have b := Rat.floor_lt_iff.mpr (show rank vals p < ((((k : Int) + 1 : Int)) : Rat) by push_cast; exact hhi)
      omega
    rw [percentile_eq_interp vals hne p h0 h1]
    unfold interp
    rw [hfl]
    simp only [Int.toNat_natCast]
    congr 1
    push_cast
    ring

-- evaluated (a test, not a theorem): rank 3/4 lies strictly between 0 and 1; rank 3 is on a value
#guard percentile [4, 1, 2, 3] 25 = .ok (7 / 4) ∧ rank [4, 1, 2, 3] 25 = 3 / 4 ∧ rank [4, 1, 2, 3] 100 = 3

end Stats
