/-
  C18 — Cached and lazily loaded results do not depend on the order of use.

  Three layers (see Model/Lazy.lean, Model/WindProfile.lean):
  (a) generic memo objects: theorems for ALL read histories and ALL read/setter histories;
  (b) per class a dependency table regenerated from the Python source (Gen/LazyDeps.lean) and the
      `decide`d statement that it satisfies the hypotheses (one slot – one expression, no result
      that only another getter fills, setters clear what they invalidate, slots exist after __init__);
  (c) WindProfile: ALL setter sequences leave the cached denominators equal to those of a fresh
      object with the final settings; over ℝ the identity at the meteorological height and
      monotonicity in height.
-/
import Ladybug.Proofs.C18Lemmas
import Ladybug.Proofs.C18Table
import Ladybug.Proofs.C18Wind
import Ladybug.Proofs.C18Hist
import Ladybug.Proofs.C18Query
import Ladybug.Gen.LazyDeps

open Lazy

section generic
variable {Cfg Slot Val Field FVal : Type} [DecidableEq Slot]

/-- Any sequence of reads (any order, any repetitions) on a fresh object returns, for each read,
the defining expression of that attribute on the object's configuration: the answers do not
depend on what was read before, and reading twice gives the same answer twice. -/
theorem C18_read_pure (S : Spec Cfg Slot Val Field FVal) (c : Cfg) (is : List Slot) :
    (run S (fresh c) (is.map Op.read)).1 = is.map (fun i => S.f i c) :=
  (reads_spec S is (fresh c) (coh_fresh S c)).1

/-- First read = later read: reading attribute `i` after any history of other reads gives what
reading it first on a fresh object gives. -/
theorem C18_first_read_eq_later_read (S : Spec Cfg Slot Val Field FVal) (c : Cfg) (is : List Slot) (i : Slot) :
    (run S (fresh c) ((is ++ [i]).map Op.read)).1.getLast? = some (read S (fresh c) i).1 := by
  rw [C18_read_pure, (read_spec S (fresh c) i (coh_fresh S c)).1]
  simp [fresh]

/-- If every slot that a setter does not clear is independent of that setter's field, then
after ANY history of reads and setter calls every read returns the defining expression on the
settings current at that moment, and the object stays coherent. -/
theorem C18_set_sound (S : Spec Cfg Slot Val Field FVal) (H : Frame S) (c : Cfg)
    (ops : List (Op Slot Field FVal)) :
    (run S (fresh c) ops).1 = expected S c ops ∧ Coh S (run S (fresh c) ops).2 :=
  let r := run_spec S H ops (fresh c) (coh_fresh S c)
  ⟨r.1, r.2.1⟩

/-- … hence after any history, reading `i` equals reading `i` first on a fresh object built
directly with the final settings. -/
theorem C18_used_eq_fresh_final (S : Spec Cfg Slot Val Field FVal) (H : Frame S) (c : Cfg)
    (ops : List (Op Slot Field FVal)) (i : Slot) :
    (read S (run S (fresh c) ops).2 i).1 = (read S (fresh (finalCfg S c ops)) i).1 := by
  obtain ⟨_, h2, h3⟩ := run_spec S H ops (fresh c) (coh_fresh S c)
  rw [(read_spec S _ i h2).1, (read_spec S _ i (coh_fresh S _)).1, h3]
  rfl

/-- The frame condition follows from a dependency table: if `f i` only looks at the fields in
`reads i`, a setter changes only its own field, and every slot reading field `k` is cleared by
the setter of `k`, then `Frame` holds. (This is the semantic content of check T4.) -/
theorem C18_frame_of_table [DecidableEq Field] (S : Spec Cfg Slot Val Field FVal)
    (get : Field → Cfg → FVal) (reads : Slot → List Field)
    (hupd : ∀ k k' x c, k' ≠ k → get k' (S.upd k x c) = get k' c)
    (hloc : ∀ i c c', (∀ k ∈ reads i, get k c = get k c') → S.f i c = S.f i c')
    (htab : ∀ k i, k ∈ reads i → i ∈ S.resets k) : Frame S := by
  intro k x i c hi
  apply hloc
  intro k' hk'
  apply hupd
  intro e; subst e
  exact hi (htab _ _ hk')

end generic

/-! ### non-vacuity and the defect shape on a two-slot toy class -/

/-- toy class: slots 0 and 1 (= cfg + slot number); setter 0 clears both -/
def toySpec : Spec Nat (Fin 2) Nat Unit Nat :=
  { f := fun i c => c + i.val, upd := fun _ x _ => x, resets := fun _ => [0, 1] }

example : (run toySpec (fresh 5) [.read 1, .read 0, .read 1, .set () 7, .read 1]).1 = [6, 5, 6, 8] := by
  decide

/-- a setter that forgets to clear slot 1 (the "coefficient not recomputed" shape) is caught:
the frame condition is false and a read after the setter returns the old value. -/
def toyBad : Spec Nat (Fin 2) Nat Unit Nat := { toySpec with resets := fun _ => [0] }

theorem C18_forgotten_reset_counterexample_shape :
    (run toyBad (fresh 5) [.read 1, .set () 7, .read 1]).1 ≠ expected toyBad 5 [.read 1, .set () 7, .read 1] := by
  decide

/-! ### (b) the table machine is sound for every well-formed table -/

/-- MAIN CONNECTION.  For every dependency table that passes `wellFormed`, and for EVERY history of
getter reads and setter calls of that table (any order, any repetitions, any length), every read of
the table machine – the executable semantics that the correspondence run compares with the real
objects – answers `ok`: each cache attribute the getter looks at is present (no read fails, no
`None`/missing attribute), holds the getter's own defining expression (no other getter's), and
was evaluated on the settings current at the moment of the read (nothing stale), i.e. what a fresh
object with the final settings returns. -/
theorem C18_table_sound (t : ClassTable) (h : t.wellFormed = true) (ops : List TOp) :
    ∀ v ∈ runT t TState.empty ops, v = Verdict.ok :=
  runT_ok (wf_of_wellFormed h) ops TState.empty (inv_empty (wf_of_wellFormed h))

/-- … hence the answer to a read does not depend on the order or repetition of earlier reads and
setter calls: in any two histories all reads answer alike. -/
theorem C18_table_order_independent (t : ClassTable) (h : t.wellFormed = true) (ops₁ ops₂ : List TOp) :
    ∀ v₁ ∈ runT t TState.empty ops₁, ∀ v₂ ∈ runT t TState.empty ops₂, v₁ = v₂ := by
  intro v₁ h₁ v₂ h₂
  rw [C18_table_sound t h ops₁ v₁ h₁, C18_table_sound t h ops₂ v₂ h₂]

/-- The invariant behind it, for any reachable state: nothing cached is stale, every cached entry
was made by a block of the table or assigned by a setter, and a block whose guard attributes are
present has all its slots present; it is kept by every getter read and every setter call. -/
theorem C18_table_invariant (t : ClassTable) (h : t.wellFormed = true) (st : TState) (hi : Inv t st) :
    (∀ g ∈ t.getters, (stepGet t g st).1 = Verdict.ok ∧ Inv t (stepGet t g st).2) ∧
    (∀ s ∈ t.setters, Inv t (stepPut t s st)) :=
  ⟨fun _ hg => stepGet_spec (wf_of_wellFormed h) hi hg, fun _ hs => stepPut_inv (wf_of_wellFormed h) hi hs⟩

/-- The memo object DENOTED by a well-formed table (configuration = version of every attribute,
value of a slot = its defining expression with the versions of everything it reads, a setter
clears what the table says) satisfies the frame condition of the generic theorems … -/
theorem C18_table_frame (t : ClassTable) (h : t.wellFormed = true) : Frame t.denote :=
  denote_frame (wf_of_wellFormed h)

/-- … so the generic theorems apply to it: after ANY history of reads and setter calls, reading a
slot gives what a fresh object built directly with the final settings gives. -/
theorem C18_table_used_eq_fresh (t : ClassTable) (h : t.wellFormed = true) (c : Nat → Nat)
    (ops : List (Op Nat Nat Unit)) (i : Nat) :
    (read t.denote (run t.denote (fresh c) ops).2 i).1 =
      (read t.denote (fresh (finalCfg t.denote c ops)) i).1 :=
  C18_used_eq_fresh_final t.denote (C18_table_frame t h) c ops i

/-! ### the regenerated tables: `wellFormed` by `decide`, every history order-independent -/

/-- ViewSphere: 11 lazily built tables; the regenerated table is well-formed (fails on a tree where
`tregenza_solid_angles` stores into `_reinhart_solid_angles`). -/
theorem C18_deps_ViewSphere : Gen.LazyDeps.tblViewSphere.wellFormed = true := by decide +kernel
/-- ViewSphere: every read in every history of reads answers its own table, in any order. -/
theorem C18_history_ViewSphere (ops : List TOp) :
    ∀ v ∈ runT Gen.LazyDeps.tblViewSphere TState.empty ops, v = Verdict.ok :=
  C18_table_sound _ C18_deps_ViewSphere ops

/-- SQLiteResult: ten lazily extracted summaries. -/
theorem C18_deps_SQLiteResult : Gen.LazyDeps.tblSQLiteResult.wellFormed = true := by decide +kernel
/-- SQLiteResult: every history of reads is order-independent. -/
theorem C18_history_SQLiteResult (ops : List TOp) :
    ∀ v ∈ runT Gen.LazyDeps.tblSQLiteResult TState.empty ops, v = Verdict.ok :=
  C18_table_sound _ C18_deps_SQLiteResult ops

/-- AnalysisPeriod: `_timestamps_data` / `_datetimes` filled together by every time-axis getter. -/
theorem C18_deps_AnalysisPeriod : Gen.LazyDeps.tblAnalysisPeriod.wellFormed = true := by decide +kernel
/-- AnalysisPeriod: every history of reads is order-independent. -/
theorem C18_history_AnalysisPeriod (ops : List TOp) :
    ∀ v ∈ runT Gen.LazyDeps.tblAnalysisPeriod TState.empty ops, v = Verdict.ok :=
  C18_table_sound _ C18_deps_AnalysisPeriod ops

/-- HourlyPlot: hour/month label caches; every label list is filled by its own getter and exists
after `__init__` (fails on a tree without `_hour_text_24 = None`). -/
theorem C18_deps_HourlyPlot : Gen.LazyDeps.tblHourlyPlot.wellFormed = true := by decide +kernel
/-- HourlyPlot: every history of reads is order-independent. -/
theorem C18_history_HourlyPlot (ops : List TOp) :
    ∀ v ∈ runT Gen.LazyDeps.tblHourlyPlot TState.empty ops, v = Verdict.ok :=
  C18_table_sound _ C18_deps_HourlyPlot ops

/-- WindRose: every setter clears the cached container it invalidates (fails on a tree where
`frequency_hours` keeps the container or `windrose_lines` keeps `_poly_array` under a guard). -/
theorem C18_deps_WindRose : Gen.LazyDeps.tblWindRose.wellFormed = true := by decide +kernel
/-- WindRose: every history of reads and of its eight setters is order-independent and equals a
fresh object with the final settings. -/
theorem C18_history_WindRose (ops : List TOp) :
    ∀ v ∈ runT Gen.LazyDeps.tblWindRose TState.empty ops, v = Verdict.ok :=
  C18_table_sound _ C18_deps_WindRose ops

/-- MonthlyChart: cached axis/label points do not read the Y-axis limits that
`set_minimum_by_index` / `set_maximum_by_index` change. -/
theorem C18_deps_MonthlyChart : Gen.LazyDeps.tblMonthlyChart.wellFormed = true := by decide +kernel
/-- MonthlyChart: every history of reads and limit changes is order-independent. -/
theorem C18_history_MonthlyChart (ops : List TOp) :
    ∀ v ∈ runT Gen.LazyDeps.tblMonthlyChart TState.empty ops, v = Verdict.ok :=
  C18_table_sound _ C18_deps_MonthlyChart ops

/-- PsychrometricChart: seven optional geometry caches. -/
theorem C18_deps_PsychrometricChart : Gen.LazyDeps.tblPsychrometricChart.wellFormed = true := by
  decide +kernel
/-- PsychrometricChart: every history of reads is order-independent. -/
theorem C18_history_PsychrometricChart (ops : List TOp) :
    ∀ v ∈ runT Gen.LazyDeps.tblPsychrometricChart TState.empty ops, v = Verdict.ok :=
  C18_table_sound _ C18_deps_PsychrometricChart ops

/-- Compass: no caches at all (every property is recomputed from the five settings). -/
theorem C18_deps_Compass : Gen.LazyDeps.tblCompass.wellFormed = true := by decide +kernel
/-- Compass: every history of reads and setter calls is order-independent. -/
theorem C18_history_Compass (ops : List TOp) :
    ∀ v ∈ runT Gen.LazyDeps.tblCompass TState.empty ops, v = Verdict.ok :=
  C18_table_sound _ C18_deps_Compass ops

/-- HourlyContinuousCollection (with the members inherited from HourlyDiscontinuousCollection and
BaseCollection): PARTIAL – the table restricted to reads is well-formed, so every history of reads
is order-independent (`datetimes` is filled under its own guard from the header's analysis period).
Missing: histories containing the in-place converters `convert_to_unit/ip/si`, which assign a new
`_header` (with the same analysis period) without clearing `_datetimes`: at attribute granularity
check T4 rejects them; on the real code the analysis period is unchanged (covered by the oracle only). -/
theorem C18_deps_HourlyContinuousCollection_partial :
    Gen.LazyDeps.tblHourlyContinuousCollection.readOnly.wellFormed = true := by decide +kernel
/-- HourlyContinuousCollection: every history of reads is order-independent. -/
theorem C18_history_HourlyContinuousCollection_partial (ops : List TOp) :
    ∀ v ∈ runT Gen.LazyDeps.tblHourlyContinuousCollection.readOnly TState.empty ops, v = Verdict.ok :=
  C18_table_sound _ C18_deps_HourlyContinuousCollection_partial ops

/-! ### round 3: the in-place operations of the collections, refused operations -/

/-- HourlyContinuousCollection, FULL table (strengthens the `_partial` pair above): with the header split
into sub-object paths (`_header.analysis_period`, `_header.unit`, …) the regenerated table WITH the values
setter and the in-place methods `convert_to_unit/ip/si`, `convert_to_culled_timestep` (and the memo-filling
`to_immutable`, `get_aligned_collection`) is well-formed: every operation that assigns something the cached
`datetimes` were derived from (the header's analysis period) also assigns or clears `_datetimes`.  Fails on a
tree where an in-place operation swaps the analysis period and keeps the cached date-times. -/
theorem C18_deps_HourlyContinuousCollection :
    Gen.LazyDeps.tblHourlyContinuousCollection.wellFormed = true := by decide +kernel
/-- HourlyContinuousCollection: every read in every history of reads, value assignments and in-place
operations answers with its own expression on the current state. -/
theorem C18_history_HourlyContinuousCollection (ops : List TOp) :
    ∀ v ∈ runT Gen.LazyDeps.tblHourlyContinuousCollection TState.empty ops, v = Verdict.ok :=
  C18_table_sound _ C18_deps_HourlyContinuousCollection ops

section hist
variable {Cfg Slot Val Field FVal : Type} [DecidableEq Slot]

/-- A refused operation (a setter call whose argument is not valid for the current public state) returns
the object unchanged - configuration and cache - and the output `refused`. -/
theorem C18_refused_preserves (S : Spec Cfg Slot Val Field FVal) (valid : Field → FVal → Cfg → Bool)
    (o : Obj Cfg Slot Val) (k : Field) (x : FVal) (h : valid k x o.cfg = false) :
    step S valid o (.set k x) = (o, Out.refused) := by
  simp [step, h]

/-- … hence every observation after a refused operation is the observation before it. -/
theorem C18_refused_preserves_reads (S : Spec Cfg Slot Val Field FVal) (valid : Field → FVal → Cfg → Bool)
    (o : Obj Cfg Slot Val) (k : Field) (x : FVal) (h : valid k x o.cfg = false) (i : Slot) :
    read S (step S valid o (.set k x)).1 i = read S o i := by
  rw [C18_refused_preserves S valid o k x h]

/-- HISTORY REFINES FRESH.  For every history of reads, accepted setter calls and refused setter calls
(any order, any repetition, any length), every observation after the history equals the observation of a
fresh object built from the final public state = the accepted calls only.  Hypothesis: the frame
condition (each setter clears the slots that read its field), which `C18_table_frame` derives from a
well-formed dependency table. -/
theorem C18_history_refines_fresh (S : Spec Cfg Slot Val Field FVal) (H : Frame S)
    (valid : Field → FVal → Cfg → Bool) (c : Cfg) (ops : List (HOp Slot Field FVal)) (i : Slot) :
    (read S (runH S valid (fresh c) ops).2 i).1 = (read S (fresh (publicCfg S valid c ops)) i).1 := by
  rw [runH_obj S valid ops (fresh c), publicCfg_eq S valid ops c]
  exact C18_used_eq_fresh_final S H c (accepted S valid c ops) i

/-- The public state after a history does not depend on the reads and refused calls in it. -/
theorem C18_public_state_of_accepted (S : Spec Cfg Slot Val Field FVal) (valid : Field → FVal → Cfg → Bool)
    (c : Cfg) (ops : List (HOp Slot Field FVal)) :
    publicCfg S valid c ops = finalCfg S c (accepted S valid c ops) :=
  publicCfg_eq S valid ops c

end hist

/-- non-vacuity on the toy class: setter values above 100 are refused; the refused call changes nothing and
the last read equals that of a fresh object with the accepted value 7 -/
example : (runH toySpec (fun _ x _ => decide (x ≤ 100)) (fresh 5)
    [.read 1, .set () 500, .read 1, .set () 7, .set () 101, .read 1]).1 =
    [.val 6, .refused, .val 6, .done, .refused, .val 8] := by decide

/-! ### round 5: settings are independent fields - setter calls on different settings commute -/

section settings
variable {Field FVal : Type} [DecidableEq Field]

/-- SETTER CALLS COMMUTE.  When the code of every setter looks at its own setting only (`OwnOnly`, the semantic
content of the decided table check `setterFrame`), two calls of DIFFERENT setters give the same public state in
either order - whatever a setter does with its argument (store, convert, clamp, skip). -/
theorem C18_settings_commute (F : FieldSetters Field FVal) (hL : F.Local) (hO : F.OwnOnly) {k k' : Field}
    (h : k ≠ k') (x x' : FVal) (c : Field → FVal) :
    F.upd k x (F.upd k' x' c) = F.upd k' x' (F.upd k x c) :=
  FieldSetters.upd_comm F hL hO h x x' c

/-- THE FINAL SETTINGS, NOT THEIR ORDER.  Any two orders of the same setter calls on pairwise different settings
(any number of settings) establish the same public state: "a fresh object built directly with the final
settings" is well defined. -/
theorem C18_settings_order_irrelevant (F : FieldSetters Field FVal) (hL : F.Local) (hO : F.OwnOnly)
    {l₁ l₂ : List (Field × FVal)} (p : l₁.Perm l₂) (nd : (l₁.map Prod.fst).Nodup) (c : Field → FVal) :
    F.apply c l₁ = F.apply c l₂ :=
  FieldSetters.apply_perm F hL hO p nd c

/-- … hence, for the memo object over such settings (frame condition as before), every derived result after
the setter calls in one order equals that after the calls in any other order, and that of a fresh object built
from the final settings. -/
theorem C18_setter_order_refines_fresh {Slot Val : Type} [DecidableEq Slot] (F : FieldSetters Field FVal)
    (hL : F.Local) (hO : F.OwnOnly) (f : Slot → (Field → FVal) → Val) (resets : Field → List Slot)
    (H : Frame (F.toSpec f resets)) {l₁ l₂ : List (Field × FVal)} (p : l₁.Perm l₂)
    (nd : (l₁.map Prod.fst).Nodup) (c : Field → FVal) (i : Slot) :
    (read (F.toSpec f resets) (run (F.toSpec f resets) (fresh c) (FieldSetters.setOps l₁)).2 i).1 =
      (read (F.toSpec f resets) (fresh (F.apply c l₂)) i).1 := by
  rw [C18_used_eq_fresh_final _ H, FieldSetters.finalCfg_setOps, FieldSetters.apply_perm F hL hO p nd c]

end settings

/-- The Y-axis limits of a monthly chart as the code is (unconditional stores): each setter looks at its own
limit only … -/
theorem C18_chart_limits_own : chartLimits.Local ∧ chartLimits.OwnOnly :=
  ⟨fun _ _ _ _ _ => rfl, fun k j hj => by simpa [chartLimits] using hj⟩

/-- … so minimum-then-maximum and maximum-then-minimum give the same axis, for all values and all starting
limits (also a range entirely beyond the current one). -/
theorem C18_chart_limits_order_irrelevant (lo hi : Int) (c : Bool → Int) :
    chartLimits.apply c [(false, lo), (true, hi)] = chartLimits.apply c [(true, hi), (false, lo)] :=
  C18_settings_order_irrelevant chartLimits C18_chart_limits_own.1 C18_chart_limits_own.2
    (List.Perm.swap _ _ _) (by simp) c

/-- Defect shape "cross-field check with a silent skip" (class of seeded change C18-16): with data limits 2..26,
moving the axis to 30..60 minimum first leaves the minimum at 2 (30 >= 26 was ignored), maximum first gives
30..60: the result depends on the order of the calls, and the setter reads the other setting. -/
theorem C18_cross_field_skip_counterexample_shape :
    let c : Bool → Int := fun k => if k then 26 else 2
    (chartLimitsSkip.apply c [(false, 30), (true, 60)] false = 2 ∧
     chartLimitsSkip.apply c [(true, 60), (false, 30)] false = 30) ∧ ¬ chartLimitsSkip.OwnOnly := by
  refine ⟨by decide, fun h => ?_⟩
  have := h false true (by simp [chartLimitsSkip])
  cases this

/-- non-vacuity: the limits as the code is, 30..60 from 2..26 in both orders -/
example : (chartLimits.apply (fun k => if k then 26 else 2) [(false, 30), (true, 60)] false,
    chartLimits.apply (fun k => if k then 26 else 2) [(true, 60), (false, 30)] true) = (30, 60) := by decide

/-- MonthlyChart: the regenerated table says that `set_minimum_by_index` / `set_maximum_by_index` load nothing
but the list they store into (fails on a tree where one of them consults the other limit). -/
theorem C18_setter_frame_MonthlyChart : Gen.LazyDeps.tblMonthlyChart.setterFrame = true := by decide +kernel
/-- WindRose: none of the eight setters looks at a setting of another setter. -/
theorem C18_setter_frame_WindRose : Gen.LazyDeps.tblWindRose.setterFrame = true := by decide +kernel
/-- Compass: each setter looks only at what it assigns itself (north angle and north vector are ONE setting
with two setters: both assign both attributes). -/
theorem C18_setter_frame_Compass : Gen.LazyDeps.tblCompass.setterFrame = true := by decide +kernel
/-- HourlyContinuousCollection is NOT a record of independent settings: the values setter checks the length
against the analysis period that `convert_to_culled_timestep` replaces (an in-place operation; the oracle
replays those in order). -/
example : Gen.LazyDeps.tblHourlyContinuousCollection.setterFrame = false := by decide +kernel

/-- Table machine: a refused call of a setter that has assigned nothing before its last check leaves the
machine state unchanged. -/
theorem C18_table_refused_preserves (t : ClassTable) (s : Setter) (st : TState) (h : s.early.isEmpty = true) :
    stepRefuse t s st = st := stepRefuse_safe t s st h

/-- For every well-formed table none of whose setters assigns before it can refuse, every read of every
history of reads, setter calls and REFUSED setter calls answers `ok`. -/
theorem C18_table_refused_sound (t : ClassTable) (h : t.wellFormed = true) (hr : t.refusalSafe = true)
    (ops : List XOp) : ∀ v ∈ runX t TState.empty ops, v = Verdict.ok := by
  rw [runX_eq_runT t hr ops]
  exact C18_table_sound t h _

/-- WindRose: no setter has assigned a value when it can still refuse (clearing the cached container
early is harmless); with `C18_deps_WindRose`: histories with refused calls are sound. -/
theorem C18_refusal_safe_WindRose : Gen.LazyDeps.tblWindRose.refusalSafe = true := by decide +kernel
theorem C18_history_refused_WindRose (ops : List XOp) :
    ∀ v ∈ runX Gen.LazyDeps.tblWindRose TState.empty ops, v = Verdict.ok :=
  C18_table_refused_sound _ C18_deps_WindRose C18_refusal_safe_WindRose ops

/-- MonthlyChart: the two limit methods refuse nothing after assigning. -/
theorem C18_refusal_safe_MonthlyChart : Gen.LazyDeps.tblMonthlyChart.refusalSafe = true := by decide +kernel

/-- HourlyContinuousCollection: the values setter checks before it assigns, the in-place methods assert
before they assign. -/
theorem C18_refusal_safe_HourlyContinuousCollection :
    Gen.LazyDeps.tblHourlyContinuousCollection.refusalSafe = true := by decide +kernel
theorem C18_history_refused_HourlyContinuousCollection (ops : List XOp) :
    ∀ v ∈ runX Gen.LazyDeps.tblHourlyContinuousCollection TState.empty ops, v = Verdict.ok :=
  C18_table_refused_sound _ C18_deps_HourlyContinuousCollection C18_refusal_safe_HourlyContinuousCollection ops

/-- Defect shape "assign, then validate" (the three Compass setters of the pinned tree, recorded finding):
a toy setter that has written attribute 1 when it refuses; a slot computed from attribute 1 before the
refused call is stale afterwards, and `refusalSafe` rejects the table. -/
def toyEarly : ClassTable :=
  { name := "ToyEarly", attrs := ["_slot", "_radius"], init := [0, 1],
    getters := [{ name := "p", sites := [{ guarded := true, guard := [0], slots := [0], expr := 0,
                                           reads := [0, 1], clears := [] }], direct := [0], clears := [] }],
    setters := [{ name := "radius", writes := [1], clears := [0], early := [1] }] }

theorem C18_refused_assigns_counterexample_shape :
    toyEarly.wellFormed = true ∧ toyEarly.refusalSafe = false ∧
    runX toyEarly .empty [.get 0, .refuse 0, .get 0] = [.ok, .stale] := by decide

/-- non-vacuity: a WindRose history with setters and repeated reads -/
example : runT Gen.LazyDeps.tblWindRose TState.empty [.get 7, .put 1, .get 7, .get 8, .put 5, .get 7] =
    [.ok, .ok, .ok, .ok] := by decide +kernel

/-- The table machine on the regenerated ViewSphere table: reading the two solid-angle tables in
either order, repeatedly, always yields each getter's own expression (a test of the executable
model on one history, not a ∀-statement). -/
example : Lazy.runT Gen.LazyDeps.tblViewSphere .empty [.get 2, .get 8, .get 2, .get 8] = [.ok, .ok, .ok, .ok] := by
  decide +kernel

/-- Defect shape "cache slot shared by two attributes" on a two-getter toy table: the second
getter returns the first getter's expression (verdict `alias`), and check T1 rejects the table. -/
def toyShared : ClassTable :=
  { name := "Toy", attrs := ["_a"], init := [0],
    getters := [
      { name := "p", sites := [{ guarded := true, guard := [0], slots := [0], expr := 0, reads := [], clears := [] }],
        direct := [0], clears := [] },
      { name := "q", sites := [{ guarded := true, guard := [0], slots := [0], expr := 1, reads := [], clears := [] }],
        direct := [0], clears := [] }],
    setters := [] }

theorem C18_shared_slot_counterexample_shape :
    toyShared.oneExpr = false ∧ Lazy.runT toyShared .empty [.get 0, .get 1] = [.ok, .alias 0] := by
  decide

/-! ### round 4: read-only query methods between reads -/

section query
variable {Cfg Slot Val Field FVal Q Ans : Type} [DecidableEq Slot]

/-- HISTORIES WITH QUERY METHODS.  For every history of reads, setter calls (accepted or refused) and calls of
read-only query methods (methods that load cached attributes, filling them like a read, and answer with a
function of the settings and the loaded values - `is_time_included`, `filter_by_*`, `ticks_from_angles` ...),
every step outputs what the specification says: a read its defining expression on the current public state, a
query method its answer function on that state.  Frame hypothesis as in `C18_history_refines_fresh`. -/
theorem C18_query_history_spec (S : Spec Cfg Slot Val Field FVal) (H : Frame S)
    (valid : Field → FVal → Cfg → Bool) (Qs : Q → Query Cfg Slot Val Ans) (c : Cfg)
    (ops : List (QOp Slot Field FVal Q)) :
    (runQ S valid Qs (fresh c) ops).1 = expectedQ S valid Qs c ops :=
  (runQ_spec S H valid Qs ops (fresh c) (coh_fresh S c)).1

/-- … hence every observation after such a history equals that of a fresh object built from the final public
state, and that state is the one of the history WITHOUT its query-method calls (they are not settings). -/
theorem C18_query_history_refines_fresh (S : Spec Cfg Slot Val Field FVal) (H : Frame S)
    (valid : Field → FVal → Cfg → Bool) (Qs : Q → Query Cfg Slot Val Ans) (c : Cfg)
    (ops : List (QOp Slot Field FVal Q)) (i : Slot) :
    (read S (runQ S valid Qs (fresh c) ops).2 i).1 =
      (read S (fresh (publicCfgQ S valid c (dropUse ops))) i).1 := by
  obtain ⟨_, hcoh, hcfg⟩ := runQ_spec S H valid Qs ops (fresh c) (coh_fresh S c)
  rw [(read_spec S _ i hcoh).1, (read_spec S _ i (coh_fresh S _)).1, hcfg, publicCfgQ_dropUse]
  rfl

/-- The answer of a query method after any history is its answer on a fresh object built from the final public
state: what was read, asked or refused before does not matter. -/
theorem C18_query_answer_eq_fresh (S : Spec Cfg Slot Val Field FVal) (H : Frame S)
    (valid : Field → FVal → Cfg → Bool) (Qs : Q → Query Cfg Slot Val Ans) (c : Cfg)
    (ops : List (QOp Slot Field FVal Q)) (q : Q) :
    (stepQ S valid Qs (runQ S valid Qs (fresh c) ops).2 (.use q)).2 =
      (stepQ S valid Qs (fresh (publicCfgQ S valid c ops)) (.use q)).2 := by
  obtain ⟨_, hcoh, hcfg⟩ := runQ_spec S H valid Qs ops (fresh c) (coh_fresh S c)
  have h1 := (stepQ_spec S H valid Qs _ hcoh (.use q)).1
  have h2 := (stepQ_spec S H valid Qs _ (coh_fresh S (publicCfgQ S valid c ops)) (.use q)).1
  rw [hcfg] at h1
  exact (List.cons.inj (h1.trans h2.symm)).1

/-- Query methods are unobservable: the outputs of the reads and setter calls of a history are those of the same
history with every query-method call removed. -/
theorem C18_queries_unobservable (S : Spec Cfg Slot Val Field FVal) (H : Frame S)
    (valid : Field → FVal → Cfg → Bool) (Qs : Q → Query Cfg Slot Val Ans) (c : Cfg)
    (ops : List (QOp Slot Field FVal Q)) :
    (runQ S valid Qs (fresh c) ops).1.filter (fun o => !o.isAns) =
      (runQ S valid Qs (fresh c) (dropUse ops)).1 := by
  rw [C18_query_history_spec S H valid Qs c ops, C18_query_history_spec S H valid Qs c (dropUse ops)]
  exact expectedQ_dropUse S valid Qs ops c

end query

section world
variable {Cfg Slot Val Field FVal Q Ans : Type} [DecidableEq Slot]

/-- OBJECTS ARE ISOLATED.  In a process with several objects, any history of reads, setter calls (accepted or
refused) and query-method calls addressed to OTHER objects leaves object `k` - settings and cache - exactly as it
was, so every observation of `k` is unchanged.  (The specification has no class-level or module-level state; that
the real classes have none either is what the `isolated` / `cross` / `order` cases of the harness test.) -/
theorem C18_world_frame (S : Spec Cfg Slot Val Field FVal) (valid : Field → FVal → Cfg → Bool)
    (Qs : Q → Query Cfg Slot Val Ans) (w : Nat → Obj Cfg Slot Val) (k : Nat)
    (ops : List (Nat × QOp Slot Field FVal Q)) (h : ∀ p ∈ ops, p.1 ≠ k) (i : Slot) :
    read S (runW S valid Qs w ops k) i = read S (w k) i := by
  rw [runW_other S valid Qs k ops w h]

end world

/-- non-vacuity: two toy objects; three operations on object 0 leave the answer of object 1 alone -/
example : (read toySpec (runW toySpec (fun _ _ _ => true) (fun (_ : Unit) => (⟨[0], fun c _ => c⟩ : Query Nat (Fin 2) Nat Nat))
    (fun n => fresh (10 * n)) [(0, .set () 3), (0, .use ()), (0, .read 1)] 1) 1).1 = 11 := by decide

/-- non-vacuity on the toy class: a query method loading both slots between reads, a refused and an accepted
setter call; the reads answer as without the query, the query answers from the current settings -/
example : (runQ toySpec (fun _ x _ => decide (x ≤ 100)) (fun (_ : Unit) => (⟨[1, 0], fun c vs => vs.foldl (· + ·) c⟩ : Query Nat (Fin 2) Nat Nat))
    (fresh 5) [.use (), .read 1, .set () 500, .set () 7, .use (), .read 0]).1 =
    [.ans 16, .val 6, .refused, .done, .ans 22, .val 7] := by decide

/-- Defect shape "a query method converts the cached list" (a look-up method replacing the slot that the
time-axis properties iterate by a set of the same elements): on the table the method is a getter `m()` whose
value-dependent rewrite of slot 0 is a `refine` with a code id of its own.  The table machine does not execute
value-dependent rewrites (its verdicts stay `ok`); it is condition T1 "one slot - one defining expression" that
rejects the table - so the `decide`d well-formedness theorem of the class fails on such a tree, and the harness
finds the failing history with a `use` operation between two reads. -/
def toyConvert : ClassTable :=
  { name := "ToyConvert", attrs := ["_stamps"], init := [0],
    getters := [
      { name := "moys", sites := [{ guarded := true, guard := [0], slots := [0], expr := 0, reads := [], clears := [] }],
        direct := [0], clears := [] },
      { name := "is_included()", sites := [{ guarded := true, guard := [0], slots := [0], expr := 0, reads := [], clears := [] }],
        direct := [0], clears := [], refines := [(0, 1)] }],
    setters := [] }

theorem C18_query_rewrites_slot_counterexample_shape :
    toyConvert.wellFormed = false ∧ toyConvert.oneExpr = false ∧
    Lazy.runT toyConvert .empty [.get 0, .get 1, .get 0] = [.ok, .ok, .ok] := by
  decide

/-- AnalysisPeriod with its look-up method: `is_time_included()` is a getter of the regenerated table (it fills
the two time-axis slots by the very block the properties use), so `C18_deps_AnalysisPeriod` and
`C18_history_AnalysisPeriod` quantify over histories that call it between the reads; a sample history: -/
example : (Gen.LazyDeps.tblAnalysisPeriod.getters.map (·.name)).contains "is_time_included()" = true := by
  decide +kernel

/-! ### (c) WindProfile -/

namespace Wind

/-- The regenerated setter table: the model's setters assign the same attributes as the source's,
and every setter that assigns an attribute read by a cached denominator recomputes it (fails when
e.g. `met_roughness_length` stops calling `_compute_met_log_denom`). -/
theorem C18_wind_table :
    writesMatch Gen.Wind.setterTable = true ∧ needsMatch = true ∧ TableOk genTable = true := by
  decide +kernel

section
variable {α : Type} [Div α] [Mul α] [LT α] [DecidableLT α] [OfNat α 0] [OfNat α 1]
variable (pw : α → α → α) (lg : α → α) (tp : Nat → Option (α × α × α))

/-- For ALL sequences of setter calls (valid or rejected) applied to an object whose cached
denominators are right, the object equals a fresh object built directly with the final settings;
in particular `calculate_wind` gives the same speeds. -/
theorem C18_wind_fresh (tbl : RecTable) (hT : TableOk tbl = true) (s : St α) (hs : Inv pw lg s)
    (calls : List (Call α)) (v h : α) :
    run pw lg tp tbl s calls = fresh pw lg (finalCfg tp s.cfg calls) ∧
    calculateWind pw lg (run pw lg tp tbl s calls) v h =
      calculateWind pw lg (fresh pw lg (finalCfg tp s.cfg calls)) v h := by
  obtain ⟨h1, h2⟩ := run_inv pw lg tp hT calls s hs
  have e : run pw lg tp tbl s calls = fresh pw lg (finalCfg tp s.cfg calls) := by
    rw [← h2]; exact (inv_iff_fresh pw lg _).1 h1
  exact ⟨e, by rw [e]⟩

/-- The constructor establishes the invariant: a newly constructed object has the denominators
of its settings. -/
theorem C18_wind_init_inv (tbl : RecTable) (hT : TableOk tbl = true) (ten : α) (t mt : Option Nat)
    (mh : α) (ll : Bool) (s : St α) (h : init pw lg tp tbl ten t mt mh ll = .ok s) : Inv pw lg s := by
  unfold init at h
  simp only [bind, Except.bind] at h
  split at h
  · cases h
  · rename_i s1 h1
    split at h
    · cases h
    · rename_i s2 h2
      split at h
      · cases h
      · rename_i s3 h3
        -- the meteorological_terrain setter recomputes both denominators, whatever came before
        have i2 : Inv pw lg s2 := by
          unfold St.set at h2
          cases hc : s1.cfg.set tp ⟨.metTerrain, 0, mt, false⟩ with
          | error e => rw [hc] at h2; cases h2
          | ok c =>
            rw [hc] at h2
            simp only at h2
            cases h2
            have hp := tableOk_pow hT .metTerrain rfl
            have hl := tableOk_log hT .metTerrain rfl
            exact ⟨by simp [hp], by simp [hl]⟩
        have i3 := (set_inv pw lg tp hT i2 h3).1
        exact (set_inv pw lg tp hT i3 h).1

end

/-! over ℝ (`pw = Real.rpow`, `lg = Real.log`) -/

/-- Power law: at the meteorological height, with the location parameters equal to the
meteorological ones, a coherent object returns the meteorological speed unchanged. -/
theorem C18_wind_identity_power (s : St ℝ) (hs : Inv rpw rlg s) (v : ℝ)
    (hll : s.cfg.logLaw = false) (hb : s.cfg.blh = s.cfg.metBlh) (he : s.cfg.exp = s.cfg.metExp)
    (hh : 0 < s.cfg.metH) (hbl : 0 < s.cfg.metBlh) :
    calculateWind rpw rlg s v s.cfg.metH = .ok v := by
  unfold calculateWind
  simp only [hll, Bool.false_eq_true, if_false]
  rw [hs.1, hb, he]
  unfold powDenOf
  rw [pow_identity _ _ _ _ hh hbl]

/-- Log law: at the meteorological height, with the location roughness equal to the
meteorological one and the height above the roughness length, the speed is returned unchanged. -/
theorem C18_wind_identity_log (s : St ℝ) (hs : Inv rpw rlg s) (v : ℝ)
    (hll : s.cfg.logLaw = true) (hz : s.cfg.z0 = s.cfg.metZ0) (hz0 : 0 < s.cfg.metZ0)
    (hh : s.cfg.metZ0 < s.cfg.metH) :
    calculateWind rpw rlg s v s.cfg.metH = .ok v := by
  unfold calculateWind
  have hpos : 0 < s.logDen := by rw [hs.2]; exact log_pos_of_gt _ _ hz0 hh
  simp only [hll, if_true, hz, hh, Or.inr hpos]
  rw [hs.2]
  unfold logDenOf
  rw [log_identity _ _ _ hz0 hh]

/-- The guard `met height > roughness length` is needed: the setters accept a meteorological
height at or below the roughness length of the terrain, and then the log law does NOT return the
meteorological speed at the meteorological height (it returns 0).  Witness: settings
met height 0.5 m in city terrain (roughness 1.0 m), speed 5. -/
theorem C18_wind_identity_log_low_height_counterexample :
    ∃ s : St ℝ, Inv rpw rlg s ∧ s.cfg.logLaw = true ∧ s.cfg.z0 = s.cfg.metZ0 ∧ 0 < s.cfg.metH ∧
      calculateWind rpw rlg s 5 s.cfg.metH ≠ .ok 5 := by
  refine ⟨fresh rpw rlg ⟨0, 0, 1/2, true, 460, 33/100, 1, 460, 33/100, 1⟩, ⟨rfl, rfl⟩, rfl, rfl, ?_, ?_⟩
  · simp [fresh]
  · unfold calculateWind
    simp only [fresh]
    norm_num

/-- Power law: the speed never decreases with height (heights ≥ 0, speed ≥ 0). -/
theorem C18_wind_monotone_power (s : St ℝ) (hs : Inv rpw rlg s) (v h1 h2 : ℝ)
    (hll : s.cfg.logLaw = false) (h0 : 0 ≤ h1) (h12 : h1 ≤ h2) (hv : 0 ≤ v)
    (hb : 0 < s.cfg.blh) (ha : 0 ≤ s.cfg.exp) (hmb : 0 ≤ s.cfg.metBlh) (hmh : 0 < s.cfg.metH) :
    ∃ a b, calculateWind rpw rlg s v h1 = .ok a ∧ calculateWind rpw rlg s v h2 = .ok b ∧ a ≤ b := by
  unfold calculateWind
  simp only [hll, Bool.false_eq_true, if_false]
  refine ⟨_, _, rfl, rfl, ?_⟩
  apply pow_mono _ _ _ _ _ _ h0 h12 hb ha hv
  rw [hs.1]; unfold powDenOf rpw
  exact Real.rpow_nonneg (div_nonneg hmb (le_of_lt hmh)) _

/-- Log law: with the meteorological height above the meteorological roughness length, the speed
never decreases with height (0 up to the roughness length, then increasing). -/
theorem C18_wind_monotone_log (s : St ℝ) (hs : Inv rpw rlg s) (v h1 h2 : ℝ)
    (hll : s.cfg.logLaw = true) (h12 : h1 ≤ h2) (hv : 0 ≤ v)
    (hz : 0 < s.cfg.z0) (hmz : 0 < s.cfg.metZ0) (hmh : s.cfg.metZ0 < s.cfg.metH) :
    ∃ a b, calculateWind rpw rlg s v h1 = .ok a ∧ calculateWind rpw rlg s v h2 = .ok b ∧ a ≤ b := by
  have hpos : 0 < s.logDen := by rw [hs.2]; exact log_pos_of_gt _ _ hmz hmh
  unfold calculateWind
  simp only [hll, if_true, Or.inr hpos]
  by_cases c1 : s.cfg.z0 < h1
  · have c2 : s.cfg.z0 < h2 := lt_of_lt_of_le c1 h12
    simp only [c1, c2, if_true]
    exact ⟨_, _, rfl, rfl, log_mono _ _ _ _ _ hz c1 h12 hv hpos⟩
  · by_cases c2 : s.cfg.z0 < h2
    · simp only [c1, c2, if_true, if_false]
      exact ⟨_, _, rfl, rfl, log_nonneg_val _ _ _ _ hz c2 hv hpos⟩
    · simp only [c1, c2, if_false]
      exact ⟨_, _, rfl, rfl, le_refl _⟩

/-- non-vacuity: a fresh object satisfies the invariant used above -/
example (c : Cfg ℝ) : Inv rpw rlg (fresh rpw rlg c) := ⟨rfl, rfl⟩

end Wind
