/-
  C04 — Analysis period enumerates exactly the time steps it describes.
  Property theorems only (helper lemmas: Proofs/C04Lemmas.lean, Proofs/C04Listings.lean).  No Mathlib.
  The model (Model/AP.lean, on Model/Cal.lean) is tied to ladybug/analysisperiod.py by Gen/ApTables
  (translator) and by the correspondence ops of Drv/C04.lean (harness/props/c04.py).  It describes
  the code with fixes/C04_trailing_steps_window.patch and fixes/C04_months_per_hour_window.patch.

  All theorems quantify over every well-formed period `ap` (`ap.WF`: both dates exist in the year
  with the period's leap flag, hours ≤ 23, timestep one of the 12 valid ones) – no bound on
  anything; `C04_mk_wf` shows that the constructor only builds well-formed periods.
-/
import Ladybug.Proofs.C04Lemmas
import Ladybug.Proofs.C04Listings
import Ladybug.Proofs.C04Order
import Ladybug.Proofs.C04Obj
import Ladybug.Proofs.C04Forms

open Cal

namespace AP

/-! ### The class constants are the calendar's -/

/-- `NUMOFDAYSEACHMONTH` / `NUMOFDAYSEACHMONTHLEAP` are the month lengths of the calendar model
    (the same ones `dt.py`'s tables are proved against in `C08_tables_*`). -/
theorem C04_tables_days (leap : Bool) : numDaysTable leap = monthLens leap := by
  cases leap <;> decide

/-- Every valid timestep divides the hour, `VALIDTIMESTEPS[ts]` is `60 / ts` minutes, and the 12
    month names are those of `dt.py`. -/
theorem C04_tables_timesteps :
    (∀ ts ∈ Gen.Ap.validTimesteps, 0 < ts ∧ 60 % ts = 0) ∧
    Gen.Ap.validTimestepMinutes = Gen.Ap.validTimesteps.map (60 / ·) ∧
    Gen.Ap.monthNames = Gen.Dt.monthNames := by
  decide

/-! ### The enumeration -/

/-- **Exactly the described steps.**  A minute of the year is enumerated (`moys`, and hence
    `datetimes`, `hoys`, `hoys_int`) if and only if it satisfies the independent description `Pred`:
    inside the year, on the grid of `60 / timestep` minutes, time of day inside the daily hour window
    (closed interval `st_hour:00 .. end_hour:00`, through midnight for overnight windows, the whole
    day for `0 .. 23`), and between the start moment and the end of the end hour – cyclically
    through the year end when the period wraps.  Holds for every start/end date and hour, all 12
    timesteps, leap or not. -/
theorem C04_mem_moys (ap : AP) (hwf : ap.WF) (m : Nat) : m ∈ ap.moys ↔ ap.Pred m :=
  mem_moys ap hwf m

example : (⟨12, 30, 22, 1, 2, 5, 4, true⟩ : AP).WF ∧ (⟨12, 30, 22, 1, 2, 5, 4, true⟩ : AP).Pred 15 ∧
    ¬ (⟨12, 30, 22, 1, 2, 5, 4, true⟩ : AP).Pred 20 := by decide

/-- **Chronological order, non-wrapping periods**: the enumeration is strictly increasing. -/
theorem C04_moys_sorted (ap : AP) (hwf : ap.WF) (hr : ap.isReversed = false) :
    ap.moys.Pairwise (· < ·) :=
  moys_sorted ap hwf hr

/-- **Chronological order, wrapping periods**: the enumeration is a strictly increasing run from
    the start moment to the end of the year followed by a strictly increasing run from the start of
    the year; the second run lies entirely before the start moment. -/
theorem C04_moys_segments (ap : AP) (hwf : ap.WF) (hr : ap.isReversed = true) :
    ∃ l₁ l₂, ap.moys = l₁ ++ l₂ ∧ l₁.Pairwise (· < ·) ∧ l₂.Pairwise (· < ·) ∧
      (∀ a ∈ l₁, ap.stMoy ≤ a) ∧ (∀ b ∈ l₂, b < ap.endMoy + 60) ∧ ap.endMoy + 60 ≤ ap.stMoy :=
  moys_segments ap hwf hr

/-- **Chronological order, uniformly**: counted cyclically from the start moment
    (`chronoKey m = (m − start) mod year`), the enumeration is strictly increasing – wrapping or not. -/
theorem C04_moys_chrono (ap : AP) (hwf : ap.WF) : (ap.moys.map ap.chronoKey).Pairwise (· < ·) :=
  moys_chrono ap hwf

/-- **Each step once.** -/
theorem C04_moys_nodup (ap : AP) (hwf : ap.WF) : ap.moys.Nodup :=
  moys_nodup ap hwf

example : (⟨6, 21, 22, 3, 20, 5, 2, false⟩ : AP).WF ∧ (⟨6, 21, 22, 3, 20, 5, 2, false⟩ : AP).isReversed = true := by
  decide

/-- `datetimes` and `hoys_int` are images of `moys`, and every enumerated minute builds a valid
    date-time of the period's year that reads back the same minute (by `C08_fromMoy_moy`). -/
theorem C04_datetimes (ap : AP) (hwf : ap.WF) :
    ap.datetimes.length = ap.moys.length ∧ ap.hoysInt = ap.moys.map (· / 60) ∧
    ∀ m ∈ ap.moys, ∃ d, fromMoy ap.leap m = .ok d ∧ d.valid ∧ d.moy = m ∧ d.leap = ap.leap := by
  refine ⟨by simp [datetimes], rfl, ?_⟩
  intro m hm
  obtain ⟨d, h1, h2, h3, _, _, _, h4⟩ := C08_fromMoy_moy ap.leap m ((mem_moys ap hwf m).mp hm).1
  exact ⟨d, h1, h2, h3, h4⟩

/-! ### Length -/

/-- **`len()` agrees with the enumeration** on both paths: the closed form used when the window
    is `0 .. 23` (non-wrapping and wrapping) equals the number of enumerated steps, for all 12
    timesteps and both leap flags; otherwise `len()` is that number by definition. -/
theorem C04_len (ap : AP) (hwf : ap.WF) : ap.len = ap.moys.length :=
  len_eq_length ap hwf

example : (annual true 4).WF ∧ (annual true 4).len = 35136 := by decide

/-! ### Membership test -/

/-- **`is_time_included` agrees with the enumeration**, i.e. with the description `Pred`. -/
theorem C04_included (ap : AP) (hwf : ap.WF) (d : DT) : ap.isTimeIncluded d = true ↔ ap.Pred d.moy := by
  unfold isTimeIncluded includesMoy
  rw [List.contains_iff_mem]
  exact mem_moys ap hwf d.moy

/-! ### Listings -/

/-- **`doys_int` agrees with the enumeration**: a day number is listed iff some enumerated step
    falls on that day.  (The listing itself is the ascending range from the start day to the end
    day, or for wrapping periods start day .. last day followed by 1 .. end day – `mem_doysInt`;
    when a wrapping period starts and ends on the same day that day is listed at both ends, as the
    enumeration visits it twice.) -/
theorem C04_doys (ap : AP) (hwf : ap.WF) (d : Nat) :
    d ∈ ap.doysInt ↔ ∃ m ∈ ap.moys, m / 1440 + 1 = d :=
  doys_iff ap hwf d

/-- **`months_int` agrees with the enumeration**: a month is listed iff some enumerated step is a
    date-time of that month. -/
theorem C04_months (ap : AP) (hwf : ap.WF) (mo : Nat) :
    mo ∈ ap.monthsInt ↔ ∃ m ∈ ap.moys, ∃ d, fromMoy ap.leap m = .ok d ∧ d.month = mo :=
  months_iff ap hwf mo

/-- **`months_per_hour` misses nothing**: the (month, hour, minute) of every enumerated step is
    listed (with the repaired `hour_range`; the pinned code lost every step of overnight windows). -/
theorem C04_months_per_hour_complete (ap : AP) (hwf : ap.WF) (m : Nat) (hm : m ∈ ap.moys) (d : DT)
    (hd : fromMoy ap.leap m = .ok d) : (d.month, d.hour, d.minute) ∈ ap.monthsPerHour :=
  mph_complete ap hwf m hm d hd

/-- **`months_per_hour` lists nothing else**: an entry is listed iff its month is a month of the
    period and its time of day is a grid step inside the hour window – the listing is exactly
    (months of the enumeration) × (times of day of the enumeration's window). -/
theorem C04_months_per_hour_sound (ap : AP) (hwf : ap.WF) (t : Nat × Nat × Nat) :
    t ∈ ap.monthsPerHour ↔
      t.1 ∈ ap.monthsInt ∧ ∃ x, x < 1440 ∧ x % ap.step = 0 ∧ ap.inWindow x ∧
        t.2.1 = x / 60 ∧ t.2.2 = x % 60 :=
  mem_monthsPerHour ap hwf t

/-- Partial by nature: `months_per_hour` is a *product* of months and times of day, so for a period
    that does not contain a whole day of some listed month an entry need not be the image of an
    enumerated step (witness: 31 Jan 22h → 1 Feb 2h lists (2, 22, 0) but 1 Feb 22:00 is not a step).
    Also, a wrapping period whose start and end month coincide lists that month – and its block of
    entries – twice, once per visit of the enumeration. -/
theorem C04_months_per_hour_product_partial :
    (2, 22, 0) ∈ (⟨1, 31, 22, 2, 1, 2, 1, false⟩ : AP).monthsPerHour ∧
    (32 * 1440 + 22 * 60) ∉ (⟨1, 31, 22, 2, 1, 2, 1, false⟩ : AP).moys ∧
    (⟨1, 1, 22, 1, 1, 2, 1, false⟩ : AP).monthsInt = [1, 2, 3, 4, 5, 6, 7, 8, 9, 10, 11, 12, 1] := by
  decide

/-! ### Constructor -/

/-- **Only well-formed periods are built**: whenever the constructor succeeds the stored period
    has dates that exist in the year of its leap flag, hours ≤ 23 and a timestep from
    `VALIDTIMESTEPS`; the stored fields are the arguments after defaults (`None`/`0`), and the end
    day is either the argument or – when that exceeds the month – the last day of the end month. -/
theorem C04_mk_wf (stM stD stH endM endD endH ts : Option Int) (leap : Bool) (ap : AP)
    (h : mkOpt? stM stD stH endM endD endH ts leap = .ok ap) :
    ap.WF ∧ ap.leap = leap ∧ (ap.st_month : Int) = orD stM 1 ∧ (ap.st_day : Int) = orD stD 1 ∧
      (ap.st_hour : Int) = orD stH 0 ∧ (ap.end_month : Int) = orD endM 12 ∧
      (ap.end_hour : Int) = endH.getD 23 ∧ (ap.timestep : Int) = orD ts 1 ∧
      ((ap.end_day : Int) = orD endD 31 ∨
        ((ap.end_day : Int) < orD endD 31 ∧ ap.end_day = monthLen leap ap.end_month)) :=
  mkOpt_wf stM stD stH endM endD endH ts leap ap h

/-- **Invalid timesteps are rejected**, whatever the dates. -/
theorem C04_reject_timestep (stM stD stH endM endD endH ts : Option Int) (leap : Bool)
    (h : ¬ (0 ≤ orD ts 1 ∧ (orD ts 1).toNat ∈ Gen.Ap.validTimesteps)) :
    ∃ e, mkOpt? stM stD stH endM endD endH ts leap = .error e :=
  mk_reject_timestep stM stD stH endM endD endH ts leap h

/-- **Invalid start dates/hours are rejected** (month outside 1..12, day that does not exist in
    that month of the (leap) year, hour outside 0..23). -/
theorem C04_reject_start (stM stD stH endM endD endH ts : Option Int) (leap : Bool)
    (h : ¬ (1 ≤ orD stM 1 ∧ orD stM 1 ≤ 12 ∧ 1 ≤ orD stD 1 ∧
      orD stD 1 ≤ monthLen leap (orD stM 1).toNat ∧ 0 ≤ orD stH 0 ∧ orD stH 0 ≤ 23)) :
    ∃ e, mkOpt? stM stD stH endM endD endH ts leap = .error e :=
  mk_reject_start stM stD stH endM endD endH ts leap h

/-- **Invalid end months/hours/days below 1 are rejected** (an end day beyond the month length is
    clipped to the last day, by design of the class – see `C04_mk_wf`). -/
theorem C04_reject_end (stM stD stH endM endD endH ts : Option Int) (leap : Bool)
    (h : ¬ (1 ≤ orD endM 12 ∧ orD endM 12 ≤ 12 ∧ 1 ≤ orD endD 31 ∧ 0 ≤ endH.getD 23 ∧ endH.getD 23 ≤ 23)) :
    ∃ e, mkOpt? stM stD stH endM endD endH ts leap = .error e :=
  mk_reject_end stM stD stH endM endD endH ts leap h

example : mk? 2 29 0 12 31 23 1 false = .error .value ∧ mk? 2 29 0 12 31 23 1 true = .ok ⟨2, 29, 0, 12, 31, 23, 1, true⟩ := by
  decide

/-- **Valid stored fields are accepted unchanged** (`duplicate()` / `__copy__` returns an equal period). -/
theorem C04_mk_accepts (ap : AP) (hwf : ap.WF) : ap.duplicate = .ok ap :=
  mk_of_wf ap hwf

/-! ### Serial forms -/

/-- **The dictionary form reads back to an equal period.** -/
theorem C04_dict_roundtrip (ap : AP) (hwf : ap.WF) : fromDict ap.toDict = .ok ap :=
  dict_roundtrip ap hwf

/-- **The text form reads back to an equal period – token level.**  The seven numbers printed by
    `__repr__` (and the `*` leap marker) re-enter the constructor through `from_string`'s string
    arguments and rebuild the same period.  Partial: the character-level steps (printing the numbers,
    the `replace` chain, `split(' ')`, `int()`) are executable in the model (`repr`, `fromString`) and
    compared with the code on every run, but not proved (core Lean has no `String` lemma library). -/
theorem C04_repr_roundtrip_partial (ap : AP) (hwf : ap.WF) :
    fromTokens (ap.reprTokens.map fun (n : Nat) => some (n : Int)) ap.leap = .ok ap :=
  tokens_roundtrip ap hwf

example : fromTokens ((⟨6, 21, 22, 3, 20, 5, 4, true⟩ : AP).reprTokens.map fun (n : Nat) => some (n : Int)) true
    = .ok ⟨6, 21, 22, 3, 20, 5, 4, true⟩ := by decide

-- character level (evaluated, not kernel-checked: `String` functions do not reduce in the kernel)
#guard fromString (⟨6, 21, 22, 3, 20, 5, 4, true⟩ : AP).repr = .ok ⟨6, 21, 22, 3, 20, 5, 4, true⟩

/-! ### Round 2: list order of the listings, exact image of months_per_hour, non-emptiness -/

/-- **The enumeration is never empty and starts at the start moment**: `moys` begins with the
    start moment `st_time.moy`, hence `moys ≠ []` and `len() > 0` for every period. -/
theorem C04_nonempty (ap : AP) (hwf : ap.WF) :
    ap.moys.head? = some ap.stMoy ∧ ap.stMoy ∈ ap.moys ∧ ap.moys ≠ [] ∧ 0 < ap.len := by
  have hmem := stMoy_mem_moys ap hwf
  have hne : ap.moys ≠ [] := List.ne_nil_of_mem hmem
  refine ⟨moys_head ap hwf, hmem, hne, ?_⟩
  rw [C04_len ap hwf]
  exact List.length_pos_iff.mpr hne

/-- **`doys_int` in list order** – the "listings agree with that one enumeration" clause at full
    strength for days: the listing *is* the enumeration's days of the year with immediate
    repetitions removed (`dedupAdj`), in the enumeration's order.  This includes wrapping periods
    (`…, 365, 1, …`), and wrapping periods that start and end on the same day, where that day stands
    at both ends of the listing because the enumeration visits it twice. -/
theorem C04_doys_order (ap : AP) (hwf : ap.WF) :
    ap.doysInt = dedupAdj (ap.moys.map fun m => m / 1440 + 1) :=
  doys_eq_dedup ap hwf

example : (⟨12, 30, 22, 1, 2, 5, 1, true⟩ : AP).WF ∧
    (⟨12, 30, 22, 1, 2, 5, 1, true⟩ : AP).doysInt = [365, 366, 1, 2] := by decide

/-- **`months_int` in list order**: the listing is the sequence of months of the enumerated steps
    (`monthOf` = month of `DateTime.from_moy`) with immediate repetitions removed, in the
    enumeration's order – including wrapping periods whose start and end month coincide, where that
    month stands at both ends. -/
theorem C04_months_order (ap : AP) (hwf : ap.WF) :
    ap.monthsInt = dedupAdj (ap.moys.map (monthOf ap.leap)) :=
  months_eq_dedup ap hwf

example : (⟨1, 31, 22, 1, 1, 2, 1, false⟩ : AP).WF ∧
    (⟨1, 31, 22, 1, 1, 2, 1, false⟩ : AP).monthsInt = [1, 2, 3, 4, 5, 6, 7, 8, 9, 10, 11, 12, 1] := by decide

/-- **`months_per_hour` is exactly the image of the enumeration** under
    step ↦ (month, hour, minute) – as a set – whenever every listed month contains a whole day of the
    period (`wholeDayIn`: some day of the month lies with all its minutes between the start moment
    and the end of the end hour, cyclically for wrapping periods).  Outside this hypothesis only
    `C04_months_per_hour_complete` (⊇) and `C04_months_per_hour_sound` hold; the witnesses of
    `C04_months_per_hour_product_partial` show the image form fails there. -/
theorem C04_months_per_hour_image (ap : AP) (hwf : ap.WF)
    (hall : ∀ mo ∈ ap.monthsInt, ap.wholeDayIn mo) (t : Nat × Nat × Nat) :
    t ∈ ap.monthsPerHour ↔
      ∃ m ∈ ap.moys, ∃ d, fromMoy ap.leap m = .ok d ∧ (d.month, d.hour, d.minute) = t :=
  mph_image ap hwf hall t

/-- non-vacuity: the annual period has a whole day in every month (day 1 of the month) -/
example : ∀ mo ∈ (annual true 4).monthsInt, (annual true 4).wholeDayIn mo := by
  intro mo hmo
  have h : 1 ≤ mo ∧ mo ≤ 12 := by
    rcases (mem_monthsInt _ mo).mp hmo with ⟨_, h1, h2⟩ | ⟨h, _⟩
    · exact ⟨h1, h2⟩
    · exact absurd h (by decide)
  have key : ∀ k : Fin 13, 1 ≤ k.val → (annual true 4).wholeDayIn k.val := by
    intro k hk
    refine ⟨1, Nat.le_refl 1, monthLen_pos true k.val hk (by omega), Or.inl ?_⟩
    revert k
    decide
  exact key ⟨mo, by omega⟩ h.1

/-! ### Round 3: histories of operations on one object / several objects in one process

`Obj` (Model/APObj.lean) is the object with its two lazily filled private slots, `Obj.step` is the
code (reads answer from the slots once they are filled), `observe ap op` is the specification: a
pure function of the public fields.  The class has no setter, so the public state a user
establishes is the constructor's result. -/

/-- **Every history refines the fresh object.**  After any sequence of operations on one period
    (reads in any order and repetition, refused assignments, refused calls, edits of returned
    values) the next operation answers exactly what it answers on a fresh object with the same
    public fields, which is the specification `observe`; the public fields never change. -/
theorem C04_history_refines_fresh (ap : AP) (ops : List Op) (op : Op) :
    (((fresh ap).run ops).step op).2 = ((fresh ap).step op).2 ∧
    (((fresh ap).run ops).step op).2 = observe ap op ∧ ((fresh ap).run ops).ap = ap := by
  obtain ⟨hi, ha⟩ := run_spec (fresh ap) (fresh_inv ap) ops
  have h1 := (step_spec _ hi op).2.2
  have h2 := (step_spec _ (fresh_inv ap) op).2.2
  rw [ha] at h1
  exact ⟨h1.trans h2.symm, h1, ha⟩

/-- The whole output sequence of a history is the specification applied to each operation. -/
theorem C04_history_outputs (ap : AP) (ops : List Op) : (fresh ap).outs ops = ops.map (observe ap) :=
  outs_spec (fresh ap) (fresh_inv ap) ops

/-- **A refused operation changes no observation.**  After an operation the code refuses
    (assignment to an attribute, `is_time_included(None)` – which fills the slots before it fails –,
    `is_possible_hour('x')`) every later history gives the outputs it would have given without it,
    and the public fields are as before. -/
theorem C04_refused_preserves (o : Obj) (h : o.Inv) (r : Op) (_hr : r.isRefused = true) (ops : List Op) :
    ((o.step r).1).outs ops = o.outs ops ∧ ((o.step r).1).ap = o.ap := by
  obtain ⟨h1, h2, _⟩ := step_spec o h r
  exact ⟨by rw [outs_spec _ h1, outs_spec _ h, h2], h2⟩

/-- **Reads are pure / order independent**: an operation `a` performed first does not change the
    answer of `b`; in particular asking the same question twice gives the same answer. -/
theorem C04_read_pure (o : Obj) (h : o.Inv) (a b : Op) :
    ((o.step a).1.step b).2 = (o.step b).2 ∧ ((o.step a).1.step a).2 = (o.step a).2 := by
  obtain ⟨h1, h2, h3⟩ := step_spec o h a
  exact ⟨by rw [(step_spec _ h1 b).2.2, (step_spec o h b).2.2, h2],
         by rw [(step_spec _ h1 a).2.2, h3, h2]⟩

/-- **After any history the object still enumerates exactly the described steps**: `moys` answers a
    list whose members are the minutes satisfying `Pred`, in strictly chronological order from the
    start moment, `len` answers its length (fast or slow path) and `is_time_included` decides `Pred`. -/
theorem C04_history_enumeration (ap : AP) (hwf : ap.WF) (ops : List Op) :
    ∃ l, (((fresh ap).run ops).step .moys).2 = .nats l ∧ (∀ m, m ∈ l ↔ ap.Pred m) ∧
      (l.map ap.chronoKey).Pairwise (· < ·) ∧
      (((fresh ap).run ops).step .len).2 = .nat l.length ∧
      ∀ m, (((fresh ap).run ops).step (.included m)).2 = .bool (decide (ap.Pred m)) := by
  refine ⟨ap.moys, (C04_history_refines_fresh ap ops .moys).2.1, C04_mem_moys ap hwf,
    C04_moys_chrono ap hwf, ?_, ?_⟩
  · rw [(C04_history_refines_fresh ap ops .len).2.1]; simp only [observe, C04_len ap hwf]
  · intro m
    rw [(C04_history_refines_fresh ap ops (.included m)).2.1]
    simp only [observe, includesMoy]
    congr 1
    rw [Bool.eq_iff_iff, List.contains_iff_mem, decide_eq_true_iff]
    exact C04_mem_moys ap hwf m

/-- **Objects do not influence each other** (no class-level or module-level state in the model of the
    code): whatever happens in the process – an operation on some object, a refused or accepted
    constructor call, a copy through `duplicate` / text / dictionary / `from_start_end_datetime`, an
    equality test – every object keeps its slot invariant and every existing object keeps its
    position and its public fields. -/
theorem C04_world_frame (w : World) (hw : World.Inv w) (wop : WOp) :
    World.Inv (w.step wop).1 ∧
    ∀ (j : Nat) (o : Obj), w[j]? = some o → ∃ o' : Obj, (w.step wop).1[j]? = some o' ∧ o'.ap = o.ap := by
  have hpush : ∀ r, World.Inv (World.push w r).1 ∧
      ∀ (j : Nat) (o : Obj), w[j]? = some o → ∃ o' : Obj, (World.push w r).1[j]? = some o' ∧ o'.ap = o.ap := by
    intro r
    refine ⟨push_inv w hw r, fun j o hj => ⟨o, ?_, rfl⟩⟩
    have hlt : j < w.length := (List.getElem?_eq_some_iff.1 hj).1
    rw [push_get w r j hlt]; exact hj
  have hsame : World.Inv w ∧ ∀ (j : Nat) (o : Obj), w[j]? = some o → ∃ o' : Obj, w[j]? = some o' ∧ o'.ap = o.ap :=
    ⟨hw, fun j o hj => ⟨o, hj, rfl⟩⟩
  cases wop with
  | on i op =>
    simp only [World.step]
    cases hi : w[i]? with
    | none => exact hsame
    | some oi =>
      have hoi : oi.Inv := hw oi (List.mem_of_getElem? hi)
      obtain ⟨s1, s2, _⟩ := step_spec oi hoi op
      refine ⟨?_, ?_⟩
      · intro o ho
        rcases List.mem_or_eq_of_mem_set ho with h | h
        · exact hw o h
        · rw [h]; exact s1
      · intro j o hj
        by_cases hij : i = j
        · subst hij
          have hlt : i < w.length := (List.getElem?_eq_some_iff.1 hj).1
          refine ⟨(oi.step op).1, by simp [hlt], ?_⟩
          rw [s2]; rw [hi] at hj; cases hj; rfl
        · exact ⟨o, by rw [List.getElem?_set_ne hij]; exact hj, rfl⟩
  | new a b c d e f g l => exact hpush _
  | dup i =>
    simp only [World.step]
    cases w[i]? with
    | none => exact hsame
    | some oi => exact hpush _
  | viaString i =>
    simp only [World.step]
    cases w[i]? with
    | none => exact hsame
    | some oi => exact hpush _
  | viaDict i =>
    simp only [World.step]
    cases w[i]? with
    | none => exact hsame
    | some oi => exact hpush _
  | viaStartEnd i =>
    simp only [World.step]
    cases w[i]? with
    | none => exact hsame
    | some oi => exact hpush _
  | eq i j =>
    simp only [World.step]
    cases w[i]? <;> cases w[j]? <;> exact hsame

/-- **Whole process histories**: after any sequence of world operations every object that existed
    before is still at its position with its public fields, and all slots respect the invariant – so
    (`C04_world_on`) every later answer of every object is the specification of its own fields. -/
theorem C04_world_history (w : World) (hw : World.Inv w) (wops : List WOp) :
    World.Inv (w.run wops) ∧
    ∀ (j : Nat) (o : Obj), w[j]? = some o → ∃ o' : Obj, (w.run wops)[j]? = some o' ∧ o'.ap = o.ap := by
  induction wops generalizing w with
  | nil => exact ⟨hw, fun j o hj => ⟨o, hj, rfl⟩⟩
  | cons wop wops ih =>
    obtain ⟨h1, h2⟩ := C04_world_frame w hw wop
    obtain ⟨h3, h4⟩ := ih _ h1
    refine ⟨h3, fun j o hj => ?_⟩
    obtain ⟨o1, ho1, hap1⟩ := h2 j o hj
    obtain ⟨o2, ho2, hap2⟩ := h4 j o1 ho1
    exact ⟨o2, ho2, hap2.trans hap1⟩

/-- In a process with several periods, an operation on object `i` answers the specification of
    that object's own public fields, whatever happened before to it or to the others. -/
theorem C04_world_on (w : World) (hw : World.Inv w) (i : Nat) (o : Obj) (hi : w[i]? = some o) (op : Op) :
    (w.step (.on i op)).2 = observe o.ap op := by
  simp only [World.step, hi]
  exact (step_spec o (hw o (List.mem_of_getElem? hi)) op).2.2

/-- Copies read back: duplicate, the dictionary form and `from_start_end_datetime` of a well-formed
    period construct an equal period (the text form: `C04_repr_roundtrip_partial`). -/
theorem C04_copies_equal (ap : AP) (hwf : ap.WF) :
    ap.duplicate = .ok ap ∧ fromDict ap.toDict = .ok ap ∧ viaStartEnd ap = .ok ap :=
  ⟨C04_mk_accepts ap hwf, C04_dict_roundtrip ap hwf, C04_mk_accepts ap hwf⟩

-- non-vacuity: a wrapping period, membership test first, then the enumeration (order of seeded C04-5)
example : ((fresh ⟨12, 30, 0, 1, 2, 23, 1, false⟩).outs [.included 0, .moys, .len]) =
    [.bool true, .nats (⟨12, 30, 0, 1, 2, 23, 1, false⟩ : AP).moys, .nat 96] := by decide +kernel
-- non-vacuity (world): leap object read first, then the same dates non-leap in the same process
example : World.outs [fresh ⟨2, 28, 0, 3, 1, 23, 1, true⟩]
    [.on 0 .doys, .new (some 2) (some 28) (some 0) (some 3) (some 1) (some 23) (some 1) false, .on 1 .doys,
     .new (some 2) (some 30) none none none none none false, .on 0 .doys] =
    [.nats [59, 60, 61], .made (.ok ⟨2, 28, 0, 3, 1, 23, 1, false⟩), .nats [59, 60], .made (.error .value),
     .nats [59, 60, 61]] := by decide +kernel
example : Op.isRefused .setAttr = true ∧ (⟨1, 1, 9, 1, 1, 10, 2, false⟩ : AP).WF := by decide

/-! ### Round 4: input shapes, aliasing of the caller's dictionary, the rarely taken branch

`Model/APForms.lean`: dictionaries with `None` values and the in-place edit `from_dict` performs on
the dictionary it is given (`fillNone`), the sparse dictionary form, the constructor fed with text
for its numbers (`mkText?`, what `from_string` calls).  Each is compared with the real class on every
run (driver ops `from_dictv`, `sparse`, `mk_text`). -/

/-- **Reading the same dictionary object again gives the same period** (kind f, aliasing):
    `from_dict` writes `None` under every key the caller left out; the dictionary it leaves behind
    answers every lookup as before, so a second `from_dict` of the very same object – and any later
    read of the caller's entries – is unaffected. -/
theorem C04_from_dict_reread (d : DictV) :
    (∀ k, lookupV (fillNone d) k = lookupV d k) ∧ fromDictV (fillNone d) = fromDictV d := by
  refine ⟨lookupV_fillNone d, ?_⟩
  unfold fromDictV
  simp only [lookupV_fillNone]

/-- A dictionary without `None` values is read like the (frozen) integer-valued model reads it, so
    `C04_dict_roundtrip` speaks about `fromDictV` too. -/
theorem C04_from_dict_values (kv : List (String × Int)) : fromDictV (DictV.ofInts kv) = fromDict kv := by
  unfold fromDictV fromDict
  simp only [lookupV_ofInts]

/-- **The answer depends only on the mapping**, not on the insertion order / container of the
    dictionary (kind i: dict, OrderedDict, subclass, any key order): two association lists that
    answer every key alike build the same period. -/
theorem C04_from_dict_order_independent (kv kv' : List (String × Int))
    (h : ∀ k, lookup? kv k = lookup? kv' k) : fromDict kv = fromDict kv' := by
  unfold fromDict
  simp only [h]

/-- **The sparse dictionary form reads back to an equal period**: `to_dict()` with every entry that
    equals the documented default left out (missing keys take the defaults `1/1 0h – 12/31 23h @1`,
    non-leap). -/
theorem C04_dict_sparse_roundtrip (ap : AP) (hwf : ap.WF) : fromDict (sparseDict ap) = .ok ap :=
  sparse_roundtrip ap hwf

example : sparseDict ⟨6, 1, 0, 12, 5, 23, 4, true⟩ =
    [("st_month", 6), ("end_day", 5), ("timestep", 4), ("is_leap_year", 1)] := by decide +kernel

/-- **Text arguments build the same period as integer arguments** (kind i): the constructor fed with
    text for its six date/hour numbers (what `from_string` does) accepts exactly what it accepts for
    the same integers and builds the same period – as long as no field is the text "0" (an integer 0
    means "missing", the text "0" does not) and the end day needs no clipping (with text the code
    refuses instead of clipping). -/
theorem C04_text_args_agree (stM stD stH endM endD endH ts : Int) (leap : Bool) (ap : AP)
    (h1 : stM ≠ 0) (h2 : stD ≠ 0) (h3 : endM ≠ 0) (h4 : endD ≠ 0)
    (hclip : ∀ t, Py.getIdx? (numDaysTable leap) (endM - 1) = some t → endD ≤ (t : Int)) :
    mkText? stM stD stH endM endD endH ts leap = .ok ap ↔ mk? stM stD stH endM endD endH ts leap = .ok ap :=
  text_args_agree stM stD stH endM endD endH ts leap ap h1 h2 h3 h4 hclip

/-- **In the text form a month or day "0" is rejected** (it is no calendar date; only the integer 0 /
    `None` stand for a missing argument). -/
theorem C04_text_zero_rejected (stM stD stH endM endD endH ts : Int) (leap : Bool)
    (h : stM = 0 ∨ stD = 0 ∨ endM = 0 ∨ endD = 0) :
    ∃ e, mkText? stM stD stH endM endD endH ts leap = .error e :=
  text_zero_rejected stM stD stH endM endD endH ts leap h

example : mkText? 3 5 6 3 7 18 2 true = .ok ⟨3, 5, 6, 3, 7, 18, 2, true⟩ ∧
    mkText? 0 5 6 3 7 18 2 true = .error .value ∧ mk? 0 5 6 3 7 18 2 true = .ok ⟨1, 5, 6, 3, 7, 18, 2, true⟩ := by
  decide

/-- **The rarely taken branch of `_calc_timestamps`** (kind j): the block after the loop appends
    steps exactly when the timestep is sub-hourly, the loop stopped in hour 23, and the daily window
    holds both 0:00 and 23:00 – and then it appends exactly the `timestep − 1` grid steps after the
    segment's end. -/
theorem C04_trailing_branch (ap : AP) (hwf : ap.WF) (st en : Nat) :
    (ap.trailing st en ≠ [] ↔
      ap.timestep ≠ 1 ∧ ap.currAfter st en / 60 % 24 = 23 ∧ ap.inWindow 0 ∧ ap.inWindow 1380) ∧
    (ap.trailing st en ≠ [] →
      ap.trailing st en = (List.range (ap.timestep - 1)).map fun k => en + (k + 1) * ap.step) := by
  obtain ⟨hv1, hv2, hts⟩ := hwf
  have hs : ap.st_hour ≤ 23 := hv1.2.2.2.2.1
  have he : ap.end_hour ≤ 23 := hv2.2.2.2.2.1
  have hp0 := possible0_iff ap hs he
  have hp23 := possibleMod_iff ap hs he (23 * 60) (by omega)
  have hts1 : 1 ≤ ap.timestep := by
    rcases ts_cases hts with h | h | h | h | h | h | h | h | h | h | h | h <;> omega
  unfold trailing
  split
  · rename_i hC
    refine ⟨⟨fun _ => ⟨hC.1, hC.2.1, hp0.mp hC.2.2.1, hp23.mp hC.2.2.2⟩, fun _ => ?_⟩, fun _ => rfl⟩
    intro hnil
    have hlen := congrArg List.length hnil
    simp only [List.length_map, List.length_range, List.length_nil] at hlen
    have := hC.1
    omega
  · rename_i hC
    refine ⟨⟨fun h => absurd rfl h, fun h => ?_⟩, fun h => absurd rfl h⟩
    exact absurd ⟨h.1, h.2.1, hp0.mpr h.2.2.1, hp23.mpr h.2.2.2⟩ hC

-- both sides of the branch are inhabited: taken (wrapping, sub-hourly, overnight window) / not taken
example : (⟨12, 31, 20, 1, 1, 5, 4, true⟩ : AP).trailing 525600 526980 = [526995, 527010, 527025] ∧
    (⟨12, 31, 0, 1, 1, 10, 2, false⟩ : AP).trailing 524160 525540 = [] := by decide +kernel

/- Character-level `__repr__` / `from_string` round trip: NOT proved and not provable by a finite
   check here.  `String.replace`, `String.splitOn` and `String.toInt?` (used by the frozen
   `AP.fromString`) do not reduce in the kernel of this Lean version (`decide`, `decide +kernel` and
   `rfl` all fail already on `"a to b".replace "to" " " = "a   b"`), and core has no lemma library
   about them.  The token-level theorem `C04_repr_roundtrip_partial` stands; the character level stays
   tied by `#guard` samples and by the correspondence ops `repr` / `from_string` on every run. -/

end AP
