/-
  C04 — Analysis period enumerates exactly the time steps it describes.
  Property theorems only (helper lemmas: Proofs/C04Lemmas.lean, Proofs/C04Listings.lean).  No Mathlib.
  The model (Model/AP.lean, on Model/Cal.lean) is tied to ladybug/analysisperiod.py by Gen/ApTables
  (translator) and by the correspondence ops of Drv/C04.lean (harness/props/c04.py).  It describes
  the code with fixes/C04_trailing_steps_window.patch and fixes/C04_months_per_hour_window.patch.

  All theorems quantify over every well-formed period `ap` (`ap.WF`: both dates exist in the year
  with the period's leap flag, hours ≤ 23, timestep one of the 12 valid ones) – no bound on
  anything; `C04_mk_wf` shows that the constructor only builds well-formed periods.
-/
import Ladybug.Proofs.C04Lemmas
import Ladybug.Proofs.C04Listings
import Ladybug.Proofs.C04Order

open Cal

namespace AP

/-! ### The class constants are the calendar's -/

/-- `NUMOFDAYSEACHMONTH` / `NUMOFDAYSEACHMONTHLEAP` are the month lengths of the calendar model
    (the same ones `dt.py`'s tables are proved against in `C08_tables_*`). -/
theorem C04_tables_days (leap : Bool) : numDaysTable leap = monthLens leap := by
  cases leap <;> decide

/-- Every valid timestep divides the hour, `VALIDTIMESTEPS[ts]` is `60 / ts` minutes, and the 12
    month names are those of `dt.py`. -/
theorem C04_tables_timesteps :
    (∀ ts ∈ Gen.Ap.validTimesteps, 0 < ts ∧ 60 % ts = 0) ∧
    Gen.Ap.validTimestepMinutes = Gen.Ap.validTimesteps.map (60 / ·) ∧
    Gen.Ap.monthNames = Gen.Dt.monthNames := by
  decide

/-! ### The enumeration -/

/-- **Exactly the described steps.**  A minute of the year is enumerated (`moys`, and hence
    `datetimes`, `hoys`, `hoys_int`) if and only if it satisfies the independent description `Pred`:
    inside the year, on the grid of `60 / timestep` minutes, time of day inside the daily hour window
    (closed interval `st_hour:00 .. end_hour:00`, through midnight for overnight windows, the whole
    day for `0 .. 23`), and between the start moment and the end of the end hour – cyclically
    through the year end when the period wraps.  Holds for every start/end date and hour, all 12
    timesteps, leap or not. -/
theorem C04_mem_moys (ap : AP) (hwf : ap.WF) (m : Nat) : m ∈ ap.moys ↔ ap.Pred m :=
  mem_moys ap hwf m

example : (⟨12, 30, 22, 1, 2, 5, 4, true⟩ : AP).WF ∧ (⟨12, 30, 22, 1, 2, 5, 4, true⟩ : AP).Pred 15 ∧
    ¬ (⟨12, 30, 22, 1, 2, 5, 4, true⟩ : AP).Pred 20 := by decide

/-- **Chronological order, non-wrapping periods**: the enumeration is strictly increasing. -/
theorem C04_moys_sorted (ap : AP) (hwf : ap.WF) (hr : ap.isReversed = false) :
    ap.moys.Pairwise (· < ·) :=
  moys_sorted ap hwf hr

/-- **Chronological order, wrapping periods**: the enumeration is a strictly increasing run from
    the start moment to the end of the year followed by a strictly increasing run from the start of
    the year; the second run lies entirely before the start moment. -/
theorem C04_moys_segments (ap : AP) (hwf : ap.WF) (hr : ap.isReversed = true) :
    ∃ l₁ l₂, ap.moys = l₁ ++ l₂ ∧ l₁.Pairwise (· < ·) ∧ l₂.Pairwise (· < ·) ∧
      (∀ a ∈ l₁, ap.stMoy ≤ a) ∧ (∀ b ∈ l₂, b < ap.endMoy + 60) ∧ ap.endMoy + 60 ≤ ap.stMoy :=
  moys_segments ap hwf hr

/-- **Chronological order, uniformly**: counted cyclically from the start moment
    (`chronoKey m = (m − start) mod year`), the enumeration is strictly increasing – wrapping or not. -/
theorem C04_moys_chrono (ap : AP) (hwf : ap.WF) : (ap.moys.map ap.chronoKey).Pairwise (· < ·) :=
  moys_chrono ap hwf

/-- **Each step once.** -/
theorem C04_moys_nodup (ap : AP) (hwf : ap.WF) : ap.moys.Nodup :=
  moys_nodup ap hwf

example : (⟨6, 21, 22, 3, 20, 5, 2, false⟩ : AP).WF ∧ (⟨6, 21, 22, 3, 20, 5, 2, false⟩ : AP).isReversed = true := by
  decide

/-- `datetimes` and `hoys_int` are images of `moys`, and every enumerated minute builds a valid
    date-time of the period's year that reads back the same minute (by `C08_fromMoy_moy`). -/
theorem C04_datetimes (ap : AP) (hwf : ap.WF) :
    ap.datetimes.length = ap.moys.length ∧ ap.hoysInt = ap.moys.map (· / 60) ∧
    ∀ m ∈ ap.moys, ∃ d, fromMoy ap.leap m = .ok d ∧ d.valid ∧ d.moy = m ∧ d.leap = ap.leap := by
  refine ⟨by simp [datetimes], rfl, ?_⟩
  intro m hm
  obtain ⟨d, h1, h2, h3, _, _, _, h4⟩ := C08_fromMoy_moy ap.leap m ((mem_moys ap hwf m).mp hm).1
  exact ⟨d, h1, h2, h3, h4⟩

/-! ### Length -/

/-- **`len()` agrees with the enumeration** on both paths: the closed form used when the window
    is `0 .. 23` (non-wrapping and wrapping) equals the number of enumerated steps, for all 12
    timesteps and both leap flags; otherwise `len()` is that number by definition. -/
theorem C04_len (ap : AP) (hwf : ap.WF) : ap.len = ap.moys.length :=
  len_eq_length ap hwf

example : (annual true 4).WF ∧ (annual true 4).len = 35136 := by decide

/-! ### Membership test -/

/-- **`is_time_included` agrees with the enumeration**, i.e. with the description `Pred`. -/
theorem C04_included (ap : AP) (hwf : ap.WF) (d : DT) : ap.isTimeIncluded d = true ↔ ap.Pred d.moy := by
  unfold isTimeIncluded includesMoy
  rw [List.contains_iff_mem]
  exact mem_moys ap hwf d.moy

/-! ### Listings -/

/-- **`doys_int` agrees with the enumeration**: a day number is listed iff some enumerated step
    falls on that day.  (The listing itself is the ascending range from the start day to the end
    day, or for wrapping periods start day .. last day followed by 1 .. end day – `mem_doysInt`;
    when a wrapping period starts and ends on the same day that day is listed at both ends, as the
    enumeration visits it twice.) -/
theorem C04_doys (ap : AP) (hwf : ap.WF) (d : Nat) :
    d ∈ ap.doysInt ↔ ∃ m ∈ ap.moys, m / 1440 + 1 = d :=
  doys_iff ap hwf d

/-- **`months_int` agrees with the enumeration**: a month is listed iff some enumerated step is a
    date-time of that month. -/
theorem C04_months (ap : AP) (hwf : ap.WF) (mo : Nat) :
    mo ∈ ap.monthsInt ↔ ∃ m ∈ ap.moys, ∃ d, fromMoy ap.leap m = .ok d ∧ d.month = mo :=
  months_iff ap hwf mo

/-- **`months_per_hour` misses nothing**: the (month, hour, minute) of every enumerated step is
    listed (with the repaired `hour_range`; the pinned code lost every step of overnight windows). -/
theorem C04_months_per_hour_complete (ap : AP) (hwf : ap.WF) (m : Nat) (hm : m ∈ ap.moys) (d : DT)
    (hd : fromMoy ap.leap m = .ok d) : (d.month, d.hour, d.minute) ∈ ap.monthsPerHour :=
  mph_complete ap hwf m hm d hd

/-- **`months_per_hour` lists nothing else**: an entry is listed iff its month is a month of the
    period and its time of day is a grid step inside the hour window – the listing is exactly
    (months of the enumeration) × (times of day of the enumeration's window). -/
theorem C04_months_per_hour_sound (ap : AP) (hwf : ap.WF) (t : Nat × Nat × Nat) :
    t ∈ ap.monthsPerHour ↔
      t.1 ∈ ap.monthsInt ∧ ∃ x, x < 1440 ∧ x % ap.step = 0 ∧ ap.inWindow x ∧
        t.2.1 = x / 60 ∧ t.2.2 = x % 60 :=
  mem_monthsPerHour ap hwf t

/-- Partial by nature: `months_per_hour` is a *product* of months and times of day, so for a period
    that does not contain a whole day of some listed month an entry need not be the image of an
    enumerated step (witness: 31 Jan 22h → 1 Feb 2h lists (2, 22, 0) but 1 Feb 22:00 is not a step).
    Also, a wrapping period whose start and end month coincide lists that month – and its block of
    entries – twice, once per visit of the enumeration. -/
theorem C04_months_per_hour_product_partial :
    (2, 22, 0) ∈ (⟨1, 31, 22, 2, 1, 2, 1, false⟩ : AP).monthsPerHour ∧
    (32 * 1440 + 22 * 60) ∉ (⟨1, 31, 22, 2, 1, 2, 1, false⟩ : AP).moys ∧
    (⟨1, 1, 22, 1, 1, 2, 1, false⟩ : AP).monthsInt = [1, 2, 3, 4, 5, 6, 7, 8, 9, 10, 11, 12, 1] := by
  decide

/-! ### Constructor -/

/-- **Only well-formed periods are built**: whenever the constructor succeeds the stored period
    has dates that exist in the year of its leap flag, hours ≤ 23 and a timestep from
    `VALIDTIMESTEPS`; the stored fields are the arguments after defaults (`None`/`0`), and the end
    day is either the argument or – when that exceeds the month – the last day of the end month. -/
theorem C04_mk_wf (stM stD stH endM endD endH ts : Option Int) (leap : Bool) (ap : AP)
    (h : mkOpt? stM stD stH endM endD endH ts leap = .ok ap) :
    ap.WF ∧ ap.leap = leap ∧ (ap.st_month : Int) = orD stM 1 ∧ (ap.st_day : Int) = orD stD 1 ∧
      (ap.st_hour : Int) = orD stH 0 ∧ (ap.end_month : Int) = orD endM 12 ∧
      (ap.end_hour : Int) = endH.getD 23 ∧ (ap.timestep : Int) = orD ts 1 ∧
      ((ap.end_day : Int) = orD endD 31 ∨
        ((ap.end_day : Int) < orD endD 31 ∧ ap.end_day = monthLen leap ap.end_month)) :=
  mkOpt_wf stM stD stH endM endD endH ts leap ap h

/-- **Invalid timesteps are rejected**, whatever the dates. -/
theorem C04_reject_timestep (stM stD stH endM endD endH ts : Option Int) (leap : Bool)
    (h : ¬ (0 ≤ orD ts 1 ∧ (orD ts 1).toNat ∈ Gen.Ap.validTimesteps)) :
    ∃ e, mkOpt? stM stD stH endM endD endH ts leap = .error e :=
  mk_reject_timestep stM stD stH endM endD endH ts leap h

/-- **Invalid start dates/hours are rejected** (month outside 1..12, day that does not exist in
    that month of the (leap) year, hour outside 0..23). -/
theorem C04_reject_start (stM stD stH endM endD endH ts : Option Int) (leap : Bool)
    (h : ¬ (1 ≤ orD stM 1 ∧ orD stM 1 ≤ 12 ∧ 1 ≤ orD stD 1 ∧
      orD stD 1 ≤ monthLen leap (orD stM 1).toNat ∧ 0 ≤ orD stH 0 ∧ orD stH 0 ≤ 23)) :
    ∃ e, mkOpt? stM stD stH endM endD endH ts leap = .error e :=
  mk_reject_start stM stD stH endM endD endH ts leap h

/-- **Invalid end months/hours/days below 1 are rejected** (an end day beyond the month length is
    clipped to the last day, by design of the class – see `C04_mk_wf`). -/
theorem C04_reject_end (stM stD stH endM endD endH ts : Option Int) (leap : Bool)
    (h : ¬ (1 ≤ orD endM 12 ∧ orD endM 12 ≤ 12 ∧ 1 ≤ orD endD 31 ∧ 0 ≤ endH.getD 23 ∧ endH.getD 23 ≤ 23)) :
    ∃ e, mkOpt? stM stD stH endM endD endH ts leap = .error e :=
  mk_reject_end stM stD stH endM endD endH ts leap h

example : mk? 2 29 0 12 31 23 1 false = .error .value ∧ mk? 2 29 0 12 31 23 1 true = .ok ⟨2, 29, 0, 12, 31, 23, 1, true⟩ := by
  decide

/-- **Valid stored fields are accepted unchanged** (`duplicate()` / `__copy__` returns an equal period). -/
theorem C04_mk_accepts (ap : AP) (hwf : ap.WF) : ap.duplicate = .ok ap :=
  mk_of_wf ap hwf

/-! ### Serial forms -/

/-- **The dictionary form reads back to an equal period.** -/
theorem C04_dict_roundtrip (ap : AP) (hwf : ap.WF) : fromDict ap.toDict = .ok ap :=
  dict_roundtrip ap hwf

/-- **The text form reads back to an equal period – token level.**  The seven numbers printed by
    `__repr__` (and the `*` leap marker) re-enter the constructor through `from_string`'s string
    arguments and rebuild the same period.  Partial: the character-level steps (printing the numbers,
    the `replace` chain, `split(' ')`, `int()`) are executable in the model (`repr`, `fromString`) and
    compared with the code on every run, but not proved (core Lean has no `String` lemma library). -/
theorem C04_repr_roundtrip_partial (ap : AP) (hwf : ap.WF) :
    fromTokens (ap.reprTokens.map fun (n : Nat) => some (n : Int)) ap.leap = .ok ap :=
  tokens_roundtrip ap hwf

example : fromTokens ((⟨6, 21, 22, 3, 20, 5, 4, true⟩ : AP).reprTokens.map fun (n : Nat) => some (n : Int)) true
    = .ok ⟨6, 21, 22, 3, 20, 5, 4, true⟩ := by decide

-- character level (evaluated, not kernel-checked: `String` functions do not reduce in the kernel)
#guard fromString (⟨6, 21, 22, 3, 20, 5, 4, true⟩ : AP).repr = .ok ⟨6, 21, 22, 3, 20, 5, 4, true⟩

/-! ### Round 2: list order of the listings, exact image of months_per_hour, non-emptiness -/

/-- **The enumeration is never empty and starts at the start moment**: `moys` begins with the
    start moment `st_time.moy`, hence `moys ≠ []` and `len() > 0` for every period. -/
theorem C04_nonempty (ap : AP) (hwf : ap.WF) :
    ap.moys.head? = some ap.stMoy ∧ ap.stMoy ∈ ap.moys ∧ ap.moys ≠ [] ∧ 0 < ap.len := by
  have hmem := stMoy_mem_moys ap hwf
  have hne : ap.moys ≠ [] := List.ne_nil_of_mem hmem
  refine ⟨moys_head ap hwf, hmem, hne, ?_⟩
  rw [C04_len ap hwf]
  exact List.length_pos_iff.mpr hne

/-- **`doys_int` in list order** – the "listings agree with that one enumeration" clause at full
    strength for days: the listing *is* the enumeration's days of the year with immediate
    repetitions removed (`dedupAdj`), in the enumeration's order.  This includes wrapping periods
    (`…, 365, 1, …`), and wrapping periods that start and end on the same day, where that day stands
    at both ends of the listing because the enumeration visits it twice. -/
theorem C04_doys_order (ap : AP) (hwf : ap.WF) :
    ap.doysInt = dedupAdj (ap.moys.map fun m => m / 1440 + 1) :=
  doys_eq_dedup ap hwf

example : (⟨12, 30, 22, 1, 2, 5, 1, true⟩ : AP).WF ∧
    (⟨12, 30, 22, 1, 2, 5, 1, true⟩ : AP).doysInt = [365, 366, 1, 2] := by decide

/-- **`months_int` in list order**: the listing is the sequence of months of the enumerated steps
    (`monthOf` = month of `DateTime.from_moy`) with immediate repetitions removed, in the
    enumeration's order – including wrapping periods whose start and end month coincide, where that
    month stands at both ends. -/
theorem C04_months_order (ap : AP) (hwf : ap.WF) :
    ap.monthsInt = dedupAdj (ap.moys.map (monthOf ap.leap)) :=
  months_eq_dedup ap hwf

example : (⟨1, 31, 22, 1, 1, 2, 1, false⟩ : AP).WF ∧
    (⟨1, 31, 22, 1, 1, 2, 1, false⟩ : AP).monthsInt = [1, 2, 3, 4, 5, 6, 7, 8, 9, 10, 11, 12, 1] := by decide

/-- **`months_per_hour` is exactly the image of the enumeration** under
    step ↦ (month, hour, minute) – as a set – whenever every listed month contains a whole day of the
    period (`wholeDayIn`: some day of the month lies with all its minutes between the start moment
    and the end of the end hour, cyclically for wrapping periods).  Outside this hypothesis only
    `C04_months_per_hour_complete` (⊇) and `C04_months_per_hour_sound` hold; the witnesses of
    `C04_months_per_hour_product_partial` show the image form fails there. -/
theorem C04_months_per_hour_image (ap : AP) (hwf : ap.WF)
    (hall : ∀ mo ∈ ap.monthsInt, ap.wholeDayIn mo) (t : Nat × Nat × Nat) :
    t ∈ ap.monthsPerHour ↔
      ∃ m ∈ ap.moys, ∃ d, fromMoy ap.leap m = .ok d ∧ (d.month, d.hour, d.minute) = t :=
  mph_image ap hwf hall t

/-- non-vacuity: the annual period has a whole day in every month (day 1 of the month) -/
example : ∀ mo ∈ (annual true 4).monthsInt, (annual true 4).wholeDayIn mo := by
  intro mo hmo
  have h : 1 ≤ mo ∧ mo ≤ 12 := by
    rcases (mem_monthsInt _ mo).mp hmo with ⟨_, h1, h2⟩ | ⟨h, _⟩
    · exact ⟨h1, h2⟩
    · exact absurd h (by decide)
  have key : ∀ k : Fin 13, 1 ≤ k.val → (annual true 4).wholeDayIn k.val := by
    intro k hk
    refine ⟨1, Nat.le_refl 1, monthLen_pos true k.val hk (by omega), Or.inl ?_⟩
    revert k
    decide
  exact key ⟨mo, by omega⟩ h.1

/- Character-level `__repr__` / `from_string` round trip: NOT proved and not provable by a finite
   check here.  `String.replace`, `String.splitOn` and `String.toInt?` (used by the frozen
   `AP.fromString`) do not reduce in the kernel of this Lean version (`decide`, `decide +kernel` and
   `rfl` all fail already on `"a to b".replace "to" " " = "a   b"`), and core has no lemma library
   about them.  The token-level theorem `C04_repr_roundtrip_partial` stands; the character level stays
   tied by `#guard` samples and by the correspondence ops `repr` / `from_string` on every run. -/

end AP
