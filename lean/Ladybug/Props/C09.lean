/-
  C09 — Humidity metrics describe one consistent state of moist air.
  Property theorems about the ℝ instantiation of the generic model `Model/Psychro.lean`
  (the same definitions, instantiated at Float, are what `drv_c09` runs against the real
  ladybug/psychrometrics.py on every check).  Helper lemmas: Proofs/C09Lemmas.lean.

  PARTIAL BY NATURE (DESIGN.md section 9).  Not theorems, checked as sampled sub-claims on the
  real code by harness/props/c09.py:
    * the Newton dew point and the bisection wet bulb convert back to rh within 0.1 °C
      (numerical accuracy of iterative solvers on exp/log);
    * dew point and wet bulb rise with rh;
    * saturation pressure is increasing ACROSS 273.15 K (needs a certified value of log 273.15;
      on each branch it is the theorem `C09_pws_strictMono_*` below), its step at 273.15 K is < 2e-4,
      and it is within 0.6 % of a Magnus-type formula;
    * everything about IEEE rounding.
  Recorded defects (known_findings.d/C09.json): rel_humid_from_db_wb is not the inverse of
  wet_bulb_from_db_rh; db_temp_from_rh_hr below freezing; rh = 0 round trip; wet bulb drops
  where it crosses 0 °C.
-/
import Ladybug.Proofs.C09Lemmas
import Ladybug.Proofs.C09Obj
import Ladybug.Model.PsychroChart

namespace Psychro

open Transc

/-! ### saturation pressure -/

/-- Saturation vapour pressure is positive for every argument (both branches are an `exp`). -/
theorem C09_pws_pos (t : ℝ) : 0 < satVapPres t := satVapPres_pos t

/-- Below the switch (`db < 0`, any temperature other than 0 K) `_d_ln_p_ws(db)` is the derivative of
    `log(saturated_vapor_pressure(db + 273.15))`: the two functions share their coefficients. -/
theorem C09_dlnpws_is_derivative_ice {T : ℝ} (h0 : T < 0) (hk : T + 273.15 ≠ 0) :
    HasDerivAt (fun x : ℝ => Real.log (satVapPres (x + 273.15))) (dLnPws T) T := by
  have hd : dLnPws T = dLnPwsIce (T + 273.15) := by
    unfold dLnPws
    rw [if_pos (show T ≤ (0.0 : ℝ) by norm_num; exact h0.le)]
  rw [hd]
  have h := (hasDerivAt_lnPwsIce hk).comp_add_const T 273.15
  refine h.congr_of_eventuallyEq ?_
  filter_upwards [Iio_mem_nhds h0] with x hx
  exact log_satVapPres_ice (by have : x < 0 := hx; linarith)

/-- Above the switch (`db > 0`) `_d_ln_p_ws(db)` is the derivative of
    `log(saturated_vapor_pressure(db + 273.15))` (water branch). -/
theorem C09_dlnpws_is_derivative_water {T : ℝ} (h0 : 0 < T) :
    HasDerivAt (fun x : ℝ => Real.log (satVapPres (x + 273.15))) (dLnPws T) T := by
  have hd : dLnPws T = dLnPwsWater (T + 273.15) := by
    unfold dLnPws
    rw [if_neg (show ¬ T ≤ (0.0 : ℝ) by norm_num; exact h0)]
  rw [hd]
  have hk : T + 273.15 ≠ 0 := by
    have : 0 < T + 273.15 := by linarith
    exact this.ne'
  have h := (hasDerivAt_lnPwsWater hk).comp_add_const T 273.15
  refine h.congr_of_eventuallyEq ?_
  filter_upwards [Ioi_mem_nhds h0] with x hx
  exact log_satVapPres_water (by have : 0 < x := hx; linarith)

/-- At the switch itself (`db = 0`, where `saturated_vapor_pressure` uses the ice branch and
    `_d_ln_p_ws` tests `db <= 0.`) the value is the LEFT derivative: both functions take the ice
    branch at 0.  (A mutated test `db < 0.` breaks exactly this statement.) -/
theorem C09_dlnpws_is_derivative_at_zero :
    HasDerivWithinAt (fun x : ℝ => Real.log (satVapPres (x + 273.15))) (dLnPws 0) (Set.Iic 0) 0 := by
  have hd : dLnPws (0 : ℝ) = dLnPwsIce (0 + 273.15) := by
    unfold dLnPws
    rw [if_pos (show (0 : ℝ) ≤ (0.0 : ℝ) by norm_num)]
  rw [hd]
  have hk : (0 : ℝ) + 273.15 ≠ 0 := by norm_num
  have h := ((hasDerivAt_lnPwsIce hk).comp_add_const 0 273.15).hasDerivWithinAt (s := Set.Iic 0)
  refine h.congr (fun x hx => ?_) ?_
  · exact log_satVapPres_ice (by have : x ≤ 0 := hx; linarith)
  · exact log_satVapPres_ice (by norm_num)

/-- Saturation pressure is strictly increasing in temperature on the ice branch (0 K, 273.15 K]. -/
theorem C09_pws_strictMono_ice : StrictMonoOn (satVapPres : ℝ → ℝ) (Set.Ioc 0 273.15) := by
  intro x hx y hy hxy
  rw [satVapPres_ice hx.2, satVapPres_ice hy.2]
  exact Real.exp_lt_exp.mpr (lnPwsIce_strictMonoOn hx hy hxy)

/-- Saturation pressure is strictly increasing in temperature on the water branch (273.15 K, 473.15 K]
    (the meteorological range ends at 328.15 K).  Monotonicity ACROSS 273.15 K is not proved: sampled. -/
theorem C09_pws_strictMono_water_partial :
    StrictMonoOn (satVapPres : ℝ → ℝ) (Set.Ioc 273.15 473.15) := by
  intro x hx y hy hxy
  rw [satVapPres_water hx.1, satVapPres_water hy.1]
  exact Real.exp_lt_exp.mpr (lnPwsWater_strictMonoOn ⟨hx.1.le, hx.2⟩ ⟨hy.1.le, hy.2⟩ hxy)

/-! ### humidity ratio ⇄ relative humidity -/

/-- `rel_humid_from_db_hr` inverts `humid_ratio_from_db_rh` up to the mismatch of the two
    molar-mass constants (0.621945 vs 621.9907/1000): for every temperature, every `rh ≥ 0` whose
    partial pressure stays below the barometric pressure, the value read back lies in
    `[rh·(1 − 7.4·10⁻⁵), rh]`. -/
theorem C09_hr_rh_inverse (T rh P : ℝ) (hrh : 0 ≤ rh)
    (hP : satVapPres (T + 273.15) * (rh / 100) < P) :
    rh * (1 - 7.4e-5) ≤ relHumidFromDbHr T (humidRatioFromDbRh T rh P) P ∧
      relHumidFromDbHr T (humidRatioFromDbRh T rh P) P ≤ rh := by
  have hs := satVapPres_pos (T + 273.15)
  unfold relHumidFromDbHr humidRatioFromDbRh
  simp only []
  generalize satVapPres (T + 273.15) = s at hs hP ⊢
  norm_num only []
  have hx0 : 0 ≤ s * (rh / 100) := by positivity
  have hPx : 0 < P - s * (rh / 100) := by linarith
  have hPpos : 0 < P := by linarith
  have hden : 0 < 6219907 * P - 457 * (s * (rh / 100)) := by nlinarith
  have key : (s * (rh / 100) * (124389 / 200000) / (P - s * (rh / 100)) * 1000 * P /
      (6219907 / 10000 + s * (rh / 100) * (124389 / 200000) / (P - s * (rh / 100)) * 1000) / s * 100)
      = rh * (6219450 * P / (6219907 * P - 457 * (s * (rh / 100)))) := by
    have h1 : (6219907 / 10000 : ℝ) + s * (rh / 100) * (124389 / 200000) / (P - s * (rh / 100)) * 1000 ≠ 0 := by
      have : 0 ≤ s * (rh / 100) * (124389 / 200000) / (P - s * (rh / 100)) * 1000 := by positivity
      linarith
    obtain ⟨x, hx⟩ : ∃ x, x = s * (rh / 100) := ⟨_, rfl⟩
    rw [← hx] at h1 hPx hden ⊢
    have h2 := hPx.ne'
    have h3 := hs.ne'
    have h4 := hden.ne'
    have hrh' : rh = x / s * 100 := by rw [hx]; field_simp
    have A : x * (124389 / 200000) / (P - x) * 1000 * P /
        (6219907 / 10000 + x * (124389 / 200000) / (P - x) * 1000)
        = 6219450 * x * P / (6219907 * P - 457 * x) := by
      rw [div_eq_div_iff h1 h4]
      field_simp
      ring
    rw [A, hrh']
    field_simp
  rw [key]
  have hratio_le : 6219450 * P / (6219907 * P - 457 * (s * (rh / 100))) ≤ 1 := by
    rw [div_le_one hden]; nlinarith
  have hratio_ge : 1 - 7.4e-5 ≤ 6219450 * P / (6219907 * P - 457 * (s * (rh / 100))) := by
    rw [le_div_iff₀ hden]; nlinarith
  constructor
  · have := mul_le_mul_of_nonneg_left hratio_ge hrh
    linarith
  · calc rh * (6219450 * P / (6219907 * P - 457 * (s * (rh / 100)))) ≤ rh * 1 :=
          mul_le_mul_of_nonneg_left hratio_le hrh
      _ = rh := mul_one rh

/-- Humidity ratio rises strictly with relative humidity, as long as the partial pressure stays below
    the barometric pressure. -/
theorem C09_hr_strictMono_rh (T P rh1 rh2 : ℝ) (h0 : 0 ≤ rh1) (h12 : rh1 < rh2)
    (hP : satVapPres (T + 273.15) * (rh2 / 100) < P) :
    humidRatioFromDbRh T rh1 P < humidRatioFromDbRh T rh2 P := by
  have hs := satVapPres_pos (T + 273.15)
  unfold humidRatioFromDbRh
  simp only []
  generalize satVapPres (T + 273.15) = s at hs hP ⊢
  norm_num only []
  have hx1 : 0 ≤ s * (rh1 / 100) := by positivity
  have hx12 : s * (rh1 / 100) < s * (rh2 / 100) := by
    apply mul_lt_mul_of_pos_left _ hs
    linarith
  have hd1 : 0 < P - s * (rh1 / 100) := by linarith
  have hd2 : 0 < P - s * (rh2 / 100) := by linarith
  rw [div_lt_div_iff₀ hd1 hd2]
  nlinarith

/-! ### enthalpy -/

/-- `db_temp_from_enth_hr` is the exact inverse of `enthalpy_from_db_hr` in the temperature wherever
    the enthalpy is not clamped to 0 (and `1.006 + 1.86 w ≠ 0`, e.g. `w ≥ 0`), for every reference
    temperature. -/
theorem C09_enthalpy_inverse (T w ref : ℝ) (hw : 0 ≤ w) (he : 0 ≤ enthalpyRaw T w ref) :
    dbTempFromEnthHr (enthalpyFromDbHr T w ref) w ref = T := by
  unfold dbTempFromEnthHr enthalpyFromDbHr
  simp only []
  rw [if_pos (show (0.0 : ℝ) ≤ enthalpyRaw T w ref by norm_num; exact he)]
  unfold enthalpyRaw
  simp only []
  have h : (1.006 : ℝ) + 1.86 * w ≠ 0 := by positivity
  norm_num only []
  field_simp
  ring

/-- `rel_humid_from_db_enth` recovers from the (unclamped) enthalpy exactly the relative humidity
    that `rel_humid_from_db_hr` gives for the humidity ratio (valid when `2501 + 1.86 (T − ref) ≠ 0`,
    i.e. `T − ref ≠ −1344.6`). -/
theorem C09_rh_from_enth (T w P ref : ℝ) (hT : 0 < 1.86 * (T - ref) + 2501)
    (he : 0 ≤ enthalpyRaw T w ref) :
    relHumidFromDbEnth T (enthalpyFromDbHr T w ref) P ref = relHumidFromDbHr T w P := by
  unfold relHumidFromDbEnth enthalpyFromDbHr
  simp only []
  rw [if_pos (show (0.0 : ℝ) ≤ enthalpyRaw T w ref by norm_num; exact he)]
  congr 1
  unfold enthalpyRaw
  simp only []
  rw [show (2501.0 : ℝ) = 2501 by norm_num]
  rw [div_eq_iff hT.ne']
  ring

/-- Enthalpy rises with the humidity ratio (weakly because of the clamp at 0, strictly where the
    smaller value is positive), for `T − ref > −1344.6`. -/
theorem C09_enthalpy_mono_hr (T ref w1 w2 : ℝ) (hT : 0 < 2501 + 1.86 * (T - ref)) (h12 : w1 < w2) :
    enthalpyFromDbHr T w1 ref ≤ enthalpyFromDbHr T w2 ref ∧
      (0 < enthalpyFromDbHr T w1 ref → enthalpyFromDbHr T w1 ref < enthalpyFromDbHr T w2 ref) := by
  have hraw : enthalpyRaw T w1 ref < enthalpyRaw T w2 ref := by
    unfold enthalpyRaw
    simp only []
    norm_num only []
    nlinarith
  unfold enthalpyFromDbHr
  simp only []
  have e0 : (0.0 : ℝ) = 0 := by norm_num
  rw [e0]
  constructor
  · split_ifs <;> linarith
  · split_ifs <;> intro h <;> linarith

/-! ### dew point ≤ wet bulb ≤ dry bulb, equality at saturation -/

/-- The dew point never exceeds the dry bulb (the code returns `min(td, db)`; at `p_w ≤ 0` it returns
    −273.15), for every dry bulb ≥ −273.15 °C and EVERY relative humidity. -/
theorem C09_dew_le_db (db rh : ℝ) (hdb : -273.15 ≤ db) : dewPointFromDbRh db rh ≤ db := by
  unfold dewPointFromDbRh dewClamp
  simp only []
  split_ifs with h1 h2
  · exact hdb
  · exact le_refl _
  · exact not_lt.mp h2

/-- Invariant of the wet-bulb bisection: the bounds stay inside `[lo, hi]`, ordered, and the guess is
    their midpoint. -/
def BisInv (lo hi : ℝ) (s : Bis ℝ) : Prop :=
  lo ≤ s.inf ∧ s.inf ≤ s.sup ∧ s.sup ≤ hi ∧ s.wb = (s.sup + s.inf) / 2

theorem bisStep_inv (db hr p lo hi : ℝ) (s : Bis ℝ) (h : BisInv lo hi s) :
    BisInv lo hi (bisStep db hr p s) := by
  obtain ⟨h1, h2, h3, h4⟩ := h
  unfold bisStep BisInv
  simp only []
  have e2 : (2.0 : ℝ) = 2 := by norm_num
  rw [e2]
  split_ifs <;> refine ⟨?_, ?_, ?_, rfl⟩ <;> linarith

theorem bisLoop_inv (db hr p lo hi : ℝ) (n : ℕ) (s : Bis ℝ) (h : BisInv lo hi s) :
    BisInv lo hi (bisLoop db hr p n s) := by
  induction n generalizing s with
  | zero => exact h
  | succ n ih =>
    unfold bisLoop
    split_ifs
    · exact ih _ (bisStep_inv db hr p lo hi s h)
    · exact h

/-- The wet-bulb bisection returns a value inside its initial bracket `[inf, sup]` whatever the function
    values are (any number of passes). -/
theorem C09_bisect_bracket (db hr p inf sup : ℝ) (n : ℕ) (h : inf ≤ sup) :
    inf ≤ (bisLoop db hr p n ⟨sup, inf, (inf + sup) / 2.0⟩).wb ∧
      (bisLoop db hr p n ⟨sup, inf, (inf + sup) / 2.0⟩).wb ≤ sup := by
  have h0 : BisInv inf sup ⟨sup, inf, (inf + sup) / 2.0⟩ := by
    refine ⟨le_refl _, h, le_refl _, ?_⟩
    show (inf + sup) / 2.0 = (sup + inf) / 2
    norm_num
    ring
  obtain ⟨h1, h2, h3, h4⟩ := bisLoop_inv db hr p inf sup n _ h0
  rw [h4]
  constructor <;> linarith

/-- One bisection pass halves the bracket. -/
theorem bisStep_width (db hr p : ℝ) (s : Bis ℝ) (hm : s.wb = (s.sup + s.inf) / 2) :
    (bisStep db hr p s).sup - (bisStep db hr p s).inf = (s.sup - s.inf) / 2 ∧
      (bisStep db hr p s).wb = ((bisStep db hr p s).sup + (bisStep db hr p s).inf) / 2 := by
  unfold bisStep
  simp only []
  have e2 : (2.0 : ℝ) = 2 := by norm_num
  rw [e2]
  split_ifs <;> refine ⟨?_, rfl⟩ <;> rw [hm] <;> ring

/-- On exit the bracket is at most the 0.1 °C tolerance, unless all `n` passes were used, in which case
    it is the initial bracket divided by `2^n` (the code allows n = 100). -/
theorem C09_bisect_width (db hr p : ℝ) (n : ℕ) (s : Bis ℝ) (hm : s.wb = (s.sup + s.inf) / 2) :
    (bisLoop db hr p n s).sup - (bisLoop db hr p n s).inf ≤ 0.1 ∨
      (bisLoop db hr p n s).sup - (bisLoop db hr p n s).inf = (s.sup - s.inf) / 2 ^ n := by
  induction n generalizing s with
  | zero => right; simp [bisLoop]
  | succ n ih =>
    unfold bisLoop
    split_ifs with hw
    · obtain ⟨hw', hm'⟩ := bisStep_width db hr p s hm
      rcases ih _ hm' with h | h
      · left; exact h
      · right; rw [h, hw']; field_simp; ring
    · left; exact not_lt.mp hw

/-- Dew point ≤ wet bulb ≤ dry bulb, for every dry bulb ≥ −273.15 °C, every relative humidity and
    pressure: the Newton result is clamped by the dry bulb and the bisection never leaves
    `[dew point, dry bulb]`. -/
theorem C09_dpt_le_wb_le_db (db rh p : ℝ) (hdb : -273.15 ≤ db) :
    dewPointFromDbRh db rh ≤ wetBulbFromDbRh db rh p ∧ wetBulbFromDbRh db rh p ≤ db := by
  unfold wetBulbFromDbRh bisInit
  exact C09_bisect_bracket db _ p _ _ bisMaxIndex (C09_dew_le_db db rh hdb)

/-- At saturation (rh = 100) the Newton iteration stops at its first guess: dew point = dry bulb. -/
theorem C09_dew_at_saturation (db : ℝ) : dewPointFromDbRh db 100 = db := by
  have hs := satVapPres_pos (db + 273.15)
  have e1 : dewPw db (100 : ℝ) = satVapPres (db + 273.15) := by
    unfold dewPw
    norm_num
  unfold dewPointFromDbRh
  simp only []
  rw [e1]
  rw [if_neg (show ¬ satVapPres (db + 273.15) ≤ (0.0 : ℝ) by
    rw [show (0.0 : ℝ) = 0 by norm_num]; exact not_le.mpr hs)]
  have hN : dewNewton (log (satVapPres (db + 273.15))) (newtonMaxIndex + 1) db = db := by
    unfold dewNewton newtonStep newtonStop
    simp only [sub_self, zero_div, sub_zero]
    rw [if_pos]
    rw [real_fabs]
    norm_num
  rw [hN]
  unfold dewClamp
  simp

/-- At saturation the wet bulb equals the dry bulb too (the bracket is empty, no pass is made). -/
theorem C09_wb_at_saturation (db p : ℝ) : wetBulbFromDbRh db 100 p = db := by
  unfold wetBulbFromDbRh bisInit
  simp only []
  rw [C09_dew_at_saturation]
  show (bisLoop db _ p (99 + 1) _).wb = db
  unfold bisLoop bisContinue
  rw [if_neg (by norm_num)]
  show (db + db) / 2.0 = db
  norm_num

/-- Relative humidity from a dew point equal to the dry bulb is exactly 100. -/
theorem C09_rh_dpt_sat (T : ℝ) : relHumidFromDbDpt T T = 100 := by
  have hs := satVapPres_pos (T + 273.15)
  unfold relHumidFromDbDpt
  simp only []
  rw [div_self hs.ne']
  norm_num

/-- Relative humidity from a wet bulb equal to the dry bulb is exactly 100. -/
theorem C09_rh_wb_sat (T P : ℝ) : relHumidFromDbWb T T P = 100 := by
  have hs := satVapPres_pos (T + 273.15)
  unfold relHumidFromDbWb
  simp only [sub_self, mul_zero, sub_zero]
  rw [div_self hs.ne']
  norm_num

/-- Relative humidity from a dew point rises with the dew point as long as both stay on one branch of
    the saturation curve (below: ice branch; the water branch is analogous). -/
theorem C09_rh_dpt_mono_ice_partial (T d1 d2 : ℝ) (h1 : -273.15 < d1) (h12 : d1 < d2) (h2 : d2 ≤ 0) :
    relHumidFromDbDpt T d1 < relHumidFromDbDpt T d2 := by
  have hs := satVapPres_pos (T + 273.15)
  have hm : satVapPres (d1 + 273.15) < satVapPres (d2 + 273.15) :=
    C09_pws_strictMono_ice ⟨by linarith, by linarith⟩ ⟨by linarith, by linarith⟩ (by linarith)
  unfold relHumidFromDbDpt
  simp only []
  have e : (100.0 : ℝ) = 100 := by norm_num
  rw [e]
  have := div_lt_div_of_pos_right hm hs
  linarith

/-- `db_temp_and_hr_from_wb_rh` at rh = 100 returns the wet bulb as dry bulb. -/
theorem C09_db_from_wb_sat (wb P : ℝ) : (dbTempAndHrFromWbRh wb (100.0 : ℝ) P).1 = wb := by
  unfold dbTempAndHrFromWbRh
  simp

/-! ### recorded defect: the dew point returned at rh = 0 is 0 K, where the saturation formula is undefined -/

/-- At rh = 0 the code returns −273.15 °C, i.e. exactly 0 K — the one temperature at which
    `saturated_vapor_pressure` divides by zero, so `rel_humid_from_db_dpt(db, dew_point_from_db_rh(db, 0))`
    raises instead of returning 0 (known finding C09-rh0-dew-point-roundtrip). -/
theorem C09_rh0_dew_point_counterexample (db : ℝ) : dewPointFromDbRh db 0 + 273.15 = 0 := by
  unfold dewPointFromDbRh dewPw
  simp only []
  rw [if_pos (by norm_num)]
  norm_num

/-! ### users: design-day humidity profile -/

/-- Every hourly dew point of a design day is `min(day dew point, that hour's dry bulb)`, hence never
    above the dry bulb. -/
theorem C09_dd_dew_le_db (m : ℝ) (hourly : List ℝ) :
    List.Forall₂ (fun db dp => dp ≤ db ∧ dp = min m db) hourly (ddHourlyDewPoint m hourly) := by
  unfold ddHourlyDewPoint
  rw [List.forall₂_map_right_iff]
  refine List.forall₂_same.mpr (fun db _ => ?_)
  split_ifs with h
  · exact ⟨h, (min_eq_left h).symm⟩
  · exact ⟨le_refl _, (min_eq_right (not_le.mp h).le).symm⟩

/-- In every hour in which the dry bulb is below the day's dew point (the capped hours) the design
    day's relative humidity is exactly 100. -/
theorem C09_dd_rh_capped (m db : ℝ) (h : db < m) :
    ddHourlyRelHumid m [db] = [100] := by
  unfold ddHourlyRelHumid ddHourlyDewPoint
  simp only [List.map_cons, List.map_nil, List.zip_cons_cons, List.zip_nil_right]
  rw [if_neg (not_le.mpr h), C09_rh_dpt_sat]

/-! ### users: psychrometric chart coordinates -/

/-- The chart's y coordinate rises strictly with relative humidity and its x coordinate does not depend
    on it (y_dim > 0; same conditions as `C09_hr_strictMono_rh` at the plotted temperature). -/
theorem C09_chart_y_rises (c : Chart ℝ) (t rh1 rh2 : ℝ) (hy : 0 < c.yDim) (h0 : 0 ≤ rh1) (h12 : rh1 < rh2)
    (hP : satVapPres ((if c.useIp then fToC t else t) + 273.15) * (rh2 / 100) < c.pressure) :
    (c.plotPoint t rh1).2 < (c.plotPoint t rh2).2 ∧ (c.plotPoint t rh1).1 = (c.plotPoint t rh2).1 := by
  unfold Chart.plotPoint Chart.hrY
  simp only []
  have := C09_hr_strictMono_rh (if c.useIp then fToC t else t) c.pressure rh1 rh2 h0 h12 hP
  constructor
  · nlinarith
  · trivial

/-- `data_points` and `plot_point` agree: the point stored for a Celsius temperature equals
    `plot_point` of that temperature expressed in the chart's unit (exactly over ℝ, since
    F→C ∘ C→F is the identity). -/
theorem C09_chart_data_eq_plot (c : Chart ℝ) (tC rh : ℝ) :
    c.dataPoint tC rh = c.plotPoint (if c.useIp then cToF tC else tC) rh := by
  unfold Chart.dataPoint Chart.plotPoint
  simp only []
  cases hip : c.useIp
  · simp
  · have : fToC (cToF tC) = tC := by
      unfold fToC cToF
      norm_num
    simp [this]

/-- Chart coordinates determine the plotted state: x gives the temperature and y the humidity ratio
    back (x_dim, y_dim ≠ 0). -/
theorem C09_chart_coords_invert (c : Chart ℝ) (t hr : ℝ) (hx : c.xDim ≠ 0) (hy : c.yDim ≠ 0) :
    c.minT + (c.tX t - c.baseX) / c.xDim = t ∧ (c.hrY hr - c.baseY) / c.yDim = hr := by
  unfold Chart.tX Chart.hrY
  constructor <;> field_simp <;> ring


/-! ### air without water vapour through every route; consumers of the Newton dew point (round 3) -/

/-- Whenever the relative humidity handed to `dew_point_from_db_rh` is not positive (no water vapour, or a
    non-physical negative vapour pressure) the result is the documented −273.15 °C, for every dry bulb. -/
theorem C09_no_vapour_dew_point (db rh : ℝ) (h : rh ≤ 0) : dewPointFromDbRh db rh = -273.15 := by
  have hs := satVapPres_pos (db + 273.15)
  unfold dewPointFromDbRh dewPw
  simp only []
  have e : (100.0 : ℝ) = 100 := by norm_num
  have z : (0.0 : ℝ) = 0 := by norm_num
  rw [if_pos]
  rw [e, z]
  have : rh / 100 ≤ 0 := by linarith
  exact mul_nonpos_of_nonneg_of_nonpos hs.le this

/-- Completely dry air (humidity ratio 0) has the same dew point −273.15 °C through the humidity-ratio route
    `dew_point_from_db_hr` as through relative humidity 0, at every dry bulb and pressure. -/
theorem C09_dry_air_hr_route (db p : ℝ) : dewPointFromDbHr db 0 p = -273.15 := by
  unfold dewPointFromDbHr
  apply C09_no_vapour_dew_point
  unfold relHumidFromDbHr
  simp

/-- … and through the enthalpy route: the enthalpy of dry air, `1.006 · (db − ref)`, gives −273.15 °C. -/
theorem C09_dry_air_enth_route (db p ref : ℝ) :
    dewPointFromDbEnth db (1.006 * (db - ref)) p ref = -273.15 := by
  unfold dewPointFromDbEnth
  apply C09_no_vapour_dew_point
  unfold relHumidFromDbEnth relHumidFromDbHr
  simp

/-- … and through the wet-bulb route: a wet bulb whose psychrometer vapour pressure is not positive
    (`rel_humid_from_db_wb ≤ 0`, i.e. at or below the wet bulb of dry air) gives −273.15 °C. -/
theorem C09_dry_air_wb_route (db wb p : ℝ) (h : relHumidFromDbWb db wb p ≤ 0) :
    dewPointFromDbWb db wb p = -273.15 := by
  unfold dewPointFromDbWb
  exact C09_no_vapour_dew_point _ _ h

/-- The day's dew point of a design day whose humidity is given as enthalpy reads the value in J/kg: it is
    the dew point of the state with enthalpy `value / 1000` kJ/kg at the maximum dry bulb (whatever entry point
    stored the value), and a design day with humidity ratio 0 has the dew point −273.15 °C. -/
theorem C09_dd_enthalpy_units (value p db : ℝ) :
    ddDewPoint .enthalpy value p db = dewPointFromDbEnth db (value / 1000) p 0 ∧
      ddDewPoint .humidityRatio 0 p db = -273.15 := by
  constructor
  · unfold ddDewPoint
    norm_num
  · unfold ddDewPoint
    exact C09_dry_air_hr_route db p

/-- Relative humidity from a dew point is at most 100 whenever the dew point is at most the dry bulb and both
    lie on one branch of the saturation curve (both ≤ 0 °C, or both in (0, 200] °C).  Across 0 °C it needs the
    monotonicity of the saturation pressure over the branch point, which is a sampled sub-claim. -/
theorem C09_rh_dpt_le_100_partial (T d : ℝ) (h1 : -273.15 < d) (hd : d ≤ T)
    (hb : T ≤ 0 ∨ (0 < d ∧ T ≤ 200)) : relHumidFromDbDpt T d ≤ 100 := by
  rcases eq_or_lt_of_le hd with rfl | hlt
  · exact (C09_rh_dpt_sat d).le
  · have hs := satVapPres_pos (T + 273.15)
    have hm : satVapPres (d + 273.15) < satVapPres (T + 273.15) := by
      rcases hb with hT | ⟨h0, hT⟩
      · exact C09_pws_strictMono_ice ⟨by linarith, by linarith⟩ ⟨by linarith, by linarith⟩ (by linarith)
      · exact C09_pws_strictMono_water_partial ⟨by linarith, by linarith⟩ ⟨by linarith, by linarith⟩
          (by linarith)
    unfold relHumidFromDbDpt
    simp only []
    have e : (100.0 : ℝ) = 100 := by norm_num
    rw [e]
    have := (div_lt_one hs).mpr hm
    nlinarith

/-- Every hour of a design day has a relative humidity of at most 100 %, as long as the hour's dry bulb and
    its (capped) dew point lie on one branch of the saturation curve. -/
theorem C09_dd_rh_le_100_partial (m db : ℝ) (h1 : -273.15 < min m db)
    (hb : db ≤ 0 ∨ (0 < min m db ∧ db ≤ 200)) :
    ∀ x ∈ ddHourlyRelHumid m [db], x ≤ 100 := by
  unfold ddHourlyRelHumid ddHourlyDewPoint
  simp only [List.map_cons, List.map_nil, List.zip_cons_cons, List.zip_nil_right, List.mem_singleton,
    forall_eq]
  split_ifs with h
  · rw [min_eq_left h] at h1 hb
    exact C09_rh_dpt_le_100_partial db m h1 h hb
  · exact (C09_rh_dpt_sat db).le

/-- Every vertex the chart draws for a state (t, rh) — `plot_point`, `data_points`, the vertices of the
    relative-humidity curves and of the saturation line below the top of the chart — converts back, through the
    chart's axes and `rel_humid_from_db_hr`, to a relative humidity in `[rh·(1 − 7.4·10⁻⁵), rh]`. -/
theorem C09_chart_rh_curve (c : Chart ℝ) (t rh : ℝ) (hy : c.yDim ≠ 0) (hrh : 0 ≤ rh)
    (hP : satVapPres ((if c.useIp then fToC t else t) + 273.15) * (rh / 100) < c.pressure) :
    let tc := if c.useIp then fToC t else t
    let back := relHumidFromDbHr tc (((c.plotPoint t rh).2 - c.baseY) / c.yDim) c.pressure
    rh * (1 - 7.4e-5) ≤ back ∧ back ≤ rh := by
  intro tc back
  have hinv : ((c.plotPoint t rh).2 - c.baseY) / c.yDim = humidRatioFromDbRh tc rh c.pressure := by
    unfold Chart.plotPoint Chart.hrY
    simp only []
    field_simp
    ring
  show rh * (1 - 7.4e-5) ≤ relHumidFromDbHr tc (((c.plotPoint t rh).2 - c.baseY) / c.yDim) c.pressure ∧
    relHumidFromDbHr tc (((c.plotPoint t rh).2 - c.baseY) / c.yDim) c.pressure ≤ rh
  rw [hinv]
  exact C09_hr_rh_inverse tc rh c.pressure hrh hP


/-! ### design-day objects: histories of setters, refused operations and reads (round 3)

The statements hold for every numeric type the model is instantiated at (ℝ and the `Float` the driver
executes), hence the generic `α`. -/

section history

variable {α : Type} [Add α] [Sub α] [Mul α] [Div α] [Neg α] [OfScientific α]
  [LT α] [LE α] [DecidableLT α] [DecidableLE α] [Transc α]

/-- After ANY history of operations on one design day (setters of humidity type / value / pressure / dry-bulb
    maximum / range, operations the setters refuse, reads in any order and repetition) every observation the
    property speaks about (day dew point, dew point at any dry bulb, hourly dry bulb, dew point, relative
    humidity, pressure) equals the observation of a FRESH object built from the values the user has
    established: for each field the argument of the last accepted setter, else the initial value.  In
    particular nothing that was read or refused earlier can influence a later read. -/
theorem C09_history_refines_fresh (o : DDObj α) (ops : List (DDOp α)) (r : DDRead α) :
    ((o.after ops).step (.read r)).2 = .vals ((o.established ops).observe r) := by
  rw [DDObj.after_eq_established]; rfl

/-- The observations after a history, as a list of answers: the answer to a read placed after the history
    `ops` inside a longer run is the fresh observation too (the run's answers are those of its steps). -/
theorem C09_history_answers (o : DDObj α) (ops : List (DDOp α)) (r : DDRead α) :
    (o.run (ops ++ [.read r])).2 = (o.run ops).2 ++ [.vals ((o.established ops).observe r)] := by
  induction ops generalizing o with
  | nil => rfl
  | cons op rest ih =>
    have h1 : (o.run ((op :: rest) ++ [.read r])).2
        = (o.step op).2 :: ((o.step op).1.run (rest ++ [.read r])).2 := rfl
    have h2 : (o.run (op :: rest)).2 = (o.step op).2 :: ((o.step op).1.run rest).2 := rfl
    rw [h1, h2, ih]
    have h3 : (o.step op).1.established rest = o.established (op :: rest) := by
      rw [← DDObj.after_eq_established, ← DDObj.after_eq_established]; rfl
    rw [h3]; rfl

/-- A refused operation (an argument a setter's `assert` rejects: not a number, an unknown humidity type, a
    negative or nan dry-bulb range) leaves the object exactly as it was, so every observation is unchanged. -/
theorem C09_refused_preserves (o : DDObj α) (op : DDOp α) (h : (o.step op).2 = .refused) :
    (o.step op).1 = o ∧ ∀ r, (o.step op).1.observe r = o.observe r := by
  have := DDObj.step_refused o op h
  exact ⟨this, fun r => by rw [this]⟩

/-- Reads are pure: a read does not change the state, so asking twice gives the same answer and any
    sequence of reads (any order, any repetition) is answered read by read with the observation of the
    unchanged object. -/
theorem C09_read_pure (o : DDObj α) (rs : List (DDRead α)) :
    o.run (rs.map .read) = (o, rs.map fun r => .vals (o.observe r)) :=
  DDObj.run_reads o rs

/-- Order independence of reads: whatever reads came before, the answer to `r` is the same as on the
    untouched object. -/
theorem C09_reads_order_independent (o : DDObj α) (before : List (DDRead α)) (r : DDRead α) :
    ((o.after (before.map .read)).step (.read r)).2 = (o.step (.read r)).2 := by
  have h : o.after (before.map .read) = o := by
    unfold DDObj.after; rw [DDObj.run_reads]
  rw [h]

/-- A setter changes only its own field: e.g. after an accepted pressure assignment the day's dew point is the
    dew point of (type, value, NEW pressure, dry-bulb maximum) — the stale-memo shape "read, set pressure,
    read" must give the fresh value. -/
theorem C09_set_pressure_then_read (o : DDObj α) (v : α) (before : List (DDRead α)) :
    ((o.after (before.map .read ++ [.setPressure (some v)])).step (.read .dayDew)).2
      = .vals [ddDewPoint o.ty o.value v o.dbMax] := by
  rw [C09_history_refines_fresh]
  have : o.established (before.map .read ++ [.setPressure (some v)]) = { o with pressure := v } := by
    rw [← DDObj.after_eq_established]
    induction before with
    | nil => rfl
    | cons b rest ih => exact ih
  rw [this]; rfl

end history

/-- non-vacuity: a history with an accepted setter, a refused one and reads; the established state is the
    one a user expects (pressure replaced, range kept) -/
example : ((⟨.wetbulb, 23, 101325, 32, 10⟩ : DDObj ℝ).established
    [.read .hourlyDew, .setPressure (some 84000), .setDbRange (some (-1)), .setType none, .read .dayDew]).pressure
      = 84000 := rfl
example : ((⟨.wetbulb, 23, 101325, 32, 10⟩ : DDObj ℝ).step (.setType none)).2 = .refused := rfl


/-! ### non-vacuity: the hypotheses are satisfiable on ordinary states -/

example : (-273.15 : ℝ) ≤ 30 := by norm_num
example : (-20 : ℝ) < 0 ∧ (-20 : ℝ) + 273.15 ≠ 0 := by norm_num
example : (253.15 : ℝ) ∈ Set.Ioc (0 : ℝ) 273.15 ∧ (263.15 : ℝ) ∈ Set.Ioc (0 : ℝ) 273.15 := by
  constructor <;> constructor <;> norm_num
example : (293.15 : ℝ) ∈ Set.Ioc (273.15 : ℝ) 473.15 := by constructor <;> norm_num
/-- rh = 0 satisfies the pressure hypothesis of `C09_hr_rh_inverse` for every positive pressure. -/
example (T : ℝ) : satVapPres (T + 273.15) * ((0 : ℝ) / 100) < 101325 := by norm_num
/-- dry air at 30 °C: the enthalpy hypothesis of `C09_enthalpy_inverse` holds (30.18 ≥ 0). -/
example : 0 ≤ enthalpyRaw (30 : ℝ) 0 0 := by unfold enthalpyRaw; norm_num
example : (0 : ℝ) < 1.86 * (30 - 0) + 2501 := by norm_num
example : BisInv 10 30 ⟨30, 10, 20⟩ := by unfold BisInv; norm_num
/-- the bisection statement is not about an empty loop: one pass really moves a bound -/
example : (bisStep (30 : ℝ) 0 101325 ⟨30, 10, 20⟩).sup - (bisStep (30 : ℝ) 0 101325 ⟨30, 10, 20⟩).inf = 10 := by
  have := (bisStep_width (30 : ℝ) 0 101325 ⟨30, 10, 20⟩ (by norm_num)).1
  rw [this]; norm_num


/-! ### round 4: the curve families of the chart (Model/PsychroChart.lean) -/

/-- The dry bulb that `db_temp_from_enth_hr` returns for an enthalpy and a humidity ratio `w ≥ 0` is a state
    of exactly that enthalpy, for every reference temperature (the converse of `C09_enthalpy_inverse`):
    both points an enthalpy line of the chart is drawn through are states of the labelled enthalpy. -/
theorem C09_enth_line_constant (e w ref : ℝ) (hw : 0 ≤ w) :
    enthalpyRaw (dbTempFromEnthHr e w ref) w ref = e := by
  unfold enthalpyRaw dbTempFromEnthHr
  simp only []
  have h : (1.006 : ℝ) + 1.86 * w ≠ 0 := by positivity
  norm_num only []
  field_simp
  ring

/-- Converting a Celsius value to the chart's unit and back is the identity (SI and IP charts). -/
theorem C09_chart_toC_ofC (c : Chart ℝ) (t : ℝ) : c.toC (c.ofC t) = t := by
  unfold Chart.toC Chart.ofC
  cases c.useIp
  · simp
  · simp only [if_true]
    unfold fToC cToF
    norm_num only []
    ring

/-- With the repair of fixes/C09_enthalpy_lines_max_hr.patch (the upper point computed for the chart's maximum
    humidity ratio) the upper point of every enthalpy line, read back through the chart's axes, is a state of the
    labelled enthalpy — on SI and IP charts, for every reference temperature. -/
theorem C09_chart_enth_line_upper_end_fixed (c : Chart ℝ) (e ref hrMax : ℝ) (hx : c.xDim ≠ 0) (hy : c.yDim ≠ 0)
    (h0 : 0 ≤ hrMax) :
    let q := (c.enthLineEnds e ref hrMax hrMax).2
    enthalpyRaw (c.toC (c.minT + (q.1 - c.baseX) / c.xDim)) ((q.2 - c.baseY) / c.yDim) ref = e := by
  intro q
  have h1 := (C09_chart_coords_invert c (c.ofC (dbTempFromEnthHr e hrMax ref)) hrMax hx hy)
  show enthalpyRaw (c.toC (c.minT + ((c.enthLineEnds e ref hrMax hrMax).2.1 - c.baseX) / c.xDim))
    (((c.enthLineEnds e ref hrMax hrMax).2.2 - c.baseY) / c.yDim) ref = e
  unfold Chart.enthLineEnds
  simp only []
  rw [h1.1, h1.2, C09_chart_toC_ofC]
  exact C09_enth_line_constant e hrMax ref h0

/-- Recorded defect C09-enthalpy-lines-ignore-max-humidity-ratio: the code draws the line towards the dry bulb
    of humidity ratio 0.03 whatever the chart's maximum is; on a chart with maximum 0.02 the upper point of the
    "40 kJ/kg" line is a state of less than 31 kJ/kg. -/
theorem C09_enth_line_max_hr_counterexample :
    enthalpyRaw (dbTempFromEnthHr (40 : ℝ) 0.03 0) 0.02 0 < 31 := by
  unfold enthalpyRaw dbTempFromEnthHr
  norm_num

/-- The upper point of every wet-bulb line is the saturation state at that wet bulb
    (`db_temp_and_hr_from_wb_rh(wb, 100)` = (wb, saturation humidity ratio)). -/
theorem C09_chart_wb_line_upper_end (c : Chart ℝ) (wb : ℝ) :
    (c.wbLineEnds wb).2 = (c.tX (c.ofC wb), c.hrY (humidRatioFromDbRh wb 100.0 c.pressure)) := by
  unfold Chart.wbLineEnds
  simp only []
  rw [C09_db_from_wb_sat]
  rfl

/-- helper: an element of `takeWhile p l` satisfies `p` and lies in `l` -/
theorem mem_takeWhile_sat {β : Type} (p : β → Bool) :
    ∀ (l : List β) (a : β), a ∈ l.takeWhile p → p a = true ∧ a ∈ l
  | [], a, h => by simp at h
  | x :: xs, a, h => by
    by_cases hx : p x = true
    · rw [List.takeWhile_cons_of_pos hx] at h
      rcases List.mem_cons.mp h with rfl | h'
      · exact ⟨hx, List.mem_cons_self⟩
      · have := mem_takeWhile_sat p xs a h'
        exact ⟨this.1, List.mem_cons_of_mem _ this.2⟩
    · rw [List.takeWhile_cons_of_neg hx] at h
      simp at h

/-- helper: `takeWhile` over a list is a prefix of `takeWhile` over any extension of the list -/
theorem takeWhile_prefix_append' {β : Type} (p : β → Bool) :
    ∀ (l1 l2 : List β), l1.takeWhile p <+: (l1 ++ l2).takeWhile p
  | [], l2 => List.nil_prefix
  | x :: xs, l2 => by
    by_cases hx : p x = true
    · simp only [List.cons_append, List.takeWhile_cons_of_pos hx]
      exact (List.prefix_cons_inj x).mpr (takeWhile_prefix_append' p xs l2)
    · simp only [List.cons_append, List.takeWhile_cons_of_neg hx]
      exact List.nil_prefix

/-- Every vertex of a relative-humidity curve below the cut-off is the plotted point of a state of that relative
    humidity (so `C09_chart_rh_curve` applies to each), whatever the list of temperatures, and the humidity
    ratio of each lies below the chart's maximum. -/
theorem C09_chart_rh_vertices_are_states (c : Chart ℝ) (hrMax rh : ℝ) (temps : List ℝ) :
    ∀ q ∈ c.rhVertices hrMax rh temps, ∃ t ∈ temps, q = c.plotPoint t rh ∧
      humidRatioFromDbRh (c.toC t) rh c.pressure < hrMax := by
  intro q hq
  unfold Chart.rhVertices at hq
  rw [List.mem_map] at hq
  obtain ⟨a, ha, rfl⟩ := hq
  obtain ⟨hp, hm⟩ := mem_takeWhile_sat _ _ _ ha
  rw [List.mem_map] at hm
  obtain ⟨t, ht, rfl⟩ := hm
  refine ⟨t, ht, ?_, ?_⟩
  · unfold Chart.plotPoint Chart.toC
    rfl
  · simpa using hp

/-- The answer does not depend on how the temperatures were grouped: the vertices of a list are those of its
    first part followed by those of the rest while the first part stays below the cut-off (the curve over
    `temps₁ ++ temps₂` starts with the curve over `temps₁`). -/
theorem C09_chart_rh_vertices_prefix (c : Chart ℝ) (hrMax rh : ℝ) (t1 t2 : List ℝ) :
    (c.rhVertices hrMax rh t1) <+: (c.rhVertices hrMax rh (t1 ++ t2)) := by
  unfold Chart.rhVertices
  rw [List.map_append]
  exact List.IsPrefix.map _ (takeWhile_prefix_append' _ _ _)

/-- non-vacuity: an SI chart, one temperature below the cut-off gives one vertex -/
example : ((⟨0, 0, 1, 1500, -20, 101325, false⟩ : Chart ℝ).rhVertices 0.03 0 [20]).length = 1 := by
  unfold Chart.rhVertices humidRatioFromDbRh
  norm_num [Chart.toC]

/-! ### Round 6: positional results keep one entry per state (no entry is left out, merged or moved)

`data_points` (and the hourly profiles of a design day) are *positional*: entry `i` belongs to state `i` of the
data.  The model has no access to the chart's limits in `dataPoints` (the structure `Chart` does not even carry the
maximum temperature), so the statements below hold for data that do not fit on the chart as well. -/

/-- `data_points` has exactly one entry per state of the data — whatever the temperatures are (on the chart or not). -/
theorem C09_data_points_length (c : Chart ℝ) (ts rhs : List ℝ) (h : ts.length = rhs.length) :
    (c.dataPoints ts rhs).length = ts.length := by
  unfold Chart.dataPoints
  simp [h]

/-- Entry `i` of `data_points` is the plotted point of state `i` (its temperature in the chart's unit). -/
theorem C09_data_points_aligned (c : Chart ℝ) (ts rhs : List ℝ) (i : Nat) (h1 : i < ts.length)
    (h2 : i < rhs.length) :
    (c.dataPoints ts rhs)[i]? = some (c.plotPoint (c.ofC ts[i]) rhs[i]) := by
  unfold Chart.dataPoints
  have hz : (ts.zip rhs)[i]? = some (ts[i], rhs[i]) :=
    List.getElem?_zip_eq_some.mpr ⟨List.getElem?_eq_getElem h1, List.getElem?_eq_getElem h2⟩
  rw [List.getElem?_map, hz]
  simp only [Option.map_some]
  rw [C09_chart_data_eq_plot]
  rfl

/-- Entry `i` converts back through the temperature axis to the temperature of state `i` exactly, for any
    temperature (no condition that it lies between the chart's limits). -/
theorem C09_data_points_invert_t (c : Chart ℝ) (ts rhs : List ℝ) (i : Nat) (h1 : i < ts.length)
    (h2 : i < rhs.length) (hx : c.xDim ≠ 0) :
    ∃ q, (c.dataPoints ts rhs)[i]? = some q ∧ c.minT + (q.1 - c.baseX) / c.xDim = c.ofC ts[i] := by
  refine ⟨_, C09_data_points_aligned c ts rhs i h1 h2, ?_⟩
  unfold Chart.plotPoint Chart.tX
  simp only []
  field_simp
  ring

/-- Further states (for instance states that do not fit on the chart) put before or after the data do not
    change the entries of the others: the points of `ts₁ ++ ts₂` are those of `ts₁` followed by those of `ts₂`. -/
theorem C09_data_points_append (c : Chart ℝ) (t1 t2 r1 r2 : List ℝ) (h : t1.length = r1.length) :
    c.dataPoints (t1 ++ t2) (r1 ++ r2) = c.dataPoints t1 r1 ++ c.dataPoints t2 r2 := by
  unfold Chart.dataPoints
  rw [List.zip_append h, List.map_append]

/-- The hourly dew points and relative humidities of a design day have one value per hourly dry bulb. -/
theorem C09_dd_hourly_lengths (m : ℝ) (hourly : List ℝ) :
    (ddHourlyDewPoint m hourly).length = hourly.length ∧ (ddHourlyRelHumid m hourly).length = hourly.length := by
  unfold ddHourlyRelHumid ddHourlyDewPoint
  simp

/-- non-vacuity: a state 30 degrees below the chart's minimum keeps its entry, left of the chart's base point -/
example : ((⟨0, 0, 1, 1500, -20, 101325, false⟩ : Chart ℝ).dataPoints [20, -50, 21] [50, 50, 50]).length = 3 ∧
    (((⟨0, 0, 1, 1500, -20, 101325, false⟩ : Chart ℝ).dataPoints [20, -50, 21] [50, 50, 50]).map Prod.fst)
      = [40, -30, 41] := by
  constructor
  · rfl
  · simp [Chart.dataPoints, Chart.dataPoint, Chart.tX]
    norm_num

end Psychro
