/-
  C19 — Collections read from EnergyPlus SQLite results equal the rows in the database.
  Property theorems only (helper lemmas live in Proofs/C19Lemmas.lean).  No Mathlib.
  The model (Model/Sql.lean) is tied to ladybug/sql.py by the correspondence ops of Drv/C19.lean
  (harness/props/c19.py).  All list theorems are polymorphic in the value type: the code only moves
  values (or maps the J -> kWh conversion over them), so they hold for every value list.
-/
import Ladybug.Proofs.C19Lemmas
import Ladybug.Proofs.C19Struct
import Ladybug.Proofs.C19Time
import Ladybug.Proofs.C19Obj
import Ladybug.Proofs.C19Shapes

namespace Sql

variable {α : Type}

/-! ### De-interleaving of keys (`_partition_timeseries`) -/

/-- The time-ordered stream of `n` keys over `T` time steps (one value per key at every step, keys in
    dictionary order) is split into exactly `n` lists of `T` values, and value `t` of list `k` is
    stream element `t * n + k`: every key gets its own rows, in time order.  Any `n`, `T`. -/
theorem C19_deinterleave (data : List α) (n T : Nat) (hn : 0 < n) (hT : 0 < T)
    (hl : data.length = n * T) :
    ∃ cols, partition data n = .ok cols ∧ cols.length = n ∧
      ∀ k, k < n → ∃ c, cols[k]? = some c ∧ c.length = T ∧ ∀ t, t < T → c[t]? = data[t * n + k]? := by
  have hrect := chunksOf_rect n T data hn hl
  have hne := chunksOf_ne_nil n T data hn hl hT
  refine ⟨zipStar (chunksOf n data), ?_, zipStar_rect_length n _ hrect hne, ?_⟩
  · simp [partition, Nat.ne_of_gt hn]
  · intro k hk
    have hcol : ∀ r ∈ chunksOf n data, k < r.length := fun r hr => by rw [hrect r hr]; exact hk
    refine ⟨column (chunksOf n data) k, zipStar_rect_getElem? n _ hrect hne k hk, ?_, ?_⟩
    · rw [column_length _ k hcol, chunksOf_length n T data hn hl]
    · intro t ht
      rw [column_getElem? _ k hcol t, chunksOf_getElem? n T data hn hl t ht]
      simp [List.getElem?_take, hk, List.getElem?_drop]

example : partition [10, 20, 11, 21, 12, 22] 2 = .ok [[10, 11, 12], [20, 21, 22]] := by decide

/-- De-interleaving inverts the EnergyPlus interleaving: for `n ≥ 1` value lists of equal length
    `T ≥ 1`, partitioning the time-major stream built from them returns exactly these lists. -/
theorem C19_interleave_inverse (cols : List (List α)) (n T : Nat) (hlen : cols.length = n)
    (hn : 0 < n) (hT : 0 < T) (h : ∀ c ∈ cols, c.length = T) :
    partition (interleave cols) n = .ok cols := by
  have hne : cols ≠ [] := by intro e; rw [e] at hlen; simp at hlen; omega
  have hMrows : ∀ r ∈ zipStar cols, r.length = n := by
    intro r hr
    simp only [zipStar, List.mem_map, List.mem_range] at hr
    obtain ⟨t, ht, rfl⟩ := hr
    rw [minLen_rect T cols h hne] at ht
    rw [column_length cols t (fun c hc => by rw [h c hc]; exact ht), hlen]
  simp only [partition, Nat.ne_of_gt hn, if_false, interleave]
  rw [chunksOf_flatten n _ hn hMrows, zipStar_zipStar n T cols hlen hn hT h]

example : partition (interleave [[1, 2, 3], [7, 8, 9]]) 2 = .ok [[1, 2, 3], [7, 8, 9]] := by decide

/-! ### Several run periods (`_partition_timeseries_chunks`) -/

/-- For periods of `c₀ … c_m` time steps and `n` keys (stream length `n · Σ cᵢ`), the chunked
    partition is, period after period, the plain de-interleaving of that period's rows. -/
theorem C19_chunks (data : List α) (cs : List Nat) (n : Nat) (hn : 0 < n) (hs : 0 < cs.sum)
    (hl : data.length = n * cs.sum) :
    partitionChunks data cs =
      .ok ((List.range cs.length).flatMap fun j => zipStar (chunksOf n (periodSlice data cs n j))) :=
  partitionChunks_eq_slices data cs n hn hs hl

/-- Asking for one run period gives the corresponding slice of asking for all: de-interleaving the rows
    of period `j` alone yields exactly the `j`-th group of `n` lists of the chunked partition. -/
theorem C19_one_vs_all (data : List α) (cs : List Nat) (n : Nat) (hn : 0 < n) (hs : 0 < cs.sum)
    (hl : data.length = n * cs.sum) :
    ∃ blocks : List (List (List α)), partitionChunks data cs = .ok blocks.flatten ∧
      blocks.length = cs.length ∧
      ∀ j, j < cs.length → ∃ b, blocks[j]? = some b ∧ partition (periodSlice data cs n j) n = .ok b := by
  refine ⟨(List.range cs.length).map fun j => zipStar (chunksOf n (periodSlice data cs n j)), ?_, by simp, ?_⟩
  · rw [C19_chunks data cs n hn hs hl, List.flatMap_def]
  · intro j hj
    refine ⟨zipStar (chunksOf n (periodSlice data cs n j)), ?_, ?_⟩
    · simp [List.getElem?_map, List.getElem?_range hj]
    · simp [partition, Nat.ne_of_gt hn]

/-- Collection `(j, k)` of the chunked partition holds the rows of period `j`, key `k`, in time order:
    its value `t` is stream element `(c₀ + … + c_{j-1} + t) · n + k`. -/
theorem C19_chunks_index (data : List α) (cs : List Nat) (n : Nat) (hn : 0 < n)
    (hl : data.length = n * cs.sum) (j : Nat) (hj : j < cs.length) (hc : 0 < cs.getD j 0) :
    ∃ cols, partition (periodSlice data cs n j) n = .ok cols ∧ cols.length = n ∧
      ∀ k, k < n → ∃ c, cols[k]? = some c ∧ c.length = cs.getD j 0 ∧
        ∀ t, t < cs.getD j 0 → c[t]? = data[(cumBefore cs j + t) * n + k]? := by
  have hle := cumBefore_add_le cs j hj
  have hfit : cumBefore cs j * n + cs.getD j 0 * n ≤ data.length := by
    rw [hl, ← Nat.add_mul, Nat.mul_comm n]; exact Nat.mul_le_mul_right n hle
  have hlen : (periodSlice data cs n j).length = n * cs.getD j 0 := by
    simp only [periodSlice, List.length_take, List.length_drop]
    rw [Nat.mul_comm n]; omega
  obtain ⟨cols, h1, h2, h3⟩ := C19_deinterleave (periodSlice data cs n j) n (cs.getD j 0) hn hc hlen
  refine ⟨cols, h1, h2, ?_⟩
  intro k hk
  obtain ⟨c, hc1, hc2, hc3⟩ := h3 k hk
  refine ⟨c, hc1, hc2, ?_⟩
  intro t ht
  rw [hc3 t ht]
  have hlt : t * n + k < cs.getD j 0 * n := by
    have : (t + 1) * n ≤ cs.getD j 0 * n := Nat.mul_le_mul_right n ht
    rw [Nat.add_mul] at this; omega
  simp only [periodSlice, List.getElem?_take, hlt, if_true, List.getElem?_drop]
  congr 1
  rw [Nat.add_mul]; omega

example : partitionChunks [1, 2, 3, 4, 5, 6, 7, 8, 9, 10] [2, 3] = .ok [[1, 3], [2, 4], [5, 7, 9], [6, 8, 10]] := by
  decide

/-! ### Row order -/

/-- On rows that are already in time order (EnergyPlus writes them so) `ORDER BY TimeIndex` changes
    nothing: the model's stable sort is the identity. -/
theorem C19_order_by_sorted (l : List (DataRow α)) (h : l.Pairwise fun a b => a.time ≤ b.time) :
    sortByTime l = l :=
  sortByTime_sorted l h

/-! ### Joules to kWh, other units untouched -/

/-- The conversion divides by 3 600 000: one kWh is 3.6 MJ, and multiplying back restores the joules. -/
theorem C19_kwh_factor (x : Rat) : jToKWh x * 3600000 = x ∧ jToKWh 3600000 = 1 := by
  constructor
  · unfold jToKWh
    rw [Rat.div_mul_cancel]
    decide
  · decide +kernel

/-- An output reported in `J` is labelled `Energy` / `kWh` (and is then converted). -/
theorem C19_kwh_label (name : String) :
    dataTypeFromUnit (relabel "J") name = (.base "Energy", "kWh") := by
  have h1 : relabel "J" = "kWh" := by decide +kernel
  have h2 : unitsTable.find? (fun p => p.2.contains "kWh") =
      some ("Energy", ["kWh", "kBtu", "Wh", "Btu", "MMBtu", "J", "kJ", "MJ", "GJ", "therm", "cal", "kcal"]) := by
    decide +kernel
  have h3 : ("kWh" : String) ≠ "" := by decide
  rw [h1]
  unfold dataTypeFromUnit
  rw [if_neg h3, h2]

/-- Every other unit keeps its values: the header unit is `kWh` (the trigger of the conversion in
    `queryAll`) only when the database says `J` or `kWh`. -/
theorem C19_other_units_untouched (u name : String) (h1 : u ≠ "J") (h2 : u ≠ "kWh") :
    (dataTypeFromUnit (relabel u) name).2 ≠ "kWh" := by
  unfold relabel
  rw [if_neg h1]
  unfold dataTypeFromUnit
  by_cases hu : u = ""
  · rw [if_pos hu]; decide
  · rw [if_neg hu]
    split <;> exact h2

/-! ### Absent outputs -/

/-- No dictionary row carries the requested name(s): all three queries return nothing. -/
theorem C19_absent (conv : α → α) (db : DB α) (q : NameQuery)
    (h : ∀ r ∈ db.dict, q.selects r = false) :
    queryAll conv db q = .ok (.colls []) ∧ valuesByName db q = [] := by
  have hf : db.dict.filter q.selects = [] := List.filter_eq_nil_iff.mpr (fun r hr => by simp [h r hr])
  have hh : headerRows db.dict q = [] := by simp [headerRows, hf]
  constructor
  · simp [queryAll, hh]
  · have he : db.data.filter (fun _ => false) = [] := List.filter_eq_nil_iff.mpr (by simp)
    simp [valuesByName, hh, selectData, sortByTime, he]

/-- Same for the one-run-period query. -/
theorem C19_absent_run_period (conv : α → α) (db : DB α) (name : String) (env : Nat)
    (h : ∀ r ∈ db.dict, (NameQuery.single name).selects r = false) :
    queryRunPeriod conv db name env = .ok (.colls []) := by
  have hf : db.dict.filter (NameQuery.single name).selects = [] :=
    List.filter_eq_nil_iff.mpr (fun r hr => by simp [h r hr])
  have hh : headerRows db.dict (.single name) = [] := by simp [headerRows, hf]
  simp [queryRunPeriod, hh]

/-! ### Analysis period, timestep and class from the time table -/

/-- What the first `Time` row says about frequency and timestep. -/
def rowTimestep (s : TimeRow) : Nat := if s.itype ≤ 1 then 60 / s.interval else 1
def rowFreq (s : TimeRow) : Freq :=
  if s.itype ≤ 1 then .steps (60 / s.interval) else if s.itype = 2 then .daily else .monthly

/-- The analysis period comes from the first and last `Time` rows of the data: start month/day (day 1
    for monthly data) at hour 0, end month/day at hour 23, timestep `60 / Interval` for (sub-)hourly data
    and 1 otherwise, leap flag `year ≠ 0 ∧ year % 4 = 0` of the last row; the frequency class follows
    the interval type (≤ 1 hourly continuous, 2 daily, 3 monthly).  Hypotheses = what the code requires:
    dates that exist in the calendar of that (leap or normal) year – 29 Feb of a leap year included –
    and an interval that gives a valid timestep. -/
theorem C19_period_from_time_table (s e : TimeRow)
    (hty : s.itype ≤ 3)
    (hiv : s.itype ≤ 1 → 1 ≤ s.interval ∧ s.interval ≤ 60 ∧ 60 / s.interval ∈ validTimesteps)
    (hs : (⟨s.month, if s.itype = 3 then 1 else s.day, 0, 0, leapOfYear e.year⟩ : Cal.DT).valid)
    (he : (⟨e.month, e.day, 0, 0, leapOfYear e.year⟩ : Cal.DT).valid) :
    extractRunPeriodRows (some s) (some e) =
      .ok (some ⟨s.month, if s.itype = 3 then 1 else s.day, 0, e.month, e.day, 23, rowTimestep s,
                 leapOfYear e.year⟩, rowFreq s, s.env != e.env) := by
  have he23 : (⟨e.month, e.day, 23, 0, leapOfYear e.year⟩ : Cal.DT).valid := by
    have := he
    unfold Cal.DT.valid at this ⊢
    simp only at this ⊢
    omega
  by_cases h1 : s.itype ≤ 1
  · obtain ⟨i1, i2, i3⟩ := hiv h1
    have hne3 : ¬ s.itype = 3 := by omega
    simp only [hne3, if_false] at hs ⊢
    have hend : endHourOf s.interval = 23 := by unfold endHourOf; omega
    have a1 : ¬ s.interval = 0 := by omega
    have a2 : ¬ 60 < s.interval := by omega
    simp only [extractRunPeriodRows, freqOf, h1, if_true, a1, a2, if_false, bind, Except.bind, pure, Except.pure,
      rowTimestep, rowFreq, reduceCtorEq, dtMake_ok _ _ _ _ hs, dtMake_ok _ _ _ _ he, hend,
      mkPeriod_ok _ _ _ _ _ _ hs he23 i3]
  · by_cases h2 : s.itype = 2
    · have hne3 : ¬ s.itype = 3 := by omega
      simp only [hne3, if_false] at hs ⊢
      have hend : endHourOf 60 = 23 := by decide
      have hv : (1 : Nat) ∈ validTimesteps := by decide
      have c1 : ¬ ((2 : Int) ≤ 1) := by decide
      simp only [extractRunPeriodRows, freqOf, h1, h2, c1, if_true, if_false, bind, Except.bind, pure, Except.pure,
        rowTimestep, rowFreq, reduceCtorEq, dtMake_ok _ _ _ _ hs, dtMake_ok _ _ _ _ he, hend,
        mkPeriod_ok _ _ _ _ _ _ hs he23 hv]
    · have h3 : s.itype = 3 := by omega
      simp only [h3, if_true] at hs ⊢
      have hend : endHourOf 60 = 23 := by decide
      have hv : (1 : Nat) ∈ validTimesteps := by decide
      have b1 : ¬ ((3 : Int) ≤ 1) := by decide
      have b2 : ¬ ((3 : Int) = 2) := by decide
      simp only [extractRunPeriodRows, freqOf, h3, b1, b2, if_true, if_false, bind, Except.bind, pure, Except.pure,
        rowTimestep, rowFreq, reduceCtorEq, dtMake_ok _ _ _ _ hs, dtMake_ok _ _ _ _ he, hend,
        mkPeriod_ok _ _ _ _ _ _ hs he23 hv]

/-- Sample (kernel-evaluated test): a leap-year daily run period 1 Feb – 29 Feb is read. -/
example : extractRunPeriodRows (some ⟨1, 2016, 2, 1, 1440, 2, 8⟩) (some ⟨29, 2016, 2, 29, 1440, 2, 8⟩) =
    .ok (some ⟨2, 1, 0, 2, 29, 23, 1, true⟩, .daily, false) := by decide +kernel

example : extractRunPeriodRows (some ⟨1, 2016, 1, 6, 10, -1, 8⟩) (some ⟨1008, 2016, 3, 12, 10, -1, 8⟩) =
    .ok (some ⟨1, 6, 0, 3, 12, 23, 6, true⟩, .steps 6, false) := by decide +kernel

/-- The period spans whole days: its length is days x 24 x timestep and it lists one day-of-year per
    day, so that the chunk sizes used for several run periods equal the rows EnergyPlus writes. -/
theorem C19_period_len (p : Period) (h0 : p.stHour = 0) (h23 : p.endHour = 23) (h1 : 1 ≤ p.stDoy)
    (hle : p.stDoy ≤ p.endDoy) :
    p.len = (p.endDoy + 1 - p.stDoy) * 24 * p.timestep ∧ p.doys.length = p.endDoy + 1 - p.stDoy := by
  have hr : p.reversed = false := by
    unfold Period.reversed
    rw [h0, h23]
    simp only [decide_eq_false_iff_not]
    omega
  have e : (p.endDoy - 1) * 24 + 23 + 1 - ((p.stDoy - 1) * 24 + 0) = (p.endDoy + 1 - p.stDoy) * 24 := by omega
  constructor
  · unfold Period.len
    rw [hr, h0, h23]
    simp only [Bool.false_eq_true, if_false]
    rw [e]
  · unfold Period.doys
    rw [hr]
    simp

/-! ### One reporting key, units per output, annual data (repaired by fixes/C19_*.patch) -/

/-- An output with a single reporting key: de-interleaving with `n = 1` returns the rows themselves. -/
theorem C19_single_key (data : List α) (hne : data ≠ []) : partition data 1 = .ok [data] := by
  have hpos : 0 < data.length := List.length_pos_iff.mpr hne
  obtain ⟨cols, h1, h2, h3⟩ := C19_deinterleave data 1 data.length (by omega) hpos (by simp)
  obtain ⟨c, hc1, hc2, hc3⟩ := h3 0 (by omega)
  obtain ⟨a, ha⟩ := List.length_eq_one_iff.mp h2
  rw [ha] at hc1
  simp only [List.getElem?_cons_zero, Option.some.injEq] at hc1
  have hcd : c = data := by
    apply List.ext_getElem?
    intro t
    by_cases ht : t < data.length
    · have := hc3 t ht
      simpa using this
    · rw [List.getElem?_eq_none (by omega), List.getElem?_eq_none (by omega)]
  rw [h1, ha, hc1, hcd]

/-- Sample (kernel-evaluated test): the run-period query of a one-key output returns its rows. -/
example :
    let db : DB Nat := ⟨[⟨7, "Zone", "Environment", "T", "Daily", "C"⟩],
      [⟨1, 2017, 1, 1, 1440, 2, 8⟩, ⟨2, 2017, 1, 2, 1440, 2, 8⟩], [⟨1, 7, 11⟩, ⟨2, 7, 12⟩]⟩
    (match queryRunPeriod (· / 3600000) db "T" 8 with
     | .ok (.colls cs) => cs.map fun c => (c.key, c.unit, c.values, c.datetimes)
     | _ => []) = [("Environment", "C", [11, 12], [1, 2])] := by decide +kernel

/-- In a list of output names every column is converted according to the flag of its own output:
    column `k` is mapped through the conversion iff flag `k` is set, and otherwise left as it is. -/
theorem C19_convert_per_column (conv : α → α) (flags : List Bool) (cols : List (List α)) (k : Nat)
    (f : Bool) (c : List α) (hf : flags[k]? = some f) (hc : cols[k]? = some c) :
    (convCols conv flags cols)[k]? = some (if f then c.map conv else c) := by
  have hz : (flags.zip cols)[k]? = some (f, c) := by
    rw [List.getElem?_zip_eq_some]
    exact ⟨hf, hc⟩
  simp [convCols, List.getElem?_map, hz]

/-- The flag of an output is set exactly for energy: `J` gives `Energy`/`kWh`; a unit other than
    `J` (and `kWh`) never sets it, so those values stay untouched. -/
theorem C19_flag_by_own_unit (r : DictRow) :
    (r.units = "J" → typeUnitOf r = (.base "Energy", "kWh")) ∧
    (r.units ≠ "J" → r.units ≠ "kWh" → ((typeUnitOf r).2 == "kWh") = false) := by
  constructor
  · intro h
    unfold typeUnitOf
    rw [h]
    exact C19_kwh_label r.name
  · intro h1 h2
    have := C19_other_units_untouched r.units r.name h1 h2
    unfold typeUnitOf
    simpa using this

/-- Sample (kernel-evaluated test): a name list mixing a `J` and a `C` output – only the energy is
    converted and labelled `kWh`, the temperature keeps unit and values. -/
example :
    let db : DB Nat := ⟨[⟨1, "Zone", "Z1", "E", "Daily", "J"⟩, ⟨2, "Zone", "Z1", "T", "Daily", "C"⟩],
      [⟨1, 2017, 1, 1, 1440, 2, 8⟩], [⟨1, 1, 7200000⟩, ⟨1, 2, 3600000⟩]⟩
    (match queryAll (· / 3600000) db (.many ["E", "T"]) with
     | .ok (.colls cs) => cs.map fun c => (c.metaType, c.unit, c.values)
     | _ => []) = [("E", "kWh", [2]), ("T", "C", [3600000])] := by decide +kernel

/-- Sample (kernel-evaluated test): run-period (annual) frequency with a design day and a run period
    gives one value per run period and key, in time order. -/
example :
    let db : DB Nat := ⟨[⟨1, "Zone", "Z1", "E", "Run Period", "W"⟩, ⟨2, "Zone", "Z2", "E", "Run Period", "W"⟩],
      [⟨1, 0, 7, 21, 1440, 4, 1⟩, ⟨2, 2017, 12, 31, 525600, 4, 2⟩],
      [⟨1, 1, 5⟩, ⟨1, 2, 6⟩, ⟨2, 1, 7⟩, ⟨2, 2, 8⟩]⟩
    (match queryAll (· / 3600000) db (.single "E") with
     | .ok (.annual vs) => vs
     | _ => []) = [5, 6, 7, 8] := by decide +kernel

/-! ### Mixed time tables (repaired by fixes/C19_all_run_periods_own_interval_type.patch, /repo c9ccd82) -/

/-- Sample (kernel-evaluated test; before the repair this database made the query fail with
    `range() arg 3 must not be zero`): daily and monthly reporting over two run periods (1–2 Jan, 1 Jul).
    The run periods are read from the daily rows only, so the daily output comes back as two
    collections 1–2 Jan and 1 Jul with their own rows.  The general statement is `C19_end_to_end`, whose
    time-table hypothesis speaks about the rows of the data's own interval type only. -/
example :
    let db : DB Nat := ⟨[⟨1, "Zone", "Z1", "E", "Daily", "C"⟩],
      [⟨1, 2017, 1, 1, 1440, 2, 1⟩, ⟨2, 2017, 1, 2, 1440, 2, 1⟩, ⟨3, 2017, 1, 31, 44640, 3, 1⟩,
       ⟨4, 2017, 7, 1, 1440, 2, 2⟩, ⟨5, 2017, 7, 31, 44640, 3, 2⟩],
      [⟨1, 1, 5⟩, ⟨2, 1, 6⟩, ⟨4, 1, 7⟩]⟩
    (match queryAll (· / 3600000) db (.single "E") with
     | .ok (.colls cs) => cs.map fun c => ([c.period.stMonth, c.period.stDay, c.period.endMonth, c.period.endDay],
         c.values, c.datetimes)
     | _ => []) = [([1, 1, 1, 2], [5, 6], [1, 2]), ([7, 1, 7, 1], [7], [182])] := by decide +kernel

/-- The rows `_extract_all_run_period` scans are those of the data's own interval type: a monthly row
    (type 3) is never used for daily (type 2) or (sub-)hourly (types ≤ 1) data, and vice versa. -/
theorem C19_own_interval_type (freq : Freq) (r : TimeRow) (hf : freq ≠ .annual) :
    ownIntervalType freq r = true ↔
      ((∃ n, freq = .steps n) ∧ r.itype ≤ 1) ∨ (freq = .daily ∧ r.itype = 2) ∨ (freq = .monthly ∧ r.itype = 3) := by
  cases freq with
  | steps n => simp [ownIntervalType]
  | daily => simp [ownIntervalType]
  | monthly => simp [ownIntervalType]
  | annual => exact absurd rfl hf

/-- A `Time` table that is, environment after environment, the rows of *all* reporting frequencies
    (`tbAll`): the rows `_extract_all_run_period` scans are, environment after environment, the rows of the
    data's own interval type.  (This is how the time-table hypothesis `htime` of `C19_end_to_end` is met by
    a mixed-frequency file: `tb := tbAll.map (·.filter (ownIntervalType freq))`.) -/
theorem C19_mixed_table_blocks (time : List TimeRow) (tbAll : List (List TimeRow)) (freq : Freq)
    (h : time = tbAll.flatten) :
    time.filter (ownIntervalType freq) = (tbAll.map (·.filter (ownIntervalType freq))).flatten := by
  rw [h, List.filter_flatten]

/-! ### End to end: a structured EnergyPlus database through the whole query

  `EPlusData db q blocks v`: the `ReportData` rows of the keys the query selects are, in rowid order,
  the stream EnergyPlus writes – time-major over the time indices `blocks[0] ++ blocks[1] ++ …` (one
  block per run period, indices non-decreasing), and inside one time index one row per selected key in
  dictionary-index order; `v t d` is the value of key `d` at time index `t`.  (`headerRows` already
  keeps only the dictionary rows of the first reporting frequency of the requested name(s).) -/

structure EPlusData (db : DB α) (q : NameQuery) (blocks : List (List Nat)) (v : Nat → Nat → α) : Prop where
  hdr_ne : headerRows db.dict q ≠ []
  rows : db.data.filter (fun r => ((headerRows db.dict q).map (·.idx)).contains r.dict) =
    epRows blocks.flatten ((headerRows db.dict q).map (·.idx)) v
  sorted : blocks.flatten.Pairwise (· ≤ ·)
  blocks_ne : blocks ≠ []
  block_ne : ∀ b ∈ blocks, b ≠ []

/-- Data stage: `ORDER BY TimeIndex` returns the EnergyPlus stream itself. -/
theorem C19_select_structured (db : DB α) (q : NameQuery) (blocks : List (List Nat)) (v : Nat → Nat → α)
    (h : EPlusData db q blocks v) :
    selectData db.data ((headerRows db.dict q).map (·.idx)) =
      epRows blocks.flatten ((headerRows db.dict q).map (·.idx)) v := by
  unfold selectData
  rw [h.rows]
  exact sortByTime_sorted _ (epRows_sorted _ _ _ h.sorted)

/-- **Several run periods.**  For a structured database with `n` keys and `m` run periods (time indices
    `blocks[j]`), whose `Time` rows *of the data's own interval type* (`ownIntervalType`: the table may
    mix timestep, hourly, daily, monthly and run-period rows) are the concatenation `tb` of the
    environments' rows, `queryAll`
    returns exactly, period after period and key after key (dictionary order), the collection that holds
    that key's values of that period in time order – converted iff the key's own unit is `J`/`kWh` –
    labelled with the key, with the key's own data type and unit, under the analysis period `ps[j]` of the
    environment, in the class of the frequency.
    Hypotheses on the time table: the first/last rows of the data give `(p0, freq)` with different
    environments (`C19_period_from_time_table`), `ps` are the periods of the environments' first/last
    rows (`blockPeriods`, equal to `_extract_run_period` per environment by
    `C19_all_run_periods_eq_extract`), and every period fits the number of its time steps (`okPeriod`:
    what EnergyPlus guarantees, cf. `C19_period_len`). -/
theorem C19_end_to_end (conv : α → α) (db : DB α) (q : NameQuery) (blocks : List (List Nat))
    (v : Nat → Nat → α) (tb : List (List TimeRow)) (t0 t1 : Nat) (p0 : Period) (freq : Freq) (ps : List Period)
    (hD : EPlusData db q blocks v)
    (h0 : blocks.flatten.head? = some t0) (h1 : blocks.flatten.getLast? = some t1)
    (hrp : extractRunPeriod db.time t0 t1 = .ok (some p0, freq, true)) (hfr : freq ≠ .annual)
    (htime : db.time.filter (ownIntervalType freq) = tb.flatten) (htb : blockedFrom none tb) (htbne : tb ≠ [])
    (hts : p0.timestep ≠ 0)
    (hps : blockPeriods (freq == .monthly) p0.timestep p0.leap tb = .ok ps)
    (hlen : ps.length = blocks.length)
    (hok : ∀ pb ∈ ps.zip blocks, okPeriod freq pb.1 pb.2.length) :
    queryAll conv db q = .ok (.colls ((ps.zip blocks).flatMap fun pb =>
      (headerRows db.dict q).map (expectedColl conv q.surface freq pb.1 pb.2 v))) := by
  have hsel := C19_select_structured db q blocks v hD
  have hidx : (headerRows db.dict q).map (·.idx) ≠ [] := by simpa using hD.hdr_ne
  have hspan := timeSpan_epRows blocks.flatten _ v t0 t1 hidx h0 h1
  have hper : periodsOf db.time t0 t1 = .ok (freq, .inl ps) := by
    simp only [periodsOf, hrp, bind, Except.bind]
    rw [htime, allRunPeriods_blocks _ _ _ tb htbne hts htb, hps]
    rfl
  have hasm := assemble_periods conv (headerRows db.dict q) q.surface freq ps blocks v hD.hdr_ne hfr hlen
    hD.blocks_ne hD.block_ne hok
  unfold queryAll
  obtain ⟨r0, rs, hhd⟩ := List.exists_cons_of_ne_nil hD.hdr_ne
  rw [hhd] at hsel hspan hasm ⊢
  simp only [hsel, hspan, hper, bind, Except.bind, hasm]

/-- **One run period.**  The same for a database whose data lies in one environment: one collection per
    key, in dictionary order, under the period the first/last `Time` rows give. -/
theorem C19_end_to_end_single (conv : α → α) (db : DB α) (q : NameQuery) (ts : List Nat)
    (v : Nat → Nat → α) (t0 t1 : Nat) (p : Period) (freq : Freq)
    (hD : EPlusData db q [ts] v)
    (h0 : ts.head? = some t0) (h1 : ts.getLast? = some t1)
    (hrp : extractRunPeriod db.time t0 t1 = .ok (some p, freq, false)) (hfr : freq ≠ .annual)
    (hok : okPeriod freq p ts.length) :
    queryAll conv db q = .ok (.colls ((headerRows db.dict q).map (expectedColl conv q.surface freq p ts v))) := by
  have hsel := C19_select_structured db q [ts] v hD
  simp only [List.flatten_cons, List.flatten_nil, List.append_nil] at hsel
  have hidx : (headerRows db.dict q).map (·.idx) ≠ [] := by simpa using hD.hdr_ne
  have hts : ts ≠ [] := hD.block_ne ts (by simp)
  have hspan := timeSpan_epRows ts _ v t0 t1 hidx h0 h1
  have hper : periodsOf db.time t0 t1 = .ok (freq, .inr (some p)) := by
    simp only [periodsOf, hrp, bind, Except.bind]
    rfl
  have hasm := assemble_single conv (headerRows db.dict q) q.surface freq p ts v hD.hdr_ne hfr hts hok
  unfold queryAll
  obtain ⟨r0, rs, hhd⟩ := List.exists_cons_of_ne_nil hD.hdr_ne
  rw [hhd] at hsel hspan hasm ⊢
  simp only [hsel, hspan, hper, bind, Except.bind, hasm]

/-- **Annual / run-period frequency, any number of environments.**  One value per time index (EnergyPlus
    writes one per run period) and key, in time order then dictionary order, converted iff the key's own
    unit is `J`/`kWh`. -/
theorem C19_annual_all_environments (conv : α → α) (db : DB α) (q : NameQuery) (blocks : List (List Nat))
    (v : Nat → Nat → α) (t0 t1 : Nat) (mult : Bool)
    (hD : EPlusData db q blocks v)
    (h0 : blocks.flatten.head? = some t0) (h1 : blocks.flatten.getLast? = some t1)
    (hrp : extractRunPeriod db.time t0 t1 = .ok (none, .annual, mult)) :
    queryAll conv db q = .ok (.annual (blocks.flatten.flatMap fun t =>
      (headerRows db.dict q).map fun r => keyValue conv v r t)) := by
  have hsel := C19_select_structured db q blocks v hD
  have hidx : (headerRows db.dict q).map (·.idx) ≠ [] := by simpa using hD.hdr_ne
  have hspan := timeSpan_epRows blocks.flatten _ v t0 t1 hidx h0 h1
  have hflat : blocks.flatten ≠ [] := by
    intro e; rw [e] at h0; simp at h0
  have hper : periodsOf db.time t0 t1 = .ok (.annual, .inr none) := by
    simp only [periodsOf, hrp, bind, Except.bind]
    cases mult <;> rfl
  have hasm := assemble_annual conv (headerRows db.dict q) q.surface none blocks.flatten v hD.hdr_ne hflat
  unfold queryAll
  obtain ⟨r0, rs, hhd⟩ := List.exists_cons_of_ne_nil hD.hdr_ne
  rw [hhd] at hsel hspan hasm ⊢
  simp only [hsel, hspan, hper, bind, Except.bind, hasm]

/-- **The run-period query.**  For the environment `env` whose rows of the output's keys are the
    EnergyPlus stream over the time indices `ts` (all keys of the one output name carrying the same unit),
    `queryRunPeriod` returns one collection per key: that key's values in time order (converted iff the
    unit is `J`/`kWh`), labelled with the key, under the period of the first/last `Time` rows. -/
theorem C19_end_to_end_run_period (conv : α → α) (db : DB α) (name : String) (env : Nat) (ts : List Nat)
    (v : Nat → Nat → α) (t0 t1 : Nat) (p : Period) (freq : Freq) (m : Bool)
    (hne : headerRows db.dict (.single name) ≠ [])
    (hrows : selectDataEnv db ((headerRows db.dict (.single name)).map (·.idx)) env =
      epRows ts ((headerRows db.dict (.single name)).map (·.idx)) v)
    (h0 : ts.head? = some t0) (h1 : ts.getLast? = some t1)
    (hrp : extractRunPeriod db.time t0 t1 = .ok (some p, freq, m)) (hfr : freq ≠ .annual)
    (hok : okPeriod freq p ts.length)
    (hu : ∀ r ∈ headerRows db.dict (.single name), ∀ r' ∈ headerRows db.dict (.single name),
      typeUnitOf r = typeUnitOf r') :
    queryRunPeriod conv db name env = .ok (.colls ((headerRows db.dict (.single name)).map
      (expectedColl conv (hasSurface name) freq p ts v))) := by
  have hidx : (headerRows db.dict (.single name)).map (·.idx) ≠ [] := by simpa using hne
  have hts : ts ≠ [] := by intro e; rw [e] at h0; simp at h0
  have hspan := timeSpan_epRows ts _ v t0 t1 hidx h0 h1
  unfold queryRunPeriod
  obtain ⟨r0, rs, hhd⟩ := List.exists_cons_of_ne_nil hne
  have hasm := assembleRP_single conv (headerRows db.dict (.single name)) r0 (hasSurface name) freq p ts v hne hfr
    hts hok (fun r hr => hu r hr r0 (by rw [hhd]; simp))
  rw [hhd] at hrows hspan hasm
  simp only [hhd, hrows, hspan, hrp, bind, Except.bind, NameQuery.surface, hasm]

/-- **One run period = the slice of all, at collection level.**  The `j`-th group of `n` collections of the
    `queryAll` result (`C19_end_to_end`) is the list `queryRunPeriod` returns (`C19_end_to_end_run_period`)
    for the environment with time indices `blocks[j]` and period `ps[j]`. -/
theorem C19_one_vs_all_collections (conv : α → α) (surface : Bool) (freq : Freq) (hdr : List DictRow)
    (ps : List Period) (blocks : List (List Nat)) (v : Nat → Nat → α) (hlen : ps.length = blocks.length)
    (j : Nat) (hj : j < blocks.length) :
    (((ps.zip blocks).flatMap fun pb => hdr.map (expectedColl conv surface freq pb.1 pb.2 v)).drop
        (j * hdr.length)).take hdr.length =
      hdr.map (expectedColl conv surface freq (ps[j]'(by omega)) (blocks[j]) v) := by
  rw [List.flatMap_def]
  have hrect : ∀ r ∈ (ps.zip blocks).map (fun pb => hdr.map (expectedColl conv surface freq pb.1 pb.2 v)),
      r.length = hdr.length := by
    intro r hr
    simp only [List.mem_map] at hr
    obtain ⟨pb, _, rfl⟩ := hr
    simp
  have hjz : j < ((ps.zip blocks).map fun pb => hdr.map (expectedColl conv surface freq pb.1 pb.2 v)).length := by
    simp [List.length_zip]; omega
  rw [flatten_drop_take hdr.length _ hrect j hjz]
  simp [List.getElem_map, List.getElem_zip]

/-! ### Frequency → collection class and timestep -/

/-- What the first `Time` row of the data says, over the whole frequency enumeration: interval types
    ≤ 1 give `steps (60 / Interval)` with that timestep (1 ≤ Interval ≤ 60), type 2 daily, type 3 monthly,
    types 4 and 5 annual, all three with timestep 1; in every case the period ends at hour 23. -/
theorem C19_timestep_by_frequency (s : TimeRow) (freq : Freq) (ts mps : Nat)
    (h : freqOf s = .ok (freq, ts, mps)) :
    ((s.itype ≤ 1 ∧ freq = .steps (60 / s.interval) ∧ ts = 60 / s.interval ∧ 1 ≤ s.interval ∧ s.interval ≤ 60) ∨
     (s.itype = 2 ∧ freq = .daily ∧ ts = 1) ∨ (s.itype = 3 ∧ freq = .monthly ∧ ts = 1) ∨
     ((s.itype = 4 ∨ s.itype = 5) ∧ freq = .annual ∧ ts = 1)) ∧
    endHourOf mps = 23 ∧ endHourOf (60 / ts) = 23 := by
  unfold freqOf at h
  split at h
  · rename_i h1
    split at h
    · simp at h
    · split at h
      · simp at h
      · rename_i a b
        simp only [Except.ok.injEq, Prod.mk.injEq] at h
        obtain ⟨rfl, rfl, rfl⟩ := h
        have hk1 : 0 < 60 / s.interval := Nat.div_pos (by omega) (by omega)
        have hk2 : 60 / s.interval ≤ 60 := Nat.div_le_self _ _
        have hm1 : 0 < 60 / (60 / s.interval) := Nat.div_pos hk2 hk1
        have hm2 : 60 / (60 / s.interval) ≤ 60 := Nat.div_le_self _ _
        refine ⟨Or.inl ⟨h1, rfl, rfl, by omega, by omega⟩, ?_, ?_⟩ <;> unfold endHourOf <;> omega
  · split at h
    · rename_i h2
      simp only [Except.ok.injEq, Prod.mk.injEq] at h
      obtain ⟨rfl, rfl, rfl⟩ := h
      exact ⟨Or.inr (Or.inl ⟨h2, rfl, rfl⟩), by decide, by decide⟩
    · split at h
      · rename_i h3
        simp only [Except.ok.injEq, Prod.mk.injEq] at h
        obtain ⟨rfl, rfl, rfl⟩ := h
        exact ⟨Or.inr (Or.inr (Or.inl ⟨h3, rfl, rfl⟩)), by decide, by decide⟩
      · split at h
        · rename_i h4
          simp only [Except.ok.injEq, Prod.mk.injEq] at h
          obtain ⟨rfl, rfl, rfl⟩ := h
          exact ⟨Or.inr (Or.inr (Or.inr ⟨h4, rfl, rfl⟩)), by decide, by decide⟩
        · simp at h

theorem buildOne_inv (freq : Freq) (h : Hdr) (v : List α) (c : Coll α) (hc : buildOne freq h v = .ok c) :
    c.kind = kindOf freq ∧ c.period = h.period ∧ c.values = v ∧ c.dtype = h.dtype ∧ c.unit = h.unit ∧
      c.datetimes = datetimesOf freq h.period ∧ okPeriod freq h.period v.length := by
  cases freq with
  | steps n =>
    simp only [buildOne] at hc
    split at hc
    · simp at hc
    · split at hc
      · simp at hc
      · rename_i a b
        simp only [Except.ok.injEq] at hc
        subst hc
        refine ⟨rfl, rfl, rfl, rfl, rfl, rfl, ?_⟩
        simp only [okPeriod]
        omega
  | daily =>
    simp only [buildOne] at hc
    split at hc
    · simp at hc
    · rename_i a
      simp only [Except.ok.injEq] at hc
      subst hc
      refine ⟨rfl, rfl, rfl, rfl, rfl, rfl, ?_⟩
      simp only [okPeriod]
      omega
  | monthly =>
    simp only [buildOne] at hc
    split at hc
    · simp at hc
    · rename_i a
      simp only [Except.ok.injEq] at hc
      subst hc
      refine ⟨rfl, rfl, rfl, rfl, rfl, rfl, ?_⟩
      simp only [okPeriod]
      omega
  | annual => simp [buildOne] at hc

/-- Over the frequency enumeration: every collection `buildColls` returns has the class of the frequency
    (`steps` → hourly continuous, daily → daily, monthly → monthly), carries the datetimes of that class
    (none / days of the year / months of its period) and satisfies the class's constructor checks
    (start hour 0, end hour 23 and `len(values) = len(period)` for continuous data; one value per day /
    month, at least one, otherwise); annual data never becomes a collection. -/
theorem C19_class_by_frequency (freq : Freq) (headers : List Hdr) (vals : List (List α)) (cs : List (Coll α))
    (h : buildColls freq headers vals = .ok cs) :
    ∀ c ∈ cs, c.kind = kindOf freq ∧ c.datetimes = datetimesOf freq c.period ∧
      okPeriod freq c.period c.values.length := by
  intro c hc
  obtain ⟨hv, _, hb⟩ := mapM_mem _ _ _ h c hc
  obtain ⟨h1, h2, h3, _, _, h6, h7⟩ := buildOne_inv freq hv.1 hv.2 c hb
  rw [h2, h3]
  exact ⟨h1, h6, h7⟩

/-! ### `_extract_all_run_period` -/

/-- Over a `Time` table that is the concatenation `tb` of the environments' rows (every block non-empty,
    one environment index per block, neighbouring blocks with different indices) – whatever the interval
    types of the rows – `_extract_all_run_period` returns one run period per environment, built from the
    environment's first and last row with the given timestep and leap flag. -/
theorem C19_all_run_periods (monthly : Bool) (ts : Nat) (leap : Bool) (tb : List (List TimeRow))
    (hne : tb ≠ []) (hts : ts ≠ 0) (h : blockedFrom none tb) :
    allRunPeriods tb.flatten monthly ts leap = blockPeriods monthly ts leap tb :=
  allRunPeriods_blocks monthly ts leap tb hne hts h

/-- … and that period is the one `_extract_run_period` gives for the environment's first and last row,
    **provided** the first row `f` has the interval type and interval of the data (`freqOf f` = the
    frequency/timestep used, not annual) and the leap flag used is the one of the last row's year.
    This is the hypothesis “the Time rows of one interval type are used”: in a table that mixes interval
    types the last row of an environment can be a monthly row (last day of the month) while the data is
    hourly, and the two differ (`C19_mixed_time_table_counterexample`). -/
theorem C19_all_run_periods_eq_extract (f l : TimeRow) (freq : Freq) (ts mps : Nat)
    (hf : freqOf f = .ok (freq, ts, mps)) (hfr : freq ≠ .annual) :
    extractRunPeriodRows (some f) (some l) =
      (periodOfRows (freq == .monthly) ts (leapOfYear l.year) f l).map
        fun p => (some p, freq, f.env != l.env) := by
  have hend := (C19_timestep_by_frequency f freq ts mps hf).2
  exact extractRunPeriodRows_eq f l freq ts mps hf hfr (by rw [hend.1, hend.2])

/-! ### Non-vacuity of the end-to-end theorems -/

/-- Non-vacuity of the end-to-end theorems: a daily database with two keys (J and C), two run periods
    (1–2 Jan, 1 Jul), rows in EnergyPlus order. -/
def exDB : DB Nat :=
  ⟨[⟨7, "Zone", "Z1", "E", "Daily", "J"⟩, ⟨9, "Zone", "Z2", "E", "Daily", "C"⟩, ⟨8, "Zone", "Z1", "X", "Daily", "W"⟩],
   [⟨1, 2017, 1, 1, 1440, 2, 1⟩, ⟨2, 2017, 1, 2, 1440, 2, 1⟩, ⟨3, 2017, 7, 1, 1440, 2, 2⟩],
   [⟨1, 7, 107⟩, ⟨1, 8, 108⟩, ⟨1, 9, 109⟩, ⟨2, 7, 207⟩, ⟨2, 8, 208⟩, ⟨2, 9, 209⟩, ⟨3, 7, 307⟩, ⟨3, 8, 308⟩, ⟨3, 9, 309⟩]⟩

def exV (t d : Nat) : Nat := 100 * t + d

theorem exData : EPlusData exDB (.single "E") [[1, 2], [3]] exV where
  hdr_ne := by decide +kernel
  rows := by rfl
  sorted := by decide
  blocks_ne := by decide
  block_ne := by decide

example : queryAll (· / 2) exDB (.single "E") = .ok (.colls
    ((([⟨1, 1, 0, 1, 2, 23, 1, false⟩, ⟨7, 1, 0, 7, 1, 23, 1, false⟩] : List Period).zip [[1, 2], [3]]).flatMap
      fun pb => (headerRows exDB.dict (.single "E")).map
        (expectedColl (· / 2) (NameQuery.single "E").surface .daily pb.1 pb.2 exV))) := C19_end_to_end (· / 2) exDB (.single "E") [[1, 2], [3]] exV
    [[⟨1, 2017, 1, 1, 1440, 2, 1⟩, ⟨2, 2017, 1, 2, 1440, 2, 1⟩], [⟨3, 2017, 7, 1, 1440, 2, 2⟩]] 1 3
    ⟨1, 1, 0, 7, 1, 23, 1, false⟩ .daily [⟨1, 1, 0, 1, 2, 23, 1, false⟩, ⟨7, 1, 0, 7, 1, 23, 1, false⟩]
    exData (by decide) (by decide) (by decide +kernel) (by decide) (by rfl)
    ⟨_, _, rfl, by decide, by simp, ⟨_, _, rfl, by decide, by decide, trivial⟩⟩ (by decide) (by decide)
    (by decide +kernel) (by decide) (by
      intro pb hpb
      simp only [List.zip_cons_cons, List.zip_nil_right, List.mem_cons, List.not_mem_nil, or_false] at hpb
      rcases hpb with rfl | rfl <;> simp only [okPeriod] <;> decide)

/-- The same instance evaluated by the kernel: the J key is converted (here: halved), the C key is not. -/
example : (match queryAll (· / 2) exDB (.single "E") with
    | .ok (.colls cs) => cs.map fun c => (c.key, c.unit, c.period.stMonth, c.values, c.datetimes)
    | _ => []) =
    [("Z1", "kWh", 1, [53, 103], [1, 2]), ("Z2", "C", 1, [109, 209], [1, 2]),
     ("Z1", "kWh", 7, [153], [182]), ("Z2", "C", 7, [309], [182])] := by decide +kernel


/-! ### Request histories on one `SQLiteResult` (object state machine of Model/SqlObj.lean)

  The object has no setters; its state are the lazily filled slots behind `available_outputs`,
  `available_outputs_info`, `reporting_frequency`, `run_period_indices`.  The public state a user
  establishes is the file alone, so the specification is: no history of requests – successful or
  refused – is visible in any later answer. -/

/-- **Histories refine fresh objects.**  After any history of requests on one object (queries of all
    three kinds, property reads, refused requests, in any order and repetition), every request is
    answered exactly as by a fresh `SQLiteResult` of the same file. -/
theorem C19_history_refines_fresh (conv : α → α) (db : DB α) (ops : List Op) (op : Op) :
    (step conv (after conv (Obj.fresh db) ops) op).2 = (step conv (Obj.fresh db) op).2 := by
  obtain ⟨hi, hdb⟩ := after_inv conv (Obj.fresh db) ops (inv_fresh db)
  rw [step_obs conv _ op hi, hdb]
  rfl

/-- The same for all the observations made *during* a history: the `i`-th answer is the answer of a
    fresh object to the `i`-th request. -/
theorem C19_history_observations (conv : α → α) (db : DB α) (ops : List Op) :
    (run conv (Obj.fresh db) ops).2 = ops.map fun op => (step conv (Obj.fresh db) op).2 :=
  run_obs conv (Obj.fresh db) ops (inv_fresh db)

/-- Any request – whatever it returns – leaves every later observation as it was. -/
theorem C19_request_preserves_observations (conv : α → α) (db : DB α) (ops : List Op) (req op : Op) :
    (step conv (step conv (after conv (Obj.fresh db) ops) req).1 op).2 =
      (step conv (after conv (Obj.fresh db) ops) op).2 := by
  obtain ⟨hi, hdb⟩ := after_inv conv (Obj.fresh db) ops (inv_fresh db)
  rw [step_obs conv _ op (step_inv conv _ req hi), step_db, step_obs conv _ op hi]

/-- **Refused requests preserve.**  A request that raises (absent run period, malformed argument,
    broken statement, failing timestep lookup …) leaves every observation unchanged; a refused query or
    malformed request leaves the object itself untouched. -/
theorem C19_refused_preserves (conv : α → α) (db : DB α) (ops : List Op) (req : Op) (e : Err)
    (_hr : (step conv (after conv (Obj.fresh db) ops) req).2 = .error e) :
    (∀ op, (step conv (step conv (after conv (Obj.fresh db) ops) req).1 op).2 =
      (step conv (after conv (Obj.fresh db) ops) op).2) ∧
    (∀ (o : Obj α) q name env, (step conv o (.queryAll q)).1 = o ∧ (step conv o (.queryRunPeriod name env)).1 = o ∧
      (step conv o (.values q)).1 = o ∧ (step conv o .malformed).1 = o) :=
  ⟨fun op => C19_request_preserves_observations conv db ops req op, fun _ _ _ _ => ⟨rfl, rfl, rfl, rfl⟩⟩

/-- **Reads are pure.**  Asking the same thing twice in a row gives the same answer, and two requests
    asked in either order give the same two answers. -/
theorem C19_read_pure (conv : α → α) (db : DB α) (ops : List Op) (a b : Op) :
    (step conv (step conv (after conv (Obj.fresh db) ops) a).1 a).2 =
        (step conv (after conv (Obj.fresh db) ops) a).2 ∧
    (step conv (step conv (after conv (Obj.fresh db) ops) a).1 b).2 =
        (step conv (after conv (Obj.fresh db) ops) b).2 ∧
    (step conv (step conv (after conv (Obj.fresh db) ops) b).1 a).2 =
        (step conv (after conv (Obj.fresh db) ops) a).2 :=
  ⟨C19_request_preserves_observations conv db ops a a, C19_request_preserves_observations conv db ops a b,
   C19_request_preserves_observations conv db ops b a⟩

/-- Non-vacuity (kernel-evaluated): on the example database a history of property reads, a query and
    refused requests leaves the slots filled (with what a fresh object computes), and a later query and a
    later read answer as the fresh object does. -/
example : (after (· / 2) (Obj.fresh exDB) [.availableOutputs, .malformed, .runPeriodIndices]).ao =
      some ["E", "E", "X"] ∧
    (after (· / 2) (Obj.fresh exDB) [.availableOutputs, .malformed, .runPeriodIndices]).ri = some [1, 2] := by
  decide +kernel

example : (match (step (· / 2) (after (· / 2) (Obj.fresh exDB)
      [.runPeriodIndices, .queryRunPeriod "E" 9, .availableOutputsInfo]) (.queryRunPeriod "E" 2)).2 with
    | .result (.colls cs) => cs.map fun c => (c.key, c.values)
    | _ => []) = [("Z1", [153]), ("Z2", [154])] := by decide +kernel

/-- The refused request of the history above really is refused (run period 9 does not exist). -/
example : (match (step (· / 2) (Obj.fresh exDB) (.queryRunPeriod "E" 9)).2 with
    | .error e => some e
    | _ => none) = some .index := by decide +kernel

/-- Test (compiled evaluation, `String` functions do not reduce in the kernel): the frequency read after
    a history that already read and converted it. -/
def exFreq (ops : List Op) : Option RFreq :=
  match (step (· / 2) (after (· / 2) (Obj.fresh exDB) ops) .reportingFrequency).2 with
  | .freq f => f
  | _ => none

#guard exFreq [] = some (.label "Daily")
#guard exFreq [.availableOutputs, .queryAll (.single "E"), .malformed, .reportingFrequency] = some (.label "Daily")

/-! ### What the property reads return (`available_outputs`, `reporting_frequency`, `run_period_indices`)
    and the flat value list -/

/-- `values_by_output_name` on a structured database: all values of the output's keys, time index by
    time index, inside one time index in dictionary order, unconverted. -/
theorem C19_values_structured (db : DB α) (q : NameQuery) (blocks : List (List Nat)) (v : Nat → Nat → α)
    (h : EPlusData db q blocks v) :
    valuesByName db q =
      (blocks.flatten.map fun t => ((headerRows db.dict q).map (·.idx)).map (v t)).flatten := by
  unfold valuesByName
  rw [C19_select_structured db q blocks v h, epRows_values]

/-- `available_outputs` lists exactly the output names of the dictionary. -/
theorem C19_available_outputs (dict : List DictRow) (n : String) :
    n ∈ outputNames dict ↔ ∃ r ∈ dict, r.name = n := by
  unfold outputNames
  rw [List.mem_map]
  constructor
  · rintro ⟨t, ht, rfl⟩
    obtain ⟨r, hr, rfl⟩ := (mem_outputTuples dict t).mp ht
    exact ⟨r, hr, rfl⟩
  · rintro ⟨r, hr, rfl⟩
    exact ⟨_, (mem_outputTuples dict _).mpr ⟨r, hr, rfl⟩, rfl⟩

/-- `available_outputs_info` lists exactly, for the dictionary rows, name, object type, and the unit and
    data type the collections of that row get (`typeUnitOf`: `J` becomes `Energy`/`kWh`). -/
theorem C19_available_outputs_info (dict : List DictRow) (i : OutInfo) :
    i ∈ outputInfos dict ↔ ∃ r ∈ dict, i = ⟨r.name, r.group, (typeUnitOf r).2, (typeUnitOf r).1⟩ := by
  unfold outputInfos
  rw [List.mem_map]
  constructor
  · rintro ⟨t, ht, rfl⟩
    obtain ⟨r, hr, rfl⟩ := (mem_outputTuples dict t).mp ht
    exact ⟨r, hr, rfl⟩
  · rintro ⟨r, hr, rfl⟩
    exact ⟨_, (mem_outputTuples dict _).mpr ⟨r, hr, rfl⟩, rfl⟩

/-- An output reported in `J` is announced as `Energy` in `kWh` – the unit its collections carry. -/
theorem C19_available_outputs_info_energy (dict : List DictRow) (r : DictRow) (hr : r ∈ dict)
    (hu : r.units = "J") : (⟨r.name, r.group, "kWh", .base "Energy"⟩ : OutInfo) ∈ outputInfos dict := by
  rw [C19_available_outputs_info]
  refine ⟨r, hr, ?_⟩
  rw [(C19_flag_by_own_unit r).1 hu]

/-- `run_period_indices`: exactly the environment indices of the `Time` table, each once, ascending. -/
theorem C19_run_period_indices (time : List TimeRow) :
    (∀ e, e ∈ runPeriodIndices time ↔ ∃ r ∈ time, r.env = e) ∧ (runPeriodIndices time).Pairwise (· < ·) :=
  ⟨mem_runPeriodIndices time, runPeriodIndices_sorted time⟩

/-- `reporting_frequency` of a file whose outputs all carry one frequency label `f`: that label, or –
    when the label says `Timestep` – the steps per hour `60 / Interval` of the first `Time` row.  On any
    object, after any history (`C19_history_refines_fresh`). -/
theorem C19_reporting_frequency (conv : α → α) (db : DB α) (ops : List Op) (f : String) (hne : db.dict ≠ [])
    (h : ∀ r ∈ db.dict, r.freq = f) :
    (step conv (after conv (Obj.fresh db) ops) .reportingFrequency).2 =
      if hasTimestep f then
        match extractTimestep db.time with
        | .ok n => .freq (some (.steps n))
        | .error e => .error e
      else .freq (some (.label f)) := by
  rw [C19_history_refines_fresh, fresh_reportingFrequency]
  simp only [freshFreq, lastLabel_uniform db.dict f hne h]
  cases hasTimestep f with
  | true => cases extractTimestep db.time <;> rfl
  | false => rfl

example : extractTimestep [⟨1, 2017, 1, 1, 10, -1, 1⟩, ⟨2, 2017, 1, 1, 60, 1, 1⟩] = .ok 6 := by decide


/-! ### Round 4: the leap flag of design days (Year 0), the shape of the name argument, the case split
    of the time-table stage -/

/-- The leap-year rule of `_extract_run_period` as a case split: a year is taken as a leap year exactly
    when it is not 0 and divisible by 4.  Year 0 - what EnergyPlus writes for design days - is never one. -/
theorem C19_leap_rule (y : Nat) : (leapOfYear y = true ↔ (y ≠ 0 ∧ y % 4 = 0)) ∧ leapOfYear 0 = false := by
  refine ⟨?_, rfl⟩
  unfold leapOfYear
  simp only [Bool.and_eq_true, bne_iff_ne, ne_eq, beq_iff_eq]

/-- Whatever the first and last `Time` rows are: when `_extract_run_period` answers with an analysis
    period, its leap flag is the rule applied to the year of the LAST row (no hypothesis on dates,
    interval or interval type). -/
theorem C19_leap_flag_from_last_row (s e : TimeRow) (p : Period) (f : Freq) (m : Bool)
    (h : extractRunPeriodRows (some s) (some e) = .ok (some p, f, m)) : p.leap = leapOfYear e.year :=
  extractRunPeriodRows_leap s e p f m h

/-- Design days: data whose last `Time` row carries Year 0 never gets a leap-year analysis period -
    hourly, sub-hourly, daily or monthly, any dates. -/
theorem C19_year0_common_year (s e : TimeRow) (p : Period) (f : Freq) (m : Bool) (h0 : e.year = 0)
    (h : extractRunPeriodRows (some s) (some e) = .ok (some p, f, m)) : p.leap = false := by
  rw [extractRunPeriodRows_leap s e p f m h, h0]
  rfl

/-- Sample (kernel-evaluated test): a summer design day, 4 steps per hour, Year 0. -/
example : extractRunPeriodRows (some ⟨1, 0, 7, 21, 15, -1, 1⟩) (some ⟨96, 0, 7, 21, 15, -1, 1⟩) =
    .ok (some ⟨7, 21, 0, 7, 21, 23, 4, false⟩, .steps 4, false) := by decide +kernel

/-- All run periods rebuilt by `_extract_all_run_period` carry the one leap flag the caller passed
    (the flag of the last data row): the periods of one answer never disagree about the year kind. -/
theorem C19_all_run_periods_one_leap_flag (time : List TimeRow) (monthly : Bool) (ts : Nat) (leap : Bool)
    (ps : List Period) (h : allRunPeriods time monthly ts leap = .ok ps) : ∀ p ∈ ps, p.leap = leap :=
  allRunPeriods_leap time monthly ts leap ps h

/-- Case split of the time-table stage of `data_collections_by_output_name`, branch 1: first and last
    data row in the same environment - the single run period (or none, for annual data) is used. -/
theorem C19_periods_branch_single (time : List TimeRow) (stT enT : Nat) (rp : Option Period) (freq : Freq)
    (h : extractRunPeriod time stT enT = .ok (rp, freq, false)) :
    periodsOf time stT enT = .ok (freq, .inr rp) := by
  unfold periodsOf
  simp only [h, bind, Except.bind, pure, Except.pure]

/-- Branch 2: annual / run-period frequency (no analysis period) - nothing is rebuilt, also with
    several environments. -/
theorem C19_periods_branch_annual (time : List TimeRow) (stT enT : Nat) (freq : Freq) (m : Bool)
    (h : extractRunPeriod time stT enT = .ok (none, freq, m)) :
    periodsOf time stT enT = .ok (freq, .inr none) := by
  unfold periodsOf
  cases m <;> simp only [h, bind, Except.bind, pure, Except.pure]

/-- Branch 3: several environments - all run periods are rebuilt from the `Time` rows of the data's own
    interval type, with timestep and leap flag of the period found first. -/
theorem C19_periods_branch_all (time : List TimeRow) (stT enT : Nat) (p : Period) (freq : Freq)
    (h : extractRunPeriod time stT enT = .ok (some p, freq, true)) :
    periodsOf time stT enT =
      match allRunPeriods (time.filter (ownIntervalType freq)) (freq == .monthly) p.timestep p.leap with
      | .ok ps => .ok (freq, .inl ps)
      | .error e => .error e := by
  unfold periodsOf
  simp only [h, bind, Except.bind, pure, Except.pure]
  cases allRunPeriods (time.filter (ownIntervalType freq)) (freq == .monthly) p.timestep p.leap <;> rfl

/-- The name argument is a membership test: two name lists (neither of length 1) with the same members -
    another order, duplicates, any container the caller used - select the same dictionary rows and give
    the same collections and the same flat values.  (The model takes lists; the check feeds the code
    tuples, lists and another sequence type and compares all with this one model answer.) -/
theorem C19_name_list_is_a_set (conv : α → α) (db : DB α) (ns ns' : List String)
    (h : ∀ n, n ∈ ns ↔ n ∈ ns') (hl : ns.length ≠ 1) (hl' : ns'.length ≠ 1) :
    headerRows db.dict (.many ns) = headerRows db.dict (.many ns') ∧
    queryAll conv db (.many ns) = queryAll conv db (.many ns') ∧
    valuesByName db (.many ns) = valuesByName db (.many ns') := by
  have hh : headerRows db.dict (.many ns) = headerRows db.dict (.many ns') := by
    unfold headerRows
    rw [selects_many_congr ns ns' h hl hl']
  have hs : (NameQuery.many ns).surface = (NameQuery.many ns').surface := contains_congr ns ns' h "Surface"
  refine ⟨hh, ?_, ?_⟩
  · unfold queryAll
    rw [hh, hs]
  · unfold valuesByName
    rw [hh]

/-- A one-element name list selects the rows of its name like the name itself; the flat values coincide,
    and so do the collections whenever the `'Surface' in output_name` test answers the same for the list
    (membership) and the string (substring) - the one place where sql.py treats the two shapes differently. -/
theorem C19_one_name_list (conv : α → α) (db : DB α) (n : String) :
    headerRows db.dict (.many [n]) = headerRows db.dict (.single n) ∧
    valuesByName db (.many [n]) = valuesByName db (.single n) ∧
    ((NameQuery.many [n]).surface = (NameQuery.single n).surface →
      queryAll conv db (.many [n]) = queryAll conv db (.single n)) := by
  have hh : headerRows db.dict (.many [n]) = headerRows db.dict (.single n) := by
    unfold headerRows
    rw [selects_one n]
  refine ⟨hh, ?_, ?_⟩
  · unfold valuesByName
    rw [hh]
  · intro hs
    unfold queryAll
    rw [hh, hs]

/-- Sample (kernel-evaluated test): reversed order with a duplicate selects the same rows. -/
example : headerRows exDB.dict (.many ["E", "No Such Output", "E"]) =
    headerRows exDB.dict (.many ["No Such Output", "E"]) :=
  (C19_name_list_is_a_set (· / 2) exDB _ _ (by
    intro n
    simp only [List.mem_cons, List.mem_nil_iff, or_false]
    constructor
    · rintro (h | h | h)
      · exact Or.inr h
      · exact Or.inl h
      · exact Or.inr h
    · rintro (h | h)
      · exact Or.inr (Or.inl h)
      · exact Or.inl h) (by decide) (by decide)).1

/-! ### Round 5: the unit universe (which units the one unit-dependent rule acts on)

The statement has ONE unit-dependent rule: joules are converted to kWh, everything else is untouched.  The
class of change closed here is a test on the unit that is wider or narrower than "the database unit is exactly
`J`" (prefix, substring, suffix, other case, blanks, "any energy unit") at one of the sites that decide by the
unit: the label of the header, the data type, the per-column conversion flag of the all-periods query and the
single test of the run-period query. -/

/-- `relabel` changes exactly one unit: `J`. -/
theorem C19_relabel_iff (u : String) : (relabel u ≠ u ↔ u = "J") ∧ (u ≠ "J" → relabel u = u) := by
  unfold relabel
  refine ⟨⟨?_, ?_⟩, ?_⟩
  · intro h
    by_cases hu : u = "J"
    · exact hu
    · rw [if_neg hu] at h; exact absurd rfl h
  · intro hu
    rw [if_pos hu, hu]
    decide
  · intro hu
    rw [if_neg hu]

/-- Every database unit other than `J` (and the empty unit, announced as `fraction`) is the unit of the header,
    letter for letter: compound joule units (`J/kg`, `J/kg-K`, `J/m3-K`), joule multiples, kWh-based units,
    units ladybug does not know, other case, blanks - all untouched. -/
theorem C19_label_untouched (u name : String) (h1 : u ≠ "J") (h0 : u ≠ "") :
    (dataTypeFromUnit (relabel u) name).2 = u := by
  rw [(C19_relabel_iff u).2 h1]
  unfold dataTypeFromUnit
  rw [if_neg h0]
  split <;> rfl

/-- The data type of every output other than `J` follows from the DATABASE unit alone. -/
theorem C19_dtype_by_database_unit (u name : String) (h1 : u ≠ "J") :
    dataTypeFromUnit (relabel u) name = dataTypeFromUnit u name := by
  rw [(C19_relabel_iff u).2 h1]

/-- The conversion flag of a column is set exactly when its database unit is `J` (or - outside the stated
    assumptions, EnergyPlus reports energy in J - already `kWh`): an iff, so no wider and no narrower class. -/
theorem C19_converted_iff (r : DictRow) :
    ((typeUnitOf r).2 == "kWh") = true ↔ (r.units = "J" ∨ r.units = "kWh") := by
  constructor
  · intro h
    by_cases h1 : r.units = "J"
    · exact Or.inl h1
    · by_cases h2 : r.units = "kWh"
      · exact Or.inr h2
      · have := (C19_flag_by_own_unit r).2 h1 h2
        rw [this] at h
        exact absurd h (by decide)
  · rintro (h | h)
    · rw [(C19_flag_by_own_unit r).1 h]
      decide
    · have hr : relabel "kWh" = relabel "J" := by decide +kernel
      unfold typeUnitOf
      rw [h, hr, C19_kwh_label]
      decide

/-- The joule / kWh family of the unit table keeps label and gets the base type of its own table row
    (kernel-evaluated over the listed units; `C19_label_untouched` is the general statement). -/
theorem C19_joule_family_untouched :
    (["J/kg", "J/kg-K", "J/m3-K", "kJ", "MJ", "GJ", "Wh", "kWh/m2", "kWh/kg", "J/m2", "j", "J "].map fun u =>
      (dataTypeFromUnit (relabel u) "n", (dataTypeFromUnit (relabel u) "n").2 == "kWh")) =
    [((.base "SpecificEnergy", "J/kg"), false), ((.base "SpecificHeatCapacity", "J/kg-K"), false),
     ((.base "VolumetricHeatCapacity", "J/m3-K"), false), ((.base "Energy", "kJ"), false),
     ((.base "Energy", "MJ"), false), ((.base "Energy", "GJ"), false), ((.base "Energy", "Wh"), false),
     ((.base "EnergyIntensity", "kWh/m2"), false), ((.base "SpecificEnergy", "kWh/kg"), false),
     ((.generic "n", "J/m2"), false), ((.generic "n", "j"), false), ((.generic "n", "J "), false)] := by
  decide +kernel

/-- **The prefix class.**  No unit that merely STARTS with `J` - `J/kg`, `J/kg-K`, `J/m3-K`, `J/m2`, `J ` and any
    other `"J" ++ s` with `s` non-empty - is relabelled or converted: the header unit is the database unit and the
    conversion flag stays off, for every such text (not only the units of the table). -/
theorem C19_joule_prefix_untouched (s name : String) (hs : s ≠ "") :
    (dataTypeFromUnit (relabel ("J" ++ s)) name).2 = "J" ++ s ∧
    ((dataTypeFromUnit (relabel ("J" ++ s)) name).2 == "kWh") = false := by
  have hl : ("J" ++ s).length = 1 + s.length := by rw [String.length_append]; rfl
  have hpos : 0 < s.length := by
    rcases Nat.eq_zero_or_pos s.length with h | h
    · exact absurd (String.length_eq_zero_iff.mp h) hs
    · exact h
  have h1 : "J" ++ s ≠ "J" := by
    intro h
    have := congrArg String.length h
    rw [hl] at this
    have h2 : ("J" : String).length = 1 := by decide
    omega
  have h0 : "J" ++ s ≠ "" := by
    intro h
    have := congrArg String.length h
    rw [hl] at this
    have h2 : ("" : String).length = 0 := by decide
    omega
  have hk : "J" ++ s ≠ "kWh" := by
    intro h
    have := congrArg (fun x => x.toList.head?) h
    simp at this
  have hlab := C19_label_untouched ("J" ++ s) name h1 h0
  refine ⟨hlab, ?_⟩
  rw [hlab]
  simpa using hk

/-- **The sites agree.**  For the rows of ONE output name (same name, same unit - what the run-period query is
    asked for) the all-periods query, which decides per row, builds the headers the run-period query builds
    from its first row, and its per-column conversion flags are the run-period query's single test repeated:
    the two methods cannot label or convert a unit differently. -/
theorem C19_unit_sites_agree (hdr : List DictRow) (h0 : DictRow) (surface : Bool) (p : Period)
    (h : ∀ r ∈ hdr, r.units = h0.units ∧ r.name = h0.name) :
    hdrOf hdr surface p = hdr.map (fun r => ⟨p, (typeUnitOf h0).1, (typeUnitOf h0).2, metaOf surface r⟩) ∧
    kwhFlags hdr 1 = List.replicate hdr.length ((typeUnitOf h0).2 == "kWh") := by
  have ht : ∀ r ∈ hdr, typeUnitOf r = typeUnitOf h0 := by
    intro r hr
    unfold typeUnitOf
    rw [(h r hr).1, (h r hr).2]
  constructor
  · unfold hdrOf
    apply List.map_congr_left
    intro r hr
    rw [ht r hr]
  · unfold kwhFlags
    simp only [List.replicate_one, List.flatten_cons, List.flatten_nil, List.append_nil]
    rw [List.eq_replicate_iff]
    refine ⟨by simp, ?_⟩
    intro b hb
    simp only [List.mem_map] at hb
    obtain ⟨r, hr, rfl⟩ := hb
    rw [ht r hr]

/-- Sample (kernel-evaluated test): a `J/kg` output with a design day and a run period, read for one run
    period: unit, data type and values are the database's, and equal the slice of the all-periods answer. -/
example :
    let db : DB Nat := ⟨[⟨5, "System", "N1", "H", "Daily", "J/kg"⟩, ⟨6, "System", "N2", "H", "Daily", "J/kg"⟩],
      [⟨1, 0, 7, 21, 1440, 2, 1⟩, ⟨2, 2017, 1, 5, 1440, 2, 2⟩],
      [⟨1, 5, 7200000⟩, ⟨1, 6, 3600000⟩, ⟨2, 5, 11⟩, ⟨2, 6, 12⟩]⟩
    ((match queryRunPeriod (· / 3600000) db "H" 2 with
      | .ok (.colls cs) => cs.map fun c => (c.key, c.unit, c.dtype, c.values)
      | _ => []) = [("N1", "J/kg", .base "SpecificEnergy", [11]), ("N2", "J/kg", .base "SpecificEnergy", [12])]) ∧
    ((match queryAll (· / 3600000) db (.single "H") with
      | .ok (.colls al) => (al.drop 2).map fun c => (c.key, c.unit, c.dtype, c.values)
      | _ => []) = [("N1", "J/kg", .base "SpecificEnergy", [11]), ("N2", "J/kg", .base "SpecificEnergy", [12])]) := by
  decide +kernel

end Sql
