/-
  C19 — Collections read from EnergyPlus SQLite results equal the rows in the database.
  Property theorems only (helper lemmas live in Proofs/C19Lemmas.lean).  No Mathlib.
  The model (Model/Sql.lean) is tied to ladybug/sql.py by the correspondence ops of Drv/C19.lean
  (harness/props/c19.py).  All list theorems are polymorphic in the value type: the code only moves
  values (or maps the J -> kWh conversion over them), so they hold for every value list.
-/
import Ladybug.Proofs.C19Lemmas

namespace Sql

variable {α : Type}

/-! ### De-interleaving of keys (`_partition_timeseries`) -/

/-- The time-ordered stream of `n` keys over `T` time steps (one value per key at every step, keys in
    dictionary order) is split into exactly `n` lists of `T` values, and value `t` of list `k` is
    stream element `t * n + k`: every key gets its own rows, in time order.  Any `n`, `T`. -/
theorem C19_deinterleave (data : List α) (n T : Nat) (hn : 0 < n) (hT : 0 < T)
    (hl : data.length = n * T) :
    ∃ cols, partition data n = .ok cols ∧ cols.length = n ∧
      ∀ k, k < n → ∃ c, cols[k]? = some c ∧ c.length = T ∧ ∀ t, t < T → c[t]? = data[t * n + k]? := by
  have hrect := chunksOf_rect n T data hn hl
  have hne := chunksOf_ne_nil n T data hn hl hT
  refine ⟨zipStar (chunksOf n data), ?_, zipStar_rect_length n _ hrect hne, ?_⟩
  · simp [partition, Nat.ne_of_gt hn]
  · intro k hk
    have hcol : ∀ r ∈ chunksOf n data, k < r.length := fun r hr => by rw [hrect r hr]; exact hk
    refine ⟨column (chunksOf n data) k, zipStar_rect_getElem? n _ hrect hne k hk, ?_, ?_⟩
    · rw [column_length _ k hcol, chunksOf_length n T data hn hl]
    · intro t ht
      rw [column_getElem? _ k hcol t, chunksOf_getElem? n T data hn hl t ht]
      simp [List.getElem?_take, hk, List.getElem?_drop]

example : partition [10, 20, 11, 21, 12, 22] 2 = .ok [[10, 11, 12], [20, 21, 22]] := by decide

/-- De-interleaving inverts the EnergyPlus interleaving: for `n ≥ 1` value lists of equal length
    `T ≥ 1`, partitioning the time-major stream built from them returns exactly these lists. -/
theorem C19_interleave_inverse (cols : List (List α)) (n T : Nat) (hlen : cols.length = n)
    (hn : 0 < n) (hT : 0 < T) (h : ∀ c ∈ cols, c.length = T) :
    partition (interleave cols) n = .ok cols := by
  have hne : cols ≠ [] := by intro e; rw [e] at hlen; simp at hlen; omega
  have hMrows : ∀ r ∈ zipStar cols, r.length = n := by
    intro r hr
    simp only [zipStar, List.mem_map, List.mem_range] at hr
    obtain ⟨t, ht, rfl⟩ := hr
    rw [minLen_rect T cols h hne] at ht
    rw [column_length cols t (fun c hc => by rw [h c hc]; exact ht), hlen]
  simp only [partition, Nat.ne_of_gt hn, if_false, interleave]
  rw [chunksOf_flatten n _ hn hMrows, zipStar_zipStar n T cols hlen hn hT h]

example : partition (interleave [[1, 2, 3], [7, 8, 9]]) 2 = .ok [[1, 2, 3], [7, 8, 9]] := by decide

/-! ### Several run periods (`_partition_timeseries_chunks`) -/

/-- The rows of run period `j` inside the time-ordered stream of `n` keys, when the periods have
    `cs[0], cs[1], …` time steps. -/
def periodSlice (data : List α) (cs : List Nat) (n j : Nat) : List α :=
  (data.drop (cumBefore cs j * n)).take (cs.getD j 0 * n)

/-- For periods of `c₀ … c_m` time steps and `n` keys (stream length `n · Σ cᵢ`), the chunked
    partition is, period after period, the plain de-interleaving of that period's rows. -/
theorem C19_chunks (data : List α) (cs : List Nat) (n : Nat) (hn : 0 < n) (hs : 0 < cs.sum)
    (hl : data.length = n * cs.sum) :
    partitionChunks data cs =
      .ok ((List.range cs.length).flatMap fun j => zipStar (chunksOf n (periodSlice data cs n j))) := by
  have hdiv : data.length / cs.sum = n := by rw [hl, Nat.mul_div_cancel _ hs]
  simp only [partitionChunks, Nat.ne_of_gt hs, if_false, hdiv, Nat.ne_of_gt hn]
  congr 1
  simp only [List.flatMap_def]
  congr 1
  apply List.map_congr_left
  intro j hj
  have hj' : j < cs.length := List.mem_range.mp hj
  have hle := cumBefore_add_le cs j hj'
  have : cumBefore cs j * n + cs.getD j 0 * n ≤ data.length := by
    rw [hl, ← Nat.add_mul, Nat.mul_comm n]; exact Nat.mul_le_mul_right n hle
  rw [chunkRows_eq data n _ _ hn this]
  rfl

/-- Asking for one run period gives the corresponding slice of asking for all: de-interleaving the rows
    of period `j` alone yields exactly the `j`-th group of `n` lists of the chunked partition. -/
theorem C19_one_vs_all (data : List α) (cs : List Nat) (n : Nat) (hn : 0 < n) (hs : 0 < cs.sum)
    (hl : data.length = n * cs.sum) :
    ∃ blocks : List (List (List α)), partitionChunks data cs = .ok blocks.flatten ∧
      blocks.length = cs.length ∧
      ∀ j, j < cs.length → ∃ b, blocks[j]? = some b ∧ partition (periodSlice data cs n j) n = .ok b := by
  refine ⟨(List.range cs.length).map fun j => zipStar (chunksOf n (periodSlice data cs n j)), ?_, by simp, ?_⟩
  · rw [C19_chunks data cs n hn hs hl, List.flatMap_def]
  · intro j hj
    refine ⟨zipStar (chunksOf n (periodSlice data cs n j)), ?_, ?_⟩
    · simp [List.getElem?_map, List.getElem?_range hj]
    · simp [partition, Nat.ne_of_gt hn]

/-- Collection `(j, k)` of the chunked partition holds the rows of period `j`, key `k`, in time order:
    its value `t` is stream element `(c₀ + … + c_{j-1} + t) · n + k`. -/
theorem C19_chunks_index (data : List α) (cs : List Nat) (n : Nat) (hn : 0 < n)
    (hl : data.length = n * cs.sum) (j : Nat) (hj : j < cs.length) (hc : 0 < cs.getD j 0) :
    ∃ cols, partition (periodSlice data cs n j) n = .ok cols ∧ cols.length = n ∧
      ∀ k, k < n → ∃ c, cols[k]? = some c ∧ c.length = cs.getD j 0 ∧
        ∀ t, t < cs.getD j 0 → c[t]? = data[(cumBefore cs j + t) * n + k]? := by
  have hle := cumBefore_add_le cs j hj
  have hfit : cumBefore cs j * n + cs.getD j 0 * n ≤ data.length := by
    rw [hl, ← Nat.add_mul, Nat.mul_comm n]; exact Nat.mul_le_mul_right n hle
  have hlen : (periodSlice data cs n j).length = n * cs.getD j 0 := by
    simp only [periodSlice, List.length_take, List.length_drop]
    rw [Nat.mul_comm n]; omega
  obtain ⟨cols, h1, h2, h3⟩ := C19_deinterleave (periodSlice data cs n j) n (cs.getD j 0) hn hc hlen
  refine ⟨cols, h1, h2, ?_⟩
  intro k hk
  obtain ⟨c, hc1, hc2, hc3⟩ := h3 k hk
  refine ⟨c, hc1, hc2, ?_⟩
  intro t ht
  rw [hc3 t ht]
  have hlt : t * n + k < cs.getD j 0 * n := by
    have : (t + 1) * n ≤ cs.getD j 0 * n := Nat.mul_le_mul_right n ht
    rw [Nat.add_mul] at this; omega
  simp only [periodSlice, List.getElem?_take, hlt, if_true, List.getElem?_drop]
  congr 1
  rw [Nat.add_mul]; omega

example : partitionChunks [1, 2, 3, 4, 5, 6, 7, 8, 9, 10] [2, 3] = .ok [[1, 3], [2, 4], [5, 7, 9], [6, 8, 10]] := by
  decide

/-! ### Row order -/

/-- On rows that are already in time order (EnergyPlus writes them so) `ORDER BY TimeIndex` changes
    nothing: the model's stable sort is the identity. -/
theorem C19_order_by_sorted (l : List (DataRow α)) (h : l.Pairwise fun a b => a.time ≤ b.time) :
    sortByTime l = l := by
  induction l with
  | nil => rfl
  | cons x xs ih =>
    have hx := List.pairwise_cons.mp h
    simp only [sortByTime, List.foldr_cons] at ih ⊢
    rw [ih hx.2]
    cases xs with
    | nil => rfl
    | cons y ys =>
      have : x.time ≤ y.time := hx.1 y (by simp)
      simp [insertByTime, this]

/-! ### Joules to kWh, other units untouched -/

/-- The conversion divides by 3 600 000: one kWh is 3.6 MJ, and multiplying back restores the joules. -/
theorem C19_kwh_factor (x : Rat) : jToKWh x * 3600000 = x ∧ jToKWh 3600000 = 1 := by
  constructor
  · unfold jToKWh
    rw [Rat.div_mul_cancel]
    decide
  · decide +kernel

/-- An output reported in `J` is labelled `Energy` / `kWh` (and is then converted). -/
theorem C19_kwh_label (name : String) :
    dataTypeFromUnit (relabel "J") name = (.base "Energy", "kWh") := by
  have h1 : relabel "J" = "kWh" := by decide +kernel
  have h2 : unitsTable.find? (fun p => p.2.contains "kWh") =
      some ("Energy", ["kWh", "kBtu", "Wh", "Btu", "MMBtu", "J", "kJ", "MJ", "GJ", "therm", "cal", "kcal"]) := by
    decide +kernel
  have h3 : ("kWh" : String) ≠ "" := by decide
  rw [h1]
  unfold dataTypeFromUnit
  rw [if_neg h3, h2]

/-- Every other unit keeps its values: the header unit is `kWh` (the trigger of the conversion in
    `queryAll`) only when the database says `J` or `kWh`. -/
theorem C19_other_units_untouched (u name : String) (h1 : u ≠ "J") (h2 : u ≠ "kWh") :
    (dataTypeFromUnit (relabel u) name).2 ≠ "kWh" := by
  unfold relabel
  rw [if_neg h1]
  unfold dataTypeFromUnit
  by_cases hu : u = ""
  · rw [if_pos hu]; decide
  · rw [if_neg hu]
    split <;> exact h2

/-! ### Absent outputs -/

/-- No dictionary row carries the requested name(s): all three queries return nothing. -/
theorem C19_absent (conv : α → α) (db : DB α) (q : NameQuery)
    (h : ∀ r ∈ db.dict, q.selects r = false) :
    queryAll conv db q = .ok (.colls []) ∧ valuesByName db q = [] := by
  have hf : db.dict.filter q.selects = [] := List.filter_eq_nil_iff.mpr (fun r hr => by simp [h r hr])
  have hh : headerRows db.dict q = [] := by simp [headerRows, hf]
  constructor
  · simp [queryAll, hh]
  · have he : db.data.filter (fun _ => false) = [] := List.filter_eq_nil_iff.mpr (by simp)
    simp [valuesByName, hh, selectData, sortByTime, he]

/-- Same for the one-run-period query. -/
theorem C19_absent_run_period (conv : α → α) (db : DB α) (name : String) (env : Nat)
    (h : ∀ r ∈ db.dict, (NameQuery.single name).selects r = false) :
    queryRunPeriod conv db name env = .ok (.colls []) := by
  have hf : db.dict.filter (NameQuery.single name).selects = [] :=
    List.filter_eq_nil_iff.mpr (fun r hr => by simp [h r hr])
  have hh : headerRows db.dict (.single name) = [] := by simp [headerRows, hf]
  simp [queryRunPeriod, hh]

/-! ### Analysis period, timestep and class from the time table -/

/-- What the first `Time` row says about frequency and timestep. -/
def rowTimestep (s : TimeRow) : Nat := if s.itype ≤ 1 then 60 / s.interval else 1
def rowFreq (s : TimeRow) : Freq :=
  if s.itype ≤ 1 then .steps (60 / s.interval) else if s.itype = 2 then .daily else .monthly

/-- The analysis period comes from the first and last `Time` rows of the data: start month/day (day 1
    for monthly data) at hour 0, end month/day at hour 23, timestep `60 / Interval` for (sub-)hourly data
    and 1 otherwise, leap flag `year ≠ 0 ∧ year % 4 = 0` of the last row; the frequency class follows
    the interval type (≤ 1 hourly continuous, 2 daily, 3 monthly).  Hypotheses = what the code requires:
    dates that exist in the calendar of that (leap or normal) year – 29 Feb of a leap year included –
    and an interval that gives a valid timestep. -/
theorem C19_period_from_time_table (s e : TimeRow)
    (hty : s.itype ≤ 3)
    (hiv : s.itype ≤ 1 → 1 ≤ s.interval ∧ s.interval ≤ 60 ∧ 60 / s.interval ∈ validTimesteps)
    (hs : (⟨s.month, if s.itype = 3 then 1 else s.day, 0, 0, leapOfYear e.year⟩ : Cal.DT).valid)
    (he : (⟨e.month, e.day, 0, 0, leapOfYear e.year⟩ : Cal.DT).valid) :
    extractRunPeriodRows (some s) (some e) =
      .ok (some ⟨s.month, if s.itype = 3 then 1 else s.day, 0, e.month, e.day, 23, rowTimestep s,
                 leapOfYear e.year⟩, rowFreq s, s.env != e.env) := by
  have he23 : (⟨e.month, e.day, 23, 0, leapOfYear e.year⟩ : Cal.DT).valid := by
    have := he
    unfold Cal.DT.valid at this ⊢
    simp only at this ⊢
    omega
  by_cases h1 : s.itype ≤ 1
  · obtain ⟨i1, i2, i3⟩ := hiv h1
    have hne3 : ¬ s.itype = 3 := by omega
    simp only [hne3, if_false] at hs ⊢
    have hend : endHourOf s.interval = 23 := by unfold endHourOf; omega
    have a1 : ¬ s.interval = 0 := by omega
    have a2 : ¬ 60 < s.interval := by omega
    simp only [extractRunPeriodRows, freqOf, h1, if_true, a1, a2, if_false, bind, Except.bind, pure, Except.pure,
      rowTimestep, rowFreq, reduceCtorEq, dtMake_ok _ _ _ _ hs, dtMake_ok _ _ _ _ he, hend,
      mkPeriod_ok _ _ _ _ _ _ hs he23 i3]
  · by_cases h2 : s.itype = 2
    · have hne3 : ¬ s.itype = 3 := by omega
      simp only [hne3, if_false] at hs ⊢
      have hend : endHourOf 60 = 23 := by decide
      have hv : (1 : Nat) ∈ validTimesteps := by decide
      have c1 : ¬ ((2 : Int) ≤ 1) := by decide
      simp only [extractRunPeriodRows, freqOf, h1, h2, c1, if_true, if_false, bind, Except.bind, pure, Except.pure,
        rowTimestep, rowFreq, reduceCtorEq, dtMake_ok _ _ _ _ hs, dtMake_ok _ _ _ _ he, hend,
        mkPeriod_ok _ _ _ _ _ _ hs he23 hv]
    · have h3 : s.itype = 3 := by omega
      simp only [h3, if_true] at hs ⊢
      have hend : endHourOf 60 = 23 := by decide
      have hv : (1 : Nat) ∈ validTimesteps := by decide
      have b1 : ¬ ((3 : Int) ≤ 1) := by decide
      have b2 : ¬ ((3 : Int) = 2) := by decide
      simp only [extractRunPeriodRows, freqOf, h3, b1, b2, if_true, if_false, bind, Except.bind, pure, Except.pure,
        rowTimestep, rowFreq, reduceCtorEq, dtMake_ok _ _ _ _ hs, dtMake_ok _ _ _ _ he, hend,
        mkPeriod_ok _ _ _ _ _ _ hs he23 hv]

/-- Sample (kernel-evaluated test): a leap-year daily run period 1 Feb – 29 Feb is read. -/
example : extractRunPeriodRows (some ⟨1, 2016, 2, 1, 1440, 2, 8⟩) (some ⟨29, 2016, 2, 29, 1440, 2, 8⟩) =
    .ok (some ⟨2, 1, 0, 2, 29, 23, 1, true⟩, .daily, false) := by decide +kernel

example : extractRunPeriodRows (some ⟨1, 2016, 1, 6, 10, -1, 8⟩) (some ⟨1008, 2016, 3, 12, 10, -1, 8⟩) =
    .ok (some ⟨1, 6, 0, 3, 12, 23, 6, true⟩, .steps 6, false) := by decide +kernel

/-- The period spans whole days: its length is days x 24 x timestep and it lists one day-of-year per
    day, so that the chunk sizes used for several run periods equal the rows EnergyPlus writes. -/
theorem C19_period_len (p : Period) (h0 : p.stHour = 0) (h23 : p.endHour = 23) (h1 : 1 ≤ p.stDoy)
    (hle : p.stDoy ≤ p.endDoy) :
    p.len = (p.endDoy + 1 - p.stDoy) * 24 * p.timestep ∧ p.doys.length = p.endDoy + 1 - p.stDoy := by
  have hr : p.reversed = false := by
    unfold Period.reversed
    rw [h0, h23]
    simp only [decide_eq_false_iff_not]
    omega
  have e : (p.endDoy - 1) * 24 + 23 + 1 - ((p.stDoy - 1) * 24 + 0) = (p.endDoy + 1 - p.stDoy) * 24 := by omega
  constructor
  · unfold Period.len
    rw [hr, h0, h23]
    simp only [Bool.false_eq_true, if_false]
    rw [e]
  · unfold Period.doys
    rw [hr]
    simp

/-! ### One reporting key, units per output, annual data (repaired by fixes/C19_*.patch) -/

/-- An output with a single reporting key: de-interleaving with `n = 1` returns the rows themselves. -/
theorem C19_single_key (data : List α) (hne : data ≠ []) : partition data 1 = .ok [data] := by
  have hpos : 0 < data.length := List.length_pos_iff.mpr hne
  obtain ⟨cols, h1, h2, h3⟩ := C19_deinterleave data 1 data.length (by omega) hpos (by simp)
  obtain ⟨c, hc1, hc2, hc3⟩ := h3 0 (by omega)
  obtain ⟨a, ha⟩ := List.length_eq_one_iff.mp h2
  rw [ha] at hc1
  simp only [List.getElem?_cons_zero, Option.some.injEq] at hc1
  have hcd : c = data := by
    apply List.ext_getElem?
    intro t
    by_cases ht : t < data.length
    · have := hc3 t ht
      simpa using this
    · rw [List.getElem?_eq_none (by omega), List.getElem?_eq_none (by omega)]
  rw [h1, ha, hc1, hcd]

/-- Sample (kernel-evaluated test): the run-period query of a one-key output returns its rows. -/
example :
    let db : DB Nat := ⟨[⟨7, "Zone", "Environment", "T", "Daily", "C"⟩],
      [⟨1, 2017, 1, 1, 1440, 2, 8⟩, ⟨2, 2017, 1, 2, 1440, 2, 8⟩], [⟨1, 7, 11⟩, ⟨2, 7, 12⟩]⟩
    (match queryRunPeriod (· / 3600000) db "T" 8 with
     | .ok (.colls cs) => cs.map fun c => (c.key, c.unit, c.values, c.datetimes)
     | _ => []) = [("Environment", "C", [11, 12], [1, 2])] := by decide +kernel

/-- In a list of output names every column is converted according to the flag of its own output:
    column `k` is mapped through the conversion iff flag `k` is set, and otherwise left as it is. -/
theorem C19_convert_per_column (conv : α → α) (flags : List Bool) (cols : List (List α)) (k : Nat)
    (f : Bool) (c : List α) (hf : flags[k]? = some f) (hc : cols[k]? = some c) :
    (convCols conv flags cols)[k]? = some (if f then c.map conv else c) := by
  have hz : (flags.zip cols)[k]? = some (f, c) := by
    rw [List.getElem?_zip_eq_some]
    exact ⟨hf, hc⟩
  simp [convCols, List.getElem?_map, hz]

/-- The flag of an output is set exactly for energy: `J` gives `Energy`/`kWh`; a unit other than
    `J` (and `kWh`) never sets it, so those values stay untouched. -/
theorem C19_flag_by_own_unit (r : DictRow) :
    (r.units = "J" → typeUnitOf r = (.base "Energy", "kWh")) ∧
    (r.units ≠ "J" → r.units ≠ "kWh" → ((typeUnitOf r).2 == "kWh") = false) := by
  constructor
  · intro h
    unfold typeUnitOf
    rw [h]
    exact C19_kwh_label r.name
  · intro h1 h2
    have := C19_other_units_untouched r.units r.name h1 h2
    unfold typeUnitOf
    simpa using this

/-- Sample (kernel-evaluated test): a name list mixing a `J` and a `C` output – only the energy is
    converted and labelled `kWh`, the temperature keeps unit and values. -/
example :
    let db : DB Nat := ⟨[⟨1, "Zone", "Z1", "E", "Daily", "J"⟩, ⟨2, "Zone", "Z1", "T", "Daily", "C"⟩],
      [⟨1, 2017, 1, 1, 1440, 2, 8⟩], [⟨1, 1, 7200000⟩, ⟨1, 2, 3600000⟩]⟩
    (match queryAll (· / 3600000) db (.many ["E", "T"]) with
     | .ok (.colls cs) => cs.map fun c => (c.metaType, c.unit, c.values)
     | _ => []) = [("E", "kWh", [2]), ("T", "C", [3600000])] := by decide +kernel

/-- Sample (kernel-evaluated test): run-period (annual) frequency with a design day and a run period
    gives one value per run period and key, in time order. -/
example :
    let db : DB Nat := ⟨[⟨1, "Zone", "Z1", "E", "Run Period", "W"⟩, ⟨2, "Zone", "Z2", "E", "Run Period", "W"⟩],
      [⟨1, 0, 7, 21, 1440, 4, 1⟩, ⟨2, 2017, 12, 31, 525600, 4, 2⟩],
      [⟨1, 1, 5⟩, ⟨1, 2, 6⟩, ⟨2, 1, 7⟩, ⟨2, 2, 8⟩]⟩
    (match queryAll (· / 3600000) db (.single "E") with
     | .ok (.annual vs) => vs
     | _ => []) = [5, 6, 7, 8] := by decide +kernel

/-! ### Recorded defect of the code (known_findings.d/C19.json), as a fact about the faithful model -/

/-- Daily and monthly reporting over two run periods (1–2 Jan, 1 Jul): `_extract_all_run_period` reads
    the end of each period from the monthly rows (31 Jan, 31 Jul), the chunk sizes become 31 + 31 for
    3 rows, and the query fails (`range() arg 3 must not be zero`) instead of returning two collections. -/
theorem C19_mixed_time_table_counterexample :
    let db : DB Nat := ⟨[⟨1, "Zone", "Z1", "E", "Daily", "C"⟩],
      [⟨1, 2017, 1, 1, 1440, 2, 1⟩, ⟨2, 2017, 1, 2, 1440, 2, 1⟩, ⟨3, 2017, 1, 31, 44640, 3, 1⟩,
       ⟨4, 2017, 7, 1, 1440, 2, 2⟩, ⟨5, 2017, 7, 31, 44640, 3, 2⟩],
      [⟨1, 1, 5⟩, ⟨2, 1, 6⟩, ⟨4, 1, 7⟩]⟩
    (match queryAll (· / 3600000) db (.single "E") with
     | .error e => some e
     | .ok _ => none) = some .value := by decide +kernel

end Sql
