/-
  C16 — Design days are self-consistent and survive the IDF/DDY round trip.
  Property theorems about Model/DesignDay.lean (+ the design-day humidity profile of Model/Psychro.lean and
  the calendar of Model/Cal.lean).  The model is tied to ladybug/designday.py, ddy.py, location.py by
  Gen/DesignDayTables (translator: multipliers, IDF layout, day offset) and by the correspondence ops of
  Drv/C16.lean (harness/props/c16.py).

  NOT theorems (checked on the real code by the oracle of harness/props/c16.py, see its TRUSTED_BASE):
  radiation values (sun position and sky models belong to C05/C10), EPW percentile days, the character
  level of the IDF text, IEEE evaluation of `i * (1 / timestep) * 60`.
-/
import Ladybug.Proofs.C16Lemmas
import Ladybug.Proofs.C16Idf
import Ladybug.Proofs.C16Hist
import Ladybug.Props.C09
import Ladybug.Model.DDYShapes

namespace DD

open Gen.DD Psychro

/-! ### regenerated tables -/

/-- The regenerated `HOURLY_MULTIPLIERS` contain 1 and 0 and lie in [0, 1] (what the profile theorems need;
    a changed table entry such as 1 -> 0.99 breaks this theorem). -/
theorem C16_multipliers :
    (1 : ℝ) ∈ (Gen.DD.hourlyMultipliers : List ℝ) ∧ (0 : ℝ) ∈ (Gen.DD.hourlyMultipliers : List ℝ) ∧
      (∀ m ∈ (Gen.DD.hourlyMultipliers : List ℝ), 0 ≤ m ∧ m ≤ 1) ∧ (Gen.DD.hourlyMultipliers : List ℝ).length = 24 := by
  refine ⟨?_, ?_, ?_, ?_⟩
  · simp only [Gen.DD.hourlyMultipliers, List.mem_cons]; norm_num
  · simp only [Gen.DD.hourlyMultipliers, List.mem_cons]; norm_num
  · intro m hm
    simp only [Gen.DD.hourlyMultipliers, List.mem_cons, List.not_mem_nil, or_false] at hm
    rcases hm with h | h | h | h | h | h | h | h | h | h | h | h | h | h | h | h | h | h | h | h | h | h | h | h <;>
      subst h <;> norm_num
  · simp [Gen.DD.hourlyMultipliers]

/-- Both date computations start the day at `(doy - 1) * 1440` (regenerated from `hourly_datetimes` and
    `_SkyCondition._get_datetimes`; on a tree with `doy * 1440` this theorem does not check). -/
theorem C16_day_offset : hourlyDayOffset = 1 ∧ skyDayOffset = 1 := by decide

/-! ### dry-bulb profile -/

/-- For every maximum and every range >= 0 the 24 hourly dry bulbs contain the stated maximum, none exceeds
    it, they contain maximum - range, and none is lower: the profile peaks at the stated maximum and spans
    exactly the stated range. -/
theorem C16_profile (mx rng : ℝ) (h : 0 ≤ rng) :
    (hourlyDryBulb mx rng).length = 24 ∧
    mx ∈ hourlyDryBulb mx rng ∧ (∀ v ∈ hourlyDryBulb mx rng, v ≤ mx) ∧
    (mx - rng) ∈ hourlyDryBulb mx rng ∧ (∀ v ∈ hourlyDryBulb mx rng, mx - rng ≤ v) := by
  obtain ⟨h1, h0, hb, hl⟩ := C16_multipliers
  unfold hourlyDryBulb
  refine ⟨by simp [hl], ?_, ?_, ?_, ?_⟩
  · exact List.mem_map.mpr ⟨0, h0, by ring⟩
  · intro v hv
    obtain ⟨m, hm, rfl⟩ := List.mem_map.mp hv
    have := (hb m hm).1
    nlinarith
  · exact List.mem_map.mpr ⟨1, h1, by ring⟩
  · intro v hv
    obtain ⟨m, hm, rfl⟩ := List.mem_map.mp hv
    have := (hb m hm).2
    nlinarith

/-- With range 0 every hour has the maximum. -/
theorem C16_profile_flat (mx : ℝ) : ∀ v ∈ hourlyDryBulb mx 0, v = mx := by
  intro v hv
  obtain ⟨_, _, hle, _, hge⟩ := C16_profile mx 0 (le_refl 0)
  have a := hle v hv
  have b := hge v hv
  linarith

example : hourlyDryBulb (30 : ℝ) 10 ≠ [] := by simp [hourlyDryBulb, Gen.DD.hourlyMultipliers]

/-! ### humidity profile -/

/-- Every hourly dew point is `min(day dew point, that hour's dry bulb)`, hence never above the dry bulb -
    for each of the four humidity types, any value, pressure, maximum and range (from `C09_dd_dew_le_db`). -/
theorem C16_dew_le_db (ty : HumType) (value p mx rng : ℝ) :
    List.Forall₂ (fun db dp => dp ≤ db ∧ dp = min (ddDewPoint ty value p mx) db)
      (hourlyDryBulb mx rng) (ddHourlyDewPoint (ddDewPoint ty value p mx) (hourlyDryBulb mx rng)) :=
  C09_dd_dew_le_db _ _

/-- One hour's relative humidity of the design day is positive, whatever the inputs (saturation pressure is
    an exponential). -/
theorem C16_rh_pos (m db : ℝ) : ∀ rh ∈ ddHourlyRelHumid m [db], 0 < rh := by
  intro rh hrh
  unfold ddHourlyRelHumid ddHourlyDewPoint at hrh
  simp only [List.map_cons, List.map_nil, List.zip_cons_cons, List.zip_nil_right, List.mem_singleton] at hrh
  subst hrh
  unfold relHumidFromDbDpt
  have a := satVapPres_pos (db + 273.15)
  have b := satVapPres_pos ((if m ≤ db then m else db) + 273.15)
  have : (0 : ℝ) < (100.0 : ℝ) := by norm_num
  positivity

/-- One hour's relative humidity is at most 100, PROVIDED saturation pressure does not decrease from the
    day's dew point to that hour's dry bulb.  (Partial: monotonicity of the saturation curve is proved in
    C09 on the ice branch and on the water branch separately, not across 273.15 K - see the two corollaries.) -/
theorem C16_rh_le_100_partial (m db : ℝ)
    (hmono : m ≤ db → satVapPres (m + 273.15) ≤ satVapPres (db + 273.15)) :
    ∀ rh ∈ ddHourlyRelHumid m [db], rh ≤ 100 := by
  intro rh hrh
  unfold ddHourlyRelHumid ddHourlyDewPoint at hrh
  simp only [List.map_cons, List.map_nil, List.zip_cons_cons, List.zip_nil_right, List.mem_singleton] at hrh
  subst hrh
  have a := satVapPres_pos (db + 273.15)
  unfold relHumidFromDbDpt
  simp only []
  have e : (100.0 : ℝ) = 100 := by norm_num
  rw [e]
  split_ifs with h
  · have := hmono h
    have : satVapPres (m + 273.15) / satVapPres (db + 273.15) ≤ 1 := (div_le_one a).mpr this
    linarith
  · rw [div_self (ne_of_gt a)]; norm_num

/-- Relative humidity within (0, 100] for a frost hour: dew point above absolute zero, dry bulb <= 0 C. -/
theorem C16_rh_range_ice (m db : ℝ) (hm : -273.15 < m) (hdb : db ≤ 0) :
    ∀ rh ∈ ddHourlyRelHumid m [db], 0 < rh ∧ rh ≤ 100 := by
  intro rh hrh
  refine ⟨C16_rh_pos m db rh hrh, C16_rh_le_100_partial m db (fun hle => ?_) rh hrh⟩
  rcases eq_or_lt_of_le hle with h | h
  · rw [h]
  · exact (C09_pws_strictMono_ice ⟨by linarith, by linarith⟩ ⟨by linarith, by linarith⟩ (by linarith)).le

/-- Relative humidity within (0, 100] for an hour above freezing whose dew point is above freezing too
    (dry bulb up to 200 C). -/
theorem C16_rh_range_water (m db : ℝ) (hm : 0 < m) (hdb : db ≤ 200) :
    ∀ rh ∈ ddHourlyRelHumid m [db], 0 < rh ∧ rh ≤ 100 := by
  intro rh hrh
  refine ⟨C16_rh_pos m db rh hrh, C16_rh_le_100_partial m db (fun hle => ?_) rh hrh⟩
  rcases eq_or_lt_of_le hle with h | h
  · rw [h]
  · exact (C09_pws_strictMono_water_partial ⟨by linarith, by linarith⟩ ⟨by linarith, by linarith⟩
      (by linarith)).le

/-! ### every series belongs to the stated date -/

/-- `from_moy` of any minute inside the stated date's own day is a date-time of that date: whatever
    offset inside the day a sub-hourly step (exact or IEEE) produces, the date cannot change. -/
theorem C16_moy_in_day (d : Cal.D) (hv : d.valid) (n : Nat) (h : n < 1440) :
    ∃ t, Cal.fromMoy d.leap (((d.doy : Int) - 1) * 1440 + n) = .ok t ∧ t.month = d.month ∧
      t.day = d.day ∧ t.hour = n / 60 ∧ t.minute = n % 60 ∧ t.leap = d.leap :=
  ⟨atMinute d n, fromMoy_in_day d hv n h, rfl, rfl, rfl, rfl, rfl⟩

/-- `DesignDay.hourly_datetimes` of every valid date - 1 Jan and 31 Dec included, normal and leap year -
    are the 24 full hours of that date. -/
theorem C16_hourly_datetimes_on_date (d : Cal.D) (hv : d.valid) :
    hourlyDatetimes d = .ok ((List.range 24).map fun h => ⟨d.month, d.day, h, 0, d.leap⟩) := by
  unfold hourlyDatetimes hourlyDatetimesOff
  rw [C16_day_offset.1]
  apply collect_map_ok
  intro i hi
  have hi' : i < 24 := List.mem_range.mp hi
  have e : dayStart 1 d + (i : Int) * 60 = ((d.doy : Int) - 1) * 1440 + ((i * 60 : Nat) : Int) := by
    unfold dayStart; push_cast; ring
  rw [e, fromMoy_in_day d hv (i * 60) (by omega)]
  simp only [atMinute]
  congr 2 <;> omega

/-- The date-times of the header of every `hourly_*` collection (analysis period of the day) are the 24 hours
    of the stated date. -/
theorem C16_collection_datetimes (d : Cal.D) :
    collectionDatetimes d = (List.range 24).map fun h => ⟨d.month, d.day, h, 0, d.leap⟩ := rfl

/-- Without daylight saving, the date-times the sky condition evaluates the sun at (`_get_datetimes`, integer
    level) are, for every timestep >= 1 and every step, date-times of the stated date: step `i` is minute
    `60 i / timestep` of the day (+ 30 for hourly steps: the middle of the hour). -/
theorem C16_sky_datetimes_on_date (d : Cal.D) (hv : d.valid) (ts : Nat) (hts : 1 ≤ ts) :
    collect (skyDatetimesInt skyDayOffset d false ts) =
      .ok ((List.range (24 * ts)).map fun i => atMinute d (60 * i / ts + if ts = 1 then 30 else 0)) := by
  unfold skyDatetimesInt
  rw [C16_day_offset.2]
  apply collect_map_ok
  intro i hi
  have hi' : i < 24 * ts := List.mem_range.mp hi
  have hq : 60 * i / ts < 1440 := by
    apply Nat.div_lt_of_lt_mul; nlinarith
  have hn : 60 * i / ts + (if ts = 1 then 30 else 0) < 1440 := by
    split_ifs with h1
    · subst h1; omega
    · omega
  have e : skyMoyInt (skyStartOff 1 d false ts) ts i =
      ((d.doy : Int) - 1) * 1440 + ((60 * i / ts + (if ts = 1 then 30 else 0) : Nat) : Int) := by
    unfold skyMoyInt skyStartOff dayStart
    simp only [Bool.false_eq_true, if_false]
    split_ifs <;> push_cast <;> first | contradiction | ring
  rw [e, fromMoy_in_day d hv _ hn]

/-- With daylight saving the sun is evaluated one hour earlier (standard time): every evaluated date-time
    plus the 60 minutes of the clock shift is the corresponding minute of the stated date.  (From the second
    day of the year on; on 1 Jan the first clock hour belongs to the previous year and the code wraps inside
    1 Jan - outside the model year, exercised by correspondence only.) -/
theorem C16_sky_datetimes_dst (d : Cal.D) (hv : d.valid) (hd : 2 ≤ d.doy) (ts : Nat) (hts : 1 ≤ ts)
    (i : Nat) (hi : i < 24 * ts) :
    ∃ t, (skyDatetimesInt skyDayOffset d true ts)[i]? = some (.ok t) ∧ t.valid ∧
      (t.moy : Int) + 60 = ((d.doy : Int) - 1) * 1440 + (60 * i / ts + if ts = 1 then 30 else 0 : Nat) := by
  unfold skyDatetimesInt
  rw [C16_day_offset.2]
  have hq : 60 * i / ts < 1440 := by
    apply Nat.div_lt_of_lt_mul; nlinarith
  have hdl : d.doy ≤ Cal.daysInYear d.leap := by
    obtain ⟨h1, h2, h3, h4⟩ := hv
    exact (Cal.dateFact_of_valid d.leap d.month d.day ⟨h1, h2, h3, h4⟩).2
  set n : Nat := (d.doy - 1) * 1440 + (60 * i / ts + if ts = 1 then 30 else 0) - 60 with hn
  have hoff : (60 * i / ts + if ts = 1 then 30 else 0) < 1440 := by
    split_ifs with h1
    · subst h1; omega
    · omega
  have hlt : n < Cal.minutesInYear d.leap := by
    unfold Cal.minutesInYear; omega
  obtain ⟨t, ht, htv, hmoy, -⟩ := Cal.C08_fromMoy_moy d.leap n hlt
  refine ⟨t, ?_, htv, ?_⟩
  · simp only [List.getElem?_map, List.getElem?_range hi, Option.map_some]
    congr 1
    rw [← ht]
    congr 1
    unfold skyMoyInt skyStartOff dayStart
    rw [hn]
    generalize 60 * i / ts = q at hoff ⊢
    simp only [if_true]
    split_ifs at hoff ⊢ <;> push_cast <;> omega
  · rw [hmoy, hn]
    generalize 60 * i / ts = q at hoff ⊢
    split_ifs at hoff ⊢ <;> push_cast <;> omega

example : collect (skyDatetimesInt 1 ⟨12, 31, false⟩ false 4) ≠ .error .value := by decide +kernel

/-! ### IDF round trip: `from_idf` reads every attribute from the cell `to_idf` wrote it to -/

/-- Index in `ep_fields` from which `from_idf` takes the humidity value of each humidity type. -/
def humValueIdx : HumType → Nat
  | .wetbulb => iHumValue
  | .dewpoint => iHumValue
  | .humidityRatio => iHumRatio
  | .enthalpy => iEnthalpy

/-- What `from_idf` reads: (index into `ep_fields`, attribute it is used as), for a humidity type and a sky
    class (the indices are the regenerated ones of the source). -/
def readPlan (h : HumType) (k : SkyTag) : List (Nat × Slot) :=
  [(iName, .name), (iDayType, .dayType), (iDbMax, .dbMax), (iDbRange, .dbRange), (iModType, .modType),
   (iModSched, .modSched), (iHumType, .humType), (humValueIdx h, .humValue), (iPressure, .pressure),
   (iHumSched, .humSched), (iRain, .rain), (iSnow, .snow), (iWindSpeed, .windSpeed), (iWindDir, .windDir),
   (iMonth, .month), (iDay, .day), (iDst, .dst)] ++
  (match k with
   | .clear => [(iSkyModel, .lit "ASHRAEClearSky"), (iClearness, .clearness)]
   | .tau => [(iSkyModel, .tauModel), (iTauB, .tauB), (iTauD, .tauD)]
   | .base => [(iBeamSched, .beamSched), (iDiffSched, .diffSched)])

/-- `ep_fields` of a written object as slots: object name, the cells of `to_idf`, trailing text. -/
def writtenSlots (h : HumType) (k : SkyTag) : List (Option Slot) :=
  none :: ((layout (humTypeName h) k).map some ++ [none])

/-- Every attribute round-trips through its own cell: for each of the 4 humidity types x {ASHRAEClearSky,
    ASHRAETau (both spellings share the cell; `tauModel` writes 'ASHRAETau2017' iff use_2017)}, every field
    index `from_idf` reads holds the attribute `from_idf` uses it for; all length guards are met (so rain /
    snow / daylight saving / sky fields are read, not defaulted); the generic humidity cell is blank
    exactly for HumidityRatio / Enthalpy (so `0 if field == ''` is taken instead of `float('')`).
    With `float(str(x)) == x`, `'Yes'.lower() == 'yes'`, `int(str(n)) == n` this is
    `from_idf(to_idf(d)) == d` for every humidity type, both sky models and all flags.
    (Finite case split over the enums; numbers and names are opaque: the statement does not mention them.) -/
theorem C16_idf_roundtrip (h : HumType) (k : SkyTag) (hk : k ≠ .base) :
    (∀ p ∈ readPlan h k, (writtenSlots h k)[p.1]? = some (some p.2)) ∧
    (∀ g ∈ [gRain, gSnow, gDst, gSkyModel], g < (writtenSlots h k).length) ∧
    (k = .clear → gClearness < (writtenSlots h k).length) ∧
    (k = .tau → gTauB < (writtenSlots h k).length ∧ gTauD < (writtenSlots h k).length) ∧
    ((writtenSlots h k)[iHumValue]? = some (some .blank) ↔ (h = .humidityRatio ∨ h = .enthalpy)) := by
  cases h <;> cases k <;> first | exact absurd rfl hk | decide

/-- The two names of the Tau model are the ones `from_idf` recognises, and `use_2017` is recovered from the
    suffix. -/
theorem C16_tau_names : tauName = "ASHRAETau" ∧ tauName2017 = "ASHRAETau2017" := by decide

/-- The cells line up with the comments: as many comments as the longest value list. -/
theorem C16_idf_comments (h : HumType) (k : SkyTag) : (layout (humTypeName h) k).length ≤ idfComments.length := by
  cases h <;> cases k <;> decide

/-- RECORDED DEFECT (finding C16-schedule-sky-to-idf): for a plain `_SkyCondition` (solar model 'Schedule')
    `to_idf` names the model 'ASHRAEClearSky' and leaves the clearness cell blank, so `from_idf` takes the
    clear-sky branch and evaluates `float('')`: the written text cannot be read back. -/
theorem C16_schedule_sky_counterexample (h : HumType) :
    (writtenSlots h .base)[iSkyModel]? = some (some (.lit "ASHRAEClearSky")) ∧
    (writtenSlots h .base)[iClearness]? = some (some .blank) ∧ gClearness < (writtenSlots h .base).length := by
  cases h <;> decide

/-- RECORDED DEFECT (finding C16-wet-bulb-range-dropped): `to_idf` writes `wet_bulb_range`, but no field
    index read by `from_idf` holds it, for any humidity type and sky class: the value is lost. -/
theorem C16_wet_bulb_range_counterexample (h : HumType) (k : SkyTag) :
    (some Slot.wbRange) ∈ writtenSlots h k ∧ ∀ p ∈ readPlan h k, (writtenSlots h k)[p.1]? ≠ some (some .wbRange) := by
  cases h <;> cases k <;> decide

example : readPlan .enthalpy .tau ≠ [] := by decide

/-! ### IDF round trip, value level (fields as abstract tokens, numbers opaque) -/

section value
variable {τ ν : Type} [NumVal ν] [Tok τ ν]

/-- **`from_idf(to_idf(d)) == d`.**  For every token type obeying `TokLaws` (`float(str(x)) == x`,
    `int(str(n)) == n`, a text is its own text, `'Yes'.lower() == 'yes'`, `'No'.lower() != 'yes'`, a number
    never prints as the empty string) and every writable design day - any name, day type among DAY_TYPES,
    dry bulb, range >= 0, modifier type / schedule, any of the 4 humidity types with any value, pressure,
    rain / snow flags and schedule, wind speed, direction in [0, 360], any valid date of the non-leap year,
    daylight-saving flag, ASHRAEClearSky with clearness in [0, 1.2] or ASHRAETau / ASHRAETau2017 with any
    optical depths - the fields written by `to_idf`, followed by any trailing text, are read by `from_idf`
    as the same design day.  (`Writable` excludes exactly the two recorded defects: a plain `_SkyCondition`
    and a set `wet_bulb_range`.) -/
theorem C16_idf_roundtrip_value (L : TokLaws τ ν) (d : DesignDay ν) (W : Writable d) (tail : τ) :
    fromIdfFields (writtenFields d tail) = .ok d :=
  idf_roundtrip_value L d W tail

/-- The location object round-trips as well (city not empty; latitude / longitude / time zone inside the
    ranges the setters assert; the IDF form carries city, latitude, longitude, time zone, elevation only). -/
theorem C16_location_roundtrip_value (L : TokLaws τ ν) (l : Loc ν) (hc : (l.city == "") = false)
    (h1 : between (-90) l.lat 90 = true) (h2 : between (-180) l.lon 180 = true)
    (h3 : between (-12) l.tz 14 = true) : locFromFields (locFields l : List τ) = .ok l :=
  loc_roundtrip_value L l hc h1 h2 h3

/-- A heating design day built from a header dictionary carries the values stated there: dry bulb and
    (saturated) wet bulb = the DB996 / DB990 entry, range 0, wind = WS_DB996 / WD_DB996, the 21st of the
    stated month, the pressure passed in, clear sky with clearness 0, no flags. -/
theorem C16_ashrae_heating (L : TokLaws τ ν) (kv : List (String × τ)) (city : String) (u : Bool)
    (p db ws wd : ν) (m : Nat) (h1 : lookup kv (if u then "DB990" else "DB996") = .ok (Tok.ofNum db))
    (h2 : lookup kv "WS_DB996" = .ok (Tok.ofNum ws)) (h3 : lookup kv "WD_DB996" = .ok (Tok.ofNum wd))
    (hwd : between 0 wd 360 = true) (h4 : lookup kv "Month" = .ok (Tok.ofNat m))
    (hm : Cal.D.make m 21 false = .ok ⟨m, 21, false⟩) :
    fromAshraeHeating kv city u p = .ok
      { name := city ++ " Heating Design Day " ++ (if u then "99" else "99.6") ++ "% Condns DB",
        dayType := "WinterDesignDay", db := ⟨db, NumVal.zero, "DefaultMultipliers", ""⟩,
        hum := ⟨.wetbulb, db, p, false, false, "", .blank⟩, wind := ⟨ws, wd⟩,
        sky := ⟨⟨m, 21, false⟩, false, .clear NumVal.zero⟩ } :=
  ashrae_heating_value L kv city u p db ws wd m h1 h2 h3 hwd h4 hm

/-- A cooling design day built from a header dictionary carries the values stated there: dry bulb = DB004 /
    DB010, range = DBR, coincident wet bulb = WB_DB004 / WB_DB010, wind = WS_DB004 / WD_DB004, the 21st of the
    stated month, the pressure passed in, the Tau sky of the given optical depths or the default clear sky. -/
theorem C16_ashrae_cooling (L : TokLaws τ ν) (kv : List (String × τ)) (city : String) (u : Bool)
    (p db rng wb ws wd one : ν) (tau : Option (ν × ν)) (m : Nat)
    (h1 : lookup kv (if u then "DB010" else "DB004") = .ok (Tok.ofNum db))
    (h0 : lookup kv "DBR" = .ok (Tok.ofNum rng)) (hr : 0 ≤ NumVal.toRat rng)
    (h5 : lookup kv (if u then "WB_DB010" else "WB_DB004") = .ok (Tok.ofNum wb))
    (h2 : lookup kv "WS_DB004" = .ok (Tok.ofNum ws)) (h3 : lookup kv "WD_DB004" = .ok (Tok.ofNum wd))
    (hwd : between 0 wd 360 = true) (h4 : lookup kv "Month" = .ok (Tok.ofNat m))
    (hm : Cal.D.make m 21 false = .ok ⟨m, 21, false⟩) :
    fromAshraeCooling kv city u p tau one = .ok
      { name := city ++ " Cooling Design Day " ++ (if u then "1" else "0.4") ++ "% Condns DB=>MWB",
        dayType := "SummerDesignDay", db := ⟨db, rng, "DefaultMultipliers", ""⟩,
        hum := ⟨.wetbulb, wb, p, false, false, "", .blank⟩, wind := ⟨ws, wd⟩,
        sky := ⟨⟨m, 21, false⟩, false, match tau with
          | some (b, t) => .tau b t false
          | none => .clear one⟩ } :=
  ashrae_cooling_value L kv city u p db rng wb ws wd one tau m h1 h0 hr h5 h2 h3 hwd h4 hm

/-- non-vacuity: the token laws are satisfiable (free tokens) -/
example (ν : Type) [NumVal ν] : TokLaws (FreeTok ν) ν := freeTok_laws ν

end value

/-! ### one object, a history of operations (round 3)

  `Obj` / `Op` / `step` / `runOps` / `construct` are the object state machine of Model/DesignDayObj.lean: the
  state is the public state; setters, replaced condition objects and refused operations as the validation
  code of designday.py has them.  Driver op `hist` runs the same histories on the real object step by step
  (harness/props/c16.py, `_history_correspondence`); the oracle op `history` compares every observable of the
  real object after every step with a design day built from scratch and with the statement itself. -/

section history
variable {ν : Type} [NumVal ν]

/-- **A history refines a fresh object.**  Start from any object the constructors accept and apply ANY list
    of operations - setters with valid and invalid arguments, new condition objects, changes of the sky
    class, date, daylight-saving flag, location, reads in between.  The final object is again one the
    constructors accept, and building a design day from scratch from its public state gives exactly that
    object: every observable `obs` (any function of the object: the `to_idf` fields, the hourly profiles, the
    hourly and sun date-times ...) of the object with the history equals that of the fresh object.  (In the
    model this holds because there is no state besides the public state and every setter checks what the
    constructor checks; an implementation with a stale memo or a half-applied refused operation disagrees
    with the model in the step-by-step correspondence.) -/
theorem C16_history_refines_fresh (o : Obj ν) (h : construct o = .ok o) (ops : List (Op ν)) :
    construct (runOps o ops) = .ok (runOps o ops) ∧
    ∀ {β : Type} (obs : Obj ν → β), (construct (runOps o ops)).map obs = .ok (obs (runOps o ops)) := by
  have hc := construct_of_inv _ (runOps_inv o (inv_of_construct o o h) ops)
  exact ⟨hc, fun obs => by rw [hc]; rfl⟩

/-- **A refused operation preserves everything.**  When a step is refused (AssertionError of a setter or
    constructor, ValueError of an impossible date, AttributeError of a sky class without that attribute) the
    object is the object before - hence every observable is unchanged. -/
theorem C16_refused_preserves (o : Obj ν) (op : Op ν) (e : OErr) (h : (step o op).2 = .refused e) :
    (step o op).1 = o ∧ ∀ {β : Type} (obs : Obj ν → β), obs (step o op).1 = obs o := by
  have := step_refused o op e h
  exact ⟨this, fun obs => by rw [this]⟩

/-- **Reads are pure.**  A read never changes the object, and deleting all reads from a history - wherever
    they stand, however often they are repeated - leaves the final object (hence every later observation)
    the same: the order and number of reads cannot matter. -/
theorem C16_read_pure (o : Obj ν) (ops : List (Op ν)) :
    step o .read = (o, .done) ∧ runOps o (ops.filter fun op => !op.isRead) = runOps o ops :=
  ⟨rfl, runOps_drop_reads o ops⟩

/-- Every accepted operation keeps what the constructors assert (range >= 0, wind direction in [0, 360],
    a real calendar date, clearness in [0, 1.2], day type among DAY_TYPES, location inside its ranges). -/
theorem C16_step_keeps_invariant (o : Obj ν) (hi : Inv o) (op : Op ν) : Inv (step o op).1 := by
  have := runOps_inv o hi [op]
  simpa [runOps] using this

/-- **IDF round trip after any history.**  Whatever was done to a constructed design day before, if it ends
    with one of the two ASHRAE sky models, no wet-bulb range and a date of the non-leap year, the fields
    `to_idf` writes are read back by `from_idf` as that same design day (lawful tokens: `float(str(x)) == x`
    etc.).  Combines `C16_history_refines_fresh` with `C16_idf_roundtrip_value`. -/
theorem C16_history_idf_roundtrip {τ : Type} [Tok τ ν] (L : TokLaws τ ν) (o : Obj ν) (h : construct o = .ok o)
    (ops : List (Op ν)) (tail : τ) (hw : (runOps o ops).dd.hum.wetBulbRange = .blank)
    (hl : (runOps o ops).dd.sky.date.leap = false) (hs : (runOps o ops).dd.sky.kind.tag ≠ .base) :
    fromIdfFields (writtenFields (runOps o ops).dd tail) = .ok (runOps o ops).dd :=
  idf_roundtrip_value L _ (writable_of_inv _ (runOps_inv o (inv_of_construct o o h) ops) hw hl hs) tail

end history

/-- non-vacuity: a refused negative range, an attribute the sky class does not have, a daylight-saving switch -/
example :
    let _ : NumVal Int := ⟨0, fun x => (x : Rat)⟩
    let o : Obj Int := ⟨⟨"d", "SummerDesignDay", ⟨30, 10, "DefaultMultipliers", ""⟩,
      ⟨.wetbulb, 20, 101325, false, false, "", .blank⟩, ⟨2, 180⟩, ⟨⟨7, 21, false⟩, false, .tau 1 2 false⟩⟩,
      ⟨"c", 40, -80, -6, 200⟩⟩
    (step o (.setDbRange (.num (-6)))).2 = .refused .assert ∧ (step o (.setClearness (.num 1))).2 = .refused .attr ∧
      (step o (.setDst true)).1.dd.sky.dst = true ∧ (step o (.setDate (some (2, 30)))).2 = .refused .value := by
  decide +kernel

/-! ### DDY file: list lift -/

section ddy
variable {τ ν : Type} [NumVal ν] [Tok τ ν]

/-- A DDY file is the location object followed by one object per design day; reading it back parses the
    first location object and every design-day object in order.  If the location and each design day
    survive their own round trip, the whole file does - for any number of design days. -/
theorem C16_ddy_roundtrip (y : DDY ν) (tail : τ)
    (hloc : locFromFields (locFields y.loc : List τ) = .ok y.loc)
    (hday : ∀ d ∈ y.days, fromIdfFields (writtenFields d tail) = .ok d) :
    ddyFromObjects (ddyObjects y tail) = .ok y := by
  unfold ddyFromObjects ddyObjects
  have hm : (y.days.map fun d => writtenFields d tail).mapM (fromIdfFields (τ := τ) (ν := ν)) = .ok y.days := by
    rw [List.mapM_map]
    have h2 := mapM_ok_of_forall (fun d => fromIdfFields (τ := τ) (ν := ν) (writtenFields d tail)) (fun d => d) y.days hday
    rw [List.map_id'] at h2
    exact h2
  simp [hloc, hm, bind, Except.bind, pure, Except.pure]

/-- **`DDY.from_ddy_file(written) == ddy`** at object level, unconditionally in the number of design days:
    lawful tokens, a location inside the setters' ranges, every design day writable. -/
theorem C16_ddy_roundtrip_value (L : TokLaws τ ν) (y : DDY ν) (tail : τ) (hc : (y.loc.city == "") = false)
    (h1 : between (-90) y.loc.lat 90 = true) (h2 : between (-180) y.loc.lon 180 = true)
    (h3 : between (-12) y.loc.tz 14 = true) (hw : ∀ d ∈ y.days, Writable d) :
    ddyFromObjects (ddyObjects y tail) = .ok y :=
  C16_ddy_roundtrip y tail (loc_roundtrip_value L y.loc hc h1 h2 h3)
    (fun d hd => idf_roundtrip_value L d (hw d hd) tail)

omit [NumVal ν] in
/-- The writer keeps every design day, in order (nothing dropped or duplicated). -/
theorem C16_ddy_objects_length (y : DDY ν) (tail : τ) : (ddyObjects y tail).2.length = y.days.length := by
  simp [ddyObjects]

end ddy

/-! ### design days from the ASHRAE header dictionaries (EPW header, STAT file)

  `fromAshraeHeating` / `fromAshraeCooling` (Model/DesignDay.lean) state which dictionary key feeds which
  attribute; they are compared with `DesignDay.from_ashrae_dict_heating/cooling` by the correspondence ops
  `ashrae_h` / `ashrae_c`, and the oracle checks the EPW- and STAT-derived days against the header values.
  Theorems `C16_ashrae_heating` / `C16_ashrae_cooling` above state which header entry ends up in which
  attribute.  Which pressure / tau the EPW and STAT classes pass in is checked by the oracle (`header_days`). -/

/-! ### round 4: the `DDY.design_days` setter on every kind of container (Model/DDYShapes.lean, plan
    regenerated from ddy.py by tools/extract/ddy_setter.py) -/

section shapes
open Shapes Gen.DDY

/-- The regenerated statement order of the `DDY.design_days` setter: a non-list argument is turned into a list
    BEFORE anything walks it, the items of that list are type-checked, that list is stored; and `__init__`
    assigns through the setter.  (Any other order - e.g. checking the items of the argument first and calling
    `list()` afterwards - does not check: see `C16_ddy_order_matters`.) -/
theorem C16_ddy_setter_plan :
    setterPlan = [.materialiseUnlessList, .checkItems, .storeArg, .updateLocations] ∧ initUsesSetter = true := by
  decide

/-- **The days a DDY holds do not depend on the container kind of the argument**: for a list, any other
    re-iterable container (tuple, deque, dict view) and a one-shot iterator (generator, map, filter, iter(...))
    alike, the setter stores exactly the items the argument held when it was handed over, or refuses when one
    of them is not a design day. -/
theorem C16_ddy_days_shape_independent {α : Type} (isDay : α → Bool) (arg : Iterable α) :
    setDays isDay arg = if arg.items.all isDay then .ok arg.items else .error .assert := by
  unfold setDays setDaysWith
  rw [C16_ddy_setter_plan.1]
  cases arg with
  | container b xs =>
    cases b <;> by_cases h : xs.all isDay = true <;>
      simp [runPlan, runStep, Iterable.pass, Iterable.items, h]
  | oneShot xs =>
    by_cases h : xs.all isDay = true <;>
      simp [runPlan, runStep, Iterable.pass, Iterable.items, h]

/-- Two arguments holding the same items give the same DDY, whatever their kinds (the model of the DDY writer
    takes lists; the correspondence feeds the real class every kind). -/
theorem C16_ddy_days_same_for_all_shapes {α : Type} (isDay : α → Bool) (a b : Iterable α)
    (h : a.items = b.items) : setDays isDay a = setDays isDay b := by
  rw [C16_ddy_days_shape_independent, C16_ddy_days_shape_independent, h]

/-- A refused assignment (an item that is not a design day) keeps the old list of days, for every kind. -/
theorem C16_ddy_days_refused_preserves {α : Type} (isDay : α → Bool) (old : List α) (arg : Iterable α)
    (h : arg.items.all isDay = false) : assign isDay old arg = (old, false) := by
  unfold assign
  rw [C16_ddy_days_shape_independent]
  simp [h]

/-- An accepted assignment makes the DDY hold the items of the argument, in order, for every kind. -/
theorem C16_ddy_days_accepted {α : Type} (isDay : α → Bool) (old : List α) (arg : Iterable α)
    (h : arg.items.all isDay = true) : assign isDay old arg = (arg.items, true) := by
  unfold assign
  rw [C16_ddy_days_shape_independent]
  simp [h]

/-! ### round 6: comparison strictness of the location update (both setters) -/

/-- The regenerated tests of the two update loops: both compare the WHOLE Location objects. -/
theorem C16_ddy_location_guards :
    daysSetterGuard = .wholeLocation ∧ locationSetterGuard = .wholeLocation := by decide

/-- `Location.__key` (what `==` compares) reads every slot of a Location and nothing else: no attribute is
    left out of the comparison the guards rely on (the order of the entries does not matter). -/
theorem C16_location_key_complete :
    (locationSlots.all fun s => (locationKey.map slotOf).contains s) = true ∧
    ((locationKey.map slotOf).all fun s => locationSlots.contains s) = true := by
  decide

/-- **Every design day of a DDY is at the DDY's location** after the `design_days` setter (hence after
    `__init__`) and after the `location` setter, whatever locations the days came with. -/
theorem C16_ddy_days_carry_ddy_location {ℓ δ : Type} [DecidableEq ℓ] (L : ℓ) (days : List (ℓ × δ)) :
    (∀ d ∈ updateLocations L days, d.1 = L) ∧ (∀ d ∈ updateLocationsOnLocationSet L days, d.1 = L) := by
  have key : ∀ d ∈ updateLocationsWith (fun a b => decide (a ≠ b)) L days, d.1 = L := by
    intro d hd
    simp only [updateLocationsWith, List.mem_map] at hd
    obtain ⟨e, _, rfl⟩ := hd
    by_cases h : e.1 = L <;> simp [h]
  constructor
  · simpa [updateLocations, guardTest, C16_ddy_location_guards.1] using key
  · simpa [updateLocationsOnLocationSet, guardTest, C16_ddy_location_guards.2] using key

/-- The update keeps everything else of every day, in order. -/
theorem C16_ddy_update_keeps_days {ℓ δ : Type} (differs : ℓ → ℓ → Bool) (L : ℓ) (days : List (ℓ × δ)) :
    (updateLocationsWith differs L days).map (·.2) = days.map (·.2) := by
  induction days with
  | nil => rfl
  | cons d ds ih =>
    simp only [updateLocationsWith, List.map_cons] at ih ⊢
    rw [ih]
    by_cases h : differs d.1 L = true <;> simp [h]

/-- **The written DDY reads back equal** as far as locations go: the file has one `Site:Location`, every day read
    back gets it, and that is the DDY the setters have established - for days that came from ANY location. -/
theorem C16_ddy_update_roundtrip {ℓ δ : Type} [DecidableEq ℓ] (L : ℓ) (days : List (ℓ × δ)) :
    readBack L (updateLocations L days) = (L, updateLocations L days) := by
  have h := (C16_ddy_days_carry_ddy_location L days).1
  simp only [readBack, Prod.mk.injEq, true_and]
  conv => rhs; rw [← List.map_id (updateLocations L days)]
  apply List.map_congr_left
  intro d hd
  have := h d hd
  cases d with | mk a r => simp_all

/-- The class of change this excludes: a test that is relaxed to "the attributes that matter" - any test that
    answers "same" for two DIFFERENT locations `a`, `L` - leaves a day at `a` inside the DDY at `L`, and the
    written file does not read back equal. -/
theorem C16_ddy_relaxed_guard_breaks_roundtrip {ℓ δ : Type} (differs : ℓ → ℓ → Bool) (a L : ℓ) (r : δ)
    (hne : a ≠ L) (hrelaxed : differs a L = false) :
    readBack L (updateLocationsWith differs L [(a, r)]) ≠ (L, updateLocationsWith differs L [(a, r)]) := by
  simp [readBack, updateLocationsWith, hrelaxed]
  exact fun h => hne h.symm

/-- Recorded finding C16-ddy-setitem-foreign-location: item assignment stores the day with the location it came
    with, so a DDY at `"ddy"` can hold a day at `"epw"`, and the written file does not read back equal. -/
theorem C16_ddy_setitem_counterexample :
    let days := setItem (updateLocations "ddy" [("ddy", 0)]) 0 ("epw", 1)
    (¬ ∀ d ∈ days, d.1 = "ddy") ∧ readBack "ddy" days ≠ ("ddy", days) := by
  decide

/-- Non-vacuity: two descriptions of one station (the EPW names state, country, station id and source; the
    .ddy file does not) are different locations, and a position-only test calls them the same. -/
example :
    let ddy : Loc9 := ⟨"Chicago", "-", "-", "41.98", "-87.92", "-6.0", "201.0", "", ""⟩
    let epw : Loc9 := ⟨"Chicago", "IL", "USA", "41.98", "-87.92", "-6.0", "201.0", "725300", "TMY3"⟩
    let position (a b : Loc9) : Bool := decide ((a.latitude, a.longitude, a.timeZone) ≠ (b.latitude, b.longitude, b.timeZone))
    epw ≠ ddy ∧ position epw ddy = false ∧
      updateLocations ddy [(epw, 7)] = [(ddy, 7)] ∧ updateLocationsWith position ddy [(epw, 7)] = [(epw, 7)] := by
  decide

/-- Why the order matters: a setter that type-checks the items of its argument first and only then stores
    `list(argument)` keeps every day of a re-iterable container but NONE of a one-shot iterator (the check has
    used it up).  This is not the code; it is the neighbouring program the plan theorem excludes. -/
theorem C16_ddy_order_matters {α : Type} (isDay : α → Bool) (xs : List α) (h : xs.all isDay = true) :
    setDaysWith [.checkItems, .storeListOfArg] isDay (.oneShot xs) = .ok [] ∧
    setDaysWith [.checkItems, .storeListOfArg] isDay (.container false xs) = .ok xs := by
  simp [setDaysWith, runPlan, runStep, Iterable.pass, h]

end shapes

/-! ### round 4: the branches of the case splits, whole-day humidity range, sibling classes -/

/-- The relative-humidity profile hour by hour (helper). -/
theorem ddHourlyRelHumid_eq_map (m : ℝ) (l : List ℝ) :
    ddHourlyRelHumid m l = l.map fun db => relHumidFromDbDpt db (if m ≤ db then m else db) := by
  induction l with
  | nil => rfl
  | cons a r ih =>
    simp only [ddHourlyRelHumid, ddHourlyDewPoint, List.map_cons, List.zip_cons_cons] at ih ⊢
    rw [ih]

/-- The two branches of `HumidityCondition.hourly_dew_point_values`: an hour whose dry bulb is at or above the
    day's dew point keeps that dew point; an hour whose dry bulb is below it (the rarely taken saturation
    branch) has dew point = dry bulb and its relative humidity is exactly 100 %. -/
theorem C16_dew_point_branches (m db : ℝ) :
    (m ≤ db → ddHourlyDewPoint m [db] = [m]) ∧
    (db < m → ddHourlyDewPoint m [db] = [db] ∧ ddHourlyRelHumid m [db] = [100]) := by
  refine ⟨fun h => by simp [ddHourlyDewPoint, h], fun h => ?_⟩
  have hn : ¬ m ≤ db := not_le.mpr h
  refine ⟨by simp [ddHourlyDewPoint, hn], ?_⟩
  rw [ddHourlyRelHumid_eq_map]
  simp only [List.map_cons, List.map_nil, if_neg hn]
  unfold relHumidFromDbDpt
  simp only []
  rw [div_self (ne_of_gt (satVapPres_pos _))]
  norm_num

/-- Relative humidity is positive in every hour of any day (whole profile, not one hour). -/
theorem C16_rh_pos_day (m : ℝ) (l : List ℝ) : ∀ rh ∈ ddHourlyRelHumid m l, 0 < rh := by
  intro rh hrh
  rw [ddHourlyRelHumid_eq_map] at hrh
  obtain ⟨db, _, rfl⟩ := List.mem_map.mp hrh
  apply C16_rh_pos m db
  rw [ddHourlyRelHumid_eq_map]; simp

/-- All 24 hourly relative humidities of a design day lie in (0, 100] when the day's dew point is above
    freezing and the maximum dry bulb is at most 200 C - for every range >= 0, saturated hours included
    (lifts `C16_rh_range_water` from one hour to the profile through `C16_profile`). -/
theorem C16_rh_range_day_water (m mx rng : ℝ) (hm : 0 < m) (hmx : mx ≤ 200) (hr : 0 ≤ rng) :
    ∀ rh ∈ ddHourlyRelHumid m (hourlyDryBulb mx rng), 0 < rh ∧ rh ≤ 100 := by
  intro rh hrh
  rw [ddHourlyRelHumid_eq_map] at hrh
  obtain ⟨db, hdb, rfl⟩ := List.mem_map.mp hrh
  have hle := (C16_profile mx rng hr).2.2.1 db hdb
  apply C16_rh_range_water m db hm (by linarith)
  rw [ddHourlyRelHumid_eq_map]; simp

/-- All 24 hourly relative humidities lie in (0, 100] on a frost day (maximum dry bulb <= 0 C, dew point above
    absolute zero), for every range >= 0. -/
theorem C16_rh_range_day_ice (m mx rng : ℝ) (hm : -273.15 < m) (hmx : mx ≤ 0) (hr : 0 ≤ rng) :
    ∀ rh ∈ ddHourlyRelHumid m (hourlyDryBulb mx rng), 0 < rh ∧ rh ≤ 100 := by
  intro rh hrh
  rw [ddHourlyRelHumid_eq_map] at hrh
  obtain ⟨db, hdb, rfl⟩ := List.mem_map.mp hrh
  have hle := (C16_profile mx rng hr).2.2.1 db hdb
  apply C16_rh_range_ice m db hm (by linarith)
  rw [ddHourlyRelHumid_eq_map]; simp

/-- The two branches of `ASHRAEClearSky.hourly_sky_cover`: clearness above 1 gives 0 tenths; clearness in
    [0, 1] gives (1 - clearness) * 10, which lies within 0..10 tenths. -/
theorem C16_sky_cover_branches (c : ℝ) :
    (1 < c → ∀ v ∈ clearSkyCover c, v = 0) ∧
    (0 ≤ c → c ≤ 1 → ∀ v ∈ clearSkyCover c, v = (1 - c) * 10 ∧ 0 ≤ v ∧ v ≤ 10) := by
  constructor
  · intro h v hv
    unfold clearSkyCover at hv
    have h' : (1.0 : ℝ) < c := by norm_num; exact h
    rw [if_pos h'] at hv
    have := List.eq_of_mem_replicate hv
    rw [this]; norm_num
  · intro h0 h1 v hv
    unfold clearSkyCover at hv
    have h' : ¬ (1.0 : ℝ) < c := by norm_num; exact h1
    rw [if_neg h'] at hv
    have := List.eq_of_mem_replicate hv
    rw [this]
    refine ⟨by norm_num, ?_, ?_⟩ <;> norm_num <;> nlinarith

section siblings
variable {ν : Type}

/-- Sibling sky classes agree: the date-times at which the sun is evaluated are a function of the date, the
    daylight-saving flag and the timestep only - `_SkyCondition`, `ASHRAEClearSky` and `ASHRAETau` (2009 and
    2017) objects with the same date and flag evaluate the sun at the same date-times (the oracle recomputes
    the radiation of each class for the stated date, leap-year dates included). -/
theorem C16_sky_datetimes_same_for_sibling_classes (s₁ s₂ : Sky ν) (hd : s₁.date = s₂.date) (hs : s₁.dst = s₂.dst)
    (ts : Nat) :
    skyDatetimesInt skyDayOffset s₁.date s₁.dst ts = skyDatetimesInt skyDayOffset s₂.date s₂.dst ts := by
  rw [hd, hs]

end siblings

/-- non-vacuity on dates of the leap year: 29 Feb and all 60 timesteps on 31 Dec -/
example : hourlyDatetimes ⟨2, 29, true⟩ = .ok ((List.range 24).map fun h => ⟨2, 29, h, 0, true⟩) :=
  C16_hourly_datetimes_on_date _ (by decide)

example : collect (skyDatetimesInt skyDayOffset ⟨12, 31, true⟩ false 60) =
    .ok ((List.range (24 * 60)).map fun i => atMinute ⟨12, 31, true⟩ (60 * i / 60 + if 60 = 1 then 30 else 0)) :=
  C16_sky_datetimes_on_date _ (by decide) 60 (by decide)


end DD
