/-
  C10 — Sky models return physical irradiance and the components add up.

  Property theorems only (helper lemmas: Proofs/C10Lemmas, Proofs/C10Dirint, Proofs/C10Pinned).
  They are about the REAL-NUMBER instance (Ladybug/RealInst) of the polymorphic model
  Model/Sky.lean, whose Float instance is compared with skymodel.py / wea.py / designday.py on
  every run (Drv/C10, harness/props/c10.py) and whose tables are regenerated from the source
  (Gen/SkyTables).  The gap IEEE-754 <-> ℝ is not proved (trusted base).

  Clauses of the statement and where they are decided:
    zero at/below the horizon ............ C10_night_zero_*           (all models, full)
    DNI / GHI never negative ............. C10_clear_sky_nonneg, C10_revised_clear_sky_nonneg,
                                           C10_zh_nonneg, C10_disc_nonneg,
                                           C10_dirint_nonneg, C10_kt_bounds,
                                           C10_illuminance_direct_nonneg             (full);
                                           global illuminance: sampled only
    finite values ........................ sampled only (no overflow exists over ℝ)
    clear-sky DNI non-decreasing ......... C10_clear_sky_monotone     (original model, full);
                                           tau model: sampled only
    clear sky <= extraterrestrial ........ C10_clear_sky_le_A, C10_clear_sky_le_extraterrestrial
    GHI = DHI + DNI sin(alt) ............. C10_closure_wea, C10_closure_designday_*, C10_closure_zh_split
    air mass about 1 at zenith ........... C10_airmass_zenith_exact (simple, youngirvine1967, gueymard1993),
                                           C10_airmass_zenith_young1994; other three: sampled only
    air mass monotone / agreement ........ C10_airmass_simple_monotone; all other: sampled only
                                           (youngirvine1967 violates it below 3.44°: known finding)
    absolute air mass linear ............. C10_abs_airmass_linear
    extraterrestrial within 4 % .......... C10_extraterrestrial_within_4_percent (full);
                                           maximum in early January: sampled only
    sky temperature inverse .............. C10_sky_temp_inverse, C10_sky_temp_inverts_horizontal_infrared
    upward surface = global horizontal ... C10_up_surface
    total = direct + diffuse + reflected . C10_total_sum
    surface facing the sun gets DNI ...... C10_facing_sun
    the formulas of the source ........... Proofs/C10Gen: C10_gen_eq_* (model = regenerated translation)
    defaults / tables of the source ...... C10_constants_pinned, C10_monthly_tables
    histories on ONE object (round 3) .... object state machines Model/SkyObj (Wea; sky condition held by a
                                           design day): C10_history_refines_fresh, C10_refused_preserves,
                                           C10_read_pure, C10_history_closure, C10_history_up_surface (Wea);
                                           C10_sky_history_refines_fresh, C10_sky_refused_preserves,
                                           C10_sky_read_pure, C10_sky_history_clearness,
                                           C10_sky_history_le_extraterrestrial, C10_sky_history_closure
    the LIST level (round 4) ............. Model/SkyList (one pass over any sequence of altitudes):
                                           C10_clear_sky_list_shape, C10_clear_sky_list_pointwise,
                                           C10_clear_sky_list_append (same for the tau model: C10_revised_list_*),
                                           C10_sky_list_closure_clear / _tau (three lists of a sky condition: equal
                                           lengths, closure element by element, the first two ARE the stand-alone
                                           model's lists), C10_sky_list_night_siblings (both sky classes give zeros)
    branches of the case splits .......... C10_eps_category_branches, C10_alt_bin_branches
-/
import Ladybug.Proofs.C10Lemmas
import Ladybug.Proofs.C10Dirint
import Ladybug.Proofs.C10Pinned
import Ladybug.Proofs.C10Hist
import Ladybug.Proofs.C10List

namespace Sky
open Real

/-! ### the source's constants -/

/-- The default arguments of skymodel.py's functions, the default air-mass model and the list of air-mass
    model names, as regenerated from the current source, are the ones the hand-written model was written
    for.  (The formula bodies themselves are tied statement by statement: Proofs/C10Gen, `C10_gen_eq_*`.) -/
theorem C10_constants_pinned :
    Gen.Sky.signatureDefaults = pinnedDefaults ∧
    Gen.Sky.airmassDefaultModel = pinnedAirmassDefaultModel ∧
    Gen.Sky.airmassModelNames = pinnedAirmassModelNames ∧
    Gen.Sky.airmassModelNames.map AmModel.ofString? =
      [some .kastenyoung1989, some .kasten1966, some .simple, some .pickering2002, some .youngirvine1967,
       some .young1994, some .gueymard1993] := ⟨rfl, rfl, rfl, rfl⟩

/-- For each month 1..12 `MONTHLY_A` / `MONTHLY_B` have an entry, with `0 < A ≤ 1204` and
    `B ≥ 0.141` (regenerated tables; a changed entry outside these bounds breaks this). -/
theorem C10_monthly_tables (month : Int) (h1 : 1 ≤ month) (h12 : month ≤ 12) :
    ∃ a b : ℝ, Py.getIdx? (Gen.Sky.monthlyA (α := ℝ)) (month - 1) = some a ∧
      Py.getIdx? (Gen.Sky.monthlyB (α := ℝ)) (month - 1) = some b ∧
      0 < a ∧ a ≤ 1204 ∧ 0.141 ≤ b := by
  obtain ⟨a, b, ha, hb⟩ := monthly_some month h1 h12
  exact ⟨a, b, ha, hb, monthly_facts month h1 h12 a b ha hb⟩

/-! ### zero at or below the horizon -/

/-- Original ASHRAE clear sky: sun at or below the horizon ⇒ direct and diffuse are 0
    (for every month argument, even an invalid one). -/
theorem C10_night_zero_clear_sky (alt cl : ℝ) (month : Int) (h : alt ≤ 0) :
    clearSky1 alt month cl = .ok (0, 0) :=
  night_clear_sky alt cl month h

/-- Revised ASHRAE clear sky (tau model): altitude ≤ 0 ⇒ (0, 0). -/
theorem C10_night_zero_revised_clear_sky (alt tb td : ℝ) (u : Bool) (h : alt ≤ 0) :
    revisedClearSky1 alt tb td u = .ok (0, 0) := night_revised alt tb td u h

/-- Zhang-Huang global horizontal: altitude ≤ 0 ⇒ 0. -/
theorem C10_night_zero_zhang_huang (alt cc rh t t3 ws irr0 : ℝ) (h : alt ≤ 0) :
    zhangHuangSolar alt cc rh t t3 ws irr0 = 0 := night_zh alt cc rh t t3 ws irr0 h

/-- DISC: altitude at or below `min_altitude` (3° by default, so in particular ≤ 0), or no global
    irradiance ⇒ DNI 0, kt 0, air mass None. -/
theorem C10_night_zero_disc (ghi alt doy : ℝ) (p : Option ℝ) (minSin minAlt maxAm : ℝ)
    (h : alt ≤ minAlt ∨ ghi ≤ 0) :
    disc ghi alt doy p minSin minAlt maxAm = .ok (0, 0, none) :=
  night_disc ghi alt doy p minSin minAlt maxAm h

/-- DIRINT on a time series of any length: the result has one value per time step, and every step
    whose altitude is at or below `min_altitude` (or whose GHI is ≤ 0) gets DNI 0. -/
theorem C10_night_zero_dirint (rows : List (DRow ℝ)) (ud : Bool) (td : Option (List ℝ))
    (minSin minAlt : ℝ) (out : List ℝ) (h : dirint rows ud td minSin minAlt = .ok out) :
    out.length = rows.length ∧
    ∀ (i : Nat) (r : DRow ℝ), rows[i]? = some r → (r.2.1 ≤ minAlt ∨ r.1 ≤ 0) → out[i]? = some 0 :=
  dirint_night rows ud td minSin minAlt out h

/-- Zhang-Huang split (DISC and DIRINT variants), any series length: a step with the sun at or below
    the horizon gets direct normal 0 and diffuse horizontal 0. -/
theorem C10_night_zero_zh_split (rows : List (ZRow ℝ)) (tempDew : List ℝ) (useDisc : Bool)
    (out : List (ℝ × ℝ)) (h : zhSplit rows tempDew useDisc = .ok out) (i : Nat) (r : ZRow ℝ)
    (hr : rows[i]? = some r) (hn : r.alt ≤ 0) : out[i]? = some (0, 0) := by
  obtain ⟨_, ha⟩ := zhSplit_rows rows tempDew useDisc out h
  obtain ⟨o, ho, h2, h1⟩ := ha i r hr
  have hg : zhGlob r = 0 := night_zh _ _ _ _ _ _ _ hn
  have ho1 : o.1 = 0 := h1 (le_of_eq hg)
  rw [ho]
  congr 1
  apply Prod.ext
  · exact ho1
  · rw [h2, hg, ho1]; ring

/-- Perez luminous efficacy: altitude ≤ 0 ⇒ the four illuminance outputs are 0. -/
theorem C10_night_zero_illuminance (alt ghi dni dhi dew : ℝ) (am : Option ℝ) (h : alt ≤ 0) :
    illuminance alt ghi dni dhi dew am = .ok (0, 0, 0, 0) := night_illum alt ghi dni dhi dew am h

/-! ### sign -/

/-- Original clear sky, sun up: DNI = A/exp(B/sin alt)·clearness ≥ 0 and diffuse ≥ 0 for every
    month 1..12, altitude in (0°, 90°] and clearness ≥ 0. -/
theorem C10_clear_sky_nonneg (alt cl : ℝ) (month : Int) (h1 : 1 ≤ month) (h12 : month ≤ 12)
    (h0 : 0 < alt) (h90 : alt ≤ 90) (hcl : 0 ≤ cl) :
    ∃ r, clearSky1 alt month cl = .ok r ∧ 0 ≤ r.1 ∧ 0 ≤ r.2 := by
  obtain ⟨a, b, ha, hb, ha0, _, _⟩ := C10_monthly_tables month h1 h12
  refine ⟨clearSkyAt a b alt cl, clearSky1_day alt cl month a b h0 ha hb, ?_⟩
  rw [clearSkyAt_day _ _ _ _ h0]
  have hs := sin_radians_pos alt h0 h90
  have he := Real.exp_pos (b / Real.sin (alt * (π / 180)))
  constructor <;> positivity

/-- Revised clear sky (tau model): direct normal and diffuse horizontal are never negative
    (1415·exp(…) or 0), for all optical depths and altitudes. -/
theorem C10_revised_clear_sky_nonneg (alt tb td : ℝ) (u : Bool) (r : ℝ × ℝ)
    (h : revisedClearSky1 alt tb td u = .ok r) : 0 ≤ r.1 ∧ 0 ≤ r.2 := revised_nonneg alt tb td u r h

/-- Zhang-Huang global horizontal is never negative (the clamp), for all inputs. -/
theorem C10_zh_nonneg (alt cc rh t t3 ws irr0 : ℝ) : 0 ≤ zhangHuangSolar alt cc rh t t3 ws irr0 :=
  zh_nonneg alt cc rh t t3 ws irr0

/-- DISC direct normal is never negative (`max(dni, 0)`), for all inputs. -/
theorem C10_disc_nonneg (ghi alt doy : ℝ) (p : Option ℝ) (minSin minAlt maxAm : ℝ)
    (r : ℝ × ℝ × Option ℝ) (h : disc ghi alt doy p minSin minAlt maxAm = .ok r) : 0 ≤ r.1 :=
  disc_nonneg ghi alt doy p minSin minAlt maxAm r h

/-- DIRINT direct normal is never negative, for every series: DISC's DNI is ≥ 0 and every entry of the
    regenerated 6×6×7×5 coefficient matrix is ≥ 0. -/
theorem C10_dirint_nonneg (rows : List (DRow ℝ)) (ud : Bool) (td : Option (List ℝ))
    (minSin minAlt : ℝ) (out : List ℝ) (h : dirint rows ud td minSin minAlt = .ok out) :
    ∀ y ∈ out, 0 ≤ y := dirint_nonneg rows ud td minSin minAlt out h

/-- Perez luminous efficacy: the direct normal illuminance is never negative (`max(0, …)`), whenever the
    function returns.  (The global horizontal illuminance is not clamped: sampled only.) -/
theorem C10_illuminance_direct_nonneg (alt ghi dni dhi dew : ℝ) (am : Option ℝ) (r : ℝ × ℝ × ℝ × ℝ)
    (h : illuminance alt ghi dni dhi dew am = .ok r) : 0 ≤ r.2.1 :=
  illum_dn_nonneg alt ghi dni dhi dew am r h

/-- The clearness index is clamped to `[0, max_clearness_index]`. -/
theorem C10_kt_bounds (ghi alt ex minSin maxKt : ℝ) (hm : 0 ≤ maxKt) :
    0 ≤ clearnessIndex ghi alt ex minSin maxKt ∧ clearnessIndex ghi alt ex minSin maxKt ≤ maxKt :=
  kt_bounds ghi alt ex minSin maxKt hm

/-! ### clear sky: monotone, bounded by the extraterrestrial value -/

/-- Original clear sky: DNI never decreases as the sun climbs, on (0°, 90°], for every month and
    clearness ≥ 0. -/
theorem C10_clear_sky_monotone (a1 a2 cl : ℝ) (month : Int) (h1 : 1 ≤ month) (h12 : month ≤ 12)
    (h0 : 0 < a1) (h : a1 ≤ a2) (h90 : a2 ≤ 90) (hcl : 0 ≤ cl) :
    ∃ r1 r2, clearSky1 a1 month cl = .ok r1 ∧ clearSky1 a2 month cl = .ok r2 ∧ r1.1 ≤ r2.1 := by
  obtain ⟨a, b, ha, hb, ha0, _, hb0⟩ := C10_monthly_tables month h1 h12
  refine ⟨_, _, clearSky1_day a1 cl month a b h0 ha hb,
    clearSky1_day a2 cl month a b (lt_of_lt_of_le h0 h) ha hb, ?_⟩
  exact dni_mono a b cl a1 a2 (le_of_lt ha0) (by norm_num at hb0; linarith) hcl h0 h h90

/-- Original clear sky: DNI ≤ A_month · clearness (the apparent extraterrestrial irradiation). -/
theorem C10_clear_sky_le_A (alt cl : ℝ) (month : Int) (h1 : 1 ≤ month) (h12 : month ≤ 12)
    (h0 : 0 < alt) (h90 : alt ≤ 90) (hcl : 0 ≤ cl) :
    ∃ a r, Py.getIdx? (Gen.Sky.monthlyA (α := ℝ)) (month - 1) = some a ∧
      clearSky1 alt month cl = .ok r ∧ r.1 ≤ a * cl := by
  obtain ⟨a, b, ha, hb, ha0, _, hb0⟩ := C10_monthly_tables month h1 h12
  refine ⟨a, _, ha, clearSky1_day alt cl month a b h0 ha hb, ?_⟩
  have hb' : (0 : ℝ) ≤ b := by norm_num at hb0; linarith
  have := dni_le a b cl alt (le_of_lt ha0) hb' hcl h0 h90
  have h2 : a / (1 + b) * cl ≤ a * cl := by
    apply mul_le_mul_of_nonneg_right _ hcl
    rw [div_le_iff₀ (by linarith)]
    nlinarith
  linarith

/-- Original clear sky never exceeds the extraterrestrial value: for clearness in [0, 1.2] (the range
    `ASHRAEClearSky` accepts), every month, altitude in (0°, 90°] and EVERY day of the year, DNI is
    below `get_extra_radiation(doy)` (default solar constant 1366.1). -/
theorem C10_clear_sky_le_extraterrestrial (alt cl doy : ℝ) (month : Int) (h1 : 1 ≤ month)
    (h12 : month ≤ 12) (h0 : 0 < alt) (h90 : alt ≤ 90) (hcl : 0 ≤ cl) (hcl2 : cl ≤ 1.2) :
    ∃ r, clearSky1 alt month cl = .ok r ∧ r.1 ≤ extraRadiation doy 1366.1 := by
  obtain ⟨a, b, ha, hb, ha0, ha1, hb0⟩ := C10_monthly_tables month h1 h12
  refine ⟨_, clearSky1_day alt cl month a b h0 ha hb, ?_⟩
  have hb' : (0.141 : ℝ) ≤ b := hb0
  have h1' := dni_le a b cl alt (le_of_lt ha0) (by norm_num at hb'; linarith) hcl h0 h90
  have h2 : a / (1 + b) ≤ 1204 / 1.141 := by
    rw [div_le_div_iff₀ (by norm_num at hb' ⊢; linarith) (by norm_num)]
    norm_num at hb' ⊢
    nlinarith
  have h3 : a / (1 + b) * cl ≤ 1204 / 1.141 * 1.2 := by
    apply mul_le_mul h2 hcl2 hcl (by norm_num)
  have h4 := extra_lower doy 1366.1 (by norm_num)
  have h5 : (1204 / 1.141 * 1.2 : ℝ) ≤ 1366.1 * 0.963813 := by norm_num
  linarith

/-- Spencer's extraterrestrial irradiance stays within 4 % of the solar constant, for every (real)
    day number. -/
theorem C10_extraterrestrial_within_4_percent (doy sc : ℝ) (hsc : 0 ≤ sc) :
    |extraRadiation doy sc - sc| ≤ 0.04 * sc := extra_within doy sc hsc

/-! ### closure: global = diffuse + direct · sin(altitude) -/

/-- Wea: `global_horizontal_irradiance` = diffuse + direct·sin(altitude) = diffuse +
    `direct_horizontal_irradiance`, per time step. -/
theorem C10_closure_wea (alt dnr dhr : ℝ) :
    globalHorizontal alt dnr dhr = dhr + dnr * Real.sin (alt * (π / 180)) ∧
    globalHorizontal alt dnr dhr = dhr + directHorizontal alt dnr := closure alt dnr dhr

/-- Design day, ASHRAEClearSky: the reported global is diffuse + direct·sin(altitude) of the reported
    direct/diffuse, which are `ashrae_clear_sky`'s. -/
theorem C10_closure_designday_clear (alt cl : ℝ) (month : Int) (r : ℝ × ℝ × ℝ)
    (h : designDayClearSky1 alt month cl = .ok r) :
    r.2.2 = r.2.1 + r.1 * Real.sin (alt * (π / 180)) ∧ clearSky1 alt month cl = .ok (r.1, r.2.1) :=
  designday_closure alt cl month r h

/-- Design day, ASHRAETau: same closure for the revised clear sky. -/
theorem C10_closure_designday_tau (alt tb td : ℝ) (u : Bool) (r : ℝ × ℝ × ℝ)
    (h : designDayTau1 alt tb td u = .ok r) :
    r.2.2 = r.2.1 + r.1 * Real.sin (alt * (π / 180)) ∧
      revisedClearSky1 alt tb td u = .ok (r.1, r.2.1) := designday_tau_closure alt tb td u r h

/-- Zhang-Huang split (both variants, any series length): one output pair per step and
    diffuse + direct·sin(altitude) = the Zhang-Huang global horizontal of that step. -/
theorem C10_closure_zh_split (rows : List (ZRow ℝ)) (tempDew : List ℝ) (useDisc : Bool)
    (out : List (ℝ × ℝ)) (h : zhSplit rows tempDew useDisc = .ok out) :
    out.length = rows.length ∧
    ∀ (i : Nat) (r : ZRow ℝ), rows[i]? = some r → ∃ o, out[i]? = some o ∧
      o.2 + o.1 * Real.sin (radians r.alt) = zhGlob r := by
  obtain ⟨hl, ha⟩ := zhSplit_rows rows tempDew useDisc out h
  refine ⟨hl, ?_⟩
  intro i r hr
  obtain ⟨o, ho, h2, _⟩ := ha i r hr
  exact ⟨o, ho, by rw [h2]; ring⟩

/-! ### a bound on ONE of the quantities linked by the closure relation (round 6)

`dhi = ghi − dni·sin(alt)` is a DERIVED output: nothing keeps it above zero (the statement bounds direct normal and
global only), and wherever it is negative a floor put on it alone – without re-balancing the direct value it was
derived from – breaks `ghi = dhi + dni·sin(alt)` by exactly the clipped amount.  The region is characterised here;
the generators reach it (`bound:zh_split:dhi<0`). -/

/-- A floor `b` (resp. a ceiling) on one summand of a relation `x + y = g` keeps the relation exactly where the
    bound is inactive; where it is active the relation is off by the clipped amount. -/
theorem C10_bound_on_one_summand (x y g b : ℝ) (h : x + y = g) :
    (max b x + y = g ↔ b ≤ x) ∧ (min b x + y = g ↔ x ≤ b) ∧
    max b x + y - g = max b x - x ∧ (x < b → max b x + y - g = b - x) := by
  refine ⟨?_, ?_, ?_, ?_⟩
  · constructor
    · intro hm
      have : max b x = x := by linarith
      exact this ▸ le_max_left b x
    · intro hb
      rw [max_eq_right hb]; exact h
  · constructor
    · intro hm
      have : min b x = x := by linarith
      exact this ▸ min_le_left b x
    · intro hb
      rw [min_eq_right hb]; exact h
  · linarith
  · intro hx
    rw [max_eq_left hx.le]; linarith

/-- Zhang-Huang split, both variants: the diffuse value of a step is negative exactly where the direct
    horizontal part `dni·sin(alt)` exceeds the Zhang-Huang global value, and flooring it at zero (the direct value
    left as it is) keeps `ghi = dhi + dni·sin(alt)` exactly on the steps where it is not negative. -/
theorem C10_zh_split_dhi_floor (rows : List (ZRow ℝ)) (tempDew : List ℝ) (useDisc : Bool)
    (out : List (ℝ × ℝ)) (h : zhSplit rows tempDew useDisc = .ok out) (i : Nat) (r : ZRow ℝ)
    (hr : rows[i]? = some r) : ∃ o, out[i]? = some o ∧
      (o.2 < 0 ↔ zhGlob r < o.1 * Real.sin (radians r.alt)) ∧
      (max 0 o.2 + o.1 * Real.sin (radians r.alt) = zhGlob r ↔ 0 ≤ o.2) ∧
      (o.2 < 0 → max 0 o.2 + o.1 * Real.sin (radians r.alt) - zhGlob r = -o.2) := by
  obtain ⟨_, ha⟩ := zhSplit_rows rows tempDew useDisc out h
  obtain ⟨o, ho, h2, _⟩ := ha i r hr
  have hc : o.2 + o.1 * Real.sin (radians r.alt) = zhGlob r := by rw [h2]; ring
  obtain ⟨b1, _, _, b4⟩ := C10_bound_on_one_summand o.2 (o.1 * Real.sin (radians r.alt)) (zhGlob r) 0 hc
  refine ⟨o, ho, ?_, b1, ?_⟩
  · rw [h2]; constructor <;> intro hh <;> linarith
  · intro hn
    have := b4 hn
    linarith

/-- Re-balanced floor: where the sun is up, `(ghi / sin(alt), 0)` is a pair with diffuse floored at zero that
    still adds up – the direct value has to move with the floor. -/
theorem C10_rebalanced_floor (g s : ℝ) (hs : 0 < s) : (0 : ℝ) + g / s * s = g := by
  rw [div_mul_cancel₀ g hs.ne', zero_add]

/-! ### air mass -/

/-- Absolute air mass is linear in pressure and equals the relative one at 101325 Pa. -/
theorem C10_abs_airmass_linear (am p k : ℝ) :
    absoluteAirmass (some am) (k * p) = (absoluteAirmass (some am) p).map (k * ·) ∧
    absoluteAirmass (some am) 101325 = some am ∧
    absoluteAirmass (none : Option ℝ) p = none :=
  ⟨abs_linear am p k, abs_std am, rfl⟩

/-- At the zenith the `simple` (as repaired), `youngirvine1967` and `gueymard1993` formulas give
    exactly 1. -/
theorem C10_airmass_zenith_exact :
    relativeAirmass (90 : ℝ) .simple = .ok (some 1) ∧
    relativeAirmass (90 : ℝ) .youngirvine1967 = .ok (some 1) ∧
    relativeAirmass (90 : ℝ) .gueymard1993 = .ok (some 1) :=
  ⟨simple_zenith, youngirvine_zenith, gueymard_zenith⟩

/-- At the zenith `young1994` is a ratio of two rational numbers within 10⁻⁶ of 1. -/
theorem C10_airmass_zenith_young1994 :
    ∃ v : ℝ, relativeAirmass (90 : ℝ) .young1994 = .ok (some v) ∧ |v - 1| ≤ 1e-6 := young1994_zenith

/-- The `simple` model (as repaired: 1/sin of the altitude in radians) grows monotonically toward the
    horizon on (0°, 90°].  PARTIAL for the statement's "all models": the other six formulas contain
    non-integer real powers and are checked by sampling only. -/
theorem C10_airmass_simple_monotone_partial (a1 a2 : ℝ) (h0 : 0 < a1) (h : a1 ≤ a2) (h90 : a2 ≤ 90) :
    ∃ v1 v2 : ℝ, relativeAirmass a1 .simple = .ok (some v1) ∧
      relativeAirmass a2 .simple = .ok (some v2) ∧ v2 ≤ v1 ∧ 1 ≤ v2 := by
  refine ⟨_, _, simple_day a1 h0 (le_trans h h90), simple_day a2 (lt_of_lt_of_le h0 h) h90, ?_, ?_⟩
  · exact one_div_le_one_div_of_le (sin_radians_pos a1 h0 (le_trans h h90))
      (sin_radians_mono a1 a2 h0 h h90)
  · rw [le_div_iff₀ (sin_radians_pos a2 (lt_of_lt_of_le h0 h) h90)]
    linarith [Real.sin_le_one (a2 * (π / 180))]

/-! ### sky temperature -/

/-- `calc_sky_temperature` is the exact inverse of the infrared law `ε σ T⁴`: for emissivity ε > 0
    and absolute temperature T ≥ 0, `calc_sky_temperature(ε σ T⁴, ε) = T − 273.15`. -/
theorem C10_sky_temp_inverse (ε T : ℝ) (hε : 0 < ε) (hT : 0 ≤ T) :
    skyTemperature (ε * 5.6697e-8 * Transc.pow T 4.0) ε = .ok (T - 273.15) :=
  skytemp_inverse ε T hε hT

/-- Applied to `calc_horizontal_infrared`: with the sky emissivity that function used, the sky
    temperature of its result is the dry-bulb temperature it started from. -/
theorem C10_sky_temp_inverts_horizontal_infrared (sc db dp h : ℝ)
    (hh : horizontalInfrared sc db dp = .ok h) (he : 0 < skyEmissivity sc dp) (hdb : -273.15 ≤ db) :
    skyTemperature h (skyEmissivity sc dp) = .ok db := skytemp_hir sc db dp h hh he hdb

/-! ### irradiance on a surface -/

/-- An upward-facing surface (altitude 90°, any azimuth, any ground reflectance, isotropic or not)
    receives exactly the global horizontal irradiance while the sun is up: direct = DNI·sin(alt),
    sky-diffuse factor 1, reflected factor 0. -/
theorem C10_up_surface (sunAlt sunAz dnr dhr az refl : ℝ) (iso : Bool) (h0 : 0 < sunAlt)
    (h90 : sunAlt ≤ 90) :
    directional sunAlt sunAz dnr dhr 90.0 az refl iso =
      .ok (globalHorizontal sunAlt dnr dhr, directHorizontal sunAlt dnr, dhr, 0) :=
  up_surface sunAlt sunAz dnr dhr az refl iso h0 h90

/-- For every surface and sun position the total is direct + diffuse + reflected. -/
theorem C10_total_sum (sunAlt sunAz dnr dhr altitude azimuth refl : ℝ) (iso : Bool)
    (r : ℝ × ℝ × ℝ × ℝ) (h : directional sunAlt sunAz dnr dhr altitude azimuth refl iso = .ok r) :
    r.1 = r.2.1 + r.2.2.1 + r.2.2.2 := total_sum sunAlt sunAz dnr dhr altitude azimuth refl iso r h

/-- `directional_irradiance` never fails over ℝ, and a surface whose normal points at the sun
    (sun above the horizon) receives the direct normal value as its direct component. -/
theorem C10_facing_sun (sunAlt sunAz dnr dhr refl : ℝ) (iso : Bool) (h0 : 0 < sunAlt) :
    ∃ r, directional sunAlt sunAz dnr dhr sunAlt sunAz refl iso = .ok r ∧ r.2.1 = dnr :=
  facing_sun sunAlt sunAz dnr dhr refl iso h0

/-! ### histories on one object (round 3)

The stateful classes the property anchors are modelled as state machines whose state is exactly
the public state the user has established (Model/SkyObj): no hidden slot, no memo.  The real objects
are compared with these machines step by step on generated histories (reads in any order and
repeated, every setter, refused operations in between); the theorems say what that comparison
establishes for ALL histories. -/

/-- Wea, any history of reads / setters / refused operations, any read `r` afterwards: the answer is
    the answer of a FRESH Wea constructed from the public state that the accepted setters of the
    history establish (reads and refused operations dropped) — and those setters are all accepted
    again when replayed alone. -/
theorem C10_history_refines_fresh (env : WeaEnv ℝ) (o : WeaObj ℝ) (ops : List (WeaOp ℝ)) (r : WeaOp ℝ) :
    let established := (o.run env (o.accepted env ops)).1
    (((o.run env ops).1).step env r).2 =
      ((WeaObj.fresh established.loc established.enforce established.timestep established.dnr
          established.dhr).step env r).2 ∧
    ∀ out ∈ (o.run env (o.accepted env ops)).2, out = Out.unit := by
  intro established
  refine ⟨?_, WeaObj.accepted_all_unit env ops o⟩
  have h : (o.run env ops).1 = established := WeaObj.run_accepted env ops o
  rw [h]
  rfl

/-- Wea: an operation that ends in an error (a refused setter, a rejected argument, a read that fails
    half-way) leaves the state unchanged, hence every later read answers as if it had not happened. -/
theorem C10_refused_preserves (env : WeaEnv ℝ) (o : WeaObj ℝ) (op r : WeaOp ℝ) (e : HErr)
    (h : (o.step env op).2 = .err e) :
    (o.step env op).1 = o ∧ ((o.step env op).1.step env r).2 = (o.step env r).2 := by
  have hs := WeaObj.step_err env o op e h
  exact ⟨hs, by rw [hs]⟩

/-- Wea: reads do not change the state; so the answer of a read does not depend on which reads were
    made before it, nor on how often (order independence of reads). -/
theorem C10_read_pure (env : WeaEnv ℝ) (o : WeaObj ℝ) (r1 r2 : WeaOp ℝ) (h1 : r1.isRead = true) :
    (o.step env r1).1 = o ∧ ((o.step env r1).1.step env r2) = o.step env r2 := by
  have hs := WeaObj.step_read env o r1 h1
  exact ⟨hs, by rw [hs]⟩

/-- Wea, after ANY history: at every time step the global horizontal read is diffuse + direct ·
    sin(altitude) and the direct horizontal read is direct · sin(altitude), for the irradiance values
    and the sun position (location, datetime convention) of the state the history has established. -/
theorem C10_history_closure (env : WeaEnv ℝ) (o : WeaObj ℝ) (ops : List (WeaOp ℝ)) (i : Nat)
    (s : ℝ × ℝ) (dn dh : ℝ) :
    let final := (o.run env ops).1
    (final.suns env)[i]? = some s → final.dnr[i]? = some dn → final.dhr[i]? = some dh →
    (final.ghi env)[i]? = some (dh + dn * Real.sin (s.1 * (π / 180))) ∧
    (final.dirH env)[i]? = some (dn * Real.sin (s.1 * (π / 180))) := by
  intro final hs hdn hdh
  have hz : (final.dnr.zip final.dhr)[i]? = some (dn, dh) := by
    rw [List.getElem?_zip_eq_some]; exact ⟨hdn, hdh⟩
  constructor
  · unfold WeaObj.ghi
    rw [List.getElem?_zipWith, hs, hz]
    simp only [(C10_closure_wea s.1 dn dh).1]
  · unfold WeaObj.dirH
    rw [List.getElem?_zipWith, hs, hdn]
    have h1 := (C10_closure_wea s.1 dn 0).1
    have h2 := (C10_closure_wea s.1 dn 0).2
    rw [h2] at h1
    simpa using h1

/-- Wea, after ANY history: a successful `directional_irradiance(90, az, refl, iso)` read gives, at
    every step whose sun is up (altitude in (0°, 90°]), a total equal to the global horizontal read
    of the same state. -/
theorem C10_history_up_surface (env : WeaEnv ℝ) (o : WeaObj ℝ) (ops : List (WeaOp ℝ)) (az refl : ℝ)
    (iso : Bool) (out : List (ℝ × ℝ × ℝ × ℝ)) (i : Nat) (s : ℝ × ℝ) (dn dh : ℝ) :
    let final := (o.run env ops).1
    final.directional env 90.0 az refl iso = .ok out →
    (final.suns env)[i]? = some s → final.dnr[i]? = some dn → final.dhr[i]? = some dh →
    0 < s.1 → s.1 ≤ 90 →
    ∃ t, out[i]? = some t ∧ (final.ghi env)[i]? = some t.1 := by
  intro final hout hs hdn hdh h0 h90
  have hz : (final.dnr.zip final.dhr)[i]? = some (dn, dh) := by
    rw [List.getElem?_zip_eq_some]; exact ⟨hdn, hdh⟩
  unfold WeaObj.directional at hout
  obtain ⟨_, hall⟩ := mapM_ok _ _ _ hout
  have hx : (List.zipWith (fun (s : ℝ × ℝ) (p : ℝ × ℝ) => (s, p)) (final.suns env)
      (final.dnr.zip final.dhr))[i]? = some (s, (dn, dh)) := by
    rw [List.getElem?_zipWith, hs, hz]
  obtain ⟨t, ht, hf⟩ := hall i _ hx
  refine ⟨t, ht, ?_⟩
  have hup := C10_up_surface s.1 s.2 dn dh az refl iso h0 h90
  simp only at hf
  rw [hup] at hf
  injection hf with hf
  have hg : (final.ghi env)[i]? = some (globalHorizontal s.1 dn dh) := by
    unfold WeaObj.ghi
    rw [List.getElem?_zipWith, hs, hz]
  rw [hg, ← hf]

/-- Sky condition held by a design day, any history, any read afterwards: the answer is that of the
    state the accepted setters establish (reads and refused operations dropped). -/
theorem C10_sky_history_refines_fresh (env : SkyEnv ℝ) (o : SkyObj ℝ) (ops : List (SkyOp ℝ))
    (r : SkyOp ℝ) :
    (((o.run env ops).1).step env r).2 = (((o.run env (o.accepted env ops)).1).step env r).2 := by
  rw [SkyObj.run_accepted env ops o]

/-- Sky condition: an operation that ends in an error (clearness outside [0, 1.2], a non-number, a
    setter of the other sky model, a non-Location …) leaves the state — and every later read — as before. -/
theorem C10_sky_refused_preserves (env : SkyEnv ℝ) (o : SkyObj ℝ) (op r : SkyOp ℝ) (e : HErr)
    (h : (o.step env op).2 = .err e) :
    (o.step env op).1 = o ∧ ((o.step env op).1.step env r).2 = (o.step env r).2 := by
  have hs := SkyObj.step_err env o op e h
  exact ⟨hs, by rw [hs]⟩

/-- Sky condition: reads do not change the state (order independence of reads). -/
theorem C10_sky_read_pure (env : SkyEnv ℝ) (o : SkyObj ℝ) (r1 r2 : SkyOp ℝ) (h1 : r1.isRead = true) :
    (o.step env r1).1 = o ∧ ((o.step env r1).1.step env r2) = o.step env r2 := by
  have hs := SkyObj.step_read env o r1 h1
  exact ⟨hs, by rw [hs]⟩

/-- ASHRAEClearSky: whatever the history (including refused assignments), the clearness the object
    holds stays in [0, 1.2] when it started there. -/
theorem C10_sky_history_clearness (env : SkyEnv ℝ) (o : SkyObj ℝ) (ops : List (SkyOp ℝ))
    (h0 : 0 ≤ o.clearness ∧ o.clearness ≤ 1.2) :
    0 ≤ (o.run env ops).1.clearness ∧ (o.run env ops).1.clearness ≤ 1.2 := by
  have hP : ∀ v : ℝ, clearnessOk v → (0 ≤ v ∧ v ≤ 1.2) := by
    intro v hv
    unfold clearnessOk at hv
    constructor
    · have := hv.1; norm_num at this; exact this
    · exact hv.2
  exact SkyObj.run_clearness env (fun v => 0 ≤ v ∧ v ≤ 1.2) hP ops o h0

/-- … hence after ANY history on an original clear sky, at every hour with the sun up, in every month
    and on every day of the year, the direct normal value a read reports is below the
    extraterrestrial irradiance. -/
theorem C10_sky_history_le_extraterrestrial (env : SkyEnv ℝ) (o : SkyObj ℝ) (ops : List (SkyOp ℝ))
    (h0 : 0 ≤ o.clearness ∧ o.clearness ≤ 1.2) (alt doy : ℝ) (month : Int) (h1 : 1 ≤ month)
    (h12 : month ≤ 12) (ha0 : 0 < alt) (ha90 : alt ≤ 90) :
    ∃ r, designDayClearSky1 alt month (o.run env ops).1.clearness = .ok r ∧
      r.1 ≤ extraRadiation doy 1366.1 := by
  obtain ⟨hc0, hc1⟩ := C10_sky_history_clearness env o ops h0
  obtain ⟨r, hr, hle⟩ := C10_clear_sky_le_extraterrestrial alt _ doy month h1 h12 ha0 ha90 hc0 hc1
  refine ⟨(r.1, r.2, r.2 + r.1 * Transc.sin (radians alt)), ?_, hle⟩
  unfold designDayClearSky1
  rw [hr]

/-- Sky condition, after ANY history: every hour of a successful `radiation_values` /
    `hourly_solar_radiation` read satisfies global = diffuse + direct · sin(altitude) for the altitude
    of the date / daylight-savings flag / location the history has established. -/
theorem C10_sky_history_closure (env : SkyEnv ℝ) (o : SkyObj ℝ) (ops : List (SkyOp ℝ)) (k : Nat)
    (out : List (ℝ × ℝ × ℝ)) (i : Nat) (a : ℝ) :
    let final := (o.run env ops).1
    final.radiation env k = .ok out → (env.alts final.date final.dls k)[i]? = some a →
    ∃ t, out[i]? = some t ∧ t.2.2 = t.2.1 + t.1 * Real.sin (a * (π / 180)) := by
  intro final hout ha
  unfold SkyObj.radiation at hout
  obtain ⟨_, hall⟩ := mapM_ok _ _ _ hout
  obtain ⟨t, ht, hf⟩ := hall i a ha
  refine ⟨t, ht, ?_⟩
  cases hk : final.kind with
  | clear =>
    simp only [hk] at hf
    exact (C10_closure_designday_clear a _ _ t hf).1
  | tau =>
    simp only [hk] at hf
    exact (C10_closure_designday_tau a _ _ _ t hf).1

/-! ### non-vacuity: the hypotheses are satisfiable on non-trivial states -/

/-- a refused clearness exists in the model (11 is outside [0, 1.2]) and 1.1 is accepted -/
example (env : SkyEnv ℝ) :
    ((({ kind := .clear, date := 0, dls := false, clearness := 1.1, tb := 0, td := 0, use2017 := false,
         ddLoc := 0 } : SkyObj ℝ).step env (.setClearness 11)).2 = .err .assert) ∧
    ((({ kind := .clear, date := 0, dls := false, clearness := 1, tb := 0, td := 0, use2017 := false,
         ddLoc := 0 } : SkyObj ℝ).step env (.setClearness 1.1)).2 = .unit) := by
  constructor
  · simp only [SkyObj.step]
    split
    · rename_i h
      exfalso
      unfold clearnessOk at h
      norm_num at h
    · rfl
  · simp only [SkyObj.step]
    split
    · rfl
    · rename_i h
      exfalso
      apply h
      unfold clearnessOk
      norm_num

/-- a refused Wea setter (misaligned data) and an accepted location change exist in the model -/
example (env : WeaEnv ℝ) (h : env.nloc = 2) :
    (((WeaObj.fresh 0 false 1 [500, 100] [50, 10] : WeaObj ℝ).step env (.setDnr [1])).2 = .err .assert) ∧
    (((WeaObj.fresh 0 false 1 [500, 100] [50, 10] : WeaObj ℝ).step env (.setLocation 1)).1.loc = 1) := by
  constructor
  · simp [WeaObj.step, WeaObj.fresh]
  · simp [WeaObj.step, WeaObj.fresh, h]

example : ∃ r, clearSky1 (30 : ℝ) 6 1 = .ok r ∧ 0 ≤ r.1 ∧ 0 ≤ r.2 :=
  C10_clear_sky_nonneg 30 1 6 (by norm_num) (by norm_num) (by norm_num) (by norm_num) (by norm_num)

example : ∃ r1 r2, clearSky1 (10 : ℝ) 12 1.2 = .ok r1 ∧ clearSky1 (80 : ℝ) 12 1.2 = .ok r2 ∧
    r1.1 ≤ r2.1 :=
  C10_clear_sky_monotone 10 80 1.2 12 (by norm_num) (by norm_num) (by norm_num) (by norm_num)
    (by norm_num) (by norm_num)

example : ∃ r, clearSky1 (90 : ℝ) 12 1.2 = .ok r ∧ r.1 ≤ extraRadiation 185 1366.1 :=
  C10_clear_sky_le_extraterrestrial 90 1.2 185 12 (by norm_num) (by norm_num) (by norm_num)
    (by norm_num) (by norm_num) (by norm_num)

example : disc (500 : ℝ) 2.5 100 (some 101325) 0.065 3 12 = .ok (0, 0, none) :=
  C10_night_zero_disc 500 2.5 100 _ 0.065 3 12 (Or.inl (by norm_num))

example : skyTemperature ((0.8 : ℝ) * 5.6697e-8 * Transc.pow 288.15 4.0) 0.8 = .ok (288.15 - 273.15) :=
  C10_sky_temp_inverse 0.8 288.15 (by norm_num) (by norm_num)

example : directional (35 : ℝ) 140 800 120 90.0 77 0.3 false =
    .ok (globalHorizontal 35 800 120, directHorizontal 35 800, 120, 0) :=
  C10_up_surface 35 140 800 120 77 0.3 false (by norm_num) (by norm_num)

example : ∃ r, directional (35 : ℝ) 140 800 120 35 140 0.3 true = .ok r ∧ r.2.1 = 800 :=
  C10_facing_sun 35 140 800 120 0.3 true (by norm_num)

/-! Executable non-vacuity for the list-level theorems (Float instance): a DIRINT series and a
    Zhang-Huang split with one night step and one day step are defined, night step 0, day step > 0. -/
#guard (match dirint [((0.0 : Float), -5.0, 100.0, 101325.0), (500.0, 40.0, 100.0, 101325.0)] true
    (some [5.0, 5.0]) 0.065 3.0 with
  | .ok [a, b] => a == 0.0 && b > 100.0
  | _ => false)
#guard (match zhSplit [(⟨-5.0, 100.0, 3.0, 50.0, 20.0, 18.0, 2.0, 101325.0⟩ : ZRow Float),
    ⟨40.0, 100.0, 3.0, 50.0, 20.0, 18.0, 2.0, 101325.0⟩] [9.0, 9.0] false with
  | .ok [a, b] => a.1 == 0.0 && a.2 == 0.0 && b.1 > 50.0 && b.2 > 20.0
  | _ => false)


/-! ### round 4: the list level (one pass over any sequence of altitudes) -/

/-- `ashrae_clear_sky`: both result lists have one value per altitude. -/
theorem C10_clear_sky_list_shape (alts : List ℝ) (month : Int) (cl : ℝ) (dn dh : List ℝ)
    (h : clearSkyList alts month cl = .ok (dn, dh)) :
    dn.length = alts.length ∧ dh.length = alts.length :=
  pairList_length _ alts dn dh h

/-- `ashrae_clear_sky`: element `i` of each result list is the model's answer for altitude `i` ALONE
    (no dependence on the other altitudes, on the position, or on an earlier pass). -/
theorem C10_clear_sky_list_pointwise (alts : List ℝ) (month : Int) (cl : ℝ) (dn dh : List ℝ)
    (h : clearSkyList alts month cl = .ok (dn, dh)) (i : Nat) (a : ℝ) (ha : alts[i]? = some a) :
    ∃ x y, dn[i]? = some x ∧ dh[i]? = some y ∧ clearSky1 a month cl = .ok (x, y) :=
  pairList_get _ alts dn dh h i a ha

/-- `ashrae_clear_sky`: the answer for a sequence delivered in two parts is the two answers joined, list by
    list — the result depends on the numbers only, not on the container that delivers them. -/
theorem C10_clear_sky_list_append (xs zs : List ℝ) (month : Int) (cl : ℝ) :
    clearSkyList (xs ++ zs) month cl = joinPairs (clearSkyList xs month cl) (clearSkyList zs month cl) :=
  pairList_append _ xs zs

/-- Tau model: one value per altitude in both lists. -/
theorem C10_revised_list_shape (alts : List ℝ) (tb td : ℝ) (u : Bool) (dn dh : List ℝ)
    (h : revisedClearSkyList alts tb td u = .ok (dn, dh)) :
    dn.length = alts.length ∧ dh.length = alts.length :=
  pairList_length _ alts dn dh h

/-- Tau model: element `i` is the answer for altitude `i` alone — in BOTH lists (a second pass over the
    altitudes that saw nothing would leave the diffuse list short: excluded by `C10_revised_list_shape`). -/
theorem C10_revised_list_pointwise (alts : List ℝ) (tb td : ℝ) (u : Bool) (dn dh : List ℝ)
    (h : revisedClearSkyList alts tb td u = .ok (dn, dh)) (i : Nat) (a : ℝ) (ha : alts[i]? = some a) :
    ∃ x y, dn[i]? = some x ∧ dh[i]? = some y ∧ revisedClearSky1 a tb td u = .ok (x, y) :=
  pairList_get _ alts dn dh h i a ha

/-- Tau model: delivery in two parts. -/
theorem C10_revised_list_append (xs zs : List ℝ) (tb td : ℝ) (u : Bool) :
    revisedClearSkyList (xs ++ zs) tb td u =
      joinPairs (revisedClearSkyList xs tb td u) (revisedClearSkyList zs tb td u) :=
  pairList_append _ xs zs

/-- `ASHRAEClearSky.radiation_values` as three lists: equal lengths; the direct and diffuse lists ARE the
    lists of `ashrae_clear_sky` on the same altitudes (building the global list leaves the diffuse list as
    it was); and element by element global = diffuse + direct·sin(altitude). -/
theorem C10_sky_list_closure_clear (alts : List ℝ) (month : Int) (cl : ℝ) (dn dh gh : List ℝ)
    (h : designDayClearSkyList alts month cl = .ok (dn, dh, gh)) :
    (dn.length = alts.length ∧ dh.length = alts.length ∧ gh.length = alts.length) ∧
    clearSkyList alts month cl = .ok (dn, dh) ∧
    ∀ (i : Nat) (a : ℝ), alts[i]? = some a → ∃ x y z, dn[i]? = some x ∧ dh[i]? = some y ∧ gh[i]? = some z ∧
      z = y + x * Real.sin (a * (π / 180)) := by
  refine ⟨tripleList_length _ alts dn dh gh h, ?_, ?_⟩
  · obtain ⟨rs, hm, rfl, rfl, rfl⟩ := tripleList_ok _ alts dn dh gh h
    have hp := tripleList_pair (fun a => designDayClearSky1 a month cl) (fun a => clearSky1 a month cl)
      (fun a r hr => (designday_closure a cl month r hr).2) alts rs hm
    unfold clearSkyList pairList
    rw [hp]
    simp
  · intro i a ha
    obtain ⟨x, y, z, hx, hy, hz, hf⟩ := tripleList_get _ alts dn dh gh h i a ha
    exact ⟨x, y, z, hx, hy, hz, (designday_closure a cl month (x, y, z) hf).1⟩

/-- `ASHRAETau.radiation_values` as three lists: the same three facts for the sibling class. -/
theorem C10_sky_list_closure_tau (alts : List ℝ) (tb td : ℝ) (u : Bool) (dn dh gh : List ℝ)
    (h : designDayTauList alts tb td u = .ok (dn, dh, gh)) :
    (dn.length = alts.length ∧ dh.length = alts.length ∧ gh.length = alts.length) ∧
    revisedClearSkyList alts tb td u = .ok (dn, dh) ∧
    ∀ (i : Nat) (a : ℝ), alts[i]? = some a → ∃ x y z, dn[i]? = some x ∧ dh[i]? = some y ∧ gh[i]? = some z ∧
      z = y + x * Real.sin (a * (π / 180)) := by
  refine ⟨tripleList_length _ alts dn dh gh h, ?_, ?_⟩
  · obtain ⟨rs, hm, rfl, rfl, rfl⟩ := tripleList_ok _ alts dn dh gh h
    have hp := tripleList_pair (fun a => designDayTau1 a tb td u) (fun a => revisedClearSky1 a tb td u)
      (fun a r hr => (designday_tau_closure a tb td u r hr).2) alts rs hm
    unfold revisedClearSkyList pairList
    rw [hp]
    simp
  · intro i a ha
    obtain ⟨x, y, z, hx, hy, hz, hf⟩ := tripleList_get _ alts dn dh gh h i a ha
    exact ⟨x, y, z, hx, hy, hz, (designday_tau_closure a tb td u (x, y, z) hf).1⟩

/-- Sibling sky classes agree where the statement makes them agree: with the sun at or below the horizon at
    every step, BOTH classes return three lists of zeros of the same length (for any month, clearness,
    optical depths, model year). -/
theorem C10_sky_list_night_siblings (alts : List ℝ) (month : Int) (cl tb td : ℝ) (u : Bool)
    (hn : ∀ a ∈ alts, a ≤ 0) :
    designDayClearSkyList alts month cl = .ok (alts.map fun _ => 0, alts.map fun _ => 0, alts.map fun _ => 0) ∧
    designDayTauList alts tb td u = designDayClearSkyList alts month cl := by
  have h1 : mapE (fun a => designDayClearSky1 a month cl) alts = .ok (alts.map fun _ => ((0 : ℝ), (0 : ℝ), (0 : ℝ))) := by
    apply mapE_of_forall
    intro a ha
    simp only [designDayClearSky1, night_clear_sky a cl month (hn a ha)]
    simp
  have h2 : mapE (fun a => designDayTau1 a tb td u) alts = .ok (alts.map fun _ => ((0 : ℝ), (0 : ℝ), (0 : ℝ))) := by
    apply mapE_of_forall
    intro a ha
    simp only [designDayTau1, night_revised a tb td u (hn a ha)]
    simp
  constructor
  · unfold designDayClearSkyList tripleList
    rw [h1]
    simp [Function.comp_def]
  · unfold designDayTauList designDayClearSkyList tripleList
    rw [h1, h2]

example : clearSkyList ([] : List ℝ) 6 1 = .ok ([], []) := rfl
example : joinPairs (.ok ([(1 : ℝ)], [2])) (.ok ([3], [4])) = .ok ([1, 3], [2, 4]) := rfl
example : ∃ r, designDayClearSkyList [(-1 : ℝ), 0] 6 1 = .ok r :=
  ⟨_, (C10_sky_list_night_siblings [(-1 : ℝ), 0] 6 1 0.4 2 false
    (by intro a ha; simp at ha; rcases ha with rfl | rfl <;> norm_num)).1⟩

/-! ### round 4: the branches of the case splits -/

/-- The Perez sky-clearness categories of `estimate_illuminance_from_irradiance`: below 1 the code raises
    (`none`), from 1 on exactly one of the eight categories is taken, and the category is the interval the
    value lies in (each boundary belongs to the UPPER category). -/
theorem C10_eps_category_branches (eps : ℝ) :
    (eps < 1 → epsCategory eps = none) ∧
    (1 ≤ eps → ∃ k, k < 8 ∧ epsCategory eps = some k) ∧
    (1 ≤ eps → eps < 1.065 → epsCategory eps = some 0) ∧
    (1.065 ≤ eps → eps < 1.23 → epsCategory eps = some 1) ∧
    (1.23 ≤ eps → eps < 1.5 → epsCategory eps = some 2) ∧
    (1.5 ≤ eps → eps < 1.95 → epsCategory eps = some 3) ∧
    (1.95 ≤ eps → eps < 2.8 → epsCategory eps = some 4) ∧
    (2.8 ≤ eps → eps < 4.5 → epsCategory eps = some 5) ∧
    (4.5 ≤ eps → eps < 6.2 → epsCategory eps = some 6) ∧
    (6.2 ≤ eps → epsCategory eps = some 7) := by
  unfold epsCategory
  norm_num
  refine ⟨?_, ?_, ?_, ?_, ?_, ?_, ?_, ?_, ?_, ?_⟩ <;> intros <;> (repeat' split) <;> grind

example : epsCategory (1.065 : ℝ) = some 1 := (C10_eps_category_branches 1.065).2.2.2.1 le_rfl (by norm_num)

/-- The altitude bins of DIRINT: every altitude up to 90° falls in exactly one of the bins 0..5 (bin 5 also
    takes everything at or below 10°, the night included); above 90° the marker −1 (Python: the LAST row). -/
theorem C10_alt_bin_branches (a : ℝ) :
    (a ≤ 90 → 0 ≤ altBin a ∧ altBin a ≤ 5) ∧ (90 < a → altBin a = -1) ∧
    (a ≤ 10 → altBin a = 5) ∧ (65 < a → a ≤ 90 → altBin a = 0) := by
  unfold altBin
  norm_num
  refine ⟨?_, ?_, ?_, ?_⟩ <;> intros <;> (repeat' split) <;> grind

example : altBin (10 : ℝ) = 5 := (C10_alt_bin_branches 10).2.2.1 le_rfl

end Sky
