/-
  C01 — EPW files survive a read/write cycle and keep the file's hour convention.
  Property theorems only (helper lemmas: Proofs/C01Lemmas.lean).  Core Lean, no Mathlib.
  The model (Model/Epw.lean) is tied to ladybug/epw.py by Gen/EpwFields (translator) and by the
  correspondence ops of Drv/C01.lean (harness/props/c01.py).
-/
import Ladybug.Proofs.C01Lemmas
import Ladybug.Proofs.C01Header
import Ladybug.Proofs.C01Obj
import Ladybug.Proofs.C01Lines
import Ladybug.Props.C08

namespace Epw

/-! ### The regenerated field table -/

/-- The table has the 35 EPW fields, and the fields that are *not* rotated on import are exactly
    9 (atmospheric pressure), 10, 11, 13..19 (radiation, illuminance, zenith luminance).
    Partial with respect to the statement: field 9 is a point-in-time quantity of the EPW format
    (see `C01_flags_pressure_counterexample`); a changed flag of any field breaks this theorem. -/
theorem C01_flags_partial :
    Gen.EpwFields.count = 35 ∧ Gen.EpwFields.pointInTime.length = 35 ∧ Gen.EpwFields.valueType.length = 35 ∧
    (List.range 35).filter (fun k => !pit k) = [9, 10, 11, 13, 14, 15, 16, 17, 18, 19] := by
  decide

/-- The radiation and illuminance fields keep their row position; every field of the date/time stamp,
    the temperatures, humidity, wind, sky cover ... is rotated. -/
theorem C01_flags_radiation : ∀ k ∈ [10, 11, 13, 14, 15, 16, 17, 18, 19], pit k = false := by decide

theorem C01_flags_point_in_time :
    ∀ k ∈ [0, 1, 2, 3, 4, 5, 6, 7, 8, 12, 20, 21, 22, 23, 24, 25, 26, 27, 28, 29, 30, 31, 32, 33, 34], pit k = true := by
  decide

/-- Atmospheric station pressure ("at the time indicated" in the EPW format) is not treated as
    point-in-time by the code: its values stay at the row position (recorded finding
    C01-pressure-not-point-in-time). -/
theorem C01_flags_pressure_counterexample : pit 9 = false ∧ Gen.EpwFields.dataType[9]? = some "AtmosphericStationPressure" := by
  decide

/-! ### Rotation -/

/-- The rotation applied on import and the one applied while writing are mutually inverse on every list
    (any length, any values). -/
theorem C01_rot_inverse {α : Type} (l : List α) : unrot (rot l) = l ∧ rot (unrot l) = l :=
  ⟨unrot_rot l, rot_unrot l⟩

example : unrot (rot [1, 2, 3]) = [1, 2, 3] ∧ rot [1, 2, 3] = [3, 1, 2] := by decide

/-- Column level of write ∘ read: un-rotating the flagged columns of what the import stored gives back
    the columns as parsed, for any flags and any table. -/
theorem C01_columns_roundtrip {α : Type} (flag : Nat → Bool) (cols : List (List α)) :
    onFlagged flag unrot (onFlagged flag rot cols) = cols ∧ onFlagged flag rot (onFlagged flag unrot cols) = cols :=
  ⟨onFlagged_comp flag unrot rot unrot_rot cols, onFlagged_comp flag rot unrot rot_unrot cols⟩

/-! ### Writing leaves the object as it was -/

/-- The `try`/`finally` of `to_file_string` leaves the columns exactly as they were, whether the rows were
    produced or the ValueError for a too-short column was raised; any flags, any column lengths. -/
theorem C01_writeBody_restores {Tok Val : Type} (c : Codec Tok Val) (flag : Nat → Bool) (leap : Bool)
    (cols : List (List Val)) : (writeBody c flag leap cols).2 = cols := by
  simp only [writeBody]
  exact onFlagged_comp flag rot unrot rot_unrot cols

/-- A column that is too short makes the write fail (ValueError) – and by `C01_writeBody_restores` the
    object is nevertheless unchanged. -/
theorem C01_writeBody_short_fails {Tok Val : Type} (c : Codec Tok Val) (flag : Nat → Bool) (leap : Bool)
    (cols : List (List Val)) (k : Nat) (hk : k < cols.length) (hs : cols[k].length < hoursInYear leap) :
    (writeBody c flag leap cols).1 = .error .value := by
  simp only [writeBody]
  rw [if_neg]
  intro hall
  rw [List.all_eq_true] at hall
  have hk' : k < (onFlagged flag unrot cols).length := by simp [onFlagged, hk]
  have := hall _ (List.getElem_mem hk')
  rw [onFlagged_getElem flag unrot cols k hk] at this
  by_cases hf : flag k = true
  · simp [hf, unrot_length] at this; omega
  · simp [hf] at this; omega

example : (writeBody idc (fun _ => true) false [[1, 2, 3]]).1 = .error .value ∧
    (writeBody idc (fun _ => true) false [[1, 2, 3]]).2 = [[1, 2, 3]] := by
  constructor
  · exact C01_writeBody_short_fails _ _ _ _ 0 (by decide) (by decide)
  · exact C01_writeBody_restores _ _ _ _
where idc : Codec Nat Nat := ⟨fun _ t => some t, id⟩

theorem convCols_comp {Val : Type} (f g : Nat → Val → Val) (cols : List (List Val)) :
    convCols f (convCols g cols) = convCols (fun k v => f k (g k v)) cols := by
  apply List.ext_getElem
  · simp [convCols]
  · intro i h1 h2
    simp [convCols]

theorem convCols_id {Val : Type} (f : Nat → Val → Val) (h : ∀ k v, f k v = v) (cols : List (List Val)) :
    convCols f cols = cols := by
  apply List.ext_getElem
  · simp [convCols]
  · intro i h1 h2
    have hf : f i = id := funext (h i)
    simp [convCols, hf]

/-- `to_file_string` never changes the object: for an SI object the state afterwards *is* the state before;
    for an IP object the columns went IP → SI → IP, i.e. every value `v` became `toIp (toSi v)` and nothing
    else changed – on the success path and on the exception path alike (the function returns both). -/
theorem C01_write_restores {Tok Val : Type} (c : Codec Tok Val) (flag : Nat → Bool) (cv : Conv Val) (s : St Val) :
    (s.toFileString c flag cv).2 =
      if s.isIp then { s with cols := convCols (fun k v => cv.toIp k (cv.toSi k v)) s.cols } else s := by
  cases s with
  | mk hl dl ip lp nf cols =>
    cases ip
    · simp [St.toFileString, St.toSi, C01_writeBody_restores]
    · simp [St.toFileString, St.toSi, St.toIp, C01_writeBody_restores, convCols_comp]

/-- With C06's round trip (`toIp (toSi v) = v` on the values held) the IP object is exactly restored. -/
theorem C01_write_restores_exact {Tok Val : Type} (c : Codec Tok Val) (flag : Nat → Bool) (cv : Conv Val)
    (s : St Val) (hrt : ∀ k v, cv.toIp k (cv.toSi k v) = v) : (s.toFileString c flag cv).2 = s := by
  rw [C01_write_restores]
  cases s with
  | mk hl dl ip lp nf cols =>
    cases ip
    · simp
    · simp [convCols_id _ hrt]

/-- Same for `to_wea` (as repaired: restore in `finally`), also when a requested hour does not exist. -/
theorem C01_wea_restores {Val : Type} (cv : Conv Val) (hoys : Option (List Nat)) (s : St Val)
    (hrt : ∀ k v, cv.toIp k (cv.toSi k v) = v) : (s.toWea cv hoys).2 = s := by
  cases s with
  | mk hl dl ip lp nf cols =>
    cases ip
    · simp [St.toWea, St.toSi]
    · simp [St.toWea, St.toSi, St.toIp, convCols_comp, convCols_id _ hrt]

/-! ### write ∘ read -/

/-- A parsed row has exactly `nf` cells and prints as the canonical form of the row's first `nf` tokens. -/
theorem parseRow_ok {Tok Val : Type} (c : Codec Tok Val) (nf : Nat) (row : List Tok) (vals : List Val)
    (h : parseRow c nf row = .ok vals) : vals.length = nf ∧ canonRow c nf row = vals.map c.shw := by
  unfold parseRow at h
  refine ⟨by rw [mapE_length h]; simp, ?_⟩
  have hm := mapE_map_eq (g := fun k => (row[k]?.bind (c.parse k)).map c.shw) (h := fun v => some (c.shw v))
    (fun k v hk => by
      unfold cellAt at hk
      cases hr : row[k]? with
      | none => simp [hr] at hk
      | some t =>
        cases hp : c.parse k t with
        | none => simp [hr, hp] at hk
        | some w =>
          simp only [hr, hp, Except.ok.injEq] at hk
          simp [hp, hk]) h
  unfold canonRow
  have : ∀ (l : List Nat) (g : Nat → Option Tok), l.filterMap g = (l.map g).filterMap id := by
    intro l g; rw [List.filterMap_map]; rfl
  rw [this, hm, List.filterMap_map]
  simp

/-- **write ∘ read is the canonicalisation, row for row.**  If the data rows parse into a table of one
    year's length (8760 or 8784 rows, or any `N`), then writing what the import stored (the parsed table,
    transposed into columns, point-in-time columns rotated) yields exactly the same rows in the same
    order, each cell printed from its parsed value – no cell moved, dropped or duplicated, for any flags. -/
theorem C01_write_read_canon {Tok Val : Type} (c : Codec Tok Val) (flag : Nat → Bool) (leap : Bool) (nf : Nat)
    (rows : List (List Tok)) (tbl : List (List Val))
    (hp : mapE (parseRow c nf) rows = .ok tbl) (hN : tbl.length = hoursInYear leap) :
    (writeBody c flag leap (onFlagged flag rot (transp nf tbl))).1 = .ok (rows.map (canonRow c nf)) := by
  have hrect : ∀ row ∈ tbl, row.length = nf :=
    mapE_all (P := fun v => v.length = nf) (fun a b hab => (parseRow_ok c nf a b hab).1) hp
  simp only [writeBody]
  rw [onFlagged_comp flag unrot rot unrot_rot]
  have hall : (transp nf tbl).all (fun col => hoursInYear leap ≤ col.length) = true := by
    rw [List.all_eq_true]
    intro col hcol
    have := transp_col_length tbl nf hrect col hcol
    simp [this, hN]
  rw [if_pos hall, ← hN, transp_transp tbl tbl.length nf rfl hrect]
  congr 1
  exact (mapE_map_eq (g := canonRow c nf) (h := fun v => v.map c.shw)
    (fun a b hab => (parseRow_ok c nf a b hab).2) hp).symm

/-- The canonical form of a canonical row is itself (with a lawful codec), so canonical files are
    reproduced cell for cell and write-read-write gives the same text as write. -/
theorem C01_canonRow_idem {Tok Val : Type} (c : Codec Tok Val) (hc : c.Lawful) (nf : Nat) (row : List Tok)
    (vals : List Val) (h : parseRow c nf row = .ok vals) :
    parseRow c nf (canonRow c nf row) = .ok vals := by
  obtain ⟨hlen, hcan⟩ := parseRow_ok c nf row vals h
  rw [hcan]
  unfold parseRow at h ⊢
  -- cell k of the printed row parses back to cell k of the values
  have key : ∀ k, k ∈ List.range nf → cellAt c (vals.map c.shw) k = cellAt c row k := by
    intro k hk
    rw [List.mem_range] at hk
    have hk' : k < vals.length := by omega
    have hcell := mapE_map_eq (g := fun k => (row[k]?.bind (c.parse k))) (h := fun v => some v)
      (fun k v hkv => by
        unfold cellAt at hkv
        cases hr : row[k]? with
        | none => simp [hr] at hkv
        | some t =>
          cases hp : c.parse k t with
          | none => simp [hr, hp] at hkv
          | some w => simp only [hr, hp, Except.ok.injEq] at hkv; simp [hp, hkv]) h
    have hkth : (row[k]?.bind (c.parse k)) = some vals[k] := by
      have := congrArg (fun l => l[k]?) hcell
      simp only [List.getElem?_map, List.getElem?_range hk, Option.map_some,
        List.getElem?_eq_getElem hk'] at this
      exact Option.some.inj this
    unfold cellAt
    cases hr : row[k]? with
    | none => simp [hr] at hkth
    | some t =>
      simp only [hr, Option.bind_some] at hkth
      have hlaw := hc k t vals[k] hkth
      simp [List.getElem?_eq_getElem hk', hlaw, hkth]
  -- mapE over the same index list with pointwise equal functions
  have hcongr : ∀ (l : List Nat) (f g : Nat → Except Err Val), (∀ k ∈ l, f k = g k) → mapE f l = mapE g l := by
    intro l f g hfg
    induction l with
    | nil => rfl
    | cons a l ih =>
      simp only [mapE, hfg a (by simp), ih (fun k hk => hfg k (by simp [hk]))]
  rw [hcongr _ _ _ key]
  exact h

/-- **Fixed point.**  Reading the rows that were written gives the same table again, and writing that
    gives the same rows again: write(read(write(read t))) = write(read t), for 8760, 8784 or any number of rows. -/
theorem C01_write_fixed_point {Tok Val : Type} (c : Codec Tok Val) (hc : c.Lawful) (flag : Nat → Bool)
    (leap : Bool) (nf : Nat) (rows : List (List Tok)) (tbl : List (List Val))
    (hp : mapE (parseRow c nf) rows = .ok tbl) (hN : tbl.length = hoursInYear leap) :
    let written := rows.map (canonRow c nf)
    mapE (parseRow c nf) written = .ok tbl ∧
    (writeBody c flag leap (onFlagged flag rot (transp nf tbl))).1 = .ok written ∧
    written.map (canonRow c nf) = written := by
  have hre : ∀ (rows : List (List Tok)) (tbl : List (List Val)), mapE (parseRow c nf) rows = .ok tbl →
      mapE (parseRow c nf) (rows.map (canonRow c nf)) = .ok tbl := by
    intro rows
    induction rows with
    | nil => intro tbl h; simpa [mapE] using h
    | cons r rs ih =>
      intro tbl h
      simp only [mapE] at h
      split at h
      · cases h
      · rename_i v hv
        split at h
        · cases h
        · rename_i vs hvs
          cases h
          simp only [List.map_cons, mapE, C01_canonRow_idem c hc nf r v hv, ih vs hvs]
  refine ⟨hre rows tbl hp, C01_write_read_canon c flag leap nf rows tbl hp hN, ?_⟩
  have h1 := mapE_map_eq (g := canonRow c nf) (h := fun v => v.map c.shw)
    (fun a b hab => (parseRow_ok c nf a b hab).2) hp
  have h2 := mapE_map_eq (g := canonRow c nf) (h := fun v => v.map c.shw)
    (fun a b hab => (parseRow_ok c nf a b hab).2) (hre rows tbl hp)
  rw [h2, h1]

/-- **What `importBody` stores** is exactly the composition the round-trip theorems are stated on: the
    non-blank lines parsed row by row, transposed into `nf` columns, flagged columns rotated; `nf` is the
    width of the first line capped at 35, the leap flag the header's or the 8784-line test, and (for
    `nf > 0`) the row count is the year's. -/
theorem C01_importBody_spec {Tok Val : Type} (c : Codec Tok Val) (flag : Nat → Bool) (lh : Option Bool)
    (lines : List (Option (List Tok))) (b : Body Val) (h : importBody c flag lh lines = .ok b) :
    ∃ l0 tbl, lines.head? = some l0 ∧ b.nf = nfOfFirst l0 ∧ b.leap = leapOf lh lines.length ∧
      mapE (parseRow c b.nf) (lines.filterMap id) = .ok tbl ∧
      b.cols = onFlagged flag rot (transp b.nf tbl) ∧ (b.nf = 0 ∨ tbl.length = hoursInYear b.leap) := by
  unfold importBody at h
  split at h
  · cases h
  · rename_i l0 rest
    split at h
    · cases h
    · rename_i tbl htbl
      split at h
      · cases h
      · split at h
        · rename_i hcond
          cases h
          exact ⟨l0, tbl, rfl, rfl, rfl, htbl, rfl, hcond⟩
        · cases h

/-- **read then write, on `importBody` itself**: whatever `importBody` accepts (with at least one field)
    is written back as the canonical form of the non-blank lines, row for row. -/
theorem C01_importBody_write {Tok Val : Type} (c : Codec Tok Val) (flag : Nat → Bool) (lh : Option Bool)
    (lines : List (Option (List Tok))) (b : Body Val) (h : importBody c flag lh lines = .ok b)
    (hnf : 0 < b.nf) :
    (writeBody c flag b.leap b.cols).1 = .ok ((lines.filterMap id).map (canonRow c b.nf)) ∧
    (writeBody c flag b.leap b.cols).2 = b.cols := by
  obtain ⟨l0, tbl, _, _, _, hp, hcols, hlen⟩ := C01_importBody_spec c flag lh lines b h
  have hN : tbl.length = hoursInYear b.leap := by
    rcases hlen with h0 | h1
    · omega
    · exact h1
  refine ⟨?_, C01_writeBody_restores c flag b.leap b.cols⟩
  rw [hcols]
  exact C01_write_read_canon c flag b.leap b.nf _ tbl hp hN

/-- **read ∘ write ∘ read = read, on `importBody` itself**: importing the rows that were written from an
    imported body (with the leap flag the written header carries) gives the identical body – the same field
    count, leap flag and all columns, value for value.  Needs the codec law `parse (str v) = v`. -/
theorem C01_read_write_read {Tok Val : Type} (c : Codec Tok Val) (hc : c.Lawful) (flag : Nat → Bool)
    (lh : Option Bool) (lines : List (Option (List Tok))) (b : Body Val)
    (h : importBody c flag lh lines = .ok b) (hnf : 0 < b.nf) :
    importBody c flag (some b.leap) (((lines.filterMap id).map (canonRow c b.nf)).map some) = .ok b := by
  obtain ⟨l0, tbl, hhead, hnfeq, _, hp, hcols, hlen⟩ := C01_importBody_spec c flag lh lines b h
  have hN : tbl.length = hoursInYear b.leap := by
    rcases hlen with h0 | h1
    · omega
    · exact h1
  have hre := (C01_write_fixed_point c hc flag b.leap b.nf _ tbl hp hN).1
  have hrows : (lines.filterMap id).length = tbl.length := (mapE_length hp).symm
  have hpos : 0 < hoursInYear b.leap := by cases b.leap <;> decide
  have hle : b.nf ≤ 35 := by
    rw [hnfeq]; unfold nfOfFirst; cases l0 <;> simp <;> omega
  -- the first written row
  cases hrs : lines.filterMap id with
  | nil => rw [hrs] at hrows; simp at hrows; omega
  | cons r0 rs =>
    rw [hrs] at hre hp
    -- its width is the field count
    have hw0 : (canonRow c b.nf r0).length = b.nf := by
      simp only [mapE] at hp
      split at hp
      · cases hp
      · rename_i v hv
        obtain ⟨hl, hcan⟩ := parseRow_ok c b.nf r0 v hv
        rw [hcan]; simp [hl]
    have hfm : ∀ (l : List (List Tok)), (l.map some).filterMap id = l := by
      intro l; induction l with
      | nil => rfl
      | cons a l ih => simp [ih]
    unfold importBody
    simp only [List.map_cons]
    have hnf0 : nfOfFirst (some (canonRow c b.nf r0)) = b.nf := by
      unfold nfOfFirst; simp only [hw0]; omega
    have hfm' : (some (canonRow c b.nf r0) :: (rs.map (canonRow c b.nf)).map some).filterMap id =
        canonRow c b.nf r0 :: rs.map (canonRow c b.nf) := by
      have := hfm (canonRow c b.nf r0 :: rs.map (canonRow c b.nf))
      simpa using this
    simp only [hnf0, hfm']
    simp only [List.map_cons] at hre
    rw [hre]
    have hne : tbl.isEmpty = false := by
      cases tbl with
      | nil => simp at hN; omega
      | cons _ _ => rfl
    simp only [hne, Bool.false_and, Bool.false_eq_true, if_false, leapOf, hN, or_true, if_true]
    cases b
    simp_all

/-- Non-vacuity of the row-level ingredients (a row with a surplus cell: only the first `nf` are kept). -/
example : parseRow (⟨fun _ t => some (t + 100), fun v => v - 100⟩ : Codec Nat Nat) 2 [5, 6, 7] = .ok [105, 106] ∧
    canonRow (⟨fun _ t => some (t + 100), fun v => v - 100⟩ : Codec Nat Nat) 2 [5, 6, 7] = [5, 6] := by decide

/-! ### Header: parse ∘ regenerate -/

/-- Line 1 as `header` writes it back unchanged: a city without `\\` or `/` (they are replaced by blanks on
    import), latitude / longitude present (the empty token is stored as the int 0 and written "0"), and
    number tokens that `float` reads back (codec law, stated for the tokens of this line), within the
    ranges `Location` asserts. -/
structure Loc.Canonical {F : Type} (nc : NumCodec F) (l : Loc F) : Prop where
  city : replaceSep l.city = l.city
  lat : ∃ a, l.lat = some a ∧ nc.sf a ≠ "" ∧ nc.pf (nc.sf a) = some a ∧ nc.within a (-90) 90 = true
  lon : ∃ a, l.lon = some a ∧ nc.sf a ≠ "" ∧ nc.pf (nc.sf a) = some a ∧ nc.within a (-180) 180 = true
  tz : nc.pf (nc.sf l.tz) = some l.tz ∧ nc.within l.tz (-12) 14 = true
  elev : nc.pf (nc.sf l.elev) = some l.elev

/-- **Line 1 (location).** -/
theorem C01_header_location {F : Type} (nc : NumCodec F) (l : Loc F) (hl : l.Canonical nc) :
    parseLoc nc (renderLoc nc l) = .ok l := by
  obtain ⟨city, state, country, source, station, lat, lon, tz, elev⟩ := l
  obtain ⟨hc, ⟨a, ha, ha1, ha2, ha3⟩, ⟨b, hb, hb1, hb2, hb3⟩, ⟨ht1, ht2⟩, he⟩ := hl
  simp only at hc ha hb ht1 ht2 he
  subst ha hb
  simp [parseLoc, renderLoc, showOptNum, parseOptNum, optWithin, ha1, ha2, ha3, hb1, hb2, hb3, ht1, ht2, he, hc]

/-- **Line 2 (design conditions), both key layouts and the absent case.**  Side condition: the three
    dictionaries are all absent, or all complete in the file's key order (`Design.Canonical`). -/
theorem C01_header_design {F : Type} (nc : NumCodec F) (h1 : nc.pi "1" = some 1) (h0 : nc.pi "0" = some 0)
    (d : Design) (hd : d.Canonical) : ∃ t, renderDesign d = .ok t ∧ parseDesign nc t = .ok d :=
  design_roundtrip nc h1 h0 d hd

/-- **Line 3 (typical / extreme weeks)**: any number of hot (`Max`), cold (`Min`) and typical weeks with
    distinct names, typical ones in sorted order (the order `header` writes). -/
theorem C01_header_weeks {F : Type} (nc : NumCodec F) (w : Weeks) (hw : w.Canonical nc) :
    parseWeeks nc (renderWeeks nc w) = .ok w := weeks_roundtrip nc w hw

/-- **Line 4 (ground temperatures)**: any number of distinct depths in increasing order.  Side condition
    (`GroundOk`): every monthly value is one that `'%.2f'` prints without loss. -/
theorem C01_header_ground {F : Type} [DecidableEq F] (nc : NumCodec F) (lt : F → F → Bool) (gs : List (Ground F))
    (hg : GroundCanonical nc lt gs) : parseGround nc (renderGround nc lt gs) = .ok gs :=
  ground_roundtrip nc lt gs hg

/-- **Line 5 (leap flag, daylight-saving fields).**  Side condition: the leap flag is known (the code's
    `None`, left by a header whose field is neither Yes nor No, is written "No"). -/
theorem C01_header_leap (b : Bool) (ds de : String) :
    parseLeap (renderLeap (some b) ds de) = .ok (some b, ds, de) := by
  have e1 : ("Yes" == "Yes") = true := by decide
  have e2 : ("No" == "Yes") = false := by decide
  have e3 : ("No" == "No") = true := by decide
  cases b <;> simp [parseLeap, renderLeap, e1, e2, e3]

/-- **Lines 6, 7 (comments, commas included: the tokens after the tag).** -/
theorem C01_header_comments (tag : String) (c : List String) (hc : c ≠ []) : parseComments (tag :: c) = c := by
  simp [parseComments, hc]

/-- A header that `EPW.header` regenerates without loss. -/
structure Hdr.Canonical {F : Type} (nc : NumCodec F) (lt : F → F → Bool) (h : Hdr F) : Prop where
  loc : h.loc.Canonical nc
  des : h.des.Canonical
  weeks : h.weeks.Canonical nc
  ground : GroundCanonical nc lt h.ground
  leap : h.leap ≠ none
  c1 : h.comments1 ≠ []
  c2 : h.comments2 ≠ []
  one : nc.pi "1" = some 1
  zero : nc.pi "0" = some 0

/-- **Header round trip: `parseHeader (renderHeader h) = h`** for the eight lines – location, design
    conditions (2009 layout, 2021 layout, absent), 0..n typical / extreme weeks, 0..n ground depths, leap
    flag and daylight-saving fields, both comment lines with commas, data periods (constant, not parsed) –
    at token level (`split(',')` / `','.join` are the trusted base), numbers being opaque tokens whose
    codec laws are required only for the tokens that occur.  The side conditions are exactly
    `Hdr.Canonical`; outside them the code loses information (see the two counterexamples). -/
theorem C01_header_roundtrip {F : Type} [DecidableEq F] (nc : NumCodec F) (lt : F → F → Bool) (h : Hdr F)
    (hc : h.Canonical nc lt) :
    ∃ ls, renderHeader nc lt h = .ok ls ∧ ls.length = 8 ∧ parseHeader nc ls = .ok h := by
  obtain ⟨t, ht1, ht2⟩ := design_roundtrip nc hc.one hc.zero h.des hc.des
  refine ⟨[renderLoc nc h.loc, t, renderWeeks nc h.weeks, renderGround nc lt h.ground,
    renderLeap h.leap h.dstStart h.dstEnd, "COMMENTS 1" :: h.comments1, "COMMENTS 2" :: h.comments2, dataPeriods],
    by simp only [renderHeader, ht1], rfl, ?_⟩
  obtain ⟨b, hb⟩ : ∃ b, h.leap = some b := by
    cases hl : h.leap with
    | none => exact absurd hl hc.leap
    | some b => exact ⟨b, rfl⟩
  simp only [parseHeader, C01_header_location nc h.loc hc.loc, ht2, weeks_roundtrip nc h.weeks hc.weeks,
    ground_roundtrip nc lt h.ground hc.ground, hb, C01_header_leap, C01_header_comments _ _ hc.c1,
    C01_header_comments _ _ hc.c2]
  cases h
  simp_all

/-- Regenerating twice gives the same lines: the header text is a fixed point. -/
theorem C01_header_fixed_point {F : Type} [DecidableEq F] (nc : NumCodec F) (lt : F → F → Bool) (h : Hdr F)
    (hc : h.Canonical nc lt) :
    ∃ ls, renderHeader nc lt h = .ok ls ∧ ∃ h', parseHeader nc ls = .ok h' ∧ renderHeader nc lt h' = .ok ls := by
  obtain ⟨ls, h1, _, h2⟩ := C01_header_roundtrip nc lt h hc
  exact ⟨ls, h1, h, h2, h1⟩

/-- Non-vacuity of `C01_header_roundtrip`: a concrete header in the driver's decimal codec (2009 design
    conditions, four weeks incl. a year-wrapping one, two ground depths, comments with a comma) satisfies
    every side condition; all codec facts are evaluated in the kernel. -/
def exampleHdr : Hdr (Bool × Nat × Int) where
  loc := ⟨"Chicago Ohare Intl Ap", "IL", "USA", "TMY3", "725300", some (false, 4198, -2), some (true, 8792, -2),
          (true, 6, 0), (false, 201, 0)⟩
  des := ⟨true, Gen.DD.heatingKeys.zip (List.replicate 15 "-20.1"), Gen.DD.coolingKeys.zip (List.replicate 32 "7"),
          Gen.DD.extremeKeys.zip (List.replicate 16 "x")⟩
  weeks := ⟨[("Summer - Week Nearest Max Temperature For Period", ⟨7, 13, 7, 19⟩)],
            [("Winter - Week Nearest Min Temperature For Period", ⟨12, 29, 1, 4⟩)],
            [("Autumn - Week Nearest Average Temperature For Period", ⟨10, 20, 10, 26⟩),
             ("Spring - Week Nearest Average Temperature For Period", ⟨4, 19, 4, 25⟩)]⟩
  ground := [⟨(false, 5, -1), "", "", "", List.replicate 12 (true, 189, -2)⟩,
             ⟨(false, 2, 0), "1.2", "", "", List.replicate 12 (false, 172, -1)⟩]
  leap := some false
  dstStart := "0"
  dstEnd := "0"
  comments1 := ["Custom/User Format -- WMO#725300; NREL TMY Data Set (2008)", " with a comma"]
  comments2 := [""]

theorem exampleHdr_canonical : exampleHdr.Canonical decNum decLt where
  loc := ⟨by decide +kernel, ⟨_, rfl, by decide +kernel, by decide +kernel, by decide +kernel⟩,
          ⟨_, rfl, by decide +kernel, by decide +kernel, by decide +kernel⟩,
          ⟨by decide +kernel, by decide +kernel⟩, by decide +kernel⟩
  des := Or.inr (Or.inl ⟨_, _, _, by decide, by decide, by decide, rfl⟩)
  weeks := ⟨by decide +kernel, by decide +kernel, by decide +kernel, by decide +kernel, by decide +kernel,
            by decide +kernel, by decide +kernel, by decide +kernel, by decide +kernel⟩
  ground := ⟨by decide +kernel, by decide +kernel, by decide +kernel, by decide +kernel, by decide +kernel⟩
  leap := by decide
  c1 := by decide
  c2 := by decide
  one := by decide +kernel
  zero := by decide +kernel

example : ∃ ls, renderHeader decNum decLt exampleHdr = .ok ls ∧ ls.length = 8 ∧ parseHeader decNum ls = .ok exampleHdr :=
  C01_header_roundtrip decNum decLt exampleHdr exampleHdr_canonical

/-- **Counterexample (recorded finding C01-ground-temperatures-two-decimals).**  In the decimal codec the
    driver runs, the ground temperature 3.50826 (tokyo.epw has 3.50826038494622) is written "3.51" and
    read back as 3.51: the side condition of `GroundOk` fails and so does the round trip. -/
theorem C01_header_ground_counterexample :
    let g : Ground (Bool × Nat × Int) := ⟨(false, 5, -1), "", "", "", List.replicate 12 (false, 350826, -5)⟩
    renderGround decNum decLt [g] = ["GROUND TEMPERATURES", "1", "0.5", "", "", ""] ++ List.replicate 12 "3.51" ∧
    parseGround decNum (renderGround decNum decLt [g]) =
      .ok [⟨(false, 5, -1), "", "", "", List.replicate 12 (false, 351, -2)⟩] ∧
    ¬ GroundOk decNum g := by
  refine ⟨by decide +kernel, by decide +kernel, ?_⟩
  intro h
  have := h.2.2 (false, 350826, -5) (by decide)
  revert this
  decide +kernel

/-- **Counterexample (recorded finding C01-design-conditions-dropped-when-incomplete).**  With a heating
    dictionary but no cooling / extreme dictionaries (mannheim.epw), `header` writes `DESIGN CONDITIONS,0`
    and the heating dictionary is gone after re-reading. -/
theorem C01_header_design_counterexample :
    let d : Design := ⟨false, Gen.DD.heatingKeys.zip (List.replicate 16 "1.0"), [], []⟩
    renderDesign d = .ok ["DESIGN CONDITIONS", "0"] ∧
    parseDesign decNum ["DESIGN CONDITIONS", "0"] = .ok ⟨false, [], [], []⟩ ∧ d ≠ ⟨false, [], [], []⟩ := by
  decide +kernel

/-! ### Dictionary -/

/-- **`from_dict (to_dict e) = e`** (data part) for a loaded 35-field EPW whose collections have the year's
    length: same unit flag, leap flag and the same columns in the same order, with both lazy flags set. -/
theorem C01_dict_roundtrip {Val : Type} (s : St Val) (b : Bool) (hl : s.leap = some b)
    (h35 : s.cols.length = 35) (hlen : ∀ c ∈ s.cols, c.length = hoursInYear b) :
    s.toDict.fromDict = .ok { s with hdrLoaded := true, dataLoaded := true, nf := 35 } := by
  obtain ⟨hL, dL, ip, lp, nf, cols⟩ := s
  simp only at hl h35 hlen
  subst hl
  unfold St.toDict EpwDict.fromDict
  simp only [Option.getD_some, List.length_map, h35, ne_eq, not_true_eq_false, or_self, if_false]
  have h1 : ((cols.zip (cols.map fun _ => b)).any fun p => p.1.length != hoursInYear p.2) = false := by
    rw [List.any_eq_false]
    intro p hp
    have hm := List.of_mem_zip hp
    have h2 : p.2 = b := by
      have := hm.2
      simp only [List.mem_map] at this
      obtain ⟨_, _, rfl⟩ := this
      rfl
    simp [h2, hlen p.1 hm.1]
  have h2 : ((cols.map fun _ => b).any (· != b)) = false := by
    rw [List.any_eq_false]
    intro x hx
    simp only [List.mem_map] at hx
    obtain ⟨_, _, rfl⟩ := hx
    simp
  simp [h1, h2]

/-- An EPW read from a file with fewer than 35 columns cannot be rebuilt from its own dictionary:
    `from_dict` asserts 35 collections (model of the code as it is; compared by the history op `D`). -/
theorem C01_dict_fewer_fields {Val : Type} (s : St Val) (h : s.cols.length ≠ 35) :
    s.toDict.fromDict = .error .assert := by
  unfold St.toDict EpwDict.fromDict
  simp [h]

/-! ### Hour convention -/

/-- Position: after the import rotation the cell that stood at row `r` of a flagged (point-in-time) column
    is found at index `(r + 1) % N`; an unflagged (radiation / illuminance) column keeps index `r`. -/
theorem C01_cell_position {α : Type} (flag : Nat → Bool) (cols : List (List α)) (k r : Nat)
    (hk : k < cols.length) (hr : r < cols[k].length) :
    ((onFlagged flag rot cols)[k]'(by simp [onFlagged, hk]))[indexOfRow flag cols[k].length k r]? = cols[k][r]? := by
  rw [onFlagged_getElem flag rot cols k hk]
  unfold indexOfRow
  cases flag k
  · simp
  · simp only [if_true]
    exact rot_getElem? cols[k] r hr

/-- Date-time: the collection's date-time at index `(r + 1) % N` is exactly the instant that the EPW
    stamp of row `r` (hour `r % 24 + 1` of day `r / 24 + 1`) denotes: minute `minuteOfStamp`, i.e. `h:00`
    of the stamped day, hour 24 being 0:00 of the next day and the last row 0:00 of 1 January. -/
theorem C01_hour_convention (leap : Bool) (r : Nat) (hr : r < hoursInYear leap) :
    ∃ d, datetimeOfIndex leap ((r + 1) % hoursInYear leap) = .ok d ∧ d.valid ∧ d.leap = leap ∧
      d.moy = minuteOfStamp leap (stampOfRow r) ∧ d.minute = 0 ∧ d.hour = (r % 24 + 1) % 24 ∧
      d.doy = (if r + 1 = hoursInYear leap then 1 else if r % 24 = 23 then r / 24 + 2 else r / 24 + 1) := by
  have hN : hoursInYear leap = 24 * Cal.daysInYear leap := rfl
  have hM : Cal.minutesInYear leap = 1440 * Cal.daysInYear leap := rfl
  have hpos : 0 < Cal.daysInYear leap := by cases leap <;> decide
  have hlt : (r + 1) % hoursInYear leap < hoursInYear leap := Nat.mod_lt _ (by omega)
  have hm : 60 * ((r + 1) % hoursInYear leap) < Cal.minutesInYear leap := by omega
  obtain ⟨d, hd, hv, hmoy, hmin, hhour, hdoy, hleap⟩ := Cal.C08_fromMoy_moy leap _ hm
  refine ⟨d, hd, hv, hleap, ?_, ?_, ?_, ?_⟩
  · rw [hmoy]
    unfold minuteOfStamp stampOfRow
    simp only
    by_cases hlast : r + 1 = hoursInYear leap
    · rw [hlast, Nat.mod_self]
      have : (r / 24 + 1 - 1) * 1440 + (r % 24 + 1) * 60 = Cal.minutesInYear leap := by omega
      rw [this, Nat.mod_self]
    · have h1 : (r + 1) % hoursInYear leap = r + 1 := Nat.mod_eq_of_lt (by omega)
      rw [h1]
      have : (r / 24 + 1 - 1) * 1440 + (r % 24 + 1) * 60 = 60 * (r + 1) := by omega
      rw [this, Nat.mod_eq_of_lt (by omega)]
  · rw [hmin]; omega
  · rw [hhour]
    by_cases hlast : r + 1 = hoursInYear leap
    · rw [hlast, Nat.mod_self]; omega
    · have h1 : (r + 1) % hoursInYear leap = r + 1 := Nat.mod_eq_of_lt (by omega)
      rw [h1]; omega
  · rw [hdoy]
    by_cases hlast : r + 1 = hoursInYear leap
    · rw [hlast, Nat.mod_self]; simp
    · have h1 : (r + 1) % hoursInYear leap = r + 1 := Nat.mod_eq_of_lt (by omega)
      rw [h1, if_neg hlast]
      split <;> omega

/-- Rows 0, 23 (hour 24 of 1 Jan) and the last row of a normal year, evaluated. -/
example : (datetimeOfIndex false 1, datetimeOfIndex false 24, datetimeOfIndex false ((8759 + 1) % 8760)) =
    (.ok ⟨1, 1, 1, 0, false⟩, .ok ⟨1, 2, 0, 0, false⟩, .ok ⟨1, 1, 0, 0, false⟩) := by decide +kernel

/-- Radiation / illuminance cells keep index `r`, whose date-time is the *start* of the hour that the
    row stamp closes: `(h - 1):00` of the stamped day. -/
theorem C01_radiation_index (leap : Bool) (r : Nat) (hr : r < hoursInYear leap) :
    ∃ d, datetimeOfIndex leap r = .ok d ∧ d.valid ∧ d.minute = 0 ∧ d.hour + 1 = (stampOfRow r).2 ∧
      d.doy = (stampOfRow r).1 := by
  have hN : hoursInYear leap = 24 * Cal.daysInYear leap := rfl
  have hM : Cal.minutesInYear leap = 1440 * Cal.daysInYear leap := rfl
  have hm : 60 * r < Cal.minutesInYear leap := by omega
  obtain ⟨d, hd, hv, hmoy, hmin, hhour, hdoy, hleap⟩ := Cal.C08_fromMoy_moy leap _ hm
  refine ⟨d, hd, hv, ?_, ?_, ?_⟩
  · rw [hmin]; omega
  · rw [hhour]; unfold stampOfRow; simp only; omega
  · rw [hdoy]; unfold stampOfRow; simp only; omega

/-! ### Exports -/

/-- A Wea line carries month, day and hour of the date-time of index `i` together with the direct normal
    and diffuse horizontal radiation (fields 14, 15) of the *same* index. -/
theorem C01_wea_lines {Val : Type} (leap : Bool) (cols : List (List Val)) (i : Nat) (m dd h : Nat) (a b : Val)
    (hl : weaLine leap cols i = .ok (m, dd, h, a, b)) :
    ∃ d dn df, datetimeOfIndex leap i = .ok d ∧ (m, dd, h) = (d.month, d.day, d.hour) ∧
      cols[14]? = some dn ∧ cols[15]? = some df ∧ dn[i]? = some a ∧ df[i]? = some b := by
  unfold weaLine at hl
  split at hl
  · rename_i dn df h14 h15
    split at hl
    · rename_i d a' b' hd ha hb
      simp only [Except.ok.injEq, Prod.mk.injEq] at hl
      obtain ⟨h1, h2, h3, h4, h5⟩ := hl
      exact ⟨d, dn, df, hd, by simp [h1, h2, h3], h14, h15, by rw [ha, h4], by rw [hb, h5]⟩
    · cases hl
  · cases hl

/-- The MOS time column counts the seconds from the start of the year to the date-time of the line
    (3600 s per hour; modelled as repaired). -/
theorem C01_mos_time (leap : Bool) (i : Nat) (hi : i < hoursInYear leap) :
    ∃ d, datetimeOfIndex leap i = .ok d ∧ mosTime i = 60 * d.moy := by
  have hN : hoursInYear leap = 24 * Cal.daysInYear leap := rfl
  have hM : Cal.minutesInYear leap = 1440 * Cal.daysInYear leap := rfl
  have hm : 60 * i < Cal.minutesInYear leap := by omega
  obtain ⟨d, hd, _, hmoy, _⟩ := Cal.C08_fromMoy_moy leap _ hm
  exact ⟨d, hd, by rw [hmoy]; unfold mosTime; omega⟩

/-- Collection index `i` of an annual hourly collection: its date-time has hour `i % 24`, and its month
    and day are those of day-of-year `i / 24 + 1` (in the sense of `Date.from_doy`). -/
theorem datetimeOfIndex_spec (leap : Bool) (i : Nat) (hi : i < hoursInYear leap) :
    ∃ d, datetimeOfIndex leap i = .ok d ∧ d.hour = i % 24 ∧
      Cal.fromDoy leap ((i / 24 + 1 : Nat) : Int) = .ok ⟨d.month, d.day, leap⟩ := by
  have hN : hoursInYear leap = 24 * Cal.daysInYear leap := rfl
  have hM : Cal.minutesInYear leap = 1440 * Cal.daysInYear leap := rfl
  have hm : 60 * i < Cal.minutesInYear leap := by omega
  obtain ⟨d, hd, hv, hmoy, hmin, hhour, hdoy, hleap⟩ := Cal.C08_fromMoy_moy leap _ hm
  refine ⟨d, hd, by rw [hhour]; omega, ?_⟩
  have hv' : (⟨d.month, d.day, d.leap⟩ : Cal.D).valid := ⟨hv.1, hv.2.1, hv.2.2.1, hv.2.2.2.1⟩
  have h1 : Cal.fromDoy d.leap ((d.doy : Nat) : Int) = .ok ⟨d.month, d.day, d.leap⟩ :=
    Cal.C08_doy_fromDoy ⟨d.month, d.day, d.leap⟩ hv'
  have hq : 60 * i / 1440 = i / 24 := by omega
  rw [hdoy, hq, hleap] at h1
  exact h1

/-- **The stamps `from_missing_values` writes are the EPW stamps of the rows, for every row of both
    years.**  After the write rotation, file row `r` holds the stamp cells of collection index
    `(r + 1) % N`; they are month and day of day-of-year `r / 24 + 1` and hour `r % 24 + 1` (1..24), the last
    row being 12/31 hour 24 (modelled as repaired by 3c84251). -/
theorem C01_missing_stamps (leap : Bool) (r : Nat) (hr : r < hoursInYear leap) :
    ∃ dt, Cal.fromDoy leap ((r / 24 + 1 : Nat) : Int) = .ok dt ∧
      missingStamp leap ((r + 1) % hoursInYear leap) = .ok (dt.month, dt.day, r % 24 + 1) := by
  have hN : hoursInYear leap = 24 * Cal.daysInYear leap := rfl
  have hpos : 0 < Cal.daysInYear leap := by cases leap <;> decide
  by_cases hlast : r + 1 = hoursInYear leap
  · -- the last row: index 0
    rw [hlast, Nat.mod_self]
    have hday : r / 24 + 1 = Cal.daysInYear leap := by omega
    have hh : r % 24 + 1 = 24 := by omega
    rw [hday, hh]
    cases leap
    · exact ⟨⟨12, 31, false⟩, by decide +kernel, by decide +kernel⟩
    · exact ⟨⟨12, 31, true⟩, by decide +kernel, by decide +kernel⟩
  · have h1 : (r + 1) % hoursInYear leap = r + 1 := Nat.mod_eq_of_lt (by omega)
    rw [h1]
    obtain ⟨d, hd, hhour, hdoy⟩ := datetimeOfIndex_spec leap (r + 1) (by omega)
    unfold missingStamp
    rw [hd]
    by_cases h23 : r % 24 = 23
    · -- hour 24 of the day: the collection holds 0:00 of the next day, the stamp is the previous day's
      have hz : d.hour = 0 := by rw [hhour]; omega
      obtain ⟨p, hp, _, hpdoy⟩ := datetimeOfIndex_spec leap (r + 1 - 24) (by omega)
      have hq : (r + 1 - 24) / 24 + 1 = r / 24 + 1 := by omega
      rw [hq] at hpdoy
      refine ⟨⟨p.month, p.day, leap⟩, hpdoy, ?_⟩
      simp only [hz, ne_eq, not_true_eq_false, if_false]
      have : r + 1 ≠ 0 := by omega
      simp only [this, if_false, hp]
      have : r % 24 + 1 = 24 := by omega
      rw [this]
    · have hnz : d.hour ≠ 0 := by rw [hhour]; omega
      have hq : (r + 1) / 24 + 1 = r / 24 + 1 := by omega
      rw [hq] at hdoy
      refine ⟨⟨d.month, d.day, leap⟩, hdoy, ?_⟩
      simp only [hnz, ne_eq, not_false_eq_true, if_true]
      have : d.hour = r % 24 + 1 := by rw [hhour]; omega
      rw [this]

/-- Non-vacuity: the first row, hour 24 of 1 Jan, 29 Feb hour 24 and the last row of a leap year. -/
example : ∀ r ∈ [0, 23, 1439, 8783], ∃ dt, Cal.fromDoy true ((r / 24 + 1 : Nat) : Int) = .ok dt ∧
    missingStamp true ((r + 1) % hoursInYear true) = .ok (dt.month, dt.day, r % 24 + 1) := by
  intro r hr
  exact C01_missing_stamps true r (by simp at hr; rcases hr with rfl | rfl | rfl | rfl <;> decide)

/-! ### Operation histories on ONE object (state machine of Model/EpwObj.lean)

`hrt` is C06's round trip `toIp (toSi v) = v` (the property's "beyond floating-point round-off"); for an
object that stays in SI it is not used by the model (`St.toSi` of an SI state is the state). -/

section histories
variable {Tok Val H : Type} (c : Codec Tok Val) (flag : Nat → Bool) (cv : Conv Val) (src : Src Val H)

/-- **Reads are pure.**  On a loaded object every operation that is not an accepted state change – header
    and data reads, `to_file_string` (also the failing one), `to_wea` (also with an hour outside the year),
    `to_mos`, `to_dict`, a setter whose argument is rejected, a value list of the wrong length – returns the
    very state it found.  Hence reads can be repeated and reordered freely (`C01_reads_commute`). -/
theorem C01_read_pure (hrt : ∀ k v, cv.toIp k (cv.toSi k v) = v) (o : Obj Val H) (ho : o.Loaded)
    (op : Op Val H) (hm : mutates o op = false) : (step c flag cv src o op).1 = o := by
  rw [step_of_loaded src c flag cv o ho]
  exact stepLoaded_pure c flag cv hrt o op hm

/-- Order independence of reads: what a read `q` answers after another read `p` is what it answers
    without it (and therefore `p; q` and `q; p` see the same answers). -/
theorem C01_reads_commute (hrt : ∀ k v, cv.toIp k (cv.toSi k v) = v) (o : Obj Val H) (ho : o.Loaded)
    (p q : Op Val H) (hp : mutates o p = false) :
    (step c flag cv src (step c flag cv src o p).1 q).2 = (step c flag cv src o q).2 := by
  rw [C01_read_pure c flag cv src hrt o ho p hp]

/-- An operation that answers with an error is not a state change. -/
theorem err_not_mutates (o : Obj Val H) (op : Op Val H) (e : Err)
    (he : (step c flag cv src o op).2 = .err e) : mutates (o.loadData src) op = false := by
  cases op with
  | set j v valid =>
    cases valid
    · rfl
    · simp [step, stepLoaded] at he
  | setValues k vals =>
    simp only [step, stepLoaded] at he
    split at he
    · simp at he
    · next h => simp only [mutates]; exact Bool.eq_false_iff.mpr h
  | toIp => simp [step, stepLoaded] at he
  | toSi => simp [step, stepLoaded] at he
  | _ => rfl

/-- **A refused operation leaves every observable unchanged**: whatever operation answers with an error
    (ValueError of a write of incomplete data, IndexError of `to_wea`, AssertionError of a setter, ValueError
    for a field number outside the file), the object – lazy or loaded, SI or IP – is afterwards in the state a
    plain load would have put it in, so every later read, write and export answers as if the refused call
    had not happened. -/
theorem C01_refused_preserves (hrt : ∀ k v, cv.toIp k (cv.toSi k v) = v) (o : Obj Val H) (ho : o.WF)
    (op : Op Val H) (e : Err) (he : (step c flag cv src o op).2 = .err e) :
    (step c flag cv src o op).1.loadData src = o.loadData src ∧
      ∀ q, observe c flag cv src (step c flag cv src o op).1 q = observe c flag cv src o q := by
  have hm := err_not_mutates c flag cv src o op e he
  have hd := loadData_loaded src o ho
  have h1 : (step c flag cv src o op).1.loadData src = o.loadData src := by
    rw [loadData_step src c flag cv hrt o ho op, step_of_loaded src c flag cv _ hd]
    exact stepLoaded_pure c flag cv hrt _ op hm
  exact ⟨h1, fun q => by simp only [observe, h1]⟩

/-- The accepted state changes of a history are a sub-list of the history, in its order. -/
theorem C01_pub_sublist (ops : List (Op Val H)) : ∀ o : Obj Val H, (pub c flag cv src o ops).Sublist ops := by
  induction ops with
  | nil => intro o; simp [pub]
  | cons op ops ih =>
    intro o
    simp only [pub]
    split
    · exact (ih _).cons_cons _
    · exact (ih _).cons _

/-- **Every history refines the fresh object.**  Take any object satisfying the invariant (a lazy `EPW(path)`,
    an object from `from_file_string` / `from_dict`), and any history of reads, exports, unit conversions,
    setters, refused calls, in any order and with any repetition.  Its loaded state is the loaded state of the
    same starting object on which only `pub` – the accepted state changes, i.e. the state the user established –
    was performed.  No read, export or refused call leaves a trace. -/
theorem C01_history_refines_fresh (hrt : ∀ k v, cv.toIp k (cv.toSi k v) = v) (ops : List (Op Val H)) :
    ∀ o : Obj Val H, o.WF →
      (run c flag cv src o ops).loadData src = (run c flag cv src o (pub c flag cv src o ops)).loadData src := by
  induction ops with
  | nil => intro o _; simp [run, pub]
  | cons op ops ih =>
    intro o h
    have wf1 := step_wf src c flag cv hrt o h op
    simp only [run, pub]
    split
    · simp only [run]
      exact ih _ wf1
    · rename_i hm
      have hm' : mutates (o.loadData src) op = false := by simpa using hm
      have hd := loadData_loaded src o h
      have hs : (step c flag cv src o op).1.loadData src = o.loadData src := by
        rw [loadData_step src c flag cv hrt o h op, step_of_loaded src c flag cv _ hd]
        exact stepLoaded_pure c flag cv hrt _ op hm'
      rw [ih _ wf1, run_loadData src c flag cv hrt _ _ wf1, hs, ← run_loadData src c flag cv hrt _ _ h]

/-- The same, for everything a user can ask: every observation after the history is the observation of the
    object on which only the accepted state changes were performed. -/
theorem C01_history_observations (hrt : ∀ k v, cv.toIp k (cv.toSi k v) = v) (ops : List (Op Val H))
    (o : Obj Val H) (ho : o.WF) (q : Op Val H) :
    observe c flag cv src (run c flag cv src o ops) q =
      observe c flag cv src (run c flag cv src o (pub c flag cv src o ops)) q := by
  simp only [observe, C01_history_refines_fresh c flag cv src hrt ops o ho]

/-- A lazy object satisfies the invariant, and so does every object reached from it. -/
theorem C01_history_invariant (hrt : ∀ k v, cv.toIp k (cv.toSi k v) = v) (ops : List (Op Val H)) :
    ∀ o : Obj Val H, o.WF → (run c flag cv src o ops).WF := by
  induction ops with
  | nil => intro o h; exact h
  | cons op ops ih => intro o h; exact ih _ (step_wf src c flag cv hrt o h op)

end histories

/-! ### The operation that triggers the lazy load (round 6)

Class of change: one output composed of parts rendered at different load states of the object (a method split in
two, the lazy load moved behind the rendering of the header).  In the model every operation that needs the data
loads it FIRST and renders everything from the loaded state. -/

section firstLoad
variable {Tok Val H : Type} (c : Codec Tok Val) (flag : Nat → Bool) (cv : Conv Val) (src : Src Val H)

/-- **The answer does not depend on the load state at which the operation starts.**  Every operation that needs
    the hourly data (data reads, unit conversions, `to_file_string`, the failing write, `to_wea`, `to_mos`,
    `to_dict`, value assignment) gives, on an object in ANY load state (nothing read, header read, all read),
    the same answer and the same next state as on the object whose data was loaded first. -/
theorem C01_first_load_same_step (o : Obj Val H) (ho : o.WF) (op : Op Val H) (hop : op.needsData = true) :
    step c flag cv src o op = step c flag cv src (o.loadData src) op := by
  rw [step_of_loaded src c flag cv _ (loadData_loaded src o ho)]
  cases op <;> simp_all [step, Op.needsData]

/-- ... in particular what such an operation answers as the FIRST operation of a lazy object is what `observe`
    (the loaded object) answers. -/
theorem C01_first_load_same_answer (o : Obj Val H) (ho : o.WF) (op : Op Val H) (hop : op.needsData = true) :
    (step c flag cv src o op).2 = observe c flag cv src o op := by
  rw [observe, ← C01_first_load_same_step c flag cv src o ho op hop]

/-- **The leap field above the written rows is the one the loaded object has**, and the header slots are the loaded
    object's: for an object whose data was not loaded before the write it is the flag `_import_body` settled
    (`src.body.leap`: for a file without the field, the number of rows), never the header-only value. -/
theorem C01_first_write_header_from_loaded (hrt : ∀ k v, cv.toIp k (cv.toSi k v) = v) (o : Obj Val H)
    (sl : List H) (lp : Option Bool) (rows : List (List Tok))
    (h : (step c flag cv src o .write).2 = .text sl lp rows) :
    sl = (o.loadData src).slots ∧ lp = (o.loadData src).st.leap ∧
      (o.st.dataLoaded = false → lp = some src.body.leap) := by
  simp only [step, stepLoaded, toFileString_snd c flag cv _ hrt] at h
  split at h
  · injection h with h1 h2 h3
    refine ⟨h1.symm, h2.symm, fun hd => ?_⟩
    rw [← h2]
    simp [Obj.loadData, hd]
  · cases h

/-- **The split variant** (header rendered before the data load, `stepWriteHeaderFirst`) writes, on a lazy object,
    the header-only leap field `src.leapHdr` above the same rows ... -/
theorem C01_header_before_load_leap (hrt : ∀ k v, cv.toIp k (cv.toSi k v) = v) (dflt : List H)
    (sl : List H) (lp : Option Bool) (rows : List (List Tok))
    (h : (step c flag cv src (Obj.lazy dflt) .write).2 = .text sl lp rows) :
    (stepWriteHeaderFirst c flag cv src (Obj.lazy dflt)).2 = .text src.slots src.leapHdr rows := by
  simp only [step, stepLoaded, toFileString_snd c flag cv _ hrt] at h
  simp only [stepWriteHeaderFirst]
  split at h
  · rename_i rws hr
    injection h with h1 h2 h3
    subst h3
    simp [Obj.lazy, Obj.loadHeader]
  · cases h

/-- ... so it differs from `to_file_string` exactly on the files that leave the flag to the body: whenever the header
    field is not the flag the rows give (no field and 8784 rows: `No` above a leap year of data, a text that cannot
    be read back), the split write and the write are different texts - although both agree once the data is loaded
    (`C01_first_load_same_step`), which is why only the FIRST data-loading operation shows it. -/
theorem C01_header_before_load_counterexample (hrt : ∀ k v, cv.toIp k (cv.toSi k v) = v) (dflt : List H)
    (sl : List H) (lp : Option Bool) (rows : List (List Tok))
    (h : (step c flag cv src (Obj.lazy dflt) .write).2 = .text sl lp rows)
    (hsrc : src.leapHdr ≠ some src.body.leap) :
    (stepWriteHeaderFirst c flag cv src (Obj.lazy dflt)).2 ≠ (step c flag cv src (Obj.lazy dflt) .write).2 := by
  have h2 := (C01_first_write_header_from_loaded c flag cv src hrt _ sl lp rows h).2.2 (by simp [Obj.lazy])
  rw [C01_header_before_load_leap c flag cv src hrt dflt sl lp rows h, h, h2]
  intro he
  injection he with _ e2 _
  exact hsrc e2

/-- Non-vacuity: a file without the leap field whose body is a leap year (no columns: the smallest full table). -/
example : ∃ rows : List (List Nat),
    (step (⟨fun _ t => some t, id⟩ : Codec Nat Nat) (fun _ => true) ⟨fun _ v => v, fun _ v => v⟩
      (⟨none, ⟨0, true, []⟩, [7]⟩ : Src Nat Nat) (Obj.lazy [0]) .write).2 = .text [7] (some true) rows := by
  refine ⟨(transp (hoursInYear true) ([] : List (List Nat))).map (·.map id), ?_⟩
  simp [step, stepLoaded, Obj.lazy, Obj.loadData, Obj.loadHeader, St.toFileString, St.toSi, writeBody, onFlagged]

end firstLoad

/-- The loading step of the state machine is `St.loadData` / `importBody` of the file-level model: when the
    body of the file is accepted (`importBody` answers `b`), loading the lazy object gives exactly the state
    the state machine continues with (so the body theorems above speak about the columns it holds). -/
theorem C01_obj_load_bridge {Tok Val H : Type} (c : Codec Tok Val) (flag : Nat → Bool) (f : File Tok)
    (s : St Val) (sl dsl : List H) (b : Body Val) (hd : s.dataLoaded = false)
    (hb : importBody c flag (s.loadHeader f).leap f.lines = .ok b) :
    s.loadData c flag f = .ok ((⟨s, dsl⟩ : Obj Val H).loadData ⟨f.leapHdr, b, sl⟩).st := by
  obtain ⟨hl, dl, ip, lp, nf, cols⟩ := s
  simp only at hd
  subst hd
  cases hl <;> simp_all [St.loadData, St.loadHeader, Obj.loadData, Obj.loadHeader]


namespace C01Ex
def idc : Codec Nat Nat := ⟨fun _ t => some t, id⟩
def cv : Conv Nat := ⟨fun _ v => v, fun _ v => v⟩
def src : Src Nat Nat := ⟨some false, ⟨2, false, [[1, 2], [3, 4]]⟩, [10, 11]⟩
def ops : List (Op Nat Nat) := [.header, .writeShort 0, .set 1 77 false, .set 0 55 true, .write, .setValues 0 [9]]
def isErr : Out Nat Nat Nat → Bool
  | .err _ => true
  | _ => false
def fin : Obj Nat Nat := (run idc (fun _ => true) cv src (Obj.lazy [0, 0]) ops).loadData src
end C01Ex

/-- Non-vacuity: a lazy object of a two-row "year" on ids; header read, failing write, setter refused, setter
    accepted, write, wrong-length values: only the accepted setter is left in `pub`, the final state is that of
    the fresh object with that setter alone, and the refused calls answer with errors. -/
example :
    (pub C01Ex.idc (fun _ => true) C01Ex.cv C01Ex.src (Obj.lazy [0, 0]) C01Ex.ops).length = 1 ∧
      C01Ex.fin.slots = [55, 11] ∧ C01Ex.fin.st.cols = [[1, 2], [3, 4]] ∧
      C01Ex.isErr (step C01Ex.idc (fun _ => true) C01Ex.cv C01Ex.src (Obj.lazy [0, 0]) (.set 1 77 false)).2 = true ∧
      C01Ex.isErr (step C01Ex.idc (fun _ => true) C01Ex.cv C01Ex.src (Obj.lazy [0, 0]) (.writeShort 0)).2 = true ∧
      C01Ex.isErr (step C01Ex.idc (fun _ => true) C01Ex.cv C01Ex.src (Obj.lazy [0, 0]) (.field 2)).2 = true := by
  decide +kernel

/-! ### Round 4: input shapes, per-item independence (aliasing / container classes) -/

/-- **Only the line feed cuts a line.**  A text made of lines that hold no `'\n'` (every other character is
    allowed inside them: U+0085, U+2028, U+2029, form feed, vertical tab, FS/GS/RS, anything) is split by
    `text.split('\n')` into exactly those lines.  This is what `from_file_string` relies on for header text. -/
theorem C01_lines_split_only_at_newline (ls : List (List Char)) (hne : ls ≠ [])
    (h : ∀ l ∈ ls, ∀ c ∈ l, c ≠ '\n') : splitLines (joinLines ls) = ls :=
  splitLines_joinLines ls hne h

/-- **The sections `from_file_string` takes.**  For eight header lines and any number of data rows, each
    ended by a line feed, `all_lines[:8]` is the header and `all_lines[8:-1]` are the rows, whatever characters
    other than the line feed the header text holds. -/
theorem C01_file_sections (hs bs : List (List Char)) (h8 : hs.length = 8)
    (hh : ∀ l ∈ hs, ∀ c ∈ l, c ≠ '\n') (hb : ∀ l ∈ bs, ∀ c ∈ l, c ≠ '\n') :
    headerSection (fileText (hs ++ bs)) = hs ∧ bodySection (fileText (hs ++ bs)) = bs := by
  have hall : ∀ l ∈ hs ++ bs ++ [[]], ∀ c ∈ l, c ≠ '\n' := by
    intro l hl c hc
    simp only [List.mem_append, List.mem_singleton] at hl
    rcases hl with (hl | hl) | hl
    · exact hh l hl c hc
    · exact hb l hl c hc
    · subst hl; simp at hc
  have hsp : splitLines (fileText (hs ++ bs)) = hs ++ bs ++ [[]] :=
    splitLines_joinLines _ (by simp) hall
  unfold headerSection bodySection
  rw [hsp]
  constructor
  · rw [List.append_assoc, List.take_left' h8]
  · rw [List.append_assoc, List.drop_left' h8, List.dropLast_concat]

/-- Non-vacuity: a comment holding U+2028, U+0085 and a form feed stays one line; a line feed cuts. -/
example : splitLines ['a', ' ', 'b', '\u0085', '\x0c', 'c', '\n', 'd'] = [['a', ' ', 'b', '\u0085', '\x0c', 'c'], ['d']] ∧
    headerSection (fileText ([['1'], ['2'], ['3'], ['4'], ['5'], ['6', ' '], ['7'], ['8']] ++ [['r']])) =
      [['1'], ['2'], ['3'], ['4'], ['5'], ['6', ' '], ['7'], ['8']] := by
  decide +kernel

/-- **`to_wea` answers hour by hour.**  When the export succeeds for a list of hours, line `j` is the line of
    hour `hoys[j]` alone: it does not depend on the other hours, their order or their number (so a tuple, a
    generator or any other container with the same items gives the same lines; repeated and unsorted hours
    are answered in place). -/
theorem C01_wea_hoys_pointwise {Val : Type} (cv : Conv Val) (h0 : Nat) (hs : List Nat) (s : St Val)
    (ls : List (Nat × Nat × Nat × Val × Val)) (hok : (s.toWea cv (some (h0 :: hs))).1 = .ok ls) :
    ls.length = (h0 :: hs).length ∧
      ∀ (j : Nat) (hr : Nat), (h0 :: hs)[j]? = some hr →
        ∃ l, ls[j]? = some l ∧ weaLine ((s.toSi cv).leap.getD false) (s.toSi cv).cols hr = .ok l := by
  simp only [St.toWea] at hok
  exact ⟨mapE_length hok, fun j hr hj => mapE_ok_get _ _ _ hok j hr hj⟩

/-- ... and the whole-year export (`hoys` absent or empty) is the same map over `0 .. N-1`. -/
theorem C01_wea_all_hours {Val : Type} (cv : Conv Val) (s : St Val) :
    (s.toWea cv none).1 = (s.toWea cv (some [])).1 ∧
      (s.toWea cv none).1 = mapE (weaLine ((s.toSi cv).leap.getD false) (s.toSi cv).cols)
        (List.range (hoursInYear ((s.toSi cv).leap.getD false))) := by
  simp [St.toWea]

/-- **Every depth of the GROUND TEMPERATURES line keeps its own soil properties.**  For a line of `n` blocks of
    16 tokens in the file's own spelling (depth and values read by `float`, distinct depths), the parsed
    dictionary holds, for block `j`, the conductivity / density / specific heat tokens of block `j` and its
    twelve values: nothing is shared between depths. -/
theorem C01_ground_each_depth_own_properties {F : Type} [DecidableEq F] (nc : NumCodec F)
    (ps : List (GBlock × Ground F)) (cnt : String) (hr : ∀ p ∈ ps, GBlock.Reads nc p.1 p.2)
    (hnd : ((ps.map Prod.snd).map (·.depth)).Nodup) (hc : nc.pi cnt = some (ps.length : Int)) (hne : cnt ≠ "") :
    parseGround nc ("GROUND TEMPERATURES" :: cnt :: ((ps.map Prod.fst).map GBlock.toks).flatten) = .ok (ps.map Prod.snd) ∧
      ∀ p ∈ ps, p.2.cond = p.1.cond ∧ p.2.dens = p.1.dens ∧ p.2.heat = p.1.heat := by
  constructor
  · unfold parseGround
    have hcount : countTok nc ("GROUND TEMPERATURES" :: cnt :: ((ps.map Prod.fst).map GBlock.toks).flatten) = .ok ps.length := by
      simp [countTok, hc, hne]
    rw [hcount]
    simp only [List.drop_succ_cons, List.drop_zero]
    have e : ((ps.map Prod.fst).map GBlock.toks).flatten = ((ps.map Prod.fst).map GBlock.toks).flatten ++ [] := by simp
    rw [e, parseGroundList_blocks nc ps [] [] hr, foldl_groundSet_append _ [] hnd (by simp)]
    simp
  · intro p hp
    obtain ⟨_, h1, h2, h3, _⟩ := hr p hp
    exact ⟨h1, h2, h3⟩

/-- Non-vacuity (driver codec): two depths with different soil properties. -/
example : ((parseGround decNum ["GROUND TEMPERATURES", "2", "0.5", "1.2", "", "0", "1", "2", "3", "4", "5", "6", "7", "8", "9",
      "10", "11", "12", "4", "", "1600", "0.85", "1", "2", "3", "4", "5", "6", "7", "8", "9", "10", "11", "12"]).toOption.map
        (fun gs => gs.map fun g => (g.cond, g.dens, g.heat))) = some [("1.2", "", "0"), ("", "1600", "0.85")] := by
  decide +kernel

/-! ### Equal values of different text (round 5): every cell is printed from itself -/

/-- **The written text of a cell is the text of that cell's own value.**  For a table of one year's length with
    `nf` cells per row, writing what the import stored gives, row for row and field for field, `str` of the value
    parsed from that very cell: no other cell of the column, of the row or of the file has a say.  In particular
    two cells of one column whose values compare equal but print differently (`0.0` / `-0.0`) keep their own
    text, whatever the flags and wherever they sit. -/
theorem C01_write_cellwise {Tok Val : Type} (c : Codec Tok Val) (flag : Nat → Bool) (leap : Bool) (nf : Nat)
    (tbl : List (List Val)) (hrect : ∀ row ∈ tbl, row.length = nf) (hN : tbl.length = hoursInYear leap) :
    (writeBody c flag leap (onFlagged flag rot (transp nf tbl))).1 = .ok (tbl.map (·.map c.shw)) := by
  simp only [writeBody]
  rw [onFlagged_comp flag unrot rot unrot_rot]
  have hall : (transp nf tbl).all (fun col => hoursInYear leap ≤ col.length) = true := by
    rw [List.all_eq_true]
    intro col hcol
    have := transp_col_length tbl nf hrect col hcol
    simp [this, hN]
  rw [if_pos hall, ← hN, transp_transp tbl tbl.length nf rfl hrect]

/-- Pointwise reading of `C01_write_cellwise`: the token written at row `r`, field `k` is `str` of the value the
    table holds at row `r`, field `k`. -/
theorem C01_write_cell_own_text {Tok Val : Type} (c : Codec Tok Val) (flag : Nat → Bool) (leap : Bool) (nf : Nat)
    (tbl : List (List Val)) (hrect : ∀ row ∈ tbl, row.length = nf) (hN : tbl.length = hoursInYear leap)
    (r k : Nat) (row : List Val) (v : Val) (hr : tbl[r]? = some row) (hk : row[k]? = some v) :
    ∃ out, (writeBody c flag leap (onFlagged flag rot (transp nf tbl))).1 = .ok out ∧
      (out[r]?.bind (·[k]?)) = some (c.shw v) := by
  refine ⟨_, C01_write_cellwise c flag leap nf tbl hrect hN, ?_⟩
  simp [List.getElem?_map, hr, hk]

/-- **A memoised write is the write exactly when its key tells apart everything that prints differently.**  If
    the relation by which a per-column memo recognises "the same value" implies equal text, the memoised column
    is the column written cell by cell (so a memo keyed by the text, by identity, or by `(type, sign, value)` is
    harmless) ... -/
theorem C01_memo_write_sound {Tok Val : Type} (eqv : Val → Val → Bool) (shw : Val → Tok)
    (h : ∀ a b, eqv a b = true → shw a = shw b) (col : List Val) : memoCol eqv shw col = col.map shw := by
  unfold memoCol
  apply List.map_congr_left
  intro v _
  unfold memoText
  cases hf : col.find? (fun w => eqv w v) with
  | none => rfl
  | some w => exact h w v (by simpa using List.find?_some hf)

/-- ... and Python's `==` is not such a key: `0.0 == -0.0` and `1 == 1.0`, but their texts differ. -/
theorem C01_equal_values_different_text_counterexample :
    (Cell.pyEq (.flt true 0 0) (.flt false 0 0) = true ∧ showCell (.flt true 0 0) ≠ showCell (.flt false 0 0)) ∧
    (Cell.pyEq (.int 1) (.flt false 1 0) = true ∧ showCell (.int 1) ≠ showCell (.flt false 1 0)) := by
  decide +kernel

/-- Hence a write that memoises the text by value (`==`) differs from `to_file_string` on a column that holds
    both zeros - in either order of first appearance - and the sign of the later zero is lost on the read back. -/
theorem C01_memo_by_equality_counterexample :
    memoCol Cell.pyEq showCell [.flt false 0 0, .flt true 0 0] ≠ [Cell.flt false 0 0, .flt true 0 0].map showCell ∧
    memoCol Cell.pyEq showCell [.flt true 0 0, .flt false 0 0] ≠ [Cell.flt true 0 0, .flt false 0 0].map showCell ∧
    (memoCol Cell.pyEq showCell [.flt false 0 0, .flt true 0 0]).map (parseCell 6) ≠
      [some (.flt false 0 0), some (.flt true 0 0)] := by
  decide +kernel

/-- **The sign of zero survives read, write, read in the driver codec**: `-0.0` and `0.0` of a float field parse
    to different cells, each prints as the token it was read from and parses back to itself. -/
theorem C01_signed_zero_roundtrip :
    parseCell 6 "-0.0" = some (.flt true 0 0) ∧ parseCell 6 "0.0" = some (.flt false 0 0) ∧
    showCell (.flt true 0 0) = "-0.0" ∧ showCell (.flt false 0 0) = "0.0" ∧
    canonRow decCodec 8 ["2017", "1", "1", "1", "0", "?9", "-0.0", "0.0"] = ["2017", "1", "1", "1", "0", "?9", "-0.0", "0.0"] := by
  decide +kernel

/-- Non-vacuity of `C01_memo_write_sound`: a key coarser than the text changes the column, a key as fine as the
    text does not. -/
example : memoCol (fun a b => a % 2 == b % 2) (fun v : Nat => v) [1, 3, 2] = [1, 1, 2] ∧
    memoCol (fun a b : Nat => a == b) (fun v : Nat => v) [1, 3, 2] = [1, 3, 2] := by decide

end Epw
