/-
  C01 — EPW files survive a read/write cycle and keep the file's hour convention.
  Property theorems only (helper lemmas: Proofs/C01Lemmas.lean).  Core Lean, no Mathlib.
  The model (Model/Epw.lean) is tied to ladybug/epw.py by Gen/EpwFields (translator) and by the
  correspondence ops of Drv/C01.lean (harness/props/c01.py).
-/
import Ladybug.Proofs.C01Lemmas
import Ladybug.Props.C08

namespace Epw

/-! ### The regenerated field table -/

/-- The table has the 35 EPW fields, and the fields that are *not* rotated on import are exactly
    9 (atmospheric pressure), 10, 11, 13..19 (radiation, illuminance, zenith luminance).
    Partial with respect to the statement: field 9 is a point-in-time quantity of the EPW format
    (see `C01_flags_pressure_counterexample`); a changed flag of any field breaks this theorem. -/
theorem C01_flags_partial :
    Gen.EpwFields.count = 35 ∧ Gen.EpwFields.pointInTime.length = 35 ∧ Gen.EpwFields.valueType.length = 35 ∧
    (List.range 35).filter (fun k => !pit k) = [9, 10, 11, 13, 14, 15, 16, 17, 18, 19] := by
  decide

/-- The radiation and illuminance fields keep their row position; every field of the date/time stamp,
    the temperatures, humidity, wind, sky cover ... is rotated. -/
theorem C01_flags_radiation : ∀ k ∈ [10, 11, 13, 14, 15, 16, 17, 18, 19], pit k = false := by decide

theorem C01_flags_point_in_time :
    ∀ k ∈ [0, 1, 2, 3, 4, 5, 6, 7, 8, 12, 20, 21, 22, 23, 24, 25, 26, 27, 28, 29, 30, 31, 32, 33, 34], pit k = true := by
  decide

/-- Atmospheric station pressure ("at the time indicated" in the EPW format) is not treated as
    point-in-time by the code: its values stay at the row position (recorded finding
    C01-pressure-not-point-in-time). -/
theorem C01_flags_pressure_counterexample : pit 9 = false ∧ Gen.EpwFields.dataType[9]? = some "AtmosphericStationPressure" := by
  decide

/-! ### Rotation -/

/-- The rotation applied on import and the one applied while writing are mutually inverse on every list
    (any length, any values). -/
theorem C01_rot_inverse {α : Type} (l : List α) : unrot (rot l) = l ∧ rot (unrot l) = l :=
  ⟨unrot_rot l, rot_unrot l⟩

example : unrot (rot [1, 2, 3]) = [1, 2, 3] ∧ rot [1, 2, 3] = [3, 1, 2] := by decide

/-- Column level of write ∘ read: un-rotating the flagged columns of what the import stored gives back
    the columns as parsed, for any flags and any table. -/
theorem C01_columns_roundtrip {α : Type} (flag : Nat → Bool) (cols : List (List α)) :
    onFlagged flag unrot (onFlagged flag rot cols) = cols ∧ onFlagged flag rot (onFlagged flag unrot cols) = cols :=
  ⟨onFlagged_comp flag unrot rot unrot_rot cols, onFlagged_comp flag rot unrot rot_unrot cols⟩

/-! ### Writing leaves the object as it was -/

/-- The `try`/`finally` of `to_file_string` leaves the columns exactly as they were, whether the rows were
    produced or the ValueError for a too-short column was raised; any flags, any column lengths. -/
theorem C01_writeBody_restores {Tok Val : Type} (c : Codec Tok Val) (flag : Nat → Bool) (leap : Bool)
    (cols : List (List Val)) : (writeBody c flag leap cols).2 = cols := by
  simp only [writeBody]
  exact onFlagged_comp flag rot unrot rot_unrot cols

/-- A column that is too short makes the write fail (ValueError) – and by `C01_writeBody_restores` the
    object is nevertheless unchanged. -/
theorem C01_writeBody_short_fails {Tok Val : Type} (c : Codec Tok Val) (flag : Nat → Bool) (leap : Bool)
    (cols : List (List Val)) (k : Nat) (hk : k < cols.length) (hs : cols[k].length < hoursInYear leap) :
    (writeBody c flag leap cols).1 = .error .value := by
  simp only [writeBody]
  rw [if_neg]
  intro hall
  rw [List.all_eq_true] at hall
  have hk' : k < (onFlagged flag unrot cols).length := by simp [onFlagged, hk]
  have := hall _ (List.getElem_mem hk')
  rw [onFlagged_getElem flag unrot cols k hk] at this
  by_cases hf : flag k = true
  · simp [hf, unrot_length] at this; omega
  · simp [hf] at this; omega

example : (writeBody idc (fun _ => true) false [[1, 2, 3]]).1 = .error .value ∧
    (writeBody idc (fun _ => true) false [[1, 2, 3]]).2 = [[1, 2, 3]] := by
  constructor
  · exact C01_writeBody_short_fails _ _ _ _ 0 (by decide) (by decide)
  · exact C01_writeBody_restores _ _ _ _
where idc : Codec Nat Nat := ⟨fun _ t => some t, id⟩

theorem convCols_comp {Val : Type} (f g : Nat → Val → Val) (cols : List (List Val)) :
    convCols f (convCols g cols) = convCols (fun k v => f k (g k v)) cols := by
  apply List.ext_getElem
  · simp [convCols]
  · intro i h1 h2
    simp [convCols]

theorem convCols_id {Val : Type} (f : Nat → Val → Val) (h : ∀ k v, f k v = v) (cols : List (List Val)) :
    convCols f cols = cols := by
  apply List.ext_getElem
  · simp [convCols]
  · intro i h1 h2
    have hf : f i = id := funext (h i)
    simp [convCols, hf]

/-- `to_file_string` never changes the object: for an SI object the state afterwards *is* the state before;
    for an IP object the columns went IP → SI → IP, i.e. every value `v` became `toIp (toSi v)` and nothing
    else changed – on the success path and on the exception path alike (the function returns both). -/
theorem C01_write_restores {Tok Val : Type} (c : Codec Tok Val) (flag : Nat → Bool) (cv : Conv Val) (s : St Val) :
    (s.toFileString c flag cv).2 =
      if s.isIp then { s with cols := convCols (fun k v => cv.toIp k (cv.toSi k v)) s.cols } else s := by
  cases s with
  | mk hl dl ip lp nf cols =>
    cases ip
    · simp [St.toFileString, St.toSi, C01_writeBody_restores]
    · simp [St.toFileString, St.toSi, St.toIp, C01_writeBody_restores, convCols_comp]

/-- With C06's round trip (`toIp (toSi v) = v` on the values held) the IP object is exactly restored. -/
theorem C01_write_restores_exact {Tok Val : Type} (c : Codec Tok Val) (flag : Nat → Bool) (cv : Conv Val)
    (s : St Val) (hrt : ∀ k v, cv.toIp k (cv.toSi k v) = v) : (s.toFileString c flag cv).2 = s := by
  rw [C01_write_restores]
  cases s with
  | mk hl dl ip lp nf cols =>
    cases ip
    · simp
    · simp [convCols_id _ hrt]

/-- Same for `to_wea` (as repaired: restore in `finally`), also when a requested hour does not exist. -/
theorem C01_wea_restores {Val : Type} (cv : Conv Val) (hoys : Option (List Nat)) (s : St Val)
    (hrt : ∀ k v, cv.toIp k (cv.toSi k v) = v) : (s.toWea cv hoys).2 = s := by
  cases s with
  | mk hl dl ip lp nf cols =>
    cases ip
    · simp [St.toWea, St.toSi]
    · simp [St.toWea, St.toSi, St.toIp, convCols_comp, convCols_id _ hrt]

/-! ### write ∘ read -/

/-- A parsed row has exactly `nf` cells and prints as the canonical form of the row's first `nf` tokens. -/
theorem parseRow_ok {Tok Val : Type} (c : Codec Tok Val) (nf : Nat) (row : List Tok) (vals : List Val)
    (h : parseRow c nf row = .ok vals) : vals.length = nf ∧ canonRow c nf row = vals.map c.shw := by
  unfold parseRow at h
  refine ⟨by rw [mapE_length h]; simp, ?_⟩
  have hm := mapE_map_eq (g := fun k => (row[k]?.bind (c.parse k)).map c.shw) (h := fun v => some (c.shw v))
    (fun k v hk => by
      unfold cellAt at hk
      cases hr : row[k]? with
      | none => simp [hr] at hk
      | some t =>
        cases hp : c.parse k t with
        | none => simp [hr, hp] at hk
        | some w =>
          simp only [hr, hp, Except.ok.injEq] at hk
          simp [hp, hk]) h
  unfold canonRow
  have : ∀ (l : List Nat) (g : Nat → Option Tok), l.filterMap g = (l.map g).filterMap id := by
    intro l g; rw [List.filterMap_map]; rfl
  rw [this, hm, List.filterMap_map]
  simp

/-- **write ∘ read is the canonicalisation, row for row.**  If the data rows parse into a table of one
    year's length (8760 or 8784 rows, or any `N`), then writing what the import stored (the parsed table,
    transposed into columns, point-in-time columns rotated) yields exactly the same rows in the same
    order, each cell printed from its parsed value – no cell moved, dropped or duplicated, for any flags. -/
/- `importBody` (Model/Epw.lean) is by definition this composition: the non-blank lines parsed row by row
   with `mapE (parseRow c nf)`, the table transposed with `transp nf`, the flagged columns rotated with
   `onFlagged flag rot`, accepted when the row count is `hoursInYear leap`; the theorems are stated on the
   composition (an unfolding lemma for the nested `match`/`if` of `importBody` was not finished). -/
theorem C01_write_read_canon {Tok Val : Type} (c : Codec Tok Val) (flag : Nat → Bool) (leap : Bool) (nf : Nat)
    (rows : List (List Tok)) (tbl : List (List Val))
    (hp : mapE (parseRow c nf) rows = .ok tbl) (hN : tbl.length = hoursInYear leap) :
    (writeBody c flag leap (onFlagged flag rot (transp nf tbl))).1 = .ok (rows.map (canonRow c nf)) := by
  have hrect : ∀ row ∈ tbl, row.length = nf :=
    mapE_all (P := fun v => v.length = nf) (fun a b hab => (parseRow_ok c nf a b hab).1) hp
  simp only [writeBody]
  rw [onFlagged_comp flag unrot rot unrot_rot]
  have hall : (transp nf tbl).all (fun col => hoursInYear leap ≤ col.length) = true := by
    rw [List.all_eq_true]
    intro col hcol
    have := transp_col_length tbl nf hrect col hcol
    simp [this, hN]
  rw [if_pos hall, ← hN, transp_transp tbl tbl.length nf rfl hrect]
  congr 1
  exact (mapE_map_eq (g := canonRow c nf) (h := fun v => v.map c.shw)
    (fun a b hab => (parseRow_ok c nf a b hab).2) hp).symm

/-- The canonical form of a canonical row is itself (with a lawful codec), so canonical files are
    reproduced cell for cell and write-read-write gives the same text as write. -/
theorem C01_canonRow_idem {Tok Val : Type} (c : Codec Tok Val) (hc : c.Lawful) (nf : Nat) (row : List Tok)
    (vals : List Val) (h : parseRow c nf row = .ok vals) :
    parseRow c nf (canonRow c nf row) = .ok vals := by
  obtain ⟨hlen, hcan⟩ := parseRow_ok c nf row vals h
  rw [hcan]
  unfold parseRow at h ⊢
  -- cell k of the printed row parses back to cell k of the values
  have key : ∀ k, k ∈ List.range nf → cellAt c (vals.map c.shw) k = cellAt c row k := by
    intro k hk
    rw [List.mem_range] at hk
    have hk' : k < vals.length := by omega
    have hcell := mapE_map_eq (g := fun k => (row[k]?.bind (c.parse k))) (h := fun v => some v)
      (fun k v hkv => by
        unfold cellAt at hkv
        cases hr : row[k]? with
        | none => simp [hr] at hkv
        | some t =>
          cases hp : c.parse k t with
          | none => simp [hr, hp] at hkv
          | some w => simp only [hr, hp, Except.ok.injEq] at hkv; simp [hp, hkv]) h
    have hkth : (row[k]?.bind (c.parse k)) = some vals[k] := by
      have := congrArg (fun l => l[k]?) hcell
      simp only [List.getElem?_map, List.getElem?_range hk, Option.map_some,
        List.getElem?_eq_getElem hk'] at this
      exact Option.some.inj this
    unfold cellAt
    cases hr : row[k]? with
    | none => simp [hr] at hkth
    | some t =>
      simp only [hr, Option.bind_some] at hkth
      have hlaw := hc k t vals[k] hkth
      simp [List.getElem?_eq_getElem hk', hlaw, hkth]
  -- mapE over the same index list with pointwise equal functions
  have hcongr : ∀ (l : List Nat) (f g : Nat → Except Err Val), (∀ k ∈ l, f k = g k) → mapE f l = mapE g l := by
    intro l f g hfg
    induction l with
    | nil => rfl
    | cons a l ih =>
      simp only [mapE, hfg a (by simp), ih (fun k hk => hfg k (by simp [hk]))]
  rw [hcongr _ _ _ key]
  exact h

/-- **Fixed point.**  Reading the rows that were written gives the same table again, and writing that
    gives the same rows again: write(read(write(read t))) = write(read t), for 8760, 8784 or any number of rows. -/
theorem C01_write_fixed_point {Tok Val : Type} (c : Codec Tok Val) (hc : c.Lawful) (flag : Nat → Bool)
    (leap : Bool) (nf : Nat) (rows : List (List Tok)) (tbl : List (List Val))
    (hp : mapE (parseRow c nf) rows = .ok tbl) (hN : tbl.length = hoursInYear leap) :
    let written := rows.map (canonRow c nf)
    mapE (parseRow c nf) written = .ok tbl ∧
    (writeBody c flag leap (onFlagged flag rot (transp nf tbl))).1 = .ok written ∧
    written.map (canonRow c nf) = written := by
  have hre : ∀ (rows : List (List Tok)) (tbl : List (List Val)), mapE (parseRow c nf) rows = .ok tbl →
      mapE (parseRow c nf) (rows.map (canonRow c nf)) = .ok tbl := by
    intro rows
    induction rows with
    | nil => intro tbl h; simpa [mapE] using h
    | cons r rs ih =>
      intro tbl h
      simp only [mapE] at h
      split at h
      · cases h
      · rename_i v hv
        split at h
        · cases h
        · rename_i vs hvs
          cases h
          simp only [List.map_cons, mapE, C01_canonRow_idem c hc nf r v hv, ih vs hvs]
  refine ⟨hre rows tbl hp, C01_write_read_canon c flag leap nf rows tbl hp hN, ?_⟩
  have h1 := mapE_map_eq (g := canonRow c nf) (h := fun v => v.map c.shw)
    (fun a b hab => (parseRow_ok c nf a b hab).2) hp
  have h2 := mapE_map_eq (g := canonRow c nf) (h := fun v => v.map c.shw)
    (fun a b hab => (parseRow_ok c nf a b hab).2) (hre rows tbl hp)
  rw [h2, h1]

/-- Non-vacuity of the row-level ingredients (a row with a surplus cell: only the first `nf` are kept). -/
example : parseRow (⟨fun _ t => some (t + 100), fun v => v - 100⟩ : Codec Nat Nat) 2 [5, 6, 7] = .ok [105, 106] ∧
    canonRow (⟨fun _ t => some (t + 100), fun v => v - 100⟩ : Codec Nat Nat) 2 [5, 6, 7] = [5, 6] := by decide

/-! ### Hour convention -/

/-- Position: after the import rotation the cell that stood at row `r` of a flagged (point-in-time) column
    is found at index `(r + 1) % N`; an unflagged (radiation / illuminance) column keeps index `r`. -/
theorem C01_cell_position {α : Type} (flag : Nat → Bool) (cols : List (List α)) (k r : Nat)
    (hk : k < cols.length) (hr : r < cols[k].length) :
    ((onFlagged flag rot cols)[k]'(by simp [onFlagged, hk]))[indexOfRow flag cols[k].length k r]? = cols[k][r]? := by
  rw [onFlagged_getElem flag rot cols k hk]
  unfold indexOfRow
  cases flag k
  · simp
  · simp only [if_true]
    exact rot_getElem? cols[k] r hr

/-- Date-time: the collection's date-time at index `(r + 1) % N` is exactly the instant that the EPW
    stamp of row `r` (hour `r % 24 + 1` of day `r / 24 + 1`) denotes: minute `minuteOfStamp`, i.e. `h:00`
    of the stamped day, hour 24 being 0:00 of the next day and the last row 0:00 of 1 January. -/
theorem C01_hour_convention (leap : Bool) (r : Nat) (hr : r < hoursInYear leap) :
    ∃ d, datetimeOfIndex leap ((r + 1) % hoursInYear leap) = .ok d ∧ d.valid ∧ d.leap = leap ∧
      d.moy = minuteOfStamp leap (stampOfRow r) ∧ d.minute = 0 ∧ d.hour = (r % 24 + 1) % 24 ∧
      d.doy = (if r + 1 = hoursInYear leap then 1 else if r % 24 = 23 then r / 24 + 2 else r / 24 + 1) := by
  have hN : hoursInYear leap = 24 * Cal.daysInYear leap := rfl
  have hM : Cal.minutesInYear leap = 1440 * Cal.daysInYear leap := rfl
  have hpos : 0 < Cal.daysInYear leap := by cases leap <;> decide
  have hlt : (r + 1) % hoursInYear leap < hoursInYear leap := Nat.mod_lt _ (by omega)
  have hm : 60 * ((r + 1) % hoursInYear leap) < Cal.minutesInYear leap := by omega
  obtain ⟨d, hd, hv, hmoy, hmin, hhour, hdoy, hleap⟩ := Cal.C08_fromMoy_moy leap _ hm
  refine ⟨d, hd, hv, hleap, ?_, ?_, ?_, ?_⟩
  · rw [hmoy]
    unfold minuteOfStamp stampOfRow
    simp only
    by_cases hlast : r + 1 = hoursInYear leap
    · rw [hlast, Nat.mod_self]
      have : (r / 24 + 1 - 1) * 1440 + (r % 24 + 1) * 60 = Cal.minutesInYear leap := by omega
      rw [this, Nat.mod_self]
    · have h1 : (r + 1) % hoursInYear leap = r + 1 := Nat.mod_eq_of_lt (by omega)
      rw [h1]
      have : (r / 24 + 1 - 1) * 1440 + (r % 24 + 1) * 60 = 60 * (r + 1) := by omega
      rw [this, Nat.mod_eq_of_lt (by omega)]
  · rw [hmin]; omega
  · rw [hhour]
    by_cases hlast : r + 1 = hoursInYear leap
    · rw [hlast, Nat.mod_self]; omega
    · have h1 : (r + 1) % hoursInYear leap = r + 1 := Nat.mod_eq_of_lt (by omega)
      rw [h1]; omega
  · rw [hdoy]
    by_cases hlast : r + 1 = hoursInYear leap
    · rw [hlast, Nat.mod_self]; simp
    · have h1 : (r + 1) % hoursInYear leap = r + 1 := Nat.mod_eq_of_lt (by omega)
      rw [h1, if_neg hlast]
      split <;> omega

/-- Rows 0, 23 (hour 24 of 1 Jan) and the last row of a normal year, evaluated. -/
example : (datetimeOfIndex false 1, datetimeOfIndex false 24, datetimeOfIndex false ((8759 + 1) % 8760)) =
    (.ok ⟨1, 1, 1, 0, false⟩, .ok ⟨1, 2, 0, 0, false⟩, .ok ⟨1, 1, 0, 0, false⟩) := by decide +kernel

/-- Radiation / illuminance cells keep index `r`, whose date-time is the *start* of the hour that the
    row stamp closes: `(h - 1):00` of the stamped day. -/
theorem C01_radiation_index (leap : Bool) (r : Nat) (hr : r < hoursInYear leap) :
    ∃ d, datetimeOfIndex leap r = .ok d ∧ d.valid ∧ d.minute = 0 ∧ d.hour + 1 = (stampOfRow r).2 ∧
      d.doy = (stampOfRow r).1 := by
  have hN : hoursInYear leap = 24 * Cal.daysInYear leap := rfl
  have hM : Cal.minutesInYear leap = 1440 * Cal.daysInYear leap := rfl
  have hm : 60 * r < Cal.minutesInYear leap := by omega
  obtain ⟨d, hd, hv, hmoy, hmin, hhour, hdoy, hleap⟩ := Cal.C08_fromMoy_moy leap _ hm
  refine ⟨d, hd, hv, ?_, ?_, ?_⟩
  · rw [hmin]; omega
  · rw [hhour]; unfold stampOfRow; simp only; omega
  · rw [hdoy]; unfold stampOfRow; simp only; omega

/-! ### Exports -/

/-- A Wea line carries month, day and hour of the date-time of index `i` together with the direct normal
    and diffuse horizontal radiation (fields 14, 15) of the *same* index. -/
theorem C01_wea_lines {Val : Type} (leap : Bool) (cols : List (List Val)) (i : Nat) (m dd h : Nat) (a b : Val)
    (hl : weaLine leap cols i = .ok (m, dd, h, a, b)) :
    ∃ d dn df, datetimeOfIndex leap i = .ok d ∧ (m, dd, h) = (d.month, d.day, d.hour) ∧
      cols[14]? = some dn ∧ cols[15]? = some df ∧ dn[i]? = some a ∧ df[i]? = some b := by
  unfold weaLine at hl
  split at hl
  · rename_i dn df h14 h15
    split at hl
    · rename_i d a' b' hd ha hb
      simp only [Except.ok.injEq, Prod.mk.injEq] at hl
      obtain ⟨h1, h2, h3, h4, h5⟩ := hl
      exact ⟨d, dn, df, hd, by simp [h1, h2, h3], h14, h15, by rw [ha, h4], by rw [hb, h5]⟩
    · cases hl
  · cases hl

/-- The MOS time column counts the seconds from the start of the year to the date-time of the line
    (3600 s per hour; modelled as repaired). -/
theorem C01_mos_time (leap : Bool) (i : Nat) (hi : i < hoursInYear leap) :
    ∃ d, datetimeOfIndex leap i = .ok d ∧ mosTime i = 60 * d.moy := by
  have hN : hoursInYear leap = 24 * Cal.daysInYear leap := rfl
  have hM : Cal.minutesInYear leap = 1440 * Cal.daysInYear leap := rfl
  have hm : 60 * i < Cal.minutesInYear leap := by omega
  obtain ⟨d, hd, _, hmoy, _⟩ := Cal.C08_fromMoy_moy leap _ hm
  exact ⟨d, hd, by rw [hmoy]; unfold mosTime; omega⟩

/-- The stamps `from_missing_values` writes (as repaired) are the EPW stamps of the rows: after the
    write rotation row `r` carries month/day of day `r / 24 + 1` and hour `r % 24 + 1`.  A test by
    evaluation in the kernel on the first 100 rows, the rows of 27 Feb – 2 Mar and the last 30 rows of
    both years, not a general theorem (the correspondence op `stamps` compares every row). -/
theorem C01_missing_stamps_sampled :
    ∀ leap : Bool, ((List.range 100 ++ (List.range 120).map (· + 1370) ++
      (List.range 30).map (· + (hoursInYear leap - 30))).all (missingStampOk leap)) = true := by
  decide +kernel

end Epw
