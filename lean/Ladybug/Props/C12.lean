/-
  C12 — Wea objects carry the irradiance of their source at the right time steps.
  Property theorems only (helper lemmas: Proofs/C12Lemmas.lean).
  The model (Model/Wea.lean, on top of Cal = C08 and AP = C04) is tied to ladybug/wea.py by the
  correspondence ops of Drv/C12.lean (harness/props/c12.py).  It describes the code with
  fixes/C12_1..3 applied; the pinned sparse-path truncation is refuted below.

  Compared-only / oracle-only parts of the statement (no theorem): composition of the real collection
  filters (C02) inside `filter_by_*`, `from_epw_file` cells and interpolation (C01/C13), the sky-model
  constructors' values (C10), the CLI glue, the order of rows after `validate_analysis_period` (C13).
-/
import Ladybug.Proofs.C12Lemmas

open Cal

namespace Wea

/-! ### Time axis -/

theorem ts_div (ts : Nat) (h : ts ∈ Gen.Ap.validTimesteps) (i : Nat) : 60 * i / ts = i * (60 / ts) := by
  rcases AP.ts_cases h with e | e | e | e | e | e | e | e | e | e | e | e <;> subst e <;> omega

theorem annualAP_ok (ts : Nat) (h : ts ∈ Gen.Ap.validTimesteps) (leap : Bool) :
    annualAP (ts : Int) leap = .ok (AP.annual leap ts) := by
  rcases AP.ts_cases h with e | e | e | e | e | e | e | e | e | e | e | e <;> subst e <;> cases leap <;> decide

theorem mkCont_inv {α : Type} (ap : AP) (dni dhi : List α) (w : W α) (h : mkCont ap dni dhi = .ok w) :
    dni.length = ap.len ∧ dhi.length = ap.len ∧ w = ⟨true, ap, contDts ap, dni, dhi, false⟩ := by
  unfold mkCont at h
  split at h
  · cases h
  · split at h
    · cases h
    · rename_i h1 h2
      cases h
      exact ⟨by omega, by omega, rfl⟩

theorem annual_facts (ts : Nat) (h : ts ∈ Gen.Ap.validTimesteps) (leap : Bool) :
    (AP.annual leap ts).WF ∧ (AP.annual leap ts).isReversed = false ∧ (AP.annual leap ts).stMoy = 0 ∧
    (AP.annual leap ts).endMoy + 60 = minutesInYear leap ∧ (AP.annual leap ts).step = 60 / ts ∧
    minutesInYear leap / (60 / ts) = hoursInYear leap * ts := by
  rcases AP.ts_cases h with e | e | e | e | e | e | e | e | e | e | e | e <;> subst e <;> cases leap <;> decide

/-- **The instants the sky-model constructors evaluate** (`_get_datetimes`): entry `i` is a valid
    date-time of the (normal | leap) year at minute `i·(60/ts)` of the year, plus 30 minutes when the
    timestep is 1 – for all 12 timesteps and every index of the year. -/
theorem C12_get_datetimes (ts : Nat) (hts : ts ∈ Gen.Ap.validTimesteps) (leap : Bool) (i : Nat)
    (hi : i < hoursInYear leap * ts) :
    ∃ d, (getDatetimes ts leap)[i]? = some (.ok d) ∧ d.valid ∧ d.leap = leap ∧
      d.moy = i * (60 / ts) + adjust ts ∧ d.minute = (i * (60 / ts) + adjust ts) % 60 := by
  have hm : getMoy ts i = i * (60 / ts) + adjust ts := by unfold getMoy; rw [ts_div ts hts]
  have hb : getMoy ts i < minutesInYear leap := by
    rw [hm]
    unfold adjust hoursInYear at *
    rcases AP.ts_cases hts with e | e | e | e | e | e | e | e | e | e | e | e <;> subst e <;>
      cases leap <;> simp [minutesInYear, daysInYear] at hi ⊢ <;> omega
  obtain ⟨d, h1, h2, h3, h4, _, _, h7⟩ := C08_fromMoy_moy leap (getMoy ts i) hb
  refine ⟨d, ?_, h2, h7, by rw [h3, hm], by rw [h4, hm]⟩
  unfold getDatetimes
  rw [List.getElem?_map, List.getElem?_range hi]
  simp [h1]

example : (getDatetimes 1 true)[1416]? = some (.ok ⟨2, 29, 0, 30, true⟩) := by decide +kernel

section
attribute [local irreducible] contDts

/-- **Time axis of an annual Wea** (`from_annual_values`, hence `from_daysim_file`, the clear-sky
    constructors and the `timestep = 1` EPW path): it is accepted exactly with one value per step
    of the year, and step `i` of both collections is minute `i·(60/ts)` of the year – for all 12
    timesteps, normal and leap.  The values stay at their positions. -/
theorem C12_time_axis {α : Type} (ts : Nat) (hts : ts ∈ Gen.Ap.validTimesteps) (leap : Bool)
    (dni dhi : List α) (w : W α) (h : fromAnnualValues dni dhi (ts : Int) leap = .ok w) :
    w.dts.map DT.moy = prog 0 (60 / ts) (hoursInYear leap * ts) ∧
    (∀ d ∈ w.dts, d.valid ∧ d.leap = leap) ∧
    w.dni = dni ∧ w.dhi = dhi ∧ w.ap = AP.annual leap ts ∧ w.cont = true ∧ w.onHour = false ∧
    dni.length = hoursInYear leap * ts ∧ dhi.length = hoursInYear leap * ts := by
  obtain ⟨hwf, hnr, hst, hen, hstep, hn⟩ := annual_facts ts hts leap
  have hmoys := moys_wholeDay (AP.annual leap ts) hwf rfl rfl hnr
  rw [hst, hstep] at hmoys
  have hcnt : ((AP.annual leap ts).endMoy + 60 - 0) / (60 / ts) = hoursInYear leap * ts := by
    rw [hen]; simpa using hn
  rw [hcnt] at hmoys
  have hlen : (AP.annual leap ts).len = hoursInYear leap * ts := by
    rw [AP.C04_len _ hwf, hmoys]; simp [prog]
  have h' : mkCont (AP.annual leap ts) dni dhi = .ok w := by
    have := h
    unfold fromAnnualValues at this
    rw [annualAP_ok ts hts leap] at this
    exact this
  obtain ⟨l1, l2, hw⟩ := mkCont_inv _ _ _ _ h'
  have hdts : w.dts = contDts (AP.annual leap ts) := by rw [hw]
  refine ⟨by rw [hdts, contDts_moys _ hwf, hmoys], ?_, by rw [hw], by rw [hw], by rw [hw], by rw [hw],
    by rw [hw], ?_, ?_⟩
  · intro d hd
    rw [hdts] at hd
    obtain ⟨a, b, _⟩ := contDts_valid (AP.annual leap ts) hwf d hd
    exact ⟨a, b⟩
  · rw [← hlen]; exact l1
  · rw [← hlen]; exact l2

end

/-- **Hourly data is reported on the half hour unless on-the-hour is enforced, sub-hourly data on
    its own grid**: public step `i` of an annual Wea is minute `i·(60/ts)`, `+ 30` exactly when
    `ts = 1` and `enforce_on_hour` is off – and then it is the instant `_get_datetimes` evaluates,
    so the values computed by the sky-model constructors sit at their own time steps. -/
theorem C12_public_axis {α : Type} (ts : Nat) (hts : ts ∈ Gen.Ap.validTimesteps) (leap : Bool)
    (dni dhi : List α) (w : W α) (h : fromAnnualValues dni dhi (ts : Int) leap = .ok w) (onHour : Bool)
    (i : Nat) (hi : i < hoursInYear leap * ts) :
    ({ w with onHour := onHour } : W α).publicMoys[i]? = some (i * (60 / ts) + shift ts onHour) ∧
    (onHour = false → ({ w with onHour := onHour } : W α).publicMoys[i]? = some (getMoy ts i)) := by
  obtain ⟨h1, _, _, _, hap, _⟩ := C12_time_axis ts hts leap dni dhi w h
  have hpm : ({ w with onHour := onHour } : W α).publicMoys
      = (w.dts.map DT.moy).map (fun m => m + shift ts onHour) := by
    simp [W.publicMoys, hap, AP.annual, List.map_map, Function.comp_def]
  have hval : ({ w with onHour := onHour } : W α).publicMoys[i]? = some (i * (60 / ts) + shift ts onHour) := by
    rw [hpm, h1]
    simp [prog, List.getElem?_map, List.getElem?_range hi]
  refine ⟨hval, ?_⟩
  intro ho
  rw [hval, ho]
  unfold getMoy shift adjust
  rw [ts_div ts hts]
  simp

example : shift 1 false = 30 ∧ shift 1 true = 0 ∧ shift 4 false = 0 := by decide

/-! ### The data lines: `parse (format dt) = dt` -/

/-- **Sub-hourly lines read back exactly** (sparse path, repaired rounding): for every valid
    date-time – any month/day, all 24 × 60 (hour, minute) pairs, leap or not – the line written
    with `%.3f` of `hour + minute/60` is read back as the same date-time. -/
theorem C12_line_roundtrip (d : DT) (hv : d.valid) (ts : Int) (hts : ts ≠ 1) (a b : Rat) :
    lineDT prod60Exact ts d.leap (fmtLine d a b) = .ok d := by
  obtain ⟨h1, h2, h3, h4, h5, h6⟩ := hv
  have hf := minuteFact_of_lt d.hour d.minute (by omega) (by omega)
  simp only [minuteFact, Bool.and_eq_true, beq_iff_eq, decide_eq_true_eq] at hf
  obtain ⟨⟨⟨⟨⟨_, f2⟩, _⟩, _⟩, _⟩, _⟩ := hf
  unfold lineDT
  simp only [hts, if_false, fmtLine, f2]
  have hm : fromMod (60 * d.hour + d.minute) = .ok ⟨d.hour, d.minute⟩ := by
    unfold fromMod T.make normHM
    have e1 : (60 * d.hour + d.minute) / 60 = d.hour := by omega
    have e2 : (60 * d.hour + d.minute) % 60 = d.minute := by omega
    have e3 : d.minute / 60 = 0 := by omega
    have e4 : d.minute % 60 = d.minute := by omega
    simp only [e1, e2, e3, e4, Nat.add_zero]
    have : (⟨d.hour, d.minute⟩ : T).valid := ⟨h5, h6⟩
    simp [this]
  rw [hm]
  simp only [liftCal, bind, Except.bind]
  rw [make_of_valid d ⟨h1, h2, h3, h4, h5, h6⟩]

example : lineDT prod60Exact 3 false (fmtLine ⟨3, 1, 8, 20, false⟩ 0 0) = .ok ⟨3, 1, 8, 20, false⟩ := by
  decide +kernel

/-- **Hourly lines read back to the hour**: with `timestep = 1` the reader keeps `int(hour)`; the
    half hour written by an hourly Wea (`hh.500`) comes back as `hh:00` of the collection, to which
    `Wea.datetimes` adds the 30 minutes again. -/
theorem C12_line_roundtrip_hourly (d : DT) (hv : d.valid) (a b : Rat) :
    lineDT prod60Exact 1 d.leap (fmtLine d a b) = .ok { d with minute := 0 } := by
  obtain ⟨h1, h2, h3, h4, h5, h6⟩ := hv
  have hf := minuteFact_of_lt d.hour d.minute (by omega) (by omega)
  simp only [minuteFact, Bool.and_eq_true, beq_iff_eq, decide_eq_true_eq] at hf
  obtain ⟨⟨⟨⟨⟨f1, _⟩, _⟩, _⟩, _⟩, _⟩ := hf
  unfold lineDT
  simp only [if_true, fmtLine, f1, liftCal]
  have := make_of_valid { d with minute := 0 } ⟨h1, h2, h3, h4, h5, by simp⟩
  simp only at this
  rw [this]

/-- **The reading is robust against the float product**: any value within half a minute of the
    true minute of the day is read as that minute, and the exact product of the written token is
    within 0.03 minutes of it – so the IEEE rounding of `float(tok) * 60` cannot change the result. -/
theorem C12_sparse_minute_robust (h m : Nat) (hh : h < 24) (hm : m < 60) :
    (∀ x : Rat, x - ((60 * h + m : Nat) : Rat) < 1 / 2 → ((60 * h + m : Nat) : Rat) - x < 1 / 2 →
      minuteOfDay x = 60 * h + m) ∧
    prod60Exact (milliOf h m) - ((60 * h + m : Nat) : Rat) ≤ 3 / 100 ∧
    ((60 * h + m : Nat) : Rat) - prod60Exact (milliOf h m) ≤ 3 / 100 := by
  have hf := minuteFact_of_lt h m hh hm
  simp only [minuteFact, Bool.and_eq_true, beq_iff_eq, decide_eq_true_eq] at hf
  obtain ⟨⟨⟨⟨⟨_, _⟩, f3⟩, f4⟩, _⟩, _⟩ := hf
  refine ⟨?_, f3, f4⟩
  intro x h1 h2
  unfold minuteOfDay
  have := round_eq_of_near ((60 * h + m : Nat) : Int) x (by push_cast at h1 ⊢; linarith) (by push_cast at h2 ⊢; linarith)
  rw [this]; exact Int.toNat_natCast _

/-- **Exactly when the pinned truncation `int(float_hour * 60)` is right** (in exact arithmetic):
    for minute `m` of any hour iff `m % 3 ≠ 2` (the `%.3f` text was rounded up or is exact). -/
theorem C12_sparse_trunc_iff (h m : Nat) (hh : h < 24) (hm : m < 60) :
    minuteOfDayTrunc (prod60Exact (milliOf h m)) = 60 * h + m ↔ m % 3 ≠ 2 := by
  have hf := minuteFact_of_lt h m hh hm
  simp only [minuteFact, Bool.and_eq_true, beq_iff_eq, decide_eq_true_eq] at hf
  obtain ⟨⟨_, f5⟩, _⟩ := hf
  constructor
  · intro e
    have : (minuteOfDayTrunc (prod60Exact (milliOf h m)) == 60 * h + m) = true := by simp [e]
    rw [this] at f5
    simpa using f5.symm
  · intro e
    have : (m % 3 != 2) = true := by simp [e]
    rw [this] at f5
    simpa using f5

/-- Per timestep: truncation reads every step of the hour right iff the step is a multiple of three
    minutes, i.e. for timesteps 1, 2, 4, 5, 10, 20 and not for 3, 6, 12, 15, 30, 60 (exact
    arithmetic; with the IEEE product even 3-minute data fails, e.g. `8.2 * 60 = 491.99…`). -/
theorem C12_sparse_trunc_timesteps :
    ∀ ts ∈ Gen.Ap.validTimesteps,
      ((List.range ts).all fun k => minuteOfDayTrunc (prod60Exact (milliOf 8 (k * (60 / ts)))) == 480 + k * (60 / ts))
        = decide ((60 / ts) % 3 = 0) := by
  decide +kernel

/-- **Counterexample for the pinned code**: 20-minute data (timestep 3): the line `8.333` of 08:20
    is read as minute 499 of the day, i.e. 08:19. -/
theorem C12_sparse_trunc_counterexample :
    milliOf 8 20 = 8333 ∧ minuteOfDayTrunc (prod60Exact 8333) = 499 ∧ minuteOfDay (prod60Exact 8333) = 500 := by
  decide +kernel

/-! ### Values -/

/-- **Written value = `%d` truncation toward zero; read-back equals it** and writing it again
    changes nothing. -/
theorem C12_values_trunc (d : DT) (a b : Rat) :
    (fmtLine d a b).v1 = Py.truncRat a ∧ (fmtLine d a b).v2 = Py.truncRat b ∧
    Py.truncRat ((Py.truncRat a : Int) : Rat) = Py.truncRat a ∧
    (0 ≤ a → ((Py.truncRat a : Int) : Rat) ≤ a ∧ a < ((Py.truncRat a : Int) : Rat) + 1) ∧
    (a < 0 → a ≤ ((Py.truncRat a : Int) : Rat) ∧ ((Py.truncRat a : Int) : Rat) < a + 1) := by
  refine ⟨rfl, rfl, trunc_intCast _, ?_, ?_⟩
  · intro h
    unfold Py.truncRat
    simp only [h, if_true]
    have := Rat.lt_floor_add_one a
    push_cast at this
    exact ⟨Rat.floor_le a, this⟩
  · intro h
    unfold Py.truncRat
    have : ¬ (0 ≤ a) := by linarith
    simp only [this, if_false]
    exact ⟨Rat.le_ceil, Rat.ceil_lt⟩

example : Py.truncRat (-13 / 2) = -6 ∧ Py.truncRat (7 / 2) = 3 ∧ Py.truncRat (-1 / 2) = 0 := by decide +kernel

/-! ### Header -/

theorem round_le_int (x : Rat) (b : Int) (h : x ≤ (b : Rat)) : Py.round x ≤ b := by
  obtain ⟨g1, _⟩ := round_within x
  have a1 : ((Py.round x : Int) : Rat) < ((b + 1 : Int) : Rat) := by push_cast; linarith
  have : Py.round x < b + 1 := by exact_mod_cast a1
  omega

theorem int_le_round (x : Rat) (b : Int) (h : (b : Rat) ≤ x) : b ≤ Py.round x := by
  obtain ⟨_, g2⟩ := round_within x
  have a1 : ((b - 1 : Int) : Rat) < ((Py.round x : Int) : Rat) := by push_cast; linarith
  have : b - 1 < Py.round x := by exact_mod_cast a1
  omega

/-- **Header sign conventions invert.**  For every location inside the ranges `Location` accepts
    whose time zone is a whole number of degrees (`15·tz ∈ ℤ`, in particular every whole-hour zone):
    the header written with `-longitude` and `-time_zone·15` is parsed back to a location with the
    same city words and time zone, latitude and longitude within half a hundredth of a degree (the
    `%.2f` format) with their signs, elevation within 0.05 m. -/
theorem C12_header_signs (l : Loc) (hlat : -90 ≤ l.lat ∧ l.lat ≤ 90) (hlon : -180 ≤ l.lon ∧ l.lon ≤ 180)
    (htz : -12 ≤ l.tz ∧ l.tz ≤ 14) (k : Int) (hk : l.tz * 15 = (k : Rat)) :
    ∃ l', parseHeader (headerOf l) = .ok l' ∧ l'.city = l.city ∧ l'.tz = l.tz ∧
      l'.lat - l.lat ≤ 1 / 200 ∧ l.lat - l'.lat ≤ 1 / 200 ∧
      l'.lon - l.lon ≤ 1 / 200 ∧ l.lon - l'.lon ≤ 1 / 200 ∧
      l'.elev - l.elev ≤ 1 / 20 ∧ l.elev - l'.elev ≤ 1 / 20 := by
  have hA1 := round_le_int (l.lat * 100) 9000 (by push_cast; linarith [hlat.2])
  have hA2 := int_le_round (l.lat * 100) (-9000) (by push_cast; linarith [hlat.1])
  have hB1 := round_le_int (-l.lon * 100) 18000 (by push_cast; linarith [hlon.1])
  have hB2 := int_le_round (-l.lon * 100) (-18000) (by push_cast; linarith [hlon.2])
  obtain ⟨a1, a2⟩ := round_within (l.lat * 100)
  obtain ⟨b1, b2⟩ := round_within (-l.lon * 100)
  obtain ⟨c1, c2⟩ := round_within (l.elev * 10)
  have htr : Py.truncRat (-l.tz * 15) = -k := by
    have : -l.tz * 15 = ((-k : Int) : Rat) := by push_cast; linarith
    rw [this, trunc_intCast]
  have htz' : (((- -k : Int) : Int) : Rat) / 15 = l.tz := by
    push_cast; linarith
  have cA1 : ((Py.round (l.lat * 100) : Int) : Rat) ≤ 9000 := by exact_mod_cast hA1
  have cA2 : (-9000 : Rat) ≤ ((Py.round (l.lat * 100) : Int) : Rat) := by exact_mod_cast hA2
  have cB1 : ((Py.round (-l.lon * 100) : Int) : Rat) ≤ 18000 := by exact_mod_cast hB1
  have cB2 : (-18000 : Rat) ≤ ((Py.round (-l.lon * 100) : Int) : Rat) := by exact_mod_cast hB2
  refine ⟨⟨l.city, (Py.round (l.lat * 100) : Rat) / 100, -((Py.round (-l.lon * 100) : Rat) / 100), l.tz,
    (Py.round (l.elev * 10) : Rat) / 10⟩, ?_, rfl, rfl, ?_, ?_, ?_, ?_, ?_, ?_⟩
  · unfold parseHeader headerOf fmtHeader
    simp only [htr, htz']
    have n1 : ¬ ((Py.round (l.lat * 100) : Rat) / 100 < -90 ∨ 90 < (Py.round (l.lat * 100) : Rat) / 100) := by
      intro h; rcases h with h | h <;> linarith
    have n2 : ¬ (-((Py.round (-l.lon * 100) : Rat) / 100) < -180 ∨ 180 < -((Py.round (-l.lon * 100) : Rat) / 100)) := by
      intro h; rcases h with h | h <;> linarith
    have n3 : ¬ (l.tz < -12 ∨ 14 < l.tz) := by
      intro h; rcases h with h | h <;> linarith [htz.1, htz.2]
    simp only [n1, n2, n3, if_false]
  all_goals simp only; linarith

example : parseHeader (headerOf ⟨["Chicago"], 41.98, -87.92, -6, 201⟩) = .ok ⟨["Chicago"], 41.98, -87.92, -6, 201⟩ := by
  decide +kernel

/-- **Counterexample, fractional zones**: a location at UTC+5:30 writes `time_zone -82`
    (`%d` of −82.5) and reads back with time zone 82/15 = 5.4667 h.  (Known finding
    `C12-header-fractional-time-zone`; the file format has no fractional zone in this writer.) -/
theorem C12_header_time_zone_counterexample :
    (headerOf ⟨[], 0, 0, 11 / 2, 0⟩).tzDeg = -82 ∧
    parseHeader (headerOf ⟨[], 0, 0, 11 / 2, 0⟩) = .ok ⟨[], 0, 0, 82 / 15, 0⟩ := by
  decide +kernel

/-! ### Filters keep the two collections aligned -/

theorem pick_getElem? {β : Type} (l : List β) : ∀ (idx : List Nat), (∀ i ∈ idx, i < l.length) →
    (pick idx l).length = idx.length ∧ ∀ j : Nat, (pick idx l)[j]? = (idx[j]?).bind (fun i => l[i]?)
  | [], _ => by simp [pick]
  | i :: idx, h => by
    have hi : i < l.length := h i (by simp)
    obtain ⟨ih1, ih2⟩ := pick_getElem? l idx (fun x hx => h x (List.mem_cons_of_mem _ hx))
    have hs : l[i]? = some l[i] := List.getElem?_eq_getElem hi
    have hp : pick (i :: idx) l = l[i] :: pick idx l := by
      unfold pick; rw [List.filterMap_cons, hs]
    rw [hp]
    refine ⟨by simp [ih1], ?_⟩
    intro j
    cases j with
    | zero => simp [hs]
    | succ j => simpa using ih2 j

/-- **Filtering keeps the two irradiance collections aligned and returns exactly the selected
    steps.**  Whatever positions a collection filter selects from the time axis (C02 says which; the
    selection may not depend on the values), applying it to both collections of an aligned Wea gives
    two collections with the same datetimes, one value each per selected step, and entry `j` of all
    three lists is the entry of the *same* source position `idx[j]` – so a direct and a diffuse value
    never change partners or time step. -/
theorem C12_filters_aligned {α : Type} (sel : Sel) (dni dhi : Coll α) (hd : dni.dts = dhi.dts)
    (h1 : dni.vals.length = dni.dts.length) (h2 : dhi.vals.length = dhi.dts.length)
    (idx : List Nat) (hsel : sel dni.dts = some idx) (hin : ∀ i ∈ idx, i < dni.dts.length) :
    ∃ a b, filterWea sel dni dhi = some (a, b) ∧ a.dts = b.dts ∧
      a.dts.length = idx.length ∧ a.vals.length = idx.length ∧ b.vals.length = idx.length ∧
      ∀ j : Nat, a.dts[j]? = (idx[j]?).bind (fun i => dni.dts[i]?) ∧ a.vals[j]? = (idx[j]?).bind (fun i => dni.vals[i]?) ∧
           b.vals[j]? = (idx[j]?).bind (fun i => dhi.vals[i]?) := by
  have hsel2 : sel dhi.dts = some idx := by rw [← hd]; exact hsel
  obtain ⟨p1, p2⟩ := pick_getElem? dni.dts idx hin
  obtain ⟨q1, q2⟩ := pick_getElem? dni.vals idx (by rw [h1]; exact hin)
  obtain ⟨r1, r2⟩ := pick_getElem? dhi.vals idx (by rw [h2, ← hd]; exact hin)
  refine ⟨⟨pick idx dni.dts, pick idx dni.vals⟩, ⟨pick idx dhi.dts, pick idx dhi.vals⟩, ?_, by simp [hd],
    p1, q1, r1, fun j => ⟨p2 j, q2 j, r2 j⟩⟩
  unfold filterWea Coll.filter
  simp only [hsel, hsel2, Option.map_some]
  have : pick idx dni.dts = pick idx dhi.dts ∧ (pick idx dni.vals).length = (pick idx dhi.vals).length := by
    rw [hd, q1, r1]; exact ⟨rfl, rfl⟩
  simp [this.1, this.2]

example : filterWea (fun _ => some [2, 0]) ⟨[⟨1, 1, 0, 0, false⟩, ⟨1, 1, 1, 0, false⟩, ⟨1, 1, 2, 0, false⟩], [10, 11, 12]⟩
      ⟨[⟨1, 1, 0, 0, false⟩, ⟨1, 1, 1, 0, false⟩, ⟨1, 1, 2, 0, false⟩], [20, 21, 22]⟩
    = some (⟨[⟨1, 1, 2, 0, false⟩, ⟨1, 1, 0, 0, false⟩], [12, 10]⟩, ⟨[⟨1, 1, 2, 0, false⟩, ⟨1, 1, 0, 0, false⟩], [22, 20]⟩) := by
  decide

/-! ### Whole files -/

/-- **Partial (whole-day) data sits on its own grid from the first hour of the first day**: the
    collection steps of a continuous Wea over `ap` are `stMoy + i·(60/ts)`, `i < (endMoy + 60 − stMoy)/(60/ts)`,
    for a period inside the year; for a period that wraps the year end, the run from the start moment
    to the end of the year followed by the run from minute 0 to the end of the end day. -/
theorem C12_wholeDay_steps (ap : AP) (hwf : ap.WF) (h0 : ap.st_hour = 0) (h23 : ap.end_hour = 23) :
    (ap.isReversed = false →
      (contDts ap).map DT.moy = prog ap.stMoy ap.step ((ap.endMoy + 60 - ap.stMoy) / ap.step)) ∧
    (ap.isReversed = true →
      (contDts ap).map DT.moy = prog ap.stMoy ap.step ((minutesInYear ap.leap - ap.stMoy) / ap.step) ++
        prog 0 ap.step ((ap.endMoy + 60) / ap.step)) := by
  rw [contDts_moys ap hwf]
  exact ⟨moys_wholeDay ap hwf h0 h23, moys_wholeDay_wrap ap hwf h0 h23⟩

example : (⟨12, 31, 0, 1, 1, 23, 2, false⟩ : AP).WF ∧ (⟨12, 31, 0, 1, 1, 23, 2, false⟩ : AP).isReversed = true ∧
    prog 524160 30 ((525600 - 524160) / 30) ++ prog 0 30 ((1380 + 60) / 30) =
      (List.range 48).map (fun k => 524160 + 30 * k) ++ (List.range 48).map (fun k => 30 * k) := by decide

/-- **Whole-day data is recognised and read by position** (annual and partial, non-wrapping and
    wrapping alike): a file whose first line lies in hour 0 of the period's first day, whose last
    line lies in hour 23 of its last day and which has one line per step of the period is read as a
    continuous Wea over exactly that period, line `i` at step `i` of the enumeration
    (`C12_wholeDay_steps` gives its minute), values by position.
    Partial: that the lines *written* for such a Wea have this shape is shown per line
    (`C12_line_roundtrip*`, `C12_file_first_last`), the list plumbing of `to_file_string` is
    compared (op `write`) and checked by the oracle, not proved. -/
theorem C12_file_read_continuous_partial (prod60 : Nat → Rat) (ap : AP) (hwf : ap.WF)
    (h0 : ap.st_hour = 0) (h23 : ap.end_hour = 23) (lines : List Line) (first last : Line)
    (hf : lines.head? = some first) (hl : lines.getLast? = some last)
    (hfm : first.month = ap.st_month ∧ first.day = ap.st_day ∧ first.milli / 1000 = 0)
    (hlm : last.month = ap.end_month ∧ last.day = ap.end_day ∧ last.milli / 1000 = 23)
    (hn : lines.length = ap.len) :
    fromFile prod60 (ap.timestep : Int) ap.leap lines =
      .ok ⟨true, ap, contDts ap, lines.map (·.v1), lines.map (·.v2), false⟩ := by
  have hst : DT.make first.month first.day (first.milli / 1000) 0 ap.leap = .ok ap.stTime := by
    rw [hfm.1, hfm.2.1, hfm.2.2]
    have := make_of_valid ap.stTime hwf.1
    simpa [AP.stTime, h0] using this
  have hen : DT.make last.month last.day (last.milli / 1000) 0 ap.leap = .ok ap.endTime := by
    rw [hlm.1, hlm.2.1, hlm.2.2]
    have := make_of_valid ap.endTime hwf.2.1
    simpa [AP.endTime, h23] using this
  have hap : deriveAP ap.stTime ap.endTime (ap.timestep : Int) ap.leap = .ok ap := by
    have := AP.C04_mk_accepts ap hwf
    unfold AP.duplicate at this
    unfold deriveAP
    simp only [AP.stTime, AP.endTime]
    rw [this]; rfl
  unfold fromFile
  simp only [hf, hl, hst, hen, liftCal, bind, Except.bind, hap]
  have hc : ap.len = lines.length ∧ ¬ (ap.st_hour ≠ 0 ∨ ap.end_hour ≠ 23) := ⟨hn.symm, by simp [h0, h23]⟩
  simp only [hc, if_true]
  simp


theorem shift_step (ap : AP) (hwf : ap.WF) (onHour : Bool) :
    60 - ap.step + shift ap.timestep onHour ≤ 59 ∧ shift ap.timestep onHour ≤ 30 := by
  unfold shift
  rcases AP.ts_cases hwf.2.2 with e | e | e | e | e | e | e | e | e | e | e | e <;>
    simp only [AP.step, e] <;> cases onHour <;> simp

/-- **First and last written line of whole-day data**: the public datetime of the first step
    (`stMoy + shift`) is written with the period's start month/day and hour 0, the one of the last
    step (`endMoy + 60 − step + shift`) with the end month/day and hour 23 – for every timestep, with
    and without the half-hour shift.  Together with `C12_wholeDay_steps` (which minute each step is)
    and `C12_file_read_continuous_partial` (what the reader does with such a file) this is the
    round trip of annual and partial whole-day data. -/
theorem C12_file_first_last (ap : AP) (hwf : ap.WF) (h0 : ap.st_hour = 0) (h23 : ap.end_hour = 23)
    (onHour : Bool) (a b : Rat) :
    ∃ d₁ d₂ : DT,
      fromMoy ap.leap ((ap.stMoy + shift ap.timestep onHour : Nat) : Int) = .ok d₁ ∧
      fromMoy ap.leap ((ap.endMoy + (60 - ap.step) + shift ap.timestep onHour : Nat) : Int) = .ok d₂ ∧
      (fmtLine d₁ a b).month = ap.st_month ∧ (fmtLine d₁ a b).day = ap.st_day ∧ (fmtLine d₁ a b).milli / 1000 = 0 ∧
      (fmtLine d₂ a b).month = ap.end_month ∧ (fmtLine d₂ a b).day = ap.end_day ∧ (fmtLine d₂ a b).milli / 1000 = 23 := by
  obtain ⟨s1, s2⟩ := shift_step ap hwf onHour
  obtain ⟨v1, v2, v3, v4, _, _⟩ := hwf.1
  obtain ⟨w1, w2, w3, w4, _, _⟩ := hwf.2.1
  simp only [AP.stTime, AP.endTime] at v1 v2 v3 v4 w1 w2 w3 w4
  let d₁ : DT := ⟨ap.st_month, ap.st_day, 0, shift ap.timestep onHour, ap.leap⟩
  let d₂ : DT := ⟨ap.end_month, ap.end_day, 23, 60 - ap.step + shift ap.timestep onHour, ap.leap⟩
  have hv1 : d₁.valid := ⟨v1, v2, v3, v4, by simp [d₁], by simp [d₁]; omega⟩
  have hv2 : d₂.valid := ⟨w1, w2, w3, w4, by simp [d₂], by simp [d₂]; omega⟩
  have m1 : d₁.moy = ap.stMoy + shift ap.timestep onHour := by
    simp [d₁, AP.stMoy, AP.stTime, DT.moy, DT.intHoy, DT.doy, h0]
  have m2 : d₂.moy = ap.endMoy + (60 - ap.step) + shift ap.timestep onHour := by
    simp [d₂, AP.endMoy, AP.endTime, DT.moy, DT.intHoy, DT.doy, h23]; omega
  have r1 := C08_moy_fromMoy d₁ hv1
  have r2 := C08_moy_fromMoy d₂ hv2
  rw [m1] at r1
  rw [m2] at r2
  have f1 := minuteFact_of_lt d₁.hour d₁.minute (by simp [d₁]) (by simp [d₁]; omega)
  have f2 := minuteFact_of_lt d₂.hour d₂.minute (by simp [d₂]) (by simp [d₂]; omega)
  simp only [minuteFact, Bool.and_eq_true, beq_iff_eq, decide_eq_true_eq] at f1 f2
  refine ⟨d₁, d₂, r1, r2, rfl, rfl, ?_, rfl, rfl, ?_⟩
  · exact f1.1.1.1.1.1
  · exact f2.1.1.1.1.1


/-! ### Dictionary round trip -/

/-- **Annual data, dictionary round trip**: `from_dict(to_dict(w))` is `w` – same period
    (timestep, leap flag), time axis and both value lists – for all 12 timesteps, normal and leap. -/
theorem C12_dict_roundtrip_annual {α : Type} (ts : Nat) (hts : ts ∈ Gen.Ap.validTimesteps) (leap : Bool)
    (dni dhi : List α) (w : W α) (h : fromAnnualValues dni dhi (ts : Int) leap = .ok w) :
    (toDict w).datetimes = none ∧ fromDict (toDict w) = .ok w := by
  obtain ⟨_, _, e1, e2, e3, e4, _, _, _⟩ := C12_time_axis ts hts leap dni dhi w h
  have hann : w.isAnnual = true := by simp [W.isAnnual, e3, e4, AP.annual, AP.isAnnual]
  have hd : (toDict w).datetimes = none := by simp [toDict, hann]
  refine ⟨hd, ?_⟩
  unfold fromDict
  simp only [hd]
  simp only [toDict, e3, AP.annual, Option.getD_some, e1, e2]
  unfold fromAnnualValues at h
  simpa [AP.annual] using h

end Wea
