/-
  C12 — Wea objects carry the irradiance of their source at the right time steps.
  Property theorems only (helper lemmas: Proofs/C12Lemmas.lean).
  The model (Model/Wea.lean, on top of Cal = C08 and AP = C04) is tied to ladybug/wea.py by the
  correspondence ops of Drv/C12.lean (harness/props/c12.py).  It describes the code with
  fixes/C12_1..3 applied; the pinned sparse-path truncation is refuted below.

  Compared-only / oracle-only parts of the statement (no theorem): composition of the real collection
  filters (C02) inside `filter_by_*`, `from_epw_file` cells and interpolation (C01/C13), the sky-model
  constructors' values (C10), the CLI glue, the rotation of sparse rows for year-wrapping header
  periods and the repaired header period after `validate_analysis_period` (C13).
-/
import Ladybug.Proofs.C12Lemmas
import Ladybug.Proofs.C12Files
import Ladybug.Proofs.C12Obj
import Ladybug.Model.WeaCli
import Ladybug.Proofs.C04Listings

open Cal

namespace Wea

/-! ### Time axis -/

theorem ts_div (ts : Nat) (h : ts ∈ Gen.Ap.validTimesteps) (i : Nat) : 60 * i / ts = i * (60 / ts) := by
  rcases AP.ts_cases h with e | e | e | e | e | e | e | e | e | e | e | e <;> subst e <;> omega

theorem annualAP_ok (ts : Nat) (h : ts ∈ Gen.Ap.validTimesteps) (leap : Bool) :
    annualAP (ts : Int) leap = .ok (AP.annual leap ts) := by
  rcases AP.ts_cases h with e | e | e | e | e | e | e | e | e | e | e | e <;> subst e <;> cases leap <;> decide

theorem mkCont_inv {α : Type} (ap : AP) (dni dhi : List α) (w : W α) (h : mkCont ap dni dhi = .ok w) :
    dni.length = ap.len ∧ dhi.length = ap.len ∧ w = ⟨true, ap, contDts ap, dni, dhi, false⟩ := by
  unfold mkCont at h
  split at h
  · cases h
  · split at h
    · cases h
    · rename_i h1 h2
      cases h
      exact ⟨by omega, by omega, rfl⟩

theorem annual_facts (ts : Nat) (h : ts ∈ Gen.Ap.validTimesteps) (leap : Bool) :
    (AP.annual leap ts).WF ∧ (AP.annual leap ts).isReversed = false ∧ (AP.annual leap ts).stMoy = 0 ∧
    (AP.annual leap ts).endMoy + 60 = minutesInYear leap ∧ (AP.annual leap ts).step = 60 / ts ∧
    minutesInYear leap / (60 / ts) = hoursInYear leap * ts := by
  rcases AP.ts_cases h with e | e | e | e | e | e | e | e | e | e | e | e <;> subst e <;> cases leap <;> decide

/-- **The instants the sky-model constructors evaluate** (`_get_datetimes`): entry `i` is a valid
    date-time of the (normal | leap) year at minute `i·(60/ts)` of the year, plus 30 minutes when the
    timestep is 1 – for all 12 timesteps and every index of the year. -/
theorem C12_get_datetimes (ts : Nat) (hts : ts ∈ Gen.Ap.validTimesteps) (leap : Bool) (i : Nat)
    (hi : i < hoursInYear leap * ts) :
    ∃ d, (getDatetimes ts leap)[i]? = some (.ok d) ∧ d.valid ∧ d.leap = leap ∧
      d.moy = i * (60 / ts) + adjust ts ∧ d.minute = (i * (60 / ts) + adjust ts) % 60 := by
  have hm : getMoy ts i = i * (60 / ts) + adjust ts := by unfold getMoy; rw [ts_div ts hts]
  have hb : getMoy ts i < minutesInYear leap := by
    rw [hm]
    unfold adjust hoursInYear at *
    rcases AP.ts_cases hts with e | e | e | e | e | e | e | e | e | e | e | e <;> subst e <;>
      cases leap <;> simp [minutesInYear, daysInYear] at hi ⊢ <;> omega
  obtain ⟨d, h1, h2, h3, h4, _, _, h7⟩ := C08_fromMoy_moy leap (getMoy ts i) hb
  refine ⟨d, ?_, h2, h7, by rw [h3, hm], by rw [h4, hm]⟩
  unfold getDatetimes
  rw [List.getElem?_map, List.getElem?_range hi]
  simp [h1]

example : (getDatetimes 1 true)[1416]? = some (.ok ⟨2, 29, 0, 30, true⟩) := by decide +kernel

section
attribute [local irreducible] contDts

/-- **Time axis of an annual Wea** (`from_annual_values`, hence `from_daysim_file`, the clear-sky
    constructors and the `timestep = 1` EPW path): it is accepted exactly with one value per step
    of the year, and step `i` of both collections is minute `i·(60/ts)` of the year – for all 12
    timesteps, normal and leap.  The values stay at their positions. -/
theorem C12_time_axis {α : Type} (ts : Nat) (hts : ts ∈ Gen.Ap.validTimesteps) (leap : Bool)
    (dni dhi : List α) (w : W α) (h : fromAnnualValues dni dhi (ts : Int) leap = .ok w) :
    w.dts.map DT.moy = prog 0 (60 / ts) (hoursInYear leap * ts) ∧
    (∀ d ∈ w.dts, d.valid ∧ d.leap = leap) ∧
    w.dni = dni ∧ w.dhi = dhi ∧ w.ap = AP.annual leap ts ∧ w.cont = true ∧ w.onHour = false ∧
    dni.length = hoursInYear leap * ts ∧ dhi.length = hoursInYear leap * ts := by
  obtain ⟨hwf, hnr, hst, hen, hstep, hn⟩ := annual_facts ts hts leap
  have hmoys := moys_wholeDay (AP.annual leap ts) hwf rfl rfl hnr
  rw [hst, hstep] at hmoys
  have hcnt : ((AP.annual leap ts).endMoy + 60 - 0) / (60 / ts) = hoursInYear leap * ts := by
    rw [hen]; simpa using hn
  rw [hcnt] at hmoys
  have hlen : (AP.annual leap ts).len = hoursInYear leap * ts := by
    rw [AP.C04_len _ hwf, hmoys]; simp [prog]
  have h' : mkCont (AP.annual leap ts) dni dhi = .ok w := by
    have := h
    unfold fromAnnualValues at this
    rw [annualAP_ok ts hts leap] at this
    exact this
  obtain ⟨l1, l2, hw⟩ := mkCont_inv _ _ _ _ h'
  have hdts : w.dts = contDts (AP.annual leap ts) := by rw [hw]
  refine ⟨by rw [hdts, contDts_moys _ hwf, hmoys], ?_, by rw [hw], by rw [hw], by rw [hw], by rw [hw],
    by rw [hw], ?_, ?_⟩
  · intro d hd
    rw [hdts] at hd
    obtain ⟨a, b, _⟩ := contDts_valid (AP.annual leap ts) hwf d hd
    exact ⟨a, b⟩
  · rw [← hlen]; exact l1
  · rw [← hlen]; exact l2

end

/-- **Hourly data is reported on the half hour unless on-the-hour is enforced, sub-hourly data on
    its own grid**: public step `i` of an annual Wea is minute `i·(60/ts)`, `+ 30` exactly when
    `ts = 1` and `enforce_on_hour` is off – and then it is the instant `_get_datetimes` evaluates,
    so the values computed by the sky-model constructors sit at their own time steps. -/
theorem C12_public_axis {α : Type} (ts : Nat) (hts : ts ∈ Gen.Ap.validTimesteps) (leap : Bool)
    (dni dhi : List α) (w : W α) (h : fromAnnualValues dni dhi (ts : Int) leap = .ok w) (onHour : Bool)
    (i : Nat) (hi : i < hoursInYear leap * ts) :
    ({ w with onHour := onHour } : W α).publicMoys[i]? = some (i * (60 / ts) + shift ts onHour) ∧
    (onHour = false → ({ w with onHour := onHour } : W α).publicMoys[i]? = some (getMoy ts i)) := by
  obtain ⟨h1, _, _, _, hap, _⟩ := C12_time_axis ts hts leap dni dhi w h
  have hpm : ({ w with onHour := onHour } : W α).publicMoys
      = (w.dts.map DT.moy).map (fun m => m + shift ts onHour) := by
    simp [W.publicMoys, hap, AP.annual, List.map_map, Function.comp_def]
  have hval : ({ w with onHour := onHour } : W α).publicMoys[i]? = some (i * (60 / ts) + shift ts onHour) := by
    rw [hpm, h1]
    simp [prog, List.getElem?_map, List.getElem?_range hi]
  refine ⟨hval, ?_⟩
  intro ho
  rw [hval, ho]
  unfold getMoy shift adjust
  rw [ts_div ts hts]
  simp

example : shift 1 false = 30 ∧ shift 1 true = 0 ∧ shift 4 false = 0 := by decide

/-! ### The data lines: `parse (format dt) = dt` -/

/-- **Sub-hourly lines read back exactly** (sparse path, repaired rounding): for every valid
    date-time – any month/day, all 24 × 60 (hour, minute) pairs, leap or not – the line written
    with `%.3f` of `hour + minute/60` is read back as the same date-time. -/
theorem C12_line_roundtrip (d : DT) (hv : d.valid) (ts : Int) (hts : ts ≠ 1) (a b : Rat) :
    lineDT prod60Exact ts d.leap (fmtLine d a b) = .ok d := by
  obtain ⟨h1, h2, h3, h4, h5, h6⟩ := hv
  have hf := minuteFact_of_lt d.hour d.minute (by omega) (by omega)
  simp only [minuteFact, Bool.and_eq_true, beq_iff_eq, decide_eq_true_eq] at hf
  obtain ⟨⟨⟨⟨⟨_, f2⟩, _⟩, _⟩, _⟩, _⟩ := hf
  unfold lineDT
  simp only [hts, if_false, fmtLine, f2]
  have hm : fromMod (60 * d.hour + d.minute) = .ok ⟨d.hour, d.minute⟩ := by
    unfold fromMod T.make normHM
    have e1 : (60 * d.hour + d.minute) / 60 = d.hour := by omega
    have e2 : (60 * d.hour + d.minute) % 60 = d.minute := by omega
    have e3 : d.minute / 60 = 0 := by omega
    have e4 : d.minute % 60 = d.minute := by omega
    simp only [e1, e2, e3, e4, Nat.add_zero]
    have : (⟨d.hour, d.minute⟩ : T).valid := ⟨h5, h6⟩
    simp [this]
  rw [hm]
  simp only [liftCal, bind, Except.bind]
  rw [make_of_valid d ⟨h1, h2, h3, h4, h5, h6⟩]

example : lineDT prod60Exact 3 false (fmtLine ⟨3, 1, 8, 20, false⟩ 0 0) = .ok ⟨3, 1, 8, 20, false⟩ := by
  decide +kernel

/-- **Hourly lines read back to the hour**: with `timestep = 1` the reader keeps `int(hour)`; the
    half hour written by an hourly Wea (`hh.500`) comes back as `hh:00` of the collection, to which
    `Wea.datetimes` adds the 30 minutes again. -/
theorem C12_line_roundtrip_hourly (d : DT) (hv : d.valid) (a b : Rat) :
    lineDT prod60Exact 1 d.leap (fmtLine d a b) = .ok { d with minute := 0 } := by
  obtain ⟨h1, h2, h3, h4, h5, h6⟩ := hv
  have hf := minuteFact_of_lt d.hour d.minute (by omega) (by omega)
  simp only [minuteFact, Bool.and_eq_true, beq_iff_eq, decide_eq_true_eq] at hf
  obtain ⟨⟨⟨⟨⟨f1, _⟩, _⟩, _⟩, _⟩, _⟩ := hf
  unfold lineDT
  simp only [if_true, fmtLine, f1, liftCal]
  have := make_of_valid { d with minute := 0 } ⟨h1, h2, h3, h4, h5, by simp⟩
  simp only at this
  rw [this]

/-- **The reading is robust against the float product**: any value within half a minute of the
    true minute of the day is read as that minute, and the exact product of the written token is
    within 0.03 minutes of it – so the IEEE rounding of `float(tok) * 60` cannot change the result. -/
theorem C12_sparse_minute_robust (h m : Nat) (hh : h < 24) (hm : m < 60) :
    (∀ x : Rat, x - ((60 * h + m : Nat) : Rat) < 1 / 2 → ((60 * h + m : Nat) : Rat) - x < 1 / 2 →
      minuteOfDay x = 60 * h + m) ∧
    prod60Exact (milliOf h m) - ((60 * h + m : Nat) : Rat) ≤ 3 / 100 ∧
    ((60 * h + m : Nat) : Rat) - prod60Exact (milliOf h m) ≤ 3 / 100 := by
  have hf := minuteFact_of_lt h m hh hm
  simp only [minuteFact, Bool.and_eq_true, beq_iff_eq, decide_eq_true_eq] at hf
  obtain ⟨⟨⟨⟨⟨_, _⟩, f3⟩, f4⟩, _⟩, _⟩ := hf
  refine ⟨?_, f3, f4⟩
  intro x h1 h2
  unfold minuteOfDay
  have := round_eq_of_near ((60 * h + m : Nat) : Int) x (by push_cast at h1 ⊢; linarith) (by push_cast at h2 ⊢; linarith)
  rw [this]; exact Int.toNat_natCast _

/-- **Exactly when the pinned truncation `int(float_hour * 60)` is right** (in exact arithmetic):
    for minute `m` of any hour iff `m % 3 ≠ 2` (the `%.3f` text was rounded up or is exact). -/
theorem C12_sparse_trunc_iff (h m : Nat) (hh : h < 24) (hm : m < 60) :
    minuteOfDayTrunc (prod60Exact (milliOf h m)) = 60 * h + m ↔ m % 3 ≠ 2 := by
  have hf := minuteFact_of_lt h m hh hm
  simp only [minuteFact, Bool.and_eq_true, beq_iff_eq, decide_eq_true_eq] at hf
  obtain ⟨⟨_, f5⟩, _⟩ := hf
  constructor
  · intro e
    have : (minuteOfDayTrunc (prod60Exact (milliOf h m)) == 60 * h + m) = true := by simp [e]
    rw [this] at f5
    simpa using f5.symm
  · intro e
    have : (m % 3 != 2) = true := by simp [e]
    rw [this] at f5
    simpa using f5

/-- Per timestep: truncation reads every step of the hour right iff the step is a multiple of three
    minutes, i.e. for timesteps 1, 2, 4, 5, 10, 20 and not for 3, 6, 12, 15, 30, 60 (exact
    arithmetic; with the IEEE product even 3-minute data fails, e.g. `8.2 * 60 = 491.99…`). -/
theorem C12_sparse_trunc_timesteps :
    ∀ ts ∈ Gen.Ap.validTimesteps,
      ((List.range ts).all fun k => minuteOfDayTrunc (prod60Exact (milliOf 8 (k * (60 / ts)))) == 480 + k * (60 / ts))
        = decide ((60 / ts) % 3 = 0) := by
  decide +kernel

/-- **Counterexample for the pinned code**: 20-minute data (timestep 3): the line `8.333` of 08:20
    is read as minute 499 of the day, i.e. 08:19. -/
theorem C12_sparse_trunc_counterexample :
    milliOf 8 20 = 8333 ∧ minuteOfDayTrunc (prod60Exact 8333) = 499 ∧ minuteOfDay (prod60Exact 8333) = 500 := by
  decide +kernel

/-! ### Values -/

/-- **Written value = `%d` truncation toward zero; read-back equals it** and writing it again
    changes nothing. -/
theorem C12_values_trunc (d : DT) (a b : Rat) :
    (fmtLine d a b).v1 = Py.truncRat a ∧ (fmtLine d a b).v2 = Py.truncRat b ∧
    Py.truncRat ((Py.truncRat a : Int) : Rat) = Py.truncRat a ∧
    (0 ≤ a → ((Py.truncRat a : Int) : Rat) ≤ a ∧ a < ((Py.truncRat a : Int) : Rat) + 1) ∧
    (a < 0 → a ≤ ((Py.truncRat a : Int) : Rat) ∧ ((Py.truncRat a : Int) : Rat) < a + 1) := by
  refine ⟨rfl, rfl, trunc_intCast _, ?_, ?_⟩
  · intro h
    unfold Py.truncRat
    simp only [h, if_true]
    have := Rat.lt_floor_add_one a
    push_cast at this
    exact ⟨Rat.floor_le a, this⟩
  · intro h
    unfold Py.truncRat
    have : ¬ (0 ≤ a) := by linarith
    simp only [this, if_false]
    exact ⟨Rat.le_ceil, Rat.ceil_lt⟩

example : Py.truncRat (-13 / 2) = -6 ∧ Py.truncRat (7 / 2) = 3 ∧ Py.truncRat (-1 / 2) = 0 := by decide +kernel

/-! ### Header -/

theorem round_le_int (x : Rat) (b : Int) (h : x ≤ (b : Rat)) : Py.round x ≤ b := by
  obtain ⟨g1, _⟩ := round_within x
  have a1 : ((Py.round x : Int) : Rat) < ((b + 1 : Int) : Rat) := by push_cast; linarith
  have : Py.round x < b + 1 := by exact_mod_cast a1
  omega

theorem int_le_round (x : Rat) (b : Int) (h : (b : Rat) ≤ x) : b ≤ Py.round x := by
  obtain ⟨_, g2⟩ := round_within x
  have a1 : ((b - 1 : Int) : Rat) < ((Py.round x : Int) : Rat) := by push_cast; linarith
  have : b - 1 < Py.round x := by exact_mod_cast a1
  omega

/-- **Header sign conventions invert.**  For every location inside the ranges `Location` accepts
    whose time zone is a whole number of degrees (`15·tz ∈ ℤ`, in particular every whole-hour zone):
    the header written with `-longitude` and `-time_zone·15` is parsed back to a location with the
    same city words and time zone, latitude and longitude within half a hundredth of a degree (the
    `%.2f` format) with their signs, elevation within 0.05 m. -/
theorem C12_header_signs (l : Loc) (hlat : -90 ≤ l.lat ∧ l.lat ≤ 90) (hlon : -180 ≤ l.lon ∧ l.lon ≤ 180)
    (htz : -12 ≤ l.tz ∧ l.tz ≤ 14) (k : Int) (hk : l.tz * 15 = (k : Rat)) :
    ∃ l', parseHeader (headerOf l) = .ok l' ∧ l'.city = l.city ∧ l'.tz = l.tz ∧
      l'.lat - l.lat ≤ 1 / 200 ∧ l.lat - l'.lat ≤ 1 / 200 ∧
      l'.lon - l.lon ≤ 1 / 200 ∧ l.lon - l'.lon ≤ 1 / 200 ∧
      l'.elev - l.elev ≤ 1 / 20 ∧ l.elev - l'.elev ≤ 1 / 20 := by
  have hA1 := round_le_int (l.lat * 100) 9000 (by push_cast; linarith [hlat.2])
  have hA2 := int_le_round (l.lat * 100) (-9000) (by push_cast; linarith [hlat.1])
  have hB1 := round_le_int (-l.lon * 100) 18000 (by push_cast; linarith [hlon.1])
  have hB2 := int_le_round (-l.lon * 100) (-18000) (by push_cast; linarith [hlon.2])
  obtain ⟨a1, a2⟩ := round_within (l.lat * 100)
  obtain ⟨b1, b2⟩ := round_within (-l.lon * 100)
  obtain ⟨c1, c2⟩ := round_within (l.elev * 10)
  have htr : Py.truncRat (-l.tz * 15) = -k := by
    have : -l.tz * 15 = ((-k : Int) : Rat) := by push_cast; linarith
    rw [this, trunc_intCast]
  have htz' : (((- -k : Int) : Int) : Rat) / 15 = l.tz := by
    push_cast; linarith
  have cA1 : ((Py.round (l.lat * 100) : Int) : Rat) ≤ 9000 := by exact_mod_cast hA1
  have cA2 : (-9000 : Rat) ≤ ((Py.round (l.lat * 100) : Int) : Rat) := by exact_mod_cast hA2
  have cB1 : ((Py.round (-l.lon * 100) : Int) : Rat) ≤ 18000 := by exact_mod_cast hB1
  have cB2 : (-18000 : Rat) ≤ ((Py.round (-l.lon * 100) : Int) : Rat) := by exact_mod_cast hB2
  refine ⟨⟨l.city, (Py.round (l.lat * 100) : Rat) / 100, -((Py.round (-l.lon * 100) : Rat) / 100), l.tz,
    (Py.round (l.elev * 10) : Rat) / 10⟩, ?_, rfl, rfl, ?_, ?_, ?_, ?_, ?_, ?_⟩
  · unfold parseHeader headerOf fmtHeader
    simp only [htr, htz']
    have n1 : ¬ ((Py.round (l.lat * 100) : Rat) / 100 < -90 ∨ 90 < (Py.round (l.lat * 100) : Rat) / 100) := by
      intro h; rcases h with h | h <;> linarith
    have n2 : ¬ (-((Py.round (-l.lon * 100) : Rat) / 100) < -180 ∨ 180 < -((Py.round (-l.lon * 100) : Rat) / 100)) := by
      intro h; rcases h with h | h <;> linarith
    have n3 : ¬ (l.tz < -12 ∨ 14 < l.tz) := by
      intro h; rcases h with h | h <;> linarith [htz.1, htz.2]
    simp only [n1, n2, n3, if_false]
  all_goals simp only; linarith

example : parseHeader (headerOf ⟨["Chicago"], 41.98, -87.92, -6, 201⟩) = .ok ⟨["Chicago"], 41.98, -87.92, -6, 201⟩ := by
  decide +kernel

/-- **Counterexample, fractional zones**: a location at UTC+5:30 writes `time_zone -82`
    (`%d` of −82.5) and reads back with time zone 82/15 = 5.4667 h.  (Known finding
    `C12-header-fractional-time-zone`; the file format has no fractional zone in this writer.) -/
theorem C12_header_time_zone_counterexample :
    (headerOf ⟨[], 0, 0, 11 / 2, 0⟩).tzDeg = -82 ∧
    parseHeader (headerOf ⟨[], 0, 0, 11 / 2, 0⟩) = .ok ⟨[], 0, 0, 82 / 15, 0⟩ := by
  decide +kernel

/-! ### Filters keep the two collections aligned -/

theorem pick_getElem? {β : Type} (l : List β) : ∀ (idx : List Nat), (∀ i ∈ idx, i < l.length) →
    (pick idx l).length = idx.length ∧ ∀ j : Nat, (pick idx l)[j]? = (idx[j]?).bind (fun i => l[i]?)
  | [], _ => by simp [pick]
  | i :: idx, h => by
    have hi : i < l.length := h i (by simp)
    obtain ⟨ih1, ih2⟩ := pick_getElem? l idx (fun x hx => h x (List.mem_cons_of_mem _ hx))
    have hs : l[i]? = some l[i] := List.getElem?_eq_getElem hi
    have hp : pick (i :: idx) l = l[i] :: pick idx l := by
      unfold pick; rw [List.filterMap_cons, hs]
    rw [hp]
    refine ⟨by simp [ih1], ?_⟩
    intro j
    cases j with
    | zero => simp [hs]
    | succ j => simpa using ih2 j

/-- **Filtering keeps the two irradiance collections aligned and returns exactly the selected
    steps.**  Whatever positions a collection filter selects from the time axis (C02 says which; the
    selection may not depend on the values), applying it to both collections of an aligned Wea gives
    two collections with the same datetimes, one value each per selected step, and entry `j` of all
    three lists is the entry of the *same* source position `idx[j]` – so a direct and a diffuse value
    never change partners or time step. -/
theorem C12_filters_aligned {α : Type} (sel : Sel) (dni dhi : Coll α) (hd : dni.dts = dhi.dts)
    (h1 : dni.vals.length = dni.dts.length) (h2 : dhi.vals.length = dhi.dts.length)
    (idx : List Nat) (hsel : sel dni.dts = some idx) (hin : ∀ i ∈ idx, i < dni.dts.length) :
    ∃ a b, filterWea sel dni dhi = some (a, b) ∧ a.dts = b.dts ∧
      a.dts.length = idx.length ∧ a.vals.length = idx.length ∧ b.vals.length = idx.length ∧
      ∀ j : Nat, a.dts[j]? = (idx[j]?).bind (fun i => dni.dts[i]?) ∧ a.vals[j]? = (idx[j]?).bind (fun i => dni.vals[i]?) ∧
           b.vals[j]? = (idx[j]?).bind (fun i => dhi.vals[i]?) := by
  have hsel2 : sel dhi.dts = some idx := by rw [← hd]; exact hsel
  obtain ⟨p1, p2⟩ := pick_getElem? dni.dts idx hin
  obtain ⟨q1, q2⟩ := pick_getElem? dni.vals idx (by rw [h1]; exact hin)
  obtain ⟨r1, r2⟩ := pick_getElem? dhi.vals idx (by rw [h2, ← hd]; exact hin)
  refine ⟨⟨pick idx dni.dts, pick idx dni.vals⟩, ⟨pick idx dhi.dts, pick idx dhi.vals⟩, ?_, by simp [hd],
    p1, q1, r1, fun j => ⟨p2 j, q2 j, r2 j⟩⟩
  unfold filterWea Coll.filter
  simp only [hsel, hsel2, Option.map_some]
  have : pick idx dni.dts = pick idx dhi.dts ∧ (pick idx dni.vals).length = (pick idx dhi.vals).length := by
    rw [hd, q1, r1]; exact ⟨rfl, rfl⟩
  simp [this.1, this.2]

example : filterWea (fun _ => some [2, 0]) ⟨[⟨1, 1, 0, 0, false⟩, ⟨1, 1, 1, 0, false⟩, ⟨1, 1, 2, 0, false⟩], [10, 11, 12]⟩
      ⟨[⟨1, 1, 0, 0, false⟩, ⟨1, 1, 1, 0, false⟩, ⟨1, 1, 2, 0, false⟩], [20, 21, 22]⟩
    = some (⟨[⟨1, 1, 2, 0, false⟩, ⟨1, 1, 0, 0, false⟩], [12, 10]⟩, ⟨[⟨1, 1, 2, 0, false⟩, ⟨1, 1, 0, 0, false⟩], [22, 20]⟩) := by
  decide

/-- **`filter_by_hoys` selects the step of the nearest minute**: an hour of the year whose product
    with 60 lies within half a minute of the grid minute `m` (every float `m / 60.0`, e.g.
    `32.666…·60 = 1959.99…`) is looked up as minute `m`, for every `m`; so the hours reported by
    `AnalysisPeriod.hoys` select exactly their own steps, each once. -/
theorem C12_filter_hoys_minute (m : Int) (x : Rat) (h1 : x - (m : Rat) < 1 / 2) (h2 : (m : Rat) - x < 1 / 2) :
    hoyMoy x = m := round_eq_of_near m x h1 h2

/-- **Counterexample for a truncating conversion** (seeded change C12-2): 08:40 of 2 Jan is
    hour `32.666…`, whose product with 60 is just below 1960; truncation looks up minute 1959
    (no step of a 20-minute Wea: dropped from a sparse Wea, previous step from an annual one). -/
theorem C12_filter_hoys_trunc_counterexample :
    hoyMoy (1960 - 1 / 10 ^ 13) = 1960 ∧ hoyMoyTrunc (1960 - 1 / 10 ^ 13) = 1959 := by
  decide +kernel

/-! ### Whole files -/

/-- **Partial (whole-day) data sits on its own grid from the first hour of the first day**: the
    collection steps of a continuous Wea over `ap` are `stMoy + i·(60/ts)`, `i < (endMoy + 60 − stMoy)/(60/ts)`,
    for a period inside the year; for a period that wraps the year end, the run from the start moment
    to the end of the year followed by the run from minute 0 to the end of the end day. -/
theorem C12_wholeDay_steps (ap : AP) (hwf : ap.WF) (h0 : ap.st_hour = 0) (h23 : ap.end_hour = 23) :
    (ap.isReversed = false →
      (contDts ap).map DT.moy = prog ap.stMoy ap.step ((ap.endMoy + 60 - ap.stMoy) / ap.step)) ∧
    (ap.isReversed = true →
      (contDts ap).map DT.moy = prog ap.stMoy ap.step ((minutesInYear ap.leap - ap.stMoy) / ap.step) ++
        prog 0 ap.step ((ap.endMoy + 60) / ap.step)) := by
  rw [contDts_moys ap hwf]
  exact ⟨moys_wholeDay ap hwf h0 h23, moys_wholeDay_wrap ap hwf h0 h23⟩

example : (⟨12, 31, 0, 1, 1, 23, 2, false⟩ : AP).WF ∧ (⟨12, 31, 0, 1, 1, 23, 2, false⟩ : AP).isReversed = true ∧
    prog 524160 30 ((525600 - 524160) / 30) ++ prog 0 30 ((1380 + 60) / 30) =
      (List.range 48).map (fun k => 524160 + 30 * k) ++ (List.range 48).map (fun k => 30 * k) := by decide

/-- **Whole-day data is recognised and read by position** (annual and partial, non-wrapping and
    wrapping alike): a file whose first line lies in hour 0 of the period's first day, whose last
    line lies in hour 23 of its last day and which has one line per step of the period is read as a
    continuous Wea over exactly that period, line `i` at step `i` of the enumeration
    (`C12_wholeDay_steps` gives its minute), values by position.  (`C12_file_roundtrip_continuous`
    shows that `to_file_string` produces exactly such files.) -/
theorem C12_file_read_continuous (prod60 : Nat → Rat) (ap : AP) (hwf : ap.WF)
    (h0 : ap.st_hour = 0) (h23 : ap.end_hour = 23) (lines : List Line) (first last : Line)
    (hf : lines.head? = some first) (hl : lines.getLast? = some last)
    (hfm : first.month = ap.st_month ∧ first.day = ap.st_day ∧ first.milli / 1000 = 0)
    (hlm : last.month = ap.end_month ∧ last.day = ap.end_day ∧ last.milli / 1000 = 23)
    (hn : lines.length = ap.len) :
    fromFile prod60 (ap.timestep : Int) ap.leap lines =
      .ok ⟨true, ap, contDts ap, lines.map (·.v1), lines.map (·.v2), false⟩ := by
  have hst : DT.make first.month first.day (first.milli / 1000) 0 ap.leap = .ok ap.stTime := by
    rw [hfm.1, hfm.2.1, hfm.2.2]
    have := make_of_valid ap.stTime hwf.1
    simpa [AP.stTime, h0] using this
  have hen : DT.make last.month last.day (last.milli / 1000) 0 ap.leap = .ok ap.endTime := by
    rw [hlm.1, hlm.2.1, hlm.2.2]
    have := make_of_valid ap.endTime hwf.2.1
    simpa [AP.endTime, h23] using this
  have hap : deriveAP ap.stTime ap.endTime (ap.timestep : Int) ap.leap = .ok ap := by
    have := AP.C04_mk_accepts ap hwf
    unfold AP.duplicate at this
    unfold deriveAP
    simp only [AP.stTime, AP.endTime]
    rw [this]; rfl
  unfold fromFile
  simp only [hf, hl, hst, hen, liftCal, bind, Except.bind, hap]
  have hc : ap.len = lines.length ∧ ¬ (ap.st_hour ≠ 0 ∨ ap.end_hour ≠ 23) := ⟨hn.symm, by simp [h0, h23]⟩
  simp only [hc, if_true]
  simp


theorem shift_step (ap : AP) (hwf : ap.WF) (onHour : Bool) :
    60 - ap.step + shift ap.timestep onHour ≤ 59 ∧ shift ap.timestep onHour ≤ 30 := by
  unfold shift
  rcases AP.ts_cases hwf.2.2 with e | e | e | e | e | e | e | e | e | e | e | e <;>
    simp only [AP.step, e] <;> cases onHour <;> simp

/-- **First and last written line of whole-day data**: the public datetime of the first step
    (`stMoy + shift`) is written with the period's start month/day and hour 0, the one of the last
    step (`endMoy + 60 − step + shift`) with the end month/day and hour 23 – for every timestep, with
    and without the half-hour shift.  Together with `C12_wholeDay_steps` (which minute each step is)
    and `C12_file_read_continuous` (what the reader does with such a file) this is the
    round trip of annual and partial whole-day data. -/
theorem C12_file_first_last (ap : AP) (hwf : ap.WF) (h0 : ap.st_hour = 0) (h23 : ap.end_hour = 23)
    (onHour : Bool) (a b : Rat) :
    ∃ d₁ d₂ : DT,
      fromMoy ap.leap ((ap.stMoy + shift ap.timestep onHour : Nat) : Int) = .ok d₁ ∧
      fromMoy ap.leap ((ap.endMoy + (60 - ap.step) + shift ap.timestep onHour : Nat) : Int) = .ok d₂ ∧
      (fmtLine d₁ a b).month = ap.st_month ∧ (fmtLine d₁ a b).day = ap.st_day ∧ (fmtLine d₁ a b).milli / 1000 = 0 ∧
      (fmtLine d₂ a b).month = ap.end_month ∧ (fmtLine d₂ a b).day = ap.end_day ∧ (fmtLine d₂ a b).milli / 1000 = 23 := by
  obtain ⟨s1, s2⟩ := shift_step ap hwf onHour
  obtain ⟨v1, v2, v3, v4, _, _⟩ := hwf.1
  obtain ⟨w1, w2, w3, w4, _, _⟩ := hwf.2.1
  simp only [AP.stTime, AP.endTime] at v1 v2 v3 v4 w1 w2 w3 w4
  let d₁ : DT := ⟨ap.st_month, ap.st_day, 0, shift ap.timestep onHour, ap.leap⟩
  let d₂ : DT := ⟨ap.end_month, ap.end_day, 23, 60 - ap.step + shift ap.timestep onHour, ap.leap⟩
  have hv1 : d₁.valid := ⟨v1, v2, v3, v4, by simp [d₁], by simp [d₁]; omega⟩
  have hv2 : d₂.valid := ⟨w1, w2, w3, w4, by simp [d₂], by simp [d₂]; omega⟩
  have m1 : d₁.moy = ap.stMoy + shift ap.timestep onHour := by
    simp [d₁, AP.stMoy, AP.stTime, DT.moy, DT.intHoy, DT.doy, h0]
  have m2 : d₂.moy = ap.endMoy + (60 - ap.step) + shift ap.timestep onHour := by
    simp [d₂, AP.endMoy, AP.endTime, DT.moy, DT.intHoy, DT.doy, h23]; omega
  have r1 := C08_moy_fromMoy d₁ hv1
  have r2 := C08_moy_fromMoy d₂ hv2
  rw [m1] at r1
  rw [m2] at r2
  have f1 := minuteFact_of_lt d₁.hour d₁.minute (by simp [d₁]) (by simp [d₁]; omega)
  have f2 := minuteFact_of_lt d₂.hour d₂.minute (by simp [d₂]) (by simp [d₂]; omega)
  simp only [minuteFact, Bool.and_eq_true, beq_iff_eq, decide_eq_true_eq] at f1 f2
  refine ⟨d₁, d₂, r1, r2, rfl, rfl, ?_, rfl, rfl, ?_⟩
  · exact f1.1.1.1.1.1
  · exact f2.1.1.1.1.1


/-- **Write → read is the identity on the time axis and the truncated values, for annual and
    partial whole-day data** (non-wrapping and wrapping periods, all 12 timesteps, leap or not, with
    or without the half-hour shift): `to_file_string` of a continuous Wea over a whole-day period
    produces one line per step, and `from_file` reads these lines back as a continuous Wea over
    exactly the same period – hence the same datetimes – whose values are the `%d` truncations, by
    position. -/
theorem C12_file_roundtrip_continuous (prod60 : Nat → Rat) (ap : AP) (hwf : ap.WF)
    (h0 : ap.st_hour = 0) (h23 : ap.end_hour = 23) (dni dhi : List Rat) (onHour : Bool) (w : W Rat)
    (hw : mkCont ap dni dhi = .ok w) :
    ∃ lines, toLines { w with onHour := onHour } = .ok lines ∧ lines.length = ap.len ∧
      fromFile prod60 (ap.timestep : Int) ap.leap lines =
        .ok ⟨true, ap, contDts ap, dni.map Py.truncRat, dhi.map Py.truncRat, false⟩ := by
  obtain ⟨l1, l2, hw'⟩ := mkCont_inv ap dni dhi w hw
  have hlen : ap.len = ap.moys.length := AP.C04_len ap hwf
  have hcl : (contDts ap).length = ap.moys.length := contDts_length ap hwf
  let F : DT → Except Cal.Err DT := fun d => fromMoy d.leap ((d.moy + shift ap.timestep onHour : Nat) : Int)
  let W' : W Rat := ⟨true, ap, contDts ap, dni, dhi, onHour⟩
  have hW : ({ w with onHour := onHour } : W Rat) = W' := by rw [hw']
  have hD : W'.datetimes = (contDts ap).map F := rfl
  have hall : ∀ r ∈ W'.datetimes, ∃ d, r = .ok d := by
    intro r hr
    rw [hD, List.mem_map] at hr
    obtain ⟨d, hd, rfl⟩ := hr
    obtain ⟨d', h1, _⟩ := public_ok ap hwf onHour d hd
    exact ⟨d', h1⟩
  have hlines := toLines_eq W' hall
  rw [hD] at hlines
  refine ⟨_, by rw [hW]; exact hlines, ?_, ?_⟩
  · simp [List.length_zip, hcl, l1, l2, hlen, W']
  · -- index facts
    have idx : ∀ (i : Nat) (d : DT), (contDts ap)[i]? = some d → ∃ d' a b, F d = .ok d' ∧ dni[i]? = some a ∧ dhi[i]? = some b ∧
        ((List.zip ((contDts ap).map F) (List.zip dni dhi)).map lineOf)[i]? = some (fmtLine d' a b) := by
      intro i d hd
      have hi : i < (contDts ap).length := by
        rcases Nat.lt_or_ge i (contDts ap).length with h | h
        · exact h
        · rw [List.getElem?_eq_none_iff.mpr h] at hd; cases hd
      obtain ⟨d', h1, _⟩ := public_ok ap hwf onHour d (List.mem_of_getElem? hd)
      have ha : dni[i]? = some dni[i] := List.getElem?_eq_getElem (by omega)
      have hb : dhi[i]? = some dhi[i] := List.getElem?_eq_getElem (by omega)
      refine ⟨d', _, _, h1, ha, hb, ?_⟩
      rw [List.getElem?_map, zip3_getElem? _ _ _ i (F d) _ _ (by rw [List.getElem?_map, hd]; rfl) ha hb]
      have hF : F d = .ok d' := h1
      simp only [Option.map_some, lineOf, dtGet, hF]
    set lines := (List.zip ((contDts ap).map F) (List.zip dni dhi)).map lineOf with hlines_def
    have hll : lines.length = ap.moys.length := by
      simp [hlines_def, List.length_zip, hcl, l1, l2, hlen]
    obtain ⟨hpos, hfst, hlst⟩ := moys_first_last ap hwf h0 h23
    have hSc := step_cases ap hwf
    have hS60 : ap.step ≤ 60 := by rcases hSc with e | e | e | e | e | e | e | e | e | e | e | e <;> omega
    -- first and last collection datetime
    have hm := contDts_moys ap hwf
    have g0 : ∃ d0, (contDts ap)[0]? = some d0 ∧ d0.moy = ap.stMoy := by
      have : ((contDts ap).map DT.moy)[0]? = some ap.stMoy := by rw [hm]; exact hfst
      rw [List.getElem?_map] at this
      cases h : (contDts ap)[0]? with
      | none => rw [h] at this; cases this
      | some d0 => rw [h] at this; exact ⟨d0, rfl, by simpa using this⟩
    have gn : ∃ dn, (contDts ap)[ap.moys.length - 1]? = some dn ∧ dn.moy = ap.endMoy + 60 - ap.step := by
      have : ((contDts ap).map DT.moy)[ap.moys.length - 1]? = some (ap.endMoy + 60 - ap.step) := by rw [hm]; exact hlst
      rw [List.getElem?_map] at this
      cases h : (contDts ap)[ap.moys.length - 1]? with
      | none => rw [h] at this; cases this
      | some dn => rw [h] at this; exact ⟨dn, rfl, by simpa using this⟩
    obtain ⟨d0, hd0, hm0⟩ := g0
    obtain ⟨dn, hdn, hmn⟩ := gn
    obtain ⟨d0', a0, b0, hF0, _, _, hl0⟩ := idx 0 d0 hd0
    obtain ⟨dn', an, bn, hFn, _, _, hln⟩ := idx _ dn hdn
    have hlp0 := (contDts_valid ap hwf d0 (List.mem_of_getElem? hd0)).2.1
    have hlpn := (contDts_valid ap hwf dn (List.mem_of_getElem? hdn)).2.1
    obtain ⟨e1, _, q1, _, r1, r2, r3, _, _, _⟩ := C12_file_first_last ap hwf h0 h23 onHour a0 b0
    obtain ⟨_, e2, _, q2, _, _, _, t1, t2, t3⟩ := C12_file_first_last ap hwf h0 h23 onHour an bn
    have hE0 : d0' = e1 := by
      have : F d0 = .ok e1 := by simp only [F]; rw [hlp0, hm0]; exact q1
      rw [hF0] at this; cases this; rfl
    have hEn : dn' = e2 := by
      have hnat : dn.moy + shift ap.timestep onHour = ap.endMoy + (60 - ap.step) + shift ap.timestep onHour := by
        rw [hmn]; omega
      have : F dn = .ok e2 := by simp only [F]; rw [hlpn, hnat]; exact q2
      rw [hFn] at this; cases this; rfl
    subst hE0; subst hEn
    have hhead : lines.head? = some (fmtLine d0' a0 b0) := by rw [List.head?_eq_getElem?]; exact hl0
    have hlast : lines.getLast? = some (fmtLine dn' an bn) := by
      rw [List.getLast?_eq_getElem?, hll]; exact hln
    have hread := C12_file_read_continuous prod60 ap hwf h0 h23 lines _ _ hhead hlast
      ⟨r1, r2, r3⟩ ⟨t1, t2, t3⟩ (by rw [hll, hlen])
    rw [hread]
    have hv1 : lines.map (·.v1) = dni.map Py.truncRat := by
      apply List.ext_getElem?
      intro i
      rcases Nat.lt_or_ge i ap.moys.length with hi | hi
      · have hd : (contDts ap)[i]? = some (contDts ap)[i] := List.getElem?_eq_getElem (by omega)
        obtain ⟨d', a, b, _, ha, _, hl⟩ := idx i _ hd
        rw [List.getElem?_map, hl, List.getElem?_map, ha]; rfl
      · rw [List.getElem?_eq_none_iff.mpr (by simp; omega), List.getElem?_eq_none_iff.mpr (by simp; omega)]
    have hv2 : lines.map (·.v2) = dhi.map Py.truncRat := by
      apply List.ext_getElem?
      intro i
      rcases Nat.lt_or_ge i ap.moys.length with hi | hi
      · have hd : (contDts ap)[i]? = some (contDts ap)[i] := List.getElem?_eq_getElem (by omega)
        obtain ⟨d', a, b, _, _, hb, hl⟩ := idx i _ hd
        rw [List.getElem?_map, hl, List.getElem?_map, hb]; rfl
      · rw [List.getElem?_eq_none_iff.mpr (by simp; omega), List.getElem?_eq_none_iff.mpr (by simp; omega)]
    rw [hv1, hv2]

/-- **Annual data, file round trip** (instance of the previous theorem for `from_annual_values`,
    hence for the clear-sky, DAYSIM and hourly EPW constructors): one line per step of the year, read
    back as the annual continuous Wea of the same timestep and leap flag with the same datetimes and
    the truncated values. -/
theorem C12_file_roundtrip_annual (prod60 : Nat → Rat) (ts : Nat) (hts : ts ∈ Gen.Ap.validTimesteps) (leap : Bool)
    (dni dhi : List Rat) (onHour : Bool) (w : W Rat) (h : fromAnnualValues dni dhi (ts : Int) leap = .ok w) :
    ∃ lines, toLines { w with onHour := onHour } = .ok lines ∧ lines.length = hoursInYear leap * ts ∧
      fromFile prod60 (ts : Int) leap lines =
        .ok ⟨true, AP.annual leap ts, w.dts, dni.map Py.truncRat, dhi.map Py.truncRat, false⟩ := by
  obtain ⟨hwf, _⟩ := annual_facts ts hts leap
  obtain ⟨_, _, _, _, _, _, _, hn, _⟩ := C12_time_axis ts hts leap dni dhi w h
  have h' : mkCont (AP.annual leap ts) dni dhi = .ok w := by
    have := h
    unfold fromAnnualValues at this
    rw [annualAP_ok ts hts leap] at this
    exact this
  obtain ⟨l1, _, hw⟩ := mkCont_inv _ _ _ _ h'
  obtain ⟨lines, a, b, c⟩ := C12_file_roundtrip_continuous prod60 (AP.annual leap ts) hwf rfl rfl dni dhi onHour w h'
  have hd : w.dts = contDts (AP.annual leap ts) := by rw [hw]
  exact ⟨lines, a, by rw [b, ← l1, hn], by rw [hd]; exact c⟩

/-- The public datetime of a collection step as a date-time (`minute + shift`). -/
def pubDT (ts : Nat) (onHour : Bool) (d : DT) : DT := { d with minute := d.minute + shift ts onHour }

theorem pubDT_ok (ts : Nat) (onHour : Bool) (d : DT) (hv : d.valid) (hmin : ts = 1 → d.minute = 0) :
    (pubDT ts onHour d).valid ∧
    fromMoy d.leap ((d.moy + shift ts onHour : Nat) : Int) = .ok (pubDT ts onHour d) := by
  obtain ⟨h1, h2, h3, h4, h5, h6⟩ := hv
  have hs : d.minute + shift ts onHour ≤ 59 := by
    unfold shift; split
    · rename_i h; rw [hmin h.1]; omega
    · omega
  have hv' : (pubDT ts onHour d).valid := ⟨h1, h2, h3, h4, h5, hs⟩
  refine ⟨hv', ?_⟩
  have := C08_moy_fromMoy _ hv'
  have hm : (pubDT ts onHour d).moy = d.moy + shift ts onHour := by
    simp [pubDT, DT.moy, DT.intHoy, DT.doy]; omega
  rw [hm] at this
  exact this

theorem read_pub_line (ts : Nat) (onHour : Bool) (d : DT) (hv : d.valid) (hmin : ts = 1 → d.minute = 0) (a b : Rat) :
    lineDT prod60Exact (ts : Int) d.leap (fmtLine (pubDT ts onHour d) a b) = .ok d := by
  obtain ⟨hv', _⟩ := pubDT_ok ts onHour d hv hmin
  by_cases h : ts = 1
  · subst h
    have := C12_line_roundtrip_hourly (pubDT 1 onHour d) hv' a b
    have e : ({ pubDT 1 onHour d with minute := 0 } : DT) = d := by
      have := hmin rfl
      cases d; simp_all [pubDT]
    rw [e] at this
    exact this
  · have hs : shift ts onHour = 0 := by simp [shift, h]
    have e : pubDT ts onHour d = d := by cases d; simp [pubDT, hs]
    rw [e]
    exact C12_line_roundtrip d hv (ts : Int) (by exact_mod_cast h) a b

theorem sparse_lines_aux (F : DT → Except Cal.Err DT) (P : DT → DT) (R : Line → Except E DT) :
    ∀ (dts : List DT) (dni dhi : List Rat), dni.length = dts.length → dhi.length = dts.length →
      (∀ d ∈ dts, F d = .ok (P d)) → (∀ d ∈ dts, ∀ a b, R (fmtLine (P d) a b) = .ok d) →
      ((List.zip (dts.map F) (List.zip dni dhi)).map lineOf).mapM R = .ok dts ∧
      ((List.zip (dts.map F) (List.zip dni dhi)).map lineOf).map (fun l => (l.v1, l.v2))
        = List.zip (dni.map Py.truncRat) (dhi.map Py.truncRat) ∧
      ((List.zip (dts.map F) (List.zip dni dhi)).map lineOf).length = dts.length
  | [], dni, dhi, h1, h2, _, _ => by
    have : dni = [] := List.eq_nil_of_length_eq_zero h1
    subst this
    simp
    rfl
  | d :: ds, [], _, h1, _, _, _ => by simp at h1
  | d :: ds, _ :: _, [], _, h2, _, _ => by simp at h2
  | d :: ds, a :: as, b :: bs, h1, h2, hF, hR => by
    have ih := sparse_lines_aux F P R ds as bs (by simpa using h1) (by simpa using h2)
      (fun x hx => hF x (List.mem_cons_of_mem _ hx)) (fun x hx => hR x (List.mem_cons_of_mem _ hx))
    have hFd := hF d (by simp)
    have hRd := hR d (by simp) a b
    have hl : lineOf (F d, a, b) = fmtLine (P d) a b := by simp [lineOf, dtGet, hFd]
    simp only [List.map_cons, List.zip_cons_cons, hl]
    refine ⟨?_, ?_, ?_⟩
    · rw [List.mapM_cons, hRd, ih.1]; rfl
    · rw [ih.2.1]; rfl
    · simp [ih.2.2]

theorem zip3_maps {α β γ : Type} : ∀ (x : List α) (y : List β) (z : List γ), y.length = x.length → z.length = x.length →
    (List.zip x (List.zip y z)).map (·.1) = x ∧ (List.zip x (List.zip y z)).map (·.2.1) = y ∧
    (List.zip x (List.zip y z)).map (·.2.2) = z
  | [], y, z, h1, h2 => by
    have : y = [] := List.eq_nil_of_length_eq_zero h1
    have : z = [] := List.eq_nil_of_length_eq_zero h2
    subst_vars; simp
  | _ :: _, [], _, h1, _ => by simp at h1
  | _ :: _, _ :: _, [], _, h2 => by simp at h2
  | a :: x, b :: y, c :: z, h1, h2 => by
    obtain ⟨i1, i2, i3⟩ := zip3_maps x y z (by simpa using h1) (by simpa using h2)
    simp [i1, i2, i3]


theorem lines_getElem? (F : DT → Except Cal.Err DT) (P : DT → DT) (dts : List DT) (dni dhi : List Rat)
    (h1 : dni.length = dts.length) (h2 : dhi.length = dts.length) (hF : ∀ d ∈ dts, F d = .ok (P d))
    (i : Nat) (d : DT) (hd : dts[i]? = some d) :
    ∃ a b, ((List.zip (dts.map F) (List.zip dni dhi)).map lineOf)[i]? = some (fmtLine (P d) a b) := by
  have hi : i < dts.length := by
    rcases Nat.lt_or_ge i dts.length with h | h
    · exact h
    · rw [List.getElem?_eq_none_iff.mpr h] at hd; cases hd
  have ha : dni[i]? = some dni[i] := List.getElem?_eq_getElem (by omega)
  have hb : dhi[i]? = some dhi[i] := List.getElem?_eq_getElem (by omega)
  refine ⟨dni[i], dhi[i], ?_⟩
  rw [List.getElem?_map, zip3_getElem? _ _ _ i (F d) _ _ (by rw [List.getElem?_map, hd]; rfl) ha hb]
  have hFd := hF d (List.mem_of_getElem? hd)
  simp only [Option.map_some, lineOf, dtGet, hFd]

/-- **Write → read of sparse (windowed / filtered / discontinuous) data, at the model level**: for
    chronologically ordered rows (strictly increasing datetimes – what filters of ordered sources
    produce; for other orders the reader sorts, see `C12_file_sparse_sorted`) whose hourly steps
    are whole hours, `to_file_string` followed by `from_file` returns exactly the same rows: every
    datetime, and the `%d` truncation of both values, each at its own step; discontinuous again;
    timestep and leap flag as given.  The header period is re-derived (`rederivedAP`).
    Hypothesis `hno`: the rows are not mistaken for a whole-day run (first step in hour 0, last in
    hour 23 and exactly as many rows as that span has steps). -/
theorem C12_file_roundtrip_sparse (w : W Rat) (hc : w.cont = false)
    (hts : w.ap.timestep ∈ Gen.Ap.validTimesteps) (hv : ∀ d ∈ w.dts, d.valid ∧ d.leap = w.ap.leap)
    (hmin : w.ap.timestep = 1 → ∀ d ∈ w.dts, d.minute = 0) (hal : w.Aligned)
    (hsort : w.dts.Pairwise (fun a b => a.moy < b.moy))
    (first last : DT) (hf : w.dts.head? = some first) (hl : w.dts.getLast? = some last)
    (hno : ¬ ((spanAP first last w.ap.timestep w.ap.leap).len = w.dni.length ∧ first.hour = 0 ∧ last.hour = 23)) :
    ∃ lines, toLines w = .ok lines ∧ lines.length = w.dts.length ∧
      fromFile prod60Exact (w.ap.timestep : Int) w.ap.leap lines =
        .ok ⟨false, rederivedAP first last w.ap.timestep w.ap.leap w.dni.length, w.dts,
             w.dni.map Py.truncRat, w.dhi.map Py.truncRat, false⟩ := by
  obtain ⟨c, ap, dts, dni, dhi, oh⟩ := w
  simp only at hc hts hv hmin hal hsort hf hl hno ⊢
  subst hc
  obtain ⟨a1, a2⟩ := hal
  simp only at a1 a2
  let F : DT → Except Cal.Err DT := fun d => fromMoy d.leap ((d.moy + shift ap.timestep oh : Nat) : Int)
  have hF : ∀ d ∈ dts, F d = .ok (pubDT ap.timestep oh d) := fun d hd => (pubDT_ok ap.timestep oh d (hv d hd).1 (fun h => hmin h d hd)).2
  have hR : ∀ d ∈ dts, ∀ a b, lineDT prod60Exact (ap.timestep : Int) ap.leap (fmtLine (pubDT ap.timestep oh d) a b) = .ok d := by
    intro d hd a b
    have := read_pub_line ap.timestep oh d (hv d hd).1 (fun h => hmin h d hd) a b
    rw [(hv d hd).2] at this
    exact this
  have hD : (⟨false, ap, dts, dni, dhi, oh⟩ : W Rat).datetimes = dts.map F := rfl
  have hall : ∀ r ∈ (⟨false, ap, dts, dni, dhi, oh⟩ : W Rat).datetimes, ∃ d, r = .ok d := by
    intro r hr
    rw [hD, List.mem_map] at hr
    obtain ⟨d, hd, rfl⟩ := hr
    exact ⟨pubDT ap.timestep oh d, hF d hd⟩
  have hlines := toLines_eq _ hall
  rw [hD] at hlines
  simp only at hlines
  obtain ⟨m1, m2, m3⟩ := sparse_lines_aux F (pubDT ap.timestep oh) (lineDT prod60Exact (ap.timestep : Int) ap.leap) dts dni dhi a1 a2 hF hR
  set lines := (List.zip (dts.map F) (List.zip dni dhi)).map lineOf with hldef
  refine ⟨lines, hlines, m3, ?_⟩
  -- first / last line
  have hfm : first ∈ dts := List.mem_of_head? hf
  have hlm : last ∈ dts := List.mem_of_getLast? hl
  obtain ⟨vf, lf⟩ := hv first hfm
  obtain ⟨vl, ll⟩ := hv last hlm
  obtain ⟨af, bf, hl0⟩ := lines_getElem? F (pubDT ap.timestep oh) dts dni dhi a1 a2 hF 0 first (by rw [← List.head?_eq_getElem?]; exact hf)
  obtain ⟨al, bl, hln⟩ := lines_getElem? F (pubDT ap.timestep oh) dts dni dhi a1 a2 hF (dts.length - 1) last
    (by rw [← List.getLast?_eq_getElem?]; exact hl)
  have hhead : lines.head? = some (fmtLine (pubDT ap.timestep oh first) af bf) := by rw [List.head?_eq_getElem?]; exact hl0
  have hlast : lines.getLast? = some (fmtLine (pubDT ap.timestep oh last) al bl) := by rw [List.getLast?_eq_getElem?, m3]; exact hln
  have pvf := (pubDT_ok ap.timestep oh first vf (fun h => hmin h first hfm)).1
  have pvl := (pubDT_ok ap.timestep oh last vl (fun h => hmin h last hlm)).1
  have mf := minuteFact_of_lt (pubDT ap.timestep oh first).hour (pubDT ap.timestep oh first).minute (by have := pvf.2.2.2.2.1; omega) (by have := pvf.2.2.2.2.2; omega)
  have ml := minuteFact_of_lt (pubDT ap.timestep oh last).hour (pubDT ap.timestep oh last).minute (by have := pvl.2.2.2.2.1; omega) (by have := pvl.2.2.2.2.2; omega)
  simp only [minuteFact, Bool.and_eq_true, beq_iff_eq, decide_eq_true_eq] at mf ml
  have hmf : (fmtLine (pubDT ap.timestep oh first) af bf).milli / 1000 = first.hour := mf.1.1.1.1.1
  have hml : (fmtLine (pubDT ap.timestep oh last) al bl).milli / 1000 = last.hour := ml.1.1.1.1.1
  -- the two DateTimes of the first and last line
  let f0 : DT := ⟨first.month, first.day, first.hour, 0, ap.leap⟩
  let l0 : DT := ⟨last.month, last.day, last.hour, 0, ap.leap⟩
  have vf0 : f0.valid := by obtain ⟨b1, b2, b3, b4, b5, _⟩ := vf; rw [lf] at b4; exact ⟨b1, b2, b3, b4, b5, by simp [f0]⟩
  have vl0 : l0.valid := by obtain ⟨b1, b2, b3, b4, b5, _⟩ := vl; rw [ll] at b4; exact ⟨b1, b2, b3, b4, b5, by simp [l0]⟩
  have mk1 : DT.make (fmtLine (pubDT ap.timestep oh first) af bf).month (fmtLine (pubDT ap.timestep oh first) af bf).day
      ((fmtLine (pubDT ap.timestep oh first) af bf).milli / 1000) 0 ap.leap = .ok f0 := by
    rw [hmf]; exact make_of_valid f0 vf0
  have mk2 : DT.make (fmtLine (pubDT ap.timestep oh last) al bl).month (fmtLine (pubDT ap.timestep oh last) al bl).day
      ((fmtLine (pubDT ap.timestep oh last) al bl).milli / 1000) 0 ap.leap = .ok l0 := by
    rw [hml]; exact make_of_valid l0 vl0
  obtain ⟨_, hmk⟩ := spanAP_mk f0 l0 vf0 vl0 ap.timestep hts ap.leap rfl rfl
  have hspan : spanAP f0 l0 ap.timestep ap.leap = spanAP first last ap.timestep ap.leap := rfl
  rw [hspan] at hmk
  have hap : deriveAP f0 l0 (ap.timestep : Int) ap.leap = .ok (spanAP first last ap.timestep ap.leap) := by
    unfold deriveAP; rw [hmk]; rfl
  have hann := annualAP_ok ap.timestep hts ap.leap
  have hsorted : (List.zip dts (List.zip (dni.map Py.truncRat) (dhi.map Py.truncRat))).Pairwise
      (fun a b => a.1.moy < b.1.moy) := pairwise_zip_fst (fun a b => a.moy < b.moy) dts _ hsort
  have hval := validateRows_of_sorted _ hsorted
  have hsp : (spanAP first last ap.timestep ap.leap).st_hour = first.hour ∧
      (spanAP first last ap.timestep ap.leap).end_hour = last.hour := ⟨rfl, rfl⟩
  obtain ⟨z1, z2, z3⟩ := zip3_maps dts (dni.map Py.truncRat) (dhi.map Py.truncRat) (by simp [a1]) (by simp [a2])
  unfold fromFile
  simp only [hhead, hlast, mk1, mk2, liftCal, bind, Except.bind, hap, m3]
  by_cases hlen : (spanAP first last ap.timestep ap.leap).len = dts.length
  · have hw : ¬ (first.hour = 0 ∧ last.hour = 23) := fun h => hno ⟨by rw [hlen, a1], h⟩
    simp only [hlen, true_and, if_true, pure, Except.pure, m1, m2]
    split_ifs with hcnd
    · simp only [hval, z1, z2, z3, rederivedAP, a1, hlen, if_true]
    · exfalso; apply hw; rw [hsp.1, hsp.2] at hcnd; omega
  · simp only [hlen, false_and, if_false, hann, m1, m2, hval, z1, z2, z3, rederivedAP, a1]


/-- **Sparse data in any order: rows as a sorted set.**  Whatever the order of the lines, the rows
    `from_file` keeps on the sparse path are the same multiset of (datetime, direct, diffuse) rows in
    strictly increasing time order; a repeated datetime is rejected (`AssertionError`).  (For a
    header period that wraps the year end the code afterwards rotates the list to start at the period
    start: C13, compared as sets by the check.) -/
theorem C12_file_sparse_sorted {β : Type} (l s : List (DT × β)) (h : validateRows l = .ok s) :
    s.Perm l ∧ s.Pairwise (fun a b => a.1.moy < b.1.moy) := validateRows_spec l s h

/-! ### Dictionary round trip -/

/-- **Annual data, dictionary round trip**: `from_dict(to_dict(w))` is `w` – same period
    (timestep, leap flag), time axis and both value lists – for all 12 timesteps, normal and leap. -/
theorem C12_dict_roundtrip_annual {α : Type} (ts : Nat) (hts : ts ∈ Gen.Ap.validTimesteps) (leap : Bool)
    (dni dhi : List α) (w : W α) (h : fromAnnualValues dni dhi (ts : Int) leap = .ok w) :
    (toDict w).datetimes = none ∧ fromDict (toDict w) = .ok w := by
  obtain ⟨_, _, e1, e2, e3, e4, _, _, _⟩ := C12_time_axis ts hts leap dni dhi w h
  have hann : w.isAnnual = true := by simp [W.isAnnual, e3, e4, AP.annual, AP.isAnnual]
  have hd : (toDict w).datetimes = none := by simp [toDict, hann]
  refine ⟨hd, ?_⟩
  unfold fromDict
  simp only [hd]
  simp only [toDict, e3, AP.annual, Option.getD_some, e1, e2]
  unfold fromAnnualValues at h
  simpa [AP.annual] using h

/-- **Dictionary round trip, continuous data** (annual and partial whole-day periods, wrapping or
    not, all timesteps, leap or not): `from_dict(to_dict(w)) = w`. -/
theorem C12_dict_roundtrip_continuous {α : Type} (ap : AP) (hwf : ap.WF) (h0 : ap.st_hour = 0) (h23 : ap.end_hour = 23)
    (dni dhi : List α) (w : W α) (hw : mkCont ap dni dhi = .ok w) : fromDict (toDict w) = .ok w := by
  obtain ⟨l1, l2, hw'⟩ := mkCont_inv ap dni dhi w hw
  have hts := hwf.2.2
  cases han : ap.isAnnual with
  | true =>
    have hap := eq_annual_of_isAnnual ap han
    have hd : (toDict w).datetimes = none := by simp [toDict, W.isAnnual, hw', han]
    unfold fromDict
    simp only [hd]
    simp only [toDict, hw', Option.getD_some]
    have := annualAP_ok ap.timestep hts ap.leap
    rw [this, ← hap]
    simp only [bind, Except.bind]
    rw [hw, hw']
  | false =>
    obtain ⟨hpos, hfst, hlst⟩ := moys_first_last ap hwf h0 h23
    have hSc := step_cases ap hwf
    have hS60 : ap.step ≤ 60 ∧ 0 < ap.step := by rcases hSc with e | e | e | e | e | e | e | e | e | e | e | e <;> omega
    have hm := contDts_moys ap hwf
    let dE : DT := ⟨ap.end_month, ap.end_day, 23, 60 - ap.step, ap.leap⟩
    have hvE : dE.valid := by
      obtain ⟨w1, w2, w3, w4, _, _⟩ := hwf.2.1
      exact ⟨w1, w2, w3, w4, by simp [dE], by simp [dE]; omega⟩
    have hmE : dE.moy = ap.endMoy + 60 - ap.step := by
      simp [dE, AP.endMoy, AP.endTime, DT.moy, DT.intHoy, DT.doy, h23]; omega
    have g0 : (contDts ap)[0]? = some ap.stTime := by
      have : ((contDts ap).map DT.moy)[0]? = some ap.stMoy := by rw [hm]; exact hfst
      rw [List.getElem?_map] at this
      cases h : (contDts ap)[0]? with
      | none => rw [h] at this; cases this
      | some d0 =>
        rw [h] at this
        obtain ⟨v, l, _⟩ := contDts_valid ap hwf d0 (List.mem_of_getElem? h)
        have hm0 : d0.moy = ap.stMoy := by simpa using this
        rw [dt_eq_of_moy d0 ap.stTime v hwf.1 l hm0]
    have gn : (contDts ap)[(contDts ap).length - 1]? = some dE := by
      rw [contDts_length ap hwf]
      have : ((contDts ap).map DT.moy)[ap.moys.length - 1]? = some (ap.endMoy + 60 - ap.step) := by rw [hm]; exact hlst
      rw [List.getElem?_map] at this
      cases h : (contDts ap)[ap.moys.length - 1]? with
      | none => rw [h] at this; cases this
      | some dn =>
        rw [h] at this
        obtain ⟨v, l, _⟩ := contDts_valid ap hwf dn (List.mem_of_getElem? h)
        have hmn : dn.moy = ap.endMoy + 60 - ap.step := by simpa using this
        rw [dt_eq_of_moy dn dE v hvE l (by rw [hmE]; exact hmn)]
    have hd : (toDict w).datetimes = some ((contDts ap).map DT.toArray) := by simp [toDict, W.isAnnual, hw', han]
    have hh : ((contDts ap).map DT.toArray).head? = some ap.stTime.toArray := by
      rw [List.head?_map, List.head?_eq_getElem?, g0]; rfl
    have hl : ((contDts ap).map DT.toArray).getLast? = some dE.toArray := by
      rw [List.getLast?_map, List.getLast?_eq_getElem?, gn]; rfl
    have hdup : AP.mk? ap.st_month ap.st_day ap.st_hour ap.end_month ap.end_day 23 ap.timestep ap.leap = .ok ap := by
      have := AP.C04_mk_accepts ap hwf
      unfold AP.duplicate at this
      rw [h23] at this
      exact_mod_cast this
    unfold fromDict
    simp only [hd, hh, hl]
    simp only [toDict, hw', Option.getD_some, arrDT_toArray _ hwf.1, arrDT_toArray _ hvE, bind, Except.bind]
    have e1 : ap.stTime.leap = ap.leap := rfl
    have e2 : dE.leap = ap.leap := rfl
    simp only [e1, e2, ne_eq, not_true_eq_false, if_false, pure, Except.pure]
    have e3 : ap.stTime.month = ap.st_month := rfl
    have e4 : ap.stTime.day = ap.st_day := rfl
    have e5 : ap.stTime.hour = ap.st_hour := rfl
    have e6 : dE.month = ap.end_month := rfl
    have e7 : dE.day = ap.end_day := rfl
    have e8 : dE.hour = 23 := rfl
    simp only [e3, e4, e5, e6, e7, e8, Nat.cast_ofNat, hdup, liftCal]
    have hc : ap.len = dni.length ∧ ¬ (ap.st_hour ≠ 0 ∨ ap.end_hour ≠ 23) := ⟨l1.symm, by simp [h0, h23]⟩
    simp only [hc, if_true]
    rw [hw, hw']
    simp

/-- **Dictionary round trip, discontinuous (windowed / sparse / filtered) data**: the rows –
    datetimes and both value lists, in their order – timestep and leap flag come back unchanged.
    The header period is re-derived from the first and last datetime (kept when it has as many steps
    as there are values, else the annual period) – it is not part of the dictionary.
    Hypothesis `hno`: the data is not mistaken for a whole-day run, i.e. NOT (first datetime in hour
    0, last in hour 23 and exactly as many values as that span has steps); for chronologically
    ordered on-grid data that case only arises when the data *is* the whole-day run. -/
theorem C12_dict_roundtrip_sparse {α : Type} (w : W α) (hc : w.cont = false) (hoh : w.onHour = false)
    (hts : w.ap.timestep ∈ Gen.Ap.validTimesteps) (hv : ∀ d ∈ w.dts, d.valid ∧ d.leap = w.ap.leap)
    (hal : w.Aligned) (first last : DT) (hf : w.dts.head? = some first) (hl : w.dts.getLast? = some last)
    (hno : ¬ ((spanAP first last w.ap.timestep w.ap.leap).len = w.dni.length ∧ first.hour = 0 ∧ last.hour = 23)) :
    fromDict (toDict w) = .ok { w with ap := rederivedAP first last w.ap.timestep w.ap.leap w.dni.length } := by
  obtain ⟨c, ap, dts, dni, dhi, oh⟩ := w
  simp only [rederivedAP] at hc hoh hts hv hal hf hl hno ⊢
  subst hc; subst hoh
  have hfm : first ∈ dts := List.mem_of_head? hf
  have hlm : last ∈ dts := List.mem_of_getLast? hl
  obtain ⟨vf, lf⟩ := hv first hfm
  obtain ⟨vl, ll⟩ := hv last hlm
  obtain ⟨hwf, hmk⟩ := spanAP_mk first last vf vl ap.timestep hts ap.leap lf ll
  have hd : (toDict (⟨false, ap, dts, dni, dhi, false⟩ : W α)).datetimes = some (dts.map DT.toArray) := by
    simp [toDict, W.isAnnual]
  have hh : (dts.map DT.toArray).head? = some first.toArray := by rw [List.head?_map, hf]; rfl
  have hl' : (dts.map DT.toArray).getLast? = some last.toArray := by rw [List.getLast?_map, hl]; rfl
  unfold fromDict
  simp only [hd, hh, hl']
  simp only [toDict, Option.getD_some, arrDT_toArray _ vf, arrDT_toArray _ vl, bind, Except.bind]
  simp only [lf, ll, ne_eq, not_true_eq_false, if_false, pure, Except.pure, hmk, liftCal]
  have hspan : (spanAP first last ap.timestep ap.leap).st_hour = first.hour ∧
      (spanAP first last ap.timestep ap.leap).end_hour = last.hour := ⟨rfl, rfl⟩
  have hann := annualAP_ok ap.timestep hts ap.leap
  have hmap := mapM_arrDT dts (fun d hd => (hv d hd).1)
  obtain ⟨a1, a2⟩ := hal
  simp only at a1 a2
  by_cases hlen : (spanAP first last ap.timestep ap.leap).len = dni.length
  · have hw : ¬ (first.hour = 0 ∧ last.hour = 23) := fun h => hno ⟨hlen, h⟩
    have hcond : ¬ ((spanAP first last ap.timestep ap.leap).len = dni.length ∧
        ¬ ((spanAP first last ap.timestep ap.leap).st_hour ≠ 0 ∨ (spanAP first last ap.timestep ap.leap).end_hour ≠ 23)) := by
      rw [hspan.1, hspan.2]; intro h; apply hw; have := h.2; omega
    simp only [hlen, if_true, hmap]
    simp [a1, a2]
    intro h1 h2
    exact absurd ⟨by rw [← hspan.1]; exact h1, by rw [← hspan.2]; exact h2⟩ hw
  · have hcond : ¬ ((spanAP first last ap.timestep ap.leap).len = dni.length ∧
        ¬ ((spanAP first last ap.timestep ap.leap).st_hour ≠ 0 ∨ (spanAP first last ap.timestep ap.leap).end_hour ≠ 23)) :=
      fun h => hlen h.1
    simp only [hcond, if_false, hlen, hann, hmap]
    simp [a1, a2]

/-! ### DAYSIM files, constant files, counting -/

/-- **`from_daysim_file` shift**: for `timestep ≠ 1` the last `timestep / 2` values of each column
    move to the front and everything else follows in order (nothing is lost or duplicated); for
    `timestep = 1` the columns are unchanged. -/
theorem C12_daysim_shift {α : Type} (ts : Nat) (l : List α) (hk : ts / 2 ≤ l.length) :
    daysimShift 1 l = l ∧
    (ts ≠ 1 → daysimShift ts l = l.drop (l.length - ts / 2) ++ l.take (l.length - ts / 2)) ∧
    (daysimShift ts l).length = l.length ∧ (daysimShift ts l).Perm l := by
  have h1 : daysimShift 1 l = l := by simp [daysimShift]
  have h2 : ts ≠ 1 → daysimShift ts l = l.drop (l.length - ts / 2) ++ l.take (l.length - ts / 2) := by
    intro hts
    unfold daysimShift
    simp only [hts, if_false]
    unfold Py.slice Py.clampIdx
    by_cases hz : ts / 2 = 0
    · simp [hz]
    · have hneg : ¬ (0 ≤ -((ts / 2 : Nat) : Int)) := by omega
      have hle : (- -((ts / 2 : Nat) : Int)).toNat ≤ l.length := by omega
      have he : (- -((ts / 2 : Nat) : Int)).toNat = ts / 2 := by omega
      simp only [hneg, if_false, he, hk, if_true]
      rw [List.take_of_length_le (by simp)]
      simp
  refine ⟨h1, h2, ?_, ?_⟩
  · by_cases hts : ts = 1
    · subst hts; rw [h1]
    · rw [h2 hts]; simp
  · by_cases hts : ts = 1
    · subst hts; rw [h1]
    · rw [h2 hts]
      exact List.perm_append_comm.trans (by rw [List.take_append_drop])

example : daysimShift 4 [0, 1, 2, 3, 4, 5, 6, 7] = [6, 7, 0, 1, 2, 3, 4, 5] := by decide

/-- `from_daysim_file` is `from_annual_values` of the shifted columns: with `C12_time_axis`, line
    `j` of a DAYSIM file of `n` lines sits at step `(j + timestep / 2) mod n` of the annual axis. -/
theorem C12_daysim_axis (ts : Nat) (v1 v2 : List Int) (leap : Bool) :
    fromDaysim v1 v2 (ts : Int) leap = fromAnnualValues (daysimShift ts v1) (daysimShift ts v2) (ts : Int) leap := by
  unfold fromDaysim
  have : ¬ ((ts : Int) < 0) := by omega
  simp [this]

/-- **`to_constant_value`**: every data line keeps its tokens except the last two, which become
    the value (so month, day and hour of every step are untouched and the number of lines is the
    same); a line with fewer than two tokens is the `IndexError`. -/
theorem C12_to_constant (body : List (List String)) (v : Int) :
    ((∀ t ∈ body, 2 ≤ t.length) →
      toConstant body v = .ok (body.map fun t => t.dropLast.dropLast ++ [toString v, toString v])) ∧
    (∀ out, toConstant body v = .ok out → out.length = body.length) ∧
    (∀ t : List String, 2 ≤ t.length → (t.dropLast.dropLast ++ [toString v, toString v]).length = t.length ∧
      (t.dropLast.dropLast ++ [toString v, toString v]).take (t.length - 2) = t.take (t.length - 2)) := by
  have hmap : (∀ t ∈ body, 2 ≤ t.length) →
      toConstant body v = .ok (body.map fun t => t.dropLast.dropLast ++ [toString v, toString v]) := by
    intro h
    unfold toConstant
    apply mapM_eq_map
    intro t ht
    have := h t ht
    unfold constLine
    have : ¬ t.length < 2 := by omega
    simp [this]
  refine ⟨hmap, ?_, ?_⟩
  · intro out ho
    by_cases hall : ∀ t ∈ body, 2 ≤ t.length
    · rw [hmap hall] at ho; cases ho; simp
    · exfalso
      -- some line is too short: the mapM fails
      have : ∀ (b : List (List String)), (¬ ∀ t ∈ b, 2 ≤ t.length) → ∀ o, b.mapM (fun t => constLine t (toString v)) ≠ .ok o := by
        intro b
        induction b with
        | nil => intro h; simp at h
        | cons x xs ih =>
          intro h o
          rw [List.mapM_cons]
          by_cases hx : 2 ≤ x.length
          · have hxs : ¬ ∀ t ∈ xs, 2 ≤ t.length := by
              intro hh; apply h; intro t ht; rw [List.mem_cons] at ht
              rcases ht with rfl | ht
              · exact hx
              · exact hh t ht
            have hc : constLine x (toString v) = .ok (x.dropLast.dropLast ++ [toString v, toString v]) := by
              unfold constLine; have : ¬ x.length < 2 := by omega
              simp [this]
            rw [hc]
            cases hm : List.mapM (fun t => constLine t (toString v)) xs with
            | error e => simp [bind, Except.bind]
            | ok o' => exact absurd hm (ih hxs o')
          · have hc : constLine x (toString v) = .error .index := by
              unfold constLine; have : x.length < 2 := by omega
              simp [this]
            rw [hc]; simp [bind, Except.bind]
      exact this body hall out ho
  · intro t ht
    refine ⟨by simp; omega, ?_⟩
    have hl : t.dropLast.dropLast.length = t.length - 2 := by simp; omega
    rw [List.take_append_of_le_length (by omega), List.take_of_length_le (by omega)]
    rw [List.dropLast_eq_take, List.dropLast_eq_take, List.take_take]
    congr 1
    simp; omega

/-- **`count_timesteps`** is the number of data lines: six header lines are subtracted, so a file
    written by `to_file_string` for `n` steps counts `n`, before and after `to_constant_value`. -/
theorem C12_count_timesteps (n : Nat) : countTimesteps (6 + n) = n := by
  unfold countTimesteps; omega


/-! ### One object, a history of operations (round 3; model: Model/WeaObj.lean) -/

/-- **A refused operation changes nothing.**  When a setter of the Wea rejects its argument (not a
    `Location`; not an hourly collection, not aligned with the other collection, wrong data type) the
    object after the attempt is the object before it, so every observation C12 speaks about (public
    datetimes, file lines, header, dictionary datetimes, alignment) is unchanged. -/
theorem C12_refused_preserves (o : Obj) (op : Op) (e : E) (h : (step o op).2 = .refused e) :
    (step o op).1 = o ∧ (step o op).1.observe = o.observe := by
  have key : (step o op).1 = o := by
    cases op with
    | setOnHour b => simp [step] at h
    | setLoc l => cases l <;> simp [step] at h ⊢
    | read => rfl
    | setDni c =>
      simp only [step] at h ⊢
      split at h
      · cases h
      · next hacc => simp only [hacc]; rfl
    | setDhi c =>
      simp only [step] at h ⊢
      split at h
      · cases h
      · next hacc => simp only [hacc]; rfl
  exact ⟨key, by rw [key]⟩

example : (step ⟨tLoc, tDni, tDhi, false, 1, false⟩ (.setDni ⟨true, true, { tDni with vals := [1] }⟩)).2
    = .refused .assert := by rfl

/-- **Reading is pure.**  A read returns the observation of the current state and leaves the object
    as it is; hence reads can be repeated, reordered or dropped without any effect on later
    observations (`C12_reads_do_not_matter`). -/
theorem C12_read_pure (o : Obj) : step o .read = (o, .obs o.observe) := rfl

/-- Dropping every read from a history does not change the object the history ends in. -/
theorem C12_reads_do_not_matter (ops : List Op) : ∀ (o : Obj),
    run o (ops.filter fun op => decide (op ≠ .read)) = run o ops := by
  induction ops with
  | nil => intro o; rfl
  | cons op rest ih =>
    intro o
    by_cases hr : op = .read
    · subst hr
      simp only [List.filter, ne_eq, not_true_eq_false, decide_false]
      exact ih o
    · simp only [List.filter, ne_eq, hr, not_false_eq_true, decide_true]
      exact ih (step o op).1

/-- **Every history refines the fresh object.**  Take a Wea built by the constructor and apply any
    history of `enforce_on_hour` / `location` / collection assignments (accepted or refused) and reads.
    Provided every discontinuous collection assigned to `direct_normal_irradiance` carries the Wea's
    timestep and leap flag in its header (`HistFits`; continuous ones need no condition), the object the
    history ends in IS the object the constructor builds from the final public state (location, the two
    collections, enforce_on_hour) – so every observation after the history equals the observation of
    that fresh object: the slots `_timestep` / `_is_leap_year` filled in `__init__` never go stale.
    Induction over the history. -/
theorem C12_history_refines_fresh (loc : Loc) (dni dhi : Coll1) (o₀ : Obj) (h0 : Obj.mk? loc dni dhi = .ok o₀)
    (ops : List Op) (hf : HistFits o₀ ops) :
    Pub.fresh (o₀.pub.applyAll ops) = .ok (run o₀ ops) ∧
      ∀ f, Pub.fresh (o₀.pub.applyAll ops) = .ok f → f.observe = (run o₀ ops).observe := by
  have h := run_inv_pub ops o₀ (mk?_inv loc dni dhi o₀ h0) hf
  have hfresh := fresh_of_inv _ h.1
  rw [h.2] at hfresh
  refine ⟨hfresh, ?_⟩
  intro f hfe
  rw [hfresh] at hfe
  cases hfe
  rfl

example : HistFits ⟨tLoc, tDni, tDhi, false, 1, false⟩
    [.setOnHour true, .setDni ⟨true, true, { tDni with vals := [7, 8] }⟩, .read, .setLoc none] := by
  refine ⟨trivial, ⟨?_, trivial, trivial, trivial⟩⟩
  intro _
  decide

/-- **The header condition is needed (counterexample, as the code is).**  `is_collection_aligned` of
    discontinuous collections compares datetimes only, so a discontinuous collection with the same
    datetimes but a header of 2 steps per hour is ACCEPTED by the `direct_normal_irradiance` setter; the
    slot `_timestep` stays 1 and the Wea goes on reporting the half hour (08:30) where the Wea built from
    the same two collections reports 08:00.  (Known finding C12-setter-stale-timestep.) -/
theorem C12_history_stale_timestep_counterexample :
    ∃ (o₀ : Obj) (ops : List Op) (f : Obj), o₀.Inv ∧ Pub.fresh (o₀.pub.applyAll ops) = .ok f ∧
      f.observe.publicDts ≠ (run o₀ ops).observe.publicDts := by
  refine ⟨⟨tLoc, tDni, tDhi, false, 1, false⟩, [.setDni ⟨true, true, tDni2⟩],
    ⟨tLoc, tDni2, tDhi, false, 2, false⟩, ⟨rfl, rfl, by decide⟩, by decide +kernel, by decide +kernel⟩

/-- **After any history the two collections are aligned, step by step.**  For a Wea built by the
    constructor from two collections whose continuous members carry the datetimes of their header
    period (`Coll1.WF`), after ANY history of accepted and refused operations the datetimes of the diffuse
    collection are the datetimes of the direct collection and both hold one value per datetime. -/
theorem C12_history_aligned (loc : Loc) (dni dhi : Coll1) (o₀ : Obj) (h0 : Obj.mk? loc dni dhi = .ok o₀)
    (hw1 : dni.WF) (hw2 : dhi.WF) (ops : List Op) (hf : HistFits o₀ ops) (hc : ∀ op ∈ ops, op.candWF) :
    (run o₀ ops).dhi.dts = (run o₀ ops).dni.dts ∧ (run o₀ ops).dhi.vals.length = (run o₀ ops).dni.vals.length := by
  have hinv := (run_inv_pub ops o₀ (mk?_inv loc dni dhi o₀ h0) hf).1
  have e0 : o₀.dni = dni ∧ o₀.dhi = dhi := by
    unfold Obj.mk? at h0
    split at h0
    · cases h0; exact ⟨rfl, rfl⟩
    · cases h0
  have hw := run_wf ops o₀ (by rw [e0.1]; exact hw1) (by rw [e0.2]; exact hw2) hc
  have := aligned_dts _ _ hw.1 hw.2 hinv.2.2
  exact ⟨this.1.symm, this.2.symm⟩

/-- **`enforce_on_hour` has no effect on sub-hourly data, whatever the history.**  On an object whose
    timestep slot is not 1, assigning `enforce_on_hour` (any value, any number of times) changes neither the
    public datetimes nor the lines of the file form: sub-hourly data stays on its own grid. -/
theorem C12_on_hour_subhourly (o : Obj) (b : Bool) (hts : o.tsSlot ≠ 1) :
    (step o (.setOnHour b)).1.observe.publicDts = o.observe.publicDts ∧
      (step o (.setOnHour b)).1.observe.lines = o.observe.lines := by
  have hs : ∀ x : Bool, shift o.tsSlot x = 0 := by
    intro x; unfold shift; simp [hts]
  have hd : ∀ x : Bool, ({ o with onHour := x } : Obj).asW.datetimes = o.dni.dts.map fun d => fromMoy d.leap ((d.moy + 0 : Nat) : Int) := by
    intro x
    simp only [W.datetimes, Obj.asW, hs]
  have e1 : (step o (.setOnHour b)).1.asW.datetimes = o.asW.datetimes := by
    show ({ o with onHour := b } : Obj).asW.datetimes = _
    rw [hd b]
    have := hd o.onHour
    simpa using this.symm
  refine ⟨e1, ?_⟩
  show toLines (step o (.setOnHour b)).1.asW = toLines o.asW
  unfold toLines
  rw [e1]
  rfl

example : (step ⟨tLoc, tDni2, tDhi, false, 2, false⟩ (.setOnHour true)).1.observe.publicDts
    = [.ok ⟨3, 1, 8, 0, false⟩, .ok ⟨3, 1, 9, 0, false⟩] := by decide +kernel

/-- **With the slots in step every earlier theorem applies after a history**: the view of the object that
    the pure functions (`toLines`, `W.datetimes`, `toDict`, `fromFile ∘ toLines` …) see is exactly the pair of
    collections the user established, under `enforce_on_hour`. -/
theorem C12_history_view (loc : Loc) (dni dhi : Coll1) (o₀ : Obj) (h0 : Obj.mk? loc dni dhi = .ok o₀)
    (ops : List Op) (hf : HistFits o₀ ops) :
    (run o₀ ops).asW = ⟨(run o₀ ops).dni.cont, (run o₀ ops).dni.ap, (run o₀ ops).dni.dts, (run o₀ ops).dni.vals,
      (run o₀ ops).dhi.vals, (run o₀ ops).onHour⟩ :=
  asW_of_inv _ (run_inv_pub ops o₀ (mk?_inv loc dni dhi o₀ h0) hf).1

/-! ### `EPW.to_wea` -/

theorem milli_half (h : Nat) (hh : h < 24) : milliOf h 30 = h * 1000 + 500 := by
  have key : ((List.range 24).all fun h => milliOf h 30 == h * 1000 + 500) = true := by decide +kernel
  rw [List.all_eq_true] at key
  have := key h (List.mem_range.mpr hh)
  exact beq_iff_eq.mp this

theorem annual_hourly_minute (leap : Bool) (d : DT) (hd : d ∈ contDts (AP.annual leap 1)) :
    d.valid ∧ d.minute = 0 ∧ d.leap = leap := by
  obtain ⟨hwf, hnr, hst, hen, hstep, hn⟩ := annual_facts 1 (by decide) leap
  obtain ⟨hv, hl, hm⟩ := contDts_valid (AP.annual leap 1) hwf d hd
  have hmoys := moys_wholeDay (AP.annual leap 1) hwf rfl rfl hnr
  rw [hst, hstep] at hmoys
  rw [hmoys] at hm
  unfold prog at hm
  obtain ⟨k, _, hk⟩ := List.mem_map.mp hm
  refine ⟨hv, ?_, hl⟩
  obtain ⟨_, _, _, _, _, h6⟩ := hv
  have : d.moy = d.intHoy * 60 + d.minute := by simp [DT.moy]
  omega

theorem epw_lines_abstract (dts : List DT) (dni dhi : List Rat) (h1 : dni.length = dts.length)
    (h2 : dhi.length = dts.length) (hd : ∀ d ∈ dts, d.minute = 0 ∧ d.hour < 24) :
    (List.range dts.length).mapM (epwAt dts dni dhi)
      = .ok ((List.zip (dts.map fun d => (.ok (pubDT 1 false d) : Except Cal.Err DT)) (List.zip dni dhi)).map lineOf) := by
  rw [mapM_eq_map _ (fun h => epwLine (dts[h]?.getD default) (dni[h]?.getD 0) (dhi[h]?.getD 0))]
  · congr 1
    apply List.ext_getElem?
    intro i
    by_cases hi : i < dts.length
    · have hi1 : i < dni.length := by omega
      have hi2 : i < dhi.length := by omega
      obtain ⟨hm, hh⟩ := hd dts[i] (List.getElem_mem _)
      simp [hi, hi1, hi2, lineOf, dtGet, fmtLine, epwLine, pubDT, shift, hm, milli_half _ hh]
    · simp [hi]
  · intro x hx
    have hx' : x < dts.length := List.mem_range.mp hx
    have hi1 : x < dni.length := by omega
    have hi2 : x < dhi.length := by omega
    simp [epwAt, hx', hi1, hi2]


/-- **`EPW.to_wea` writes the file of the Wea made from the same EPW** (annual export, model level): on the
    cells of the two irradiance columns, the lines of `EPW.to_wea(path)` – month, day, `hour + 0.5`, `%d` of both
    cells – are exactly the lines of `to_file_string()` of the annual hourly Wea built from those cells
    (`from_annual_values` = the `timestep = 1` path of `Wea.from_epw_file`, hence of `epw-to-wea`), for normal and
    leap years.  (Unit state of the EPW object and the listed-hours form are compared, not proved.) -/
theorem C12_epw_to_wea_annual (leap : Bool) (dni dhi : List Rat) (w : W Rat)
    (h : fromAnnualValues dni dhi ((1 : Nat) : Int) leap = .ok w) :
    epwToWea leap dni dhi [] = toLines w := by
  obtain ⟨_, _, hd1, hd2, hap, _, hoh, hl1, hl2⟩ := C12_time_axis 1 (by decide) leap dni dhi w h
  obtain ⟨hwf, _⟩ := annual_facts 1 (by decide) leap
  have hw : w.dts = contDts (AP.annual leap 1) := by
    have h' : mkCont (AP.annual leap 1) dni dhi = .ok w := by
      have := h
      unfold fromAnnualValues at this
      rw [annualAP_ok 1 (by decide) leap] at this
      exact this
    rw [(mkCont_inv _ _ _ _ h').2.2]
  have hlen : (contDts (AP.annual leap 1)).length = hoursInYear leap * 1 := by
    rw [contDts_length _ hwf, ← AP.C04_len _ hwf]
    have h' : mkCont (AP.annual leap 1) dni dhi = .ok w := by
      have := h
      unfold fromAnnualValues at this
      rw [annualAP_ok 1 (by decide) leap] at this
      exact this
    rw [← (mkCont_inv _ _ _ _ h').1, hl1]
  -- the public datetimes all exist: hourly steps sit on the hour
  have hF : ∀ d ∈ contDts (AP.annual leap 1),
      fromMoy d.leap ((d.moy + shift 1 false : Nat) : Int) = .ok (pubDT 1 false d) := by
    intro d hd
    obtain ⟨hv, hm, _⟩ := annual_hourly_minute leap d hd
    exact (pubDT_ok 1 false d hv (fun _ => hm)).2
  have hdt : w.datetimes = (contDts (AP.annual leap 1)).map fun d => (.ok (pubDT 1 false d) : Except Cal.Err DT) := by
    unfold W.datetimes
    rw [hw, hap, hoh]
    apply List.map_congr_left
    intro d hd
    exact hF d hd
  have hall : ∀ r ∈ w.datetimes, ∃ d, r = .ok d := by
    intro r hr
    rw [hdt] at hr
    obtain ⟨d, _, hd⟩ := List.mem_map.mp hr
    exact ⟨_, hd.symm⟩
  rw [toLines_eq w hall, hdt, hd1, hd2]
  -- the EPW side
  unfold epwToWea
  simp only [List.isEmpty_nil, if_true]
  exact epw_lines_abstract _ dni dhi (by omega) (by omega) (fun d hd => by
    obtain ⟨hv, hm, _⟩ := annual_hourly_minute leap d hd
    obtain ⟨_, _, _, _, h5, _⟩ := hv
    exact ⟨hm, by omega⟩)

example : (epwToWea false [1, 2] [3, 4] [1]) = .ok [⟨1, 1, 1500, 2, 4⟩] := by decide +kernel

/-! ### Round 4: the translator given an analysis period as TEXT -/

/-- **A period typed as text selects the steps of the period built from numbers.**  For every
    well-formed analysis period (any dates, any start/end hour – one or two digits, overnight or not –,
    all 12 timesteps, leap or not) the seven number tokens of its text form, handed to the constructor
    as strings the way `from_string` does, give back exactly that period; hence `epw_to_wea` applies
    the selection of the numeric period.  Partial: token level (the character-level `replace` chain of
    `from_string` is executable in the model and compared with the code by the `cliap` / C04 `from_string`
    correspondence ops, not proved). -/
theorem C12_cli_text_period_partial (ap : AP) (hwf : ap.WF) :
    cliPeriodTokens (ap.reprTokens.map fun (n : Nat) => some (n : Int)) ap.leap = .ok ap ∧
    cliSelTokens (ap.reprTokens.map fun (n : Nat) => some (n : Int)) ap.leap = .ok (periodSel ap) := by
  have h := AP.tokens_roundtrip ap hwf
  unfold cliSelTokens cliPeriodTokens
  rw [h]
  exact ⟨rfl, rfl⟩

example : cliPeriodTokens [some 6, some 21, some 9, some 21, some 8, some 16, some 1] false = .ok ⟨6, 21, 8, 9, 21, 16, 1, false⟩ := by
  decide +kernel

/-- **The hour window of a typed period is decided on the numbers, not on the digits.**  The period
    the translator builds from the tokens of `ap` is overnight exactly when `end_hour < st_hour` as
    numbers (`8 .. 16` is a day window although `"8" > "16"` as text; `22 .. 6` is overnight), wraps
    the year end exactly when the end moment precedes the start moment, and minute `m` is written
    iff it satisfies the membership predicate of the numeric period (C04). -/
theorem C12_cli_text_window_partial (ap : AP) (hwf : ap.WF) :
    ∃ ap', cliPeriodTokens (ap.reprTokens.map fun (n : Nat) => some (n : Int)) ap.leap = .ok ap' ∧
      ap'.isOvernight = decide (ap.end_hour < ap.st_hour) ∧
      ap'.isReversed = ap.isReversed ∧
      ∀ m : Nat, m ∈ ap'.moys ↔ ap.Pred m := by
  refine ⟨ap, (C12_cli_text_period_partial ap hwf).1, rfl, rfl, fun m => AP.mem_moys ap hwf m⟩

example : (⟨6, 21, 8, 9, 21, 16, 1, false⟩ : AP).WF ∧ (⟨6, 21, 8, 9, 21, 16, 1, false⟩ : AP).isOvernight = false ∧
    (⟨3, 1, 22, 3, 10, 6, 1, false⟩ : AP).isOvernight = true := by decide

/-- **The selection of a period never depends on the values and is the same for both collections**:
    the translator's filter is an instance of the alignment theorem – on an aligned pair of
    collections whose axis holds each selected minute, the direct and the diffuse value written on one
    line come from the same source position. -/
theorem C12_cli_period_aligned {α : Type} (ap : AP) (dni dhi : Coll α) (hd : dni.dts = dhi.dts)
    (h1 : dni.vals.length = dni.dts.length) (h2 : dhi.vals.length = dhi.dts.length) :
    ∃ idx a b, periodSel ap dni.dts = some idx ∧ filterWea (periodSel ap) dni dhi = some (a, b) ∧ a.dts = b.dts ∧
      a.vals.length = idx.length ∧ b.vals.length = idx.length ∧
      ∀ j : Nat, a.vals[j]? = (idx[j]?).bind (fun i => dni.vals[i]?) ∧ b.vals[j]? = (idx[j]?).bind (fun i => dhi.vals[i]?) := by
  let idx := ap.moys.filterMap fun (m : Nat) => dni.dts.findIdx? (fun (d : DT) => d.moy == m)
  have hin : ∀ i ∈ idx, i < dni.dts.length := by
    intro i hi
    obtain ⟨m, _, hm⟩ := List.mem_filterMap.mp hi
    exact (List.findIdx?_eq_some_iff_findIdx_eq.mp hm).1
  obtain ⟨a, b, hf, hab, _, ha, hb, hj⟩ := C12_filters_aligned (periodSel ap) dni dhi hd h1 h2 idx rfl hin
  exact ⟨idx, a, b, rfl, hf, hab, ha, hb, fun j => ⟨(hj j).2.1, (hj j).2.2⟩⟩

/-! ### Round 4: `get_irradiance_value_for_hoy` indexes with a truncated float product -/

/-- **The value asked for at an hour of the year is the value of step `k` exactly when the product
    `hoy * timestep` the code forms lies in `[k, k + 1)`**: the index is the truncation of that product. -/
theorem C12_get_for_hoy_index_iff (k : Nat) (x : Rat) (h0 : 0 ≤ x) :
    getForHoyIndex x = (k : Int) ↔ ((k : Rat) ≤ x ∧ x < (k : Rat) + 1) := by
  unfold getForHoyIndex Py.truncRat
  simp only [h0, if_true]
  constructor
  · intro h
    have h1 := Rat.floor_le x
    have h2 := Rat.lt_floor_add_one x
    rw [h] at h1 h2
    push_cast at h1 h2
    exact ⟨h1, h2⟩
  · intro ⟨h1, h2⟩
    have a1 : ((k : Int) : Rat) ≤ x := by push_cast; exact h1
    have a2 : x < (((k : Int) + 1 : Int) : Rat) := by push_cast; exact h2
    have b1 : (k : Int) ≤ x.floor := Rat.le_floor_iff.mpr a1
    have b2 : x.floor < (k : Int) + 1 := Rat.floor_lt_iff.mpr a2
    omega

/-- With exact arithmetic every step is found at its own hour of the year (all timesteps, all steps). -/
theorem C12_get_for_hoy_index_exact_partial (ts : Nat) (hts : ts ∈ Gen.Ap.validTimesteps) (k : Nat) :
    getForHoyIndex (stepHoy ts k * (ts : Rat)) = (k : Int) := by
  have hpos : 0 < ts := by
    simp [Gen.Ap.validTimesteps] at hts
    omega
  have hdiv : 60 * k / ts * ts = 60 * k := by
    rw [ts_div ts hts k]
    have : 60 / ts * ts = 60 := by
      simp [Gen.Ap.validTimesteps] at hts
      rcases hts with h | h | h | h | h | h | h | h | h | h | h | h <;> subst h <;> rfl
    rw [Nat.mul_assoc, this, Nat.mul_comm]
  have hx : stepHoy ts k * (ts : Rat) = ((k : Int) : Rat) := by
    unfold stepHoy
    have h60 : ((60 * k / ts * ts : Nat) : Rat) = ((60 * k : Nat) : Rat) := by rw [hdiv]
    push_cast at h60 ⊢
    have : ((60 * k / ts : Nat) : Rat) * (ts : Rat) = 60 * (k : Rat) := h60
    linarith [this]
  unfold getForHoyIndex
  rw [hx]
  exact trunc_intCast _

/-- **Refuted on the floats the code works with** (known finding C12-get-for-hoy-float-index): step
    131069 of a 4-minute annual Wea (30 Dec 01:56) has hour of the year 8737.933333333332; the IEEE
    product with 15 is 9006993096310783 / 2^36 = 131068.99999999999…, whose truncation is the PREVIOUS
    step, although the exact product is the step itself. -/
theorem C12_get_for_hoy_index_counterexample :
    getForHoyIndex (9006993096310783 / 68719476736) = 131068 ∧
    getForHoyIndex (stepHoy 15 131069 * 15) = 131069 := by
  decide +kernel

/-! ### Round 6: range bounds of the sub-period, the three-hour lag, year-sized files -/

/-- **The days a source holds include its own first and last day** (both bounds of the range are closed), for plain sources and
    for sources that wrap the year end. -/
theorem C12_subset_boundary_days_inside (src : AP) (h : src.isReversed = true ∨ src.stTime.doy ≤ src.endTime.doy) :
    dayInside src src.stTime.doy = true ∧ dayInside src src.endTime.doy = true := by
  unfold dayInside
  rcases h with h | h
  · simp [h]
  · cases hr : src.isReversed <;> simp [h]

/-- **A day is replaced by the source's own first (last) day only if it lies strictly outside the days the source holds**: the
    first and the last day of the source, and every day between them, are never "outside" - for a wrapping source only the days
    strictly between its last and its first day are. -/
theorem C12_subset_outside_iff (src : AP) (d : Nat) (hdays : src.isReversed = true → src.endTime.doy < src.stTime.doy) :
    (stOutside src d = true → dayInside src d = false) ∧ (endOutside src d = true → dayInside src d = false) ∧
    (dayInside src d = false → src.isReversed = true → stOutside src d = true ∧ endOutside src d = true) := by
  unfold stOutside endOutside dayInside
  cases hr : src.isReversed
  · simp
    omega
  · have := hdays hr
    simp
    omega

/-- **A request whose first and last day lie on days the source holds, and whose hours lie in the source's window, is the period
    the collection is filtered with** - unchanged, in particular when it starts (or ends) exactly on the source's last (first)
    day: `Wea.filter_by_analysis_period` then selects the steps of the request, not a widened slice. -/
theorem C12_subset_inside_identity (src req : AP) (hs : dayInside src req.stTime.doy = true)
    (he : dayInside src req.endTime.doy = true) (hh1 : src.st_hour ≤ req.st_hour) (hh2 : req.end_hour ≤ src.end_hour) :
    subsetAP src req = req := by
  have so : stOutside src req.stTime.doy = false := by
    unfold stOutside; unfold dayInside at hs
    cases hr : src.isReversed
    · simp [hr] at hs ⊢; omega
    · simp [hr] at hs ⊢; omega
  have eo : endOutside src req.endTime.doy = false := by
    unfold endOutside; unfold dayInside at he
    cases hr : src.isReversed
    · simp [hr] at he ⊢; omega
    · simp [hr] at he ⊢; omega
  unfold subsetAP
  split
  · rfl
  · simp only [so, eo]
    have h1 : ¬ req.st_hour < src.st_hour := by omega
    have h2 : ¬ src.end_hour < req.end_hour := by omega
    simp [h1, h2]

/-- Non-vacuity / the rare case by name: the winter slice 21 Dec - 21 Mar filtered by its own last day. -/
example : subsetAP ⟨12, 21, 0, 3, 21, 23, 1, false⟩ ⟨3, 21, 0, 3, 21, 23, 1, false⟩ = ⟨3, 21, 0, 3, 21, 23, 1, false⟩ :=
  C12_subset_inside_identity _ _ (by decide +kernel) (by decide +kernel) (by decide) (by decide)

/-- **Three hours before step `count` is `3 * timestep` positions back**: on a time axis with `timestep` steps per hour (minute of
    step i = 60 * i / timestep from the first step, theorem `C12_wholeDay_steps`), the position `from_zhang_huang_solar` reads the
    earlier dry bulb temperature from is `count - 3 * timestep`, and that step lies exactly 180 minutes before step `count`. -/
theorem C12_zh_lag_three_hours (ts : Nat) (hts : ts ∈ Gen.Ap.validTimesteps) (n count : Nat) (h1 : 3 * ts ≤ count) (h2 : count < n) :
    ∃ k, zhLagIndex ts n count = some k ∧ k + 3 * ts = count ∧ 60 * k / ts + 180 = 60 * count / ts := by
  refine ⟨count - 3 * ts, ?_, by omega, ?_⟩
  · unfold zhLagIndex
    rw [if_pos h1, if_pos (by omega)]
  · rw [ts_div ts hts, ts_div ts hts]
    rcases AP.ts_cases hts with e | e | e | e | e | e | e | e | e | e | e | e <;> subst e <;> omega

/-- **A lag of three POSITIONS is three hours only for hourly data**: for every other valid timestep the step three positions back
    is less than 180 minutes earlier (the unit of the lag matters as soon as the data is sub-hourly). -/
theorem C12_zh_lag_positions_vs_hours (ts : Nat) (hts : ts ∈ Gen.Ap.validTimesteps) (count : Nat) (h : 3 ≤ count) :
    60 * (count - 3) / ts + 180 = 60 * count / ts ↔ ts = 1 := by
  rw [ts_div ts hts, ts_div ts hts]
  rcases AP.ts_cases hts with e | e | e | e | e | e | e | e | e | e | e | e <;> subst e <;> omega

/-- At the start of the series the index is negative for Python and counts from the end: the first `3 * timestep` steps read the
    LAST `3 * timestep` values (wrap-around of the series, as the code does it). -/
theorem C12_zh_lag_wraps_at_start (ts n count : Nat) (h1 : count < 3 * ts) (h2 : 3 * ts ≤ n) :
    zhLagIndex ts n count = some (n + count - 3 * ts) := by
  unfold zhLagIndex
  rw [if_neg (by omega), if_pos (by omega)]
  congr 1
  omega

/-- **A file that holds exactly one year of rows is read by its rows, not by its size**: written from a whole-day period of any
    first day - also one that wraps the year end and has as many steps as the year, e.g. 1 Jul - 30 Jun - the file reads back as
    the continuous Wea over THAT period (first datetime = first row); it is the 1 Jan - 31 Dec Wea only if the period is the
    annual one.  (Corollary of `C12_file_roundtrip_continuous`, stated for the year-sized case.) -/
theorem C12_file_year_sized_by_rows (prod60 : Nat → Rat) (ap : AP) (hwf : ap.WF)
    (h0 : ap.st_hour = 0) (h23 : ap.end_hour = 23) (hlen : ap.len = hoursInYear ap.leap * ap.timestep)
    (dni dhi : List Rat) (w : W Rat) (hw : mkCont ap dni dhi = .ok w) :
    ∃ lines r, toLines w = .ok lines ∧ lines.length = hoursInYear ap.leap * ap.timestep ∧
      fromFile prod60 (ap.timestep : Int) ap.leap lines = .ok r ∧ r.ap = ap ∧ r.dts = contDts ap ∧
      (r.ap = AP.annual ap.leap ap.timestep → (ap.st_month = 1 ∧ ap.st_day = 1)) := by
  obtain ⟨lines, a, b, c⟩ := C12_file_roundtrip_continuous prod60 ap hwf h0 h23 dni dhi w.onHour w hw
  refine ⟨lines, _, ?_, by rw [b, hlen], c, rfl, rfl, ?_⟩
  · simpa using a
  · intro h
    have h' : ap = AP.annual ap.leap ap.timestep := h
    rw [h']
    exact ⟨rfl, rfl⟩

/-- Non-vacuity: 1 Jul - 30 Jun has the 8760 steps of the year and is not the annual period. -/
example : (⟨7, 1, 0, 6, 30, 23, 1, false⟩ : AP).len = hoursInYear false * 1 ∧ (⟨7, 1, 0, 6, 30, 23, 1, false⟩ : AP).WF := by
  decide +kernel

end Wea
