/-
  C11 — Sunrise, noon, sunset and daylight saving follow from the sun positions.
  Property theorems only (helper lemmas: Proofs/C11Lemmas.lean).  Model: Model/SunTimes.lean on top
  of Model/Sun.lean (C05), Model/AP.lean (C04), Model/Cal.lean (C08); tied to ladybug/sunpath.py by
  the correspondence ops of Drv/C11.lean (harness/props/c11.py).  The model describes the code with
  fixes/C11_dst_sunrise_direction.patch and fixes/C11_midnight_wrap.patch applied.

  Numeric property, partial by nature.  PROVED here: integer/branch logic (daylight-saving window,
  flag and one-hour shift, calendar placement of sunrise/sunset around midnight and the year ends,
  analemma dates, which suns an analemma / day arc is made of) and closed-form real analysis
  (sunrise ≤ noon ≤ sunset, the polar branch, the geometric altitude at the sunrise hour angle is
  exactly −depression for the day's declination, the hour-0 wrap of the shifted hour).
  NOT theorems (sampled on the real code by harness/props/c11.py): true altitude at the REPORTED
  (rounded, zone-time) sunrise/sunset against an independent ephemeris, noon is the day's maximum,
  "one hour earlier" as a statement about two different instants' Julian days.

  Round 3: the object state machine of Model/SunpathObj.lean (six public attributes, checked setters,
  every method of the property a read).  PROVED: reads change nothing and commute, a refused
  operation leaves the state (hence every later answer) as it was, after ANY history every answer
  is the answer of a fresh Sunpath built from the final public attributes, the setters' range
  asserts are the documented ranges.  What ties these to the real object is the `hist`
  correspondence (one real Sunpath, step by step) – the theorems are about the model.
-/
import Ladybug.Proofs.C11Lemmas
import Ladybug.Proofs.C11Obj
import Ladybug.Proofs.C11Forms

open Cal Real

namespace SunTimes

/-! ### Daylight-saving window -/

/-- For EVERY well-formed period (northern, year-wrapping southern, empty) and every minute `m` of
    the year: `is_daylight_saving_hour` answers true exactly when `m` lies in the cyclic half-open
    interval from the start moment to the end moment of the period (counted from the start moment,
    `m` comes strictly before the end moment; the year end is passed when the start is later in
    the year than the end). -/
theorem C11_dst_window (ap : AP) (hwf : ap.WF) (m : Nat) (hm : m < minutesInYear ap.leap) :
    isDst (some ap) m = true ↔ inCyclic (minutesInYear ap.leap) ap.stMoy ap.endMoy m := by
  have hst : ap.stMoy < minutesInYear ap.leap := C08_moy_lt ap.stTime hwf.1
  have hen : ap.endMoy < minutesInYear ap.leap := C08_moy_lt ap.endTime hwf.2.1
  rw [← window_iff_cyclic _ _ _ _ hst hen hm]
  unfold isDst
  by_cases hr : ap.isReversed = true
  · have := (isReversed_iff ap).mp hr
    simp [hr, this]
  · have h' : ¬ ap.endMoy < ap.stMoy := fun h => hr ((isReversed_iff ap).mpr h)
    simp [hr, h']

/-- The same in plain comparisons: a period whose start is not later than its end contains the
    minutes from the start up to (not including) the end; a period whose start is later in the year
    than its end contains the minutes from the start to the year end and from the year start up to
    (not including) the end.  In particular 1 Jan 00:00 is inside every year-wrapping period with a
    positive end minute, and the end minute itself is never inside. -/
theorem C11_dst_window_plain (ap : AP) (m : Nat) :
    isDst (some ap) m = true ↔
      (ap.stMoy ≤ ap.endMoy ∧ ap.stMoy ≤ m ∧ m < ap.endMoy) ∨
      (ap.endMoy < ap.stMoy ∧ (ap.stMoy ≤ m ∨ m < ap.endMoy)) := by
  unfold isDst
  by_cases hr : ap.isReversed = true
  · have := (isReversed_iff ap).mp hr
    simp [hr]; omega
  · have h' : ¬ ap.endMoy < ap.stMoy := fun h => hr ((isReversed_iff ap).mpr h)
    simp [hr]; omega

/-- Without a daylight-saving period no time is daylight saving. -/
theorem C11_dst_none (m : Nat) : isDst none m = false := rfl

/-! ### The shift of one hour and the flag -/

section Generic

variable {α : Type} [Add α] [Sub α] [Mul α] [Div α] [Neg α] [OfScientific α] [LT α] [LE α]
  [DecidableLT α] [DecidableLE α] [Transc α]

/-- Outside the daylight-saving window (or without a period) `calculate_sun_from_date_time` is
    exactly the computation of property C05 (`Sun.sunOfDT`: same date-time, altitude, azimuth,
    vectors), and the sun is not flagged. -/
theorem C11_dst_shift_outside (ofN : Nat → α) (c : Sun.Cfg α) (p : Option AP) (d : DT) (solar : Bool)
    (h : isDst p ({ d with leap := d.leap || c.leap } : DT).moy = false) :
    sunOfDT ofN c p d solar =
      match Sun.sunOfDT ofN c d solar with
      | .ok s => .ok (s, false)
      | .error e => .error e := by
  unfold sunOfDT Sun.sunOfDT shiftedHour
  simp only [h]
  simp only [Bool.false_eq_true, if_false]
  split <;> split <;> simp_all

/-- Inside the window the sun is computed from the SAME Julian day (that of the clock date-time)
    with the clock hour minus exactly one (`hour - 1`; at 00:xx this is a negative hour, see
    `C11_dst_hour_zero`), everything else unchanged, and the sun is flagged. -/
theorem C11_dst_shift_inside (ofN : Nat → α) (c : Sun.Cfg α) (p : Option AP) (d : DT) (solar : Bool)
    (h : isDst p ({ d with leap := d.leap || c.leap } : DT).moy = true) :
    sunOfDT ofN c p d solar =
      let leap := d.leap || c.leap
      let d' : DT := { d with leap := leap }
      let tz := Sun.timeZoneOf (Sun.rad c.lon) c.tz
      let jd := Sun.julianDay (ofN (Sun.daysFrom010119 (if leap then 2016 else 2017) d.month d.day))
        (ofN (Sun.dayFracHundredths (d.minute + d.hour * 60)) / 100.0) tz
      let pos := Sun.position (Sun.latitudeRad c.lat) (Sun.rad c.lon) tz
        (ofN d.hour + ofN d.minute / 60.0 - 1.0) jd solar
      match Sun.mkSun d' pos.1 pos.2 (Sun.deg (Sun.rad c.north)) with
      | .ok s => .ok (s, true)
      | .error e => .error e := by
  unfold sunOfDT shiftedHour
  simp only [h]
  simp only [if_true]
  split <;> split <;> simp_all

theorem mkSun_dt (d : DT) (a z n : α) (s : Sun.SunOut α) (h : Sun.mkSun d a z n = .ok s) : s.dt = d := by
  unfold Sun.mkSun at h
  by_cases h1 : (-90.0 ≤ a ∧ a ≤ 90.0)
  · by_cases h2 : (-360.0 ≤ z ∧ z ≤ 360.0)
    · simp [h1, h2] at h; rw [← h]
    · simp [h1, h2] at h
  · simp [h1] at h

/-- The `is_daylight_saving` flag of the sun is the window test of its (leap-adjusted) date-time,
    and the sun keeps that clock date-time. -/
theorem C11_dst_flag (ofN : Nat → α) (c : Sun.Cfg α) (p : Option AP) (d : DT) (solar : Bool)
    (s : Sun.SunOut α) (f : Bool) (h : sunOfDT ofN c p d solar = .ok (s, f)) :
    f = isDst p ({ d with leap := d.leap || c.leap } : DT).moy ∧
      s.dt = { d with leap := d.leap || c.leap } := by
  unfold sunOfDT at h
  simp only [] at h
  split at h
  · next s' hs =>
    have hdt := mkSun_dt _ _ _ _ _ hs
    simp only [Except.ok.injEq, Prod.mk.injEq] at h
    obtain ⟨rfl, rfl⟩ := h
    exact ⟨rfl, hdt⟩
  · cases h

end Generic


/-! ### Real analysis: hour-0 wrap, sunrise ≤ noon ≤ sunset, polar days, altitude at the hour angle -/

/-- Hour 0 of a daylight-saving day: the hour the sun is computed for is negative
    (`hour - 1` with `0 ≤ hour < 1`).  The hour angle – hence altitude and azimuth for the Julian day
    used – is the one of `hour + 23` (23:xx): in zone time the `% 1440` of the solar time absorbs the
    day, in solar time the branch `sol_time < 0` of the hour angle does. -/
theorem C11_dst_hour_zero (hour eot lonRad tz : ℝ) (solar : Bool) (h0 : 0 ≤ hour) (h1 : hour < 1) :
    Sun.hourAngle (Sun.solarTime (hour - 1.0) eot lonRad tz solar * 60.0) =
      Sun.hourAngle (Sun.solarTime (hour + 23) eot lonRad tz solar * 60.0) := by
  have l1 : (1.0 : ℝ) = 1 := by norm_num
  have l4 : (4.0 : ℝ) = 4 := by norm_num
  have l60 : (60.0 : ℝ) = 60 := by norm_num
  have l0 : (0.0 : ℝ) = 0 := by norm_num
  have l180 : (180.0 : ℝ) = 180 := by norm_num
  have l1440 : (1440.0 : ℝ) = 1440 := by norm_num
  cases solar
  · -- zone time: both arguments of `% 1440` differ by 1440
    have key : Sun.solarTime (hour - 1.0) eot lonRad tz false = Sun.solarTime (hour + 23) eot lonRad tz false := by
      unfold Sun.solarTime
      simp only [Bool.false_eq_true, if_false]
      have hpos : (0 : ℝ) < 1440 := by norm_num
      rw [l1440, Sun.pyMod_eq _ _ hpos, Sun.pyMod_eq _ _ hpos, l1, l60, l4]
      have e : (hour + 23) * 60 + eot + 4 * Sun.deg lonRad - 60 * tz =
          ((hour - 1) * 60 + eot + 4 * Sun.deg lonRad - 60 * tz) + 1440 := by ring
      rw [e]
      have f : ⌊((hour - 1) * 60 + eot + 4 * Sun.deg lonRad - 60 * tz + 1440) / 1440⌋ =
          ⌊((hour - 1) * 60 + eot + 4 * Sun.deg lonRad - 60 * tz) / 1440⌋ + 1 := by
        rw [add_div, div_self (by norm_num : (1440 : ℝ) ≠ 0)]
        exact Int.floor_add_one _
      rw [f]; push_cast; ring
    rw [key]
  · unfold Sun.solarTime Sun.hourAngle
    simp only [if_true]
    rw [l1, l60, l0, l4, l180]
    have a : (hour - 1) * 60 < (0 : ℝ) := by linarith
    have b : ¬ ((hour + 23) * 60 < (0 : ℝ)) := by linarith
    rw [if_pos a, if_neg b]
    ring

/-- The sunrise hour angle, when it exists, is an angle between 0 and 180 degrees. -/
theorem C11_hour_angle_range (latRad dec depRad h : ℝ)
    (hh : sunriseHourAngle latRad dec depRad = some h) : 0 ≤ h ∧ h ≤ 180 := by
  unfold sunriseHourAngle at hh
  simp only [] at hh
  split at hh
  · cases hh
  · cases hh
    rw [Sun.deg_eq, Sun.t_acos]
    have hp := Real.pi_pos
    constructor
    · exact mul_nonneg (Real.arccos_nonneg _) (by positivity)
    · have := Real.arccos_le_pi (sunriseArg latRad dec depRad)
      calc Real.arccos (sunriseArg latRad dec depRad) * (180 / π) ≤ π * (180 / π) :=
            mul_le_mul_of_nonneg_right this (by positivity)
        _ = 180 := by field_simp

/-- Whenever the sunrise hour angle exists, the three float hours satisfy
    sunrise ≤ noon ≤ sunset, noon is the midpoint, and sunrise and sunset are at most 24 h apart –
    with or without the daylight-saving hour (which moves all three by the same hour). -/
theorem C11_order (latRad dec depRad noonF h : ℝ) (dst : Bool)
    (hh : sunriseHourAngle latRad dec depRad = some h) :
    ∃ sr n ss, riseSetHours noonF (some h) dst = (some sr, n, some ss) ∧
      sr ≤ n ∧ n ≤ ss ∧ n - sr = ss - n ∧ ss - sr ≤ 24 ∧ ss - sr = h * 2 / 15 := by
  obtain ⟨h0, h180⟩ := C11_hour_angle_range latRad dec depRad h hh
  unfold riseSetHours
  cases dst <;> simp only [Bool.false_eq_true, if_false, if_true] <;>
    refine ⟨_, _, _, rfl, ?_, ?_, ?_, ?_, ?_⟩ <;> norm_num <;> linarith

/-- Polar days and nights: the hour angle does not exist exactly when the `acos` argument is
    outside [-1, 1] (`math.acos` raises `ValueError`). -/
theorem C11_polar_iff (latRad dec depRad : ℝ) :
    sunriseHourAngle latRad dec depRad = none ↔
      (sunriseArg latRad dec depRad < -1 ∨ 1 < sunriseArg latRad dec depRad) := by
  unfold sunriseHourAngle
  simp only []
  constructor
  · intro h
    split at h
    · next hc => norm_num at hc; exact hc
    · cases h
  · intro h
    rw [if_pos (by norm_num; exact h)]

/-- The central identity behind "altitude at sunrise = −depression", in exact arithmetic and for
    the declination the code uses for the day: at hour angle `±h` (the sunrise hour angle) the sine
    of the geometric altitude (`cos_zenith` of `calculate_sun_from_date_time`) is exactly
    `sin(−depression)`.  (That the REPORTED, rounded zone time corresponds to this hour angle within
    a minute, with the declination of that moment instead of noon's, is the sampled sub-claim.) -/
theorem C11_altitude_at_hour_angle (latRad dec depRad h : ℝ)
    (hl : Real.cos latRad ≠ 0) (hd : Real.cos dec ≠ 0)
    (hh : sunriseHourAngle latRad dec depRad = some h) :
    Sun.cosZenith latRad dec h = Real.sin (-depRad) ∧ Sun.cosZenith latRad dec (-h) = Real.sin (-depRad) := by
  unfold sunriseHourAngle at hh
  simp only [] at hh
  split at hh
  · cases hh
  · next hc =>
    cases hh
    have hc' : -1 ≤ sunriseArg latRad dec depRad ∧ sunriseArg latRad dec depRad ≤ 1 := by
      norm_num at hc; constructor <;> linarith [hc.1, hc.2]
    have hcos : Real.cos (Sun.rad (Sun.deg (Transc.acos (sunriseArg latRad dec depRad)))) =
        sunriseArg latRad dec depRad := by
      rw [Sun.rad_deg, Sun.t_acos, Real.cos_arccos hc'.1 hc'.2]
    have harg : Real.cos latRad * Real.cos dec * sunriseArg latRad dec depRad =
        -Real.sin depRad - Real.sin latRad * Real.sin dec := by
      unfold sunriseArg
      simp only [Sun.t_cos, Sun.t_tan, Sun.pi_eq, Real.tan_eq_sin_div_cos]
      have : Real.cos (π / 2.0 + depRad) = -Real.sin depRad := by
        have : (2.0 : ℝ) = 2 := by norm_num
        rw [this, add_comm, Real.cos_add_pi_div_two]
      rw [this]
      field_simp
    have hneg : Sun.rad (-(Sun.deg (Transc.acos (sunriseArg latRad dec depRad)))) =
        -(Sun.rad (Sun.deg (Transc.acos (sunriseArg latRad dec depRad)))) := by
      rw [Sun.rad_eq, Sun.rad_eq]; ring
    unfold Sun.cosZenith
    simp only [Sun.t_sin, Sun.t_cos]
    rw [hneg, Real.cos_neg, hcos, harg, Real.sin_neg]
    constructor <;> ring


/-! ### Calendar placement of sunrise and sunset (integer logic) -/

/-- `_calculate_hour_and_minute` on an exact float hour `q` of any sign names the whole minute
    nearest to `60·q` (ties to even): `hour·60 + minute = int(q)·60 + round((q − int(q))·60)`, within
    half a minute of `60·q` – also for negative hours (before-midnight sunrise), where both parts
    are ≤ 0, and through the carry `minute ≥ 60`. -/
theorem C11_hour_minute_nearest (q : Rat) :
    minutesOf (hmQ q) = Py.truncRat q * 60 + Py.round ((q - (Py.truncRat q : Rat)) * 60) ∧
      ((minutesOf (hmQ q) : Int) : Rat) - 60 * q ≤ 1 / 2 ∧ 60 * q - ((minutesOf (hmQ q) : Int) : Rat) ≤ 1 / 2 := by
  have hr := Cal.round_near ((q - (Py.truncRat q : Rat)) * 60)
  have e : minutesOf (hmQ q) = Py.truncRat q * 60 + Py.round ((q - (Py.truncRat q : Rat)) * 60) := by
    unfold hmQ Sun.hmOfFloatHour minutesOf
    simp only []
    split <;> omega
  refine ⟨e, ?_, ?_⟩ <;> rw [e] <;> push_cast <;> linarith [hr.1, hr.2]

/-- Before/after-midnight placement (`_datetime_from_day_and_hour`), for EVERY day of the normal and
    the leap year and every signed number of minutes `t = hour·60 + minute` (no bound: sunrise the
    evening before, sunset after midnight, and further): the result is a valid date-time of the
    same year type whose time of day is `t mod 1440` and whose day of the year is the day
    `⌊t / 1440⌋` days away, cyclically – so `t ∈ [−1440, 0)` gives the PREVIOUS calendar day
    (31 Dec for 1 Jan; 29 Feb for 1 Mar of a leap year) at `24:00 + t`, `t ∈ [0, 1440)` the day
    itself, `t ∈ [1440, 2880)` the NEXT calendar day (1 Jan for 31 Dec) at `t − 24:00`; `t = −0`
    (a sunrise that rounds to midnight, the `23 + hr, 60 + mn` case with `mn = 0`) is 00:00 of the
    day itself. -/
theorem C11_midnight_wrap (leap : Bool) (month day : Nat) (hv : (⟨month, day, 0, 0, leap⟩ : DT).valid)
    (hm : Int × Int) :
    ∃ r, fromDayHour leap month day hm = .ok r ∧ r.valid ∧ r.leap = leap ∧
      ((r.hour * 60 + r.minute : Nat) : Int) = minutesOf hm % 1440 ∧
      ((r.doy : Int) - 1) =
        (((⟨month, day, 0, 0, leap⟩ : DT).doy : Int) - 1 + minutesOf hm / 1440) % (daysInYear leap : Nat) := by
  have hmake : DT.make month day 0 0 leap = .ok ⟨month, day, 0, 0, leap⟩ := by
    unfold DT.make normHM
    simp only [Nat.zero_div, Nat.add_zero, Nat.zero_mod]
    rw [if_pos hv]
  have hlt := C08_moy_lt ⟨month, day, 0, 0, leap⟩ hv
  have hdoy : 1 ≤ (⟨month, day, 0, 0, leap⟩ : DT).doy := by
    unfold DT.doy; have := hv.2.2.1; simp only [] at this ⊢; omega
  generalize hD : (⟨month, day, 0, 0, leap⟩ : DT).doy = D at hdoy hlt ⊢
  have hmoy : (⟨month, day, 0, 0, leap⟩ : DT).moy = (D - 1) * 1440 := by
    unfold DT.moy DT.intHoy; rw [hD]; simp only []; omega
  unfold fromDayHour
  rw [hmake]
  simp only []
  rw [hmoy] at hlt ⊢
  generalize minutesOf hm = t
  have hN : (0 : Int) < (minutesInYear leap : Nat) := by
    unfold minutesInYear daysInYear; cases leap <;> simp
  unfold Py.mod
  rw [Int.fmod_eq_emod_of_nonneg _ (by omega)]
  set M : Int := (((D - 1) * 1440 : Nat) + t) % (minutesInYear leap : Nat) with hM
  have hM0 : 0 ≤ M := Int.emod_nonneg _ (by omega)
  have hM1 : M < (minutesInYear leap : Nat) := Int.emod_lt_of_pos _ hN
  have hcast : M = ((M.toNat : Nat) : Int) := (Int.toNat_of_nonneg hM0).symm
  obtain ⟨d, hd, hval, hmo, hmin, hhour, hdoy', hleap⟩ := C08_fromMoy_moy leap M.toNat (by omega)
  rw [hcast]
  refine ⟨d, hd, hval, hleap, ?_, ?_⟩
  · rw [hmin, hhour]
    unfold minutesInYear daysInYear at hM hlt
    cases leap <;> simp at hM hlt <;> omega
  · rw [hdoy']
    simp only [minutesInYear, daysInYear] at hM hlt ⊢
    cases leap <;> simp at hM hlt ⊢ <;> omega

section Generic2

variable {α : Type} [Add α] [Sub α] [Mul α] [Div α] [Neg α] [OfScientific α] [LT α] [LE α]
  [DecidableLT α] [DecidableLE α] [Transc α]

theorem riseSetDTs_polar (leap : Bool) (month day : Nat) (noon : Int × Int) (r : RiseSet)
    (h : riseSetDTs leap month day none noon none = .ok r) :
    r.sunrise = none ∧ r.sunset = none ∧ dtOfHM leap month day noon = .ok r.noon := by
  unfold riseSetDTs at h
  simp only [] at h
  split at h
  · cases h
  · next nd hnd => cases h; exact ⟨rfl, rfl, hnd⟩

theorem riseSetDTs_rise (leap : Bool) (month day : Nat) (sr noon ss : Int × Int) (r : RiseSet)
    (h : riseSetDTs leap month day (some sr) noon (some ss) = .ok r) :
    ∃ a b, r.sunrise = some a ∧ r.sunset = some b ∧ fromDayHour leap month day sr = .ok a ∧
      fromDayHour leap month day ss = .ok b ∧ dtOfHM leap month day noon = .ok r.noon := by
  unfold riseSetDTs at h
  simp only [] at h
  split at h
  · cases h
  · next rd hrd =>
    split at h
    · cases h
    · next nd hnd =>
      split at h
      · cases h
      · next sd hsd => cases h; exact ⟨rd, sd, rfl, rfl, hrd, hsd, hnd⟩

/-- The float stage reports no sunrise / no sunset exactly when the hour angle does not exist. -/
theorem riseSetHours_none (noonF : α) (ha : Option α) (dst : Bool) :
    ((riseSetHours noonF ha dst).1 = none ↔ ha = none) ∧ ((riseSetHours noonF ha dst).2.2 = none ↔ ha = none) := by
  unfold riseSetHours
  cases ha <;> simp

/-- Polar days and nights at the level of `calculate_sunrise_sunset_from_datetime`: when the hour
    angle does not exist (`C11_polar_iff`, `riseSetHours_none`) only noon is reported – sunrise and
    sunset are both `None`; and in every result sunrise is `None` exactly when sunset is. -/
theorem C11_polar (ofN : Nat → α) (toRat : α → Option Rat) (ofI : Int → α) (c : Sun.Cfg α)
    (p : Option AP) (d : DT) (dep : α) (solar : Bool) (r : RiseSet)
    (h : riseSet ofN toRat ofI c p d dep solar = .ok r) :
    ((riseSetFloat ofN c p d dep solar).1 = none → r.sunrise = none ∧ r.sunset = none) ∧
    (r.sunrise = none ↔ r.sunset = none) := by
  unfold riseSet at h
  simp only [] at h
  split at h
  · cases h
  · next noon hn =>
    split at h
    · next rf sf hr hs =>
      split at h
      · next rh sh _ _ =>
        obtain ⟨a, b, ha, hb, _⟩ := riseSetDTs_rise _ _ _ _ _ _ _ h
        refine ⟨fun h0 => ?_, ?_⟩
        · rw [hr] at h0; cases h0
        · rw [ha, hb]; simp
      · cases h
    · obtain ⟨h1, h2, _⟩ := riseSetDTs_polar _ _ _ _ _ h
      exact ⟨fun _ => ⟨h1, h2⟩, by rw [h1, h2]⟩

/-! ### Derived suns: analemmas and day arcs -/

/-- Every sun of `analemma_suns` is `calculate_sun_from_date_time` (with the daylight-saving period
    of the Sunpath) of `DateTime(mon, day, time.hour, time.minute)` for a month `mon` between
    `start_month` and `end_month` and a day listed for that month (`C11_arcs_days_*`); with
    `daytime_only` it is moreover a daytime sun.  Nothing else is in the list. -/
theorem C11_arcs_analemma (ofN : Nat → α) (c : Sun.Cfg α) (p : Option AP) (hour minute : Nat)
    (daytimeOnly isSolar : Bool) (startMonth endMonth : Nat) (steps : Int)
    (l : List (Sun.SunOut α × Bool))
    (h : analemmaSuns ofN c p hour minute daytimeOnly isSolar startMonth endMonth steps = .ok l) :
    ∀ s ∈ l, ∃ mon dd ds, startMonth ≤ mon ∧ mon ≤ endMonth ∧ monthDays mon steps = .ok ds ∧ dd ∈ ds ∧
      sunAt ofN c p isSolar false mon dd hour minute = .ok s ∧
      (daytimeOnly = true → s.1.duringDay = true) := by
  unfold analemmaSuns at h
  simp only [] at h
  split at h
  · cases h
  · next ll hll =>
    intro s hs
    have hs' : s ∈ ll.flatten ∧ (daytimeOnly = true → s.1.duringDay = true) := by
      cases h
      cases daytimeOnly
      · simpa using hs
      · simp only [if_true, List.mem_filter] at hs
        exact ⟨hs.1, fun _ => hs.2⟩
    obtain ⟨lm, hlm, hsl⟩ := List.mem_flatten.mp hs'.1
    obtain ⟨mon, hmon, hf⟩ := mem_mapE _ _ _ hll lm hlm
    split at hf
    · cases hf
    · next ds hds =>
      obtain ⟨dd, hdd, hsun⟩ := mem_mapE _ _ _ hf s hsl
      rw [List.mem_range'_1] at hmon
      exact ⟨mon, dd, ds, hmon.1, by omega, hds, hdd, hsun, hs'.2⟩

/-- `hourly_analemma_suns` is 24 lists, each the `analemma_suns` of a whole hour 0..23. -/
theorem C11_arcs_hourly (ofN : Nat → α) (c : Sun.Cfg α) (p : Option AP)
    (daytimeOnly isSolar : Bool) (startMonth endMonth : Nat) (steps : Int)
    (ll : List (List (Sun.SunOut α × Bool)))
    (h : hourlyAnalemmaSuns ofN c p daytimeOnly isSolar startMonth endMonth steps = .ok ll) :
    ll.length = 24 ∧ ∀ l ∈ ll, ∃ hr, hr < 24 ∧
      analemmaSuns ofN c p hr 0 daytimeOnly isSolar startMonth endMonth steps = .ok l := by
  unfold hourlyAnalemmaSuns at h
  refine ⟨by rw [length_mapE _ _ _ h]; simp, fun l hl => ?_⟩
  obtain ⟨hr, hhr, hf⟩ := mem_mapE _ _ _ h l hl
  exact ⟨hr, List.mem_range.mp hhr, hf⟩

/-- The suns a day arc is drawn through: the middle one is the sun of the reported noon; for a day
    with sunrise and sunset the ends are the suns of the reported sunrise and sunset date-times
    (whatever calendar day they fall on); for a day without, the arc is a full circle through the
    suns of 6:00 and 18:00 of the day. -/
theorem C11_arcs_day_arc (ofN : Nat → α) (toRat : α → Option Rat) (ofI : Int → α) (c : Sun.Cfg α)
    (p : Option AP) (month day : Nat) (dep : α) (daytimeOnly : Bool) (a : ArcSuns α)
    (h : dayArcSuns ofN toRat ofI c p month day dep daytimeOnly = .ok (some a)) :
    ∃ rs, riseSetMD ofN toRat ofI c p month day dep false = .ok rs ∧
      (∃ f, sunOfDT ofN c p rs.noon false = .ok (a.mid, f)) ∧
      (a.polar = false → ∃ r s f g, rs.sunrise = some r ∧ rs.sunset = some s ∧
          sunOfDT ofN c p r false = .ok (a.first, f) ∧ sunOfDT ofN c p s false = .ok (a.last, g)) ∧
      (a.polar = true → (rs.sunrise = none ∨ rs.sunset = none) ∧
          ∃ f g, sunAt ofN c p false c.leap month day 6 0 = .ok (a.first, f) ∧
                 sunAt ofN c p false c.leap month day 18 0 = .ok (a.last, g)) := by
  unfold dayArcSuns at h
  simp only [] at h
  split at h
  · cases h
  · next rs hrs =>
    refine ⟨rs, hrs, ?_⟩
    split at h
    · next r s hr hs =>
      split at h <;> try cases h
      next x y z hx hy hz =>
      split at hx <;> try cases hx
      split at hy <;> try cases hy
      split at hz <;> try cases hz
      next sx hsx _ sy hsy _ sz hsz =>
      refine ⟨⟨sy.2, by rw [hsy]⟩, fun _ => ⟨r, s, sx.2, sz.2, hr, hs, by rw [hsx], by rw [hsz]⟩, fun hp => by simp at hp⟩
    · next hnone =>
      split at h
      · cases h
      · next noon hnoon =>
        split at hnoon <;> try cases hnoon
        next sn hsn =>
        split at h
        · cases h
        · split at h <;> try cases h
          next x y hx hy =>
          refine ⟨⟨sn.2, by rw [hsn]⟩, fun hp => by simp at hp, fun _ => ⟨?_, x.2, y.2, by rw [hx], by rw [hy]⟩⟩
          cases hr : rs.sunrise
          · exact Or.inl rfl
          · cases hs : rs.sunset
            · exact Or.inr rfl
            · exact absurd hs (by simpa using hnone _ _ hr)

end Generic2

/-- One step per month: the 21st. -/
theorem C11_arcs_days_one_step (mon : Nat) : monthDays mon 1 = .ok [21] := by unfold monthDays; simp

/-- All 12 months × all step counts 2..31 (finite table, by evaluation – complete for the domain on
    which the function does not fail for want of a positive step): the days are
    `1, 1 + s, 1 + 2s, … ≤ days of the month` with `s = ⌊days / steps⌋` (`int(dpm / steps)`, not
    `round`), and `ValueError` (zero range step) when `steps` exceeds the days of the month. -/
theorem C11_arcs_days_table : ∀ mon ∈ List.range' 1 12, ∀ k ∈ List.range' 2 30,
    monthDays mon (k : Nat) =
      (let dpm := Cal.monthLen false mon
       if dpm / k = 0 then .error .value else .ok (dayRange dpm (dpm / k))) := by
  decide +kernel

/-- Membership in that list: day `d` is used iff `1 ≤ d ≤ dpm` and `d − 1` is a multiple of `s`. -/
theorem C11_arcs_day_range (dpm s d : Nat) :
    d ∈ dayRange dpm s ↔ 1 ≤ d ∧ d ≤ dpm ∧ (d - 1) % s = 0 := mem_dayRange dpm s d

/-! ### Non-vacuity -/

-- a northern and a year-wrapping period are well formed; 1 Jan 00:00 is inside the wrapping one
example : (⟨3, 8, 2, 11, 1, 2, 1, false⟩ : AP).WF := by decide
example : (⟨10, 1, 2, 4, 1, 3, 1, true⟩ : AP).WF := by decide
example : isDst (some ⟨10, 1, 2, 4, 1, 3, 1, false⟩) 0 = true := by decide
example : inCyclic 525600 (⟨10, 1, 2, 4, 1, 3, 1, false⟩ : AP).stMoy (⟨10, 1, 2, 4, 1, 3, 1, false⟩ : AP).endMoy 0 := by
  decide
example : ¬ inCyclic 525600 (⟨10, 1, 2, 4, 1, 3, 1, false⟩ : AP).stMoy (⟨10, 1, 2, 4, 1, 3, 1, false⟩ : AP).endMoy
    (⟨6, 21, 12, 0, false⟩ : DT).moy := by decide
-- the placement theorem applies to 1 Jan, 31 Dec and 1 Mar of a leap year
example : (⟨1, 1, 0, 0, false⟩ : DT).valid ∧ (⟨12, 31, 0, 0, true⟩ : DT).valid ∧ (⟨3, 1, 0, 0, true⟩ : DT).valid := by
  decide
example : fromDayHour false 1 1 (0, -30) = .ok ⟨12, 31, 23, 30, false⟩ := by decide +kernel
example : fromDayHour true 12 31 (24, 30) = .ok ⟨1, 1, 0, 30, true⟩ := by decide +kernel
example : fromDayHour false 6 21 (0, 0) = .ok ⟨6, 21, 0, 0, false⟩ := by decide +kernel
-- the hour angle exists at the equator on an equinox-like day (argument 0) and not for argument 2
example : sunriseHourAngle (0 : ℝ) 0 0 = some (Sun.deg (Transc.acos (sunriseArg (0 : ℝ) 0 0))) := by
  unfold sunriseHourAngle
  have : sunriseArg (0 : ℝ) 0 0 = 0 := by
    unfold sunriseArg
    have h2 : (2.0 : ℝ) = 2 := by norm_num
    simp [Sun.pi_eq, h2]
  rw [this, if_neg (by norm_num)]
example : monthDays 2 2 = .ok [1, 15] := by decide +kernel
example : monthDays 1 4 = .ok [1, 8, 15, 22, 29] := by decide +kernel

end SunTimes

/-! ### Cooperating sites: the sunrise / noon / sunset consumer of the daylight-saving test -/

namespace SunTimes

section Consumers

variable {α : Type} [Add α] [Sub α] [Mul α] [Div α] [Neg α] [OfScientific α] [LT α] [LE α]
  [DecidableLT α] [DecidableLE α] [Transc α]

omit [Neg α] [LT α] [LE α] [DecidableLT α] [DecidableLE α] [Transc α] in
/-- Inside the daylight-saving window the three reported float hours are EXACTLY the standard-time
    hours plus one (sunrise and sunset when they exist, noon always); outside they are the
    standard-time hours.  Together with `C11_dst_shift_inside` (the sun of a clock time is computed
    for the hour minus one) the two consumers of the window test shift in opposite directions by the
    same hour, so the sun of the reported clock time is the sun of the unshifted instant. -/
theorem C11_riseset_dst_shift (noonF : α) (ha : Option α) :
    riseSetHours noonF ha true =
      ((riseSetHours noonF ha false).1.map (· + 1.0), (riseSetHours noonF ha false).2.1 + 1.0,
       (riseSetHours noonF ha false).2.2.map (· + 1.0)) := by
  cases ha <;> simp [riseSetHours]

/-- Both consumers ask the SAME window test of the SAME (leap-adjusted) minute of the year: the flag
    of the sun at the input date-time and the shift of that day's sunrise / noon / sunset agree. -/
theorem C11_consumers_same_test (ofN : Nat → α) (c : Sun.Cfg α) (p : Option AP) (d : DT)
    (solar : Bool) (dep : α) (s : Sun.SunOut α × Bool) (hs : sunOfDT ofN c p d solar = .ok s) :
    riseSetFloat ofN c p d dep solar =
      riseSetHours
        (noonFrac (Sun.deg (Sun.rad c.lon))
          (Sun.solarGeometry (Sun.julianDay
            (ofN (Sun.daysFrom010119 (if (d.leap || c.leap) then 2016 else 2017) d.month d.day))
            (ofN (Sun.dayFracHundredths (d.minute + d.hour * 60)) / 100.0)
            (Sun.timeZoneOf (Sun.rad c.lon) c.tz))).2
          (Sun.timeZoneOf (Sun.rad c.lon) c.tz) solar)
        (sunriseHourAngle (Sun.latitudeRad c.lat)
          (Sun.solarGeometry (Sun.julianDay
            (ofN (Sun.daysFrom010119 (if (d.leap || c.leap) then 2016 else 2017) d.month d.day))
            (ofN (Sun.dayFracHundredths (d.minute + d.hour * 60)) / 100.0)
            (Sun.timeZoneOf (Sun.rad c.lon) c.tz))).1 (Sun.rad dep))
        s.2 := by
  have hflag : s.2 = isDst p ({ d with leap := d.leap || c.leap } : DT).moy := by
    unfold sunOfDT at hs
    simp only at hs
    split at hs
    · cases hs; rfl
    · cases hs
  rw [hflag]
  rfl

end Consumers

end SunTimes

/-! ### The Sunpath object: histories (round 3) -/

namespace SunpathObj

open SunTimes

section Machine

variable {α : Type} [Add α] [Sub α] [Mul α] [Div α] [Neg α] [OfScientific α] [LT α] [LE α]
  [DecidableLT α] [DecidableLE α] [Transc α]
variable (ofN : Nat → α) (toRat : α → Option Rat) (ofI : Int → α)

/-- A read (`is_daylight_saving_hour`, `calculate_sun*`, `calculate_sunrise_sunset*`, the analemma
    and day-arc methods, answered or refused) leaves the object exactly as it was. -/
theorem C11_read_pure (o : Obj α) (q : Query α) : (step ofN toRat ofI o (.rd q)).1 = o := rfl

/-- Any sequence of reads, in any order and with any repetition: the object is unchanged and every
    answer is the answer the untouched object gives to that question alone.  (In particular the
    answers do not depend on the order of the questions nor on what was asked before.) -/
theorem C11_reads_only (qs : List (Query α)) : ∀ (o : Obj α),
    run ofN toRat ofI o (qs.map .rd) = (o, qs.map (observe ofN toRat ofI o)) := by
  induction qs with
  | nil => intro o; rfl
  | cons q qs ih => intro o; simp only [List.map_cons, run, step, ih]

/-- Two questions asked in either order get the same two answers. -/
theorem C11_reads_commute (o : Obj α) (q1 q2 : Query α) :
    (run ofN toRat ofI o [.rd q1, .rd q2]).2 = [observe ofN toRat ofI o q1, observe ofN toRat ofI o q2] ∧
    (run ofN toRat ofI o [.rd q2, .rd q1]).2 = [observe ofN toRat ofI o q2, observe ofN toRat ofI o q1] :=
  ⟨rfl, rfl⟩

/-- A refused operation – a setter given a non-number, an out-of-range value or something that is
    not an AnalysisPeriod; a call whose arguments cannot be built; a read that raises (a date that
    does not exist, a bad step count, …) – returns the state it was given. -/
theorem C11_refused_preserves (o : Obj α) (op : Op α)
    (h : (step ofN toRat ofI o op).2.isErr = true) : (step ofN toRat ofI o op).1 = o := by
  cases op with
  | setLat v =>
    cases v with
    | error e => rfl
    | ok v =>
      unfold step at h ⊢
      by_cases hv : latOk v = true
      · simp [hv, Out.isErr] at h
      · simp [hv]
  | setLon v =>
    cases v with
    | error e => rfl
    | ok v =>
      unfold step at h ⊢
      by_cases hv : lonOk v = true
      · simp [hv, Out.isErr] at h
      · simp [hv]
  | setNorth v =>
    cases v with
    | error e => rfl
    | ok v =>
      unfold step at h ⊢
      by_cases hv : northOk v = true
      · simp [hv, Out.isErr] at h
      · simp [hv]
  | setTz v =>
    cases v with
    | error e => rfl
    | ok v =>
      unfold step at h ⊢
      by_cases hv : tzOk (Sun.timeZoneOf (Sun.rad o.lon) v) = true
      · simp [hv, Out.isErr] at h
      · simp [hv]
  | setLeap b => simp [step, Out.isErr] at h
  | setPeriod p =>
    cases p with
    | error e => rfl
    | ok p => simp [step, Out.isErr] at h
  | argErr e => rfl
  | rd q => rfl

/-- Hence every later answer is the one the object gave (would have given) before the refused
    operation. -/
theorem C11_refused_preserves_answers (o : Obj α) (op : Op α) (q : Query α)
    (h : (step ofN toRat ofI o op).2.isErr = true) :
    observe ofN toRat ofI (step ofN toRat ofI o op).1 q = observe ofN toRat ofI o q := by
  rw [C11_refused_preserves ofN toRat ofI o op h]

/-- A `Sunpath(...)` that could be constructed holds attributes that pass their setters' asserts,
    and no history – setters accepted or refused, reads, refused reads, in any order – leads out of
    that. -/
theorem C11_history_valid (lat lon : α) (tz : Option α) (north : α) (period : Option AP) (o : Obj α)
    (h : construct lat lon tz north period = .ok o) (ops : List (Op α)) :
    (run ofN toRat ofI o ops).1.Valid :=
  run_valid ofN toRat ofI ops o (construct_valid lat lon tz north period o h)

/-- HISTORY REFINES FRESH.  Start from any object whose attributes pass their asserts (every
    constructed Sunpath, `C11_history_valid`), apply ANY history, then ask any question: a fresh
    `Sunpath` built from the final public attributes (`Sunpath(lat, lon, tz, north, period)` then
    `is_leap_year = leap`) exists and gives exactly the answer the used object gives.  The model has
    no slot besides the six attributes; that the real object has none that matters is the `hist`
    correspondence. -/
theorem C11_history_refines_fresh (o0 : Obj α) (h0 : o0.Valid) (ops : List (Op α)) (q : Query α) :
    ∃ f, fresh ofN toRat ofI (run ofN toRat ofI o0 ops).1 = .ok f ∧
      (run ofN toRat ofI o0 (ops ++ [.rd q])).2.getLast? = some (observe ofN toRat ofI f q) := by
  refine ⟨(run ofN toRat ofI o0 ops).1,
    fresh_of_valid ofN toRat ofI _ (run_valid ofN toRat ofI ops o0 h0), ?_⟩
  rw [run_append]
  simp [run, step]

/-- The answers do not depend on HOW the public state was reached: two histories that end in the
    same six attributes answer every question alike. -/
theorem C11_history_state_only (o1 o2 : Obj α) (ops1 ops2 : List (Op α)) (q : Query α)
    (h : (run ofN toRat ofI o1 ops1).1 = (run ofN toRat ofI o2 ops2).1) :
    (run ofN toRat ofI o1 (ops1 ++ [.rd q])).2.getLast? =
      (run ofN toRat ofI o2 (ops2 ++ [.rd q])).2.getLast? := by
  rw [run_append, run_append]
  simp [run, step, h]

/-- Switching the year kind (or any other accepted setter) touches only its own attribute: after
    `is_leap_year = b` the daylight-saving period, location and zone are what they were, so the
    window test runs on the same period in the new calendar. -/
theorem C11_set_leap_only (o : Obj α) (b : Bool) :
    (step ofN toRat ofI o (.setLeap b)).1 = { o with leap := b } := rfl

end Machine

/-- Over the reals the radian asserts of the setters are the documented ranges in degrees / hours:
    latitude −90..90, longitude −180..180, north angle −360..360, time zone −12..14. -/
theorem C11_setter_ranges (v : ℝ) :
    (latOk v = true ↔ -90 ≤ v ∧ v ≤ 90) ∧ (lonOk v = true ↔ -180 ≤ v ∧ v ≤ 180) ∧
    (northOk v = true ↔ -360 ≤ v ∧ v ≤ 360) ∧ (tzOk v = true ↔ -12 ≤ v ∧ v ≤ 14) := by
  have hp := Real.pi_pos
  have e2 : (2.0 : ℝ) = 2 := by norm_num
  have e180 : (180.0 : ℝ) = 180 := by norm_num
  have e12 : (12.0 : ℝ) = 12 := by norm_num
  have e14 : (14.0 : ℝ) = 14 := by norm_num
  refine ⟨?_, ?_, ?_, ?_⟩
  · simp only [latOk, Sun.rad, Sun.pi_eq, decide_eq_true_eq, e2, e180]
    constructor
    · rintro ⟨a, b⟩; constructor <;> nlinarith
    · rintro ⟨a, b⟩; constructor <;> nlinarith
  · simp only [lonOk, Sun.rad, Sun.pi_eq, decide_eq_true_eq, e180]
    constructor
    · rintro ⟨a, b⟩; constructor <;> nlinarith
    · rintro ⟨a, b⟩; constructor <;> nlinarith
  · simp only [northOk, Sun.rad, Sun.pi_eq, decide_eq_true_eq, e2, e180]
    constructor
    · rintro ⟨a, b⟩; constructor <;> nlinarith
    · rintro ⟨a, b⟩; constructor <;> nlinarith
  · simp only [tzOk, decide_eq_true_eq, e12, e14]

-- non-vacuity: New York with the tested period is a constructible (hence valid) object over ℝ, a
-- refused setter exists, and a history with a refused step in the middle is covered
example : ∃ o : Obj ℝ, construct (40.72 : ℝ) (-74.02) (some (-5)) 0 (some ⟨3, 8, 2, 11, 1, 2, 1, false⟩) = .ok o := by
  have h := C11_setter_ranges
  have a1 : latOk (40.72 : ℝ) = true := ((h _).1).2 (by norm_num)
  have a2 : lonOk (-74.02 : ℝ) = true := ((h _).2.1).2 (by norm_num)
  have a3 : tzOk (-5 : ℝ) = true := ((h _).2.2.2).2 (by norm_num)
  have a4 : northOk (0 : ℝ) = true := ((h _).2.2.1).2 (by norm_num)
  refine ⟨⟨40.72, -74.02, -5, 0, false, some ⟨3, 8, 2, 11, 1, 2, 1, false⟩⟩, ?_⟩
  simp [construct, a1, a2, a3, a4, Sun.timeZoneOf]
example (o : Obj ℝ) : (step (fun n => (n : ℝ)) (fun _ => none) (fun i => (i : ℝ)) o (.setLat (.ok 100))).2.isErr = true := by
  have : latOk (100 : ℝ) = false := by
    have := ((C11_setter_ranges (100 : ℝ)).1)
    cases hh : latOk (100 : ℝ) with
    | false => rfl
    | true => exact absurd (this.1 hh).2 (by norm_num)
  simp [step, this, Out.isErr]
example (o : Obj ℝ) : (step (fun n => (n : ℝ)) (fun _ => none) (fun i => (i : ℝ)) o (.setPeriod (.error .assert))).2.isErr = true := rfl

end SunpathObj


/-! ### Round 4: the shape of the period and the way the Sunpath was made do not matter

The real code is fed the same stored period as numbers, strings, text (`from_string`, `repr` round
trips, padded / upper-case / full-width digits), dictionaries, start/end `DateTime`s, copies, with
falsy defaults, with a clipped end day and with other time steps; the model is fed the six stored
numbers.  The statements below say why that is the specification. -/

namespace SunTimes

open Cal C11Forms

/-- `is_reversed` – the switch between the plain and the year-wrapping window test – is the
    lexicographic order of the NUMBERS (month, day, hour) of the two ends: a period wraps the year end
    exactly when its end triple comes before its start triple.  (For every well-formed period; the
    stored seeded change C11-11 compared the constructor arguments as given, which is this order for
    numbers and a different one for text, see the counterexample below.) -/
theorem C11_dst_reversed_iff_lex (ap : AP) (hwf : ap.WF) :
    ap.isReversed = true ↔
      lexLt (ap.end_month, ap.end_day, ap.end_hour) (ap.st_month, ap.st_day, ap.st_hour) := by
  unfold AP.isReversed
  simp only [decide_eq_true_eq]
  exact intHoy_lt_iff ap.endTime ap.stTime hwf.2.1 hwf.1 rfl

/-- Text does not order like numbers: `"10" < "4"` while `4 < 10`; so an October-to-April period
    whose months are compared as text is taken for a non-wrapping one.  The order of the numbers is
    the one that decides (`C11_dst_reversed_iff_lex`). -/
theorem C11_dst_text_order_counterexample :
    ("10" < "4") ∧ ¬ ((10 : Nat) < 4) ∧
      (⟨10, 4, 2, 4, 5, 3, 1, false⟩ : AP).isReversed = true ∧
      isDst (some ⟨10, 4, 2, 4, 5, 3, 1, false⟩) 0 = true := by
  refine ⟨by decide, by decide, by decide, by decide⟩

/-- The time step of the period plays no role for daylight saving. -/
theorem C11_dst_timestep_irrelevant (ap : AP) (t : Nat) (m : Nat) :
    isDst (some { ap with timestep := t }) m = isDst (some ap) m := rfl

/-- A well-formed period read back from its copy (`duplicate`), from its dictionary
    (`from_dict(to_dict())`), from its start and end `DateTime`s or from the tokens of its text form
    (`from_string(repr())`, token level as in C04) is the same period, so the daylight-saving test of
    a Sunpath holding any of these forms is the test on the six stored numbers. -/
theorem C11_dst_period_forms_agree (ap : AP) (hwf : ap.WF) (m : Nat) :
    isDst ap.duplicate.toOption m = isDst (some ap) m ∧
    isDst (AP.fromDict ap.toDict).toOption m = isDst (some ap) m ∧
    isDst (AP.viaStartEnd ap).toOption m = isDst (some ap) m ∧
    isDst (AP.fromTokens (ap.reprTokens.map fun (n : Nat) => some (n : Int)) ap.leap).toOption m
      = isDst (some ap) m := by
  obtain ⟨h1, h2, h3⟩ := AP.C04_copies_equal ap hwf
  rw [h1, h2, h3, AP.C04_repr_roundtrip_partial ap hwf]
  exact ⟨rfl, rfl, rfl, rfl⟩

/-- Falsy constructor arguments (`None`, `0`) stand for the defaults: the period made from nothing
    is 1 Jan 0h – 31 Dec 23h, which contains every minute before the last hour of the year. -/
theorem C11_dst_falsy_defaults (leap : Bool) :
    AP.mkOpt? none none none none none none none leap = .ok (AP.annual leap 1) ∧
    AP.mkOpt? (some 0) (some 0) (some 0) (some 0) (some 0) none (some 0) leap = .ok (AP.annual leap 1) := by
  cases leap <;> decide

end SunTimes

namespace SunpathObj

open SunTimes

section Made

variable {α : Type} [Add α] [Sub α] [Mul α] [Div α] [Neg α] [OfScientific α] [LT α] [LE α]
  [DecidableLT α] [DecidableLE α] [Transc α]
variable (ofN : Nat → α) (toRat : α → Option Rat) (ofI : Int → α)

/-- MADE BY SETTERS = MADE BY THE CONSTRUCTOR.  Take ANY Sunpath (a default one, or one used for
    another place, year kind and period before) and assign period, north angle, longitude, time zone,
    latitude and year kind (longitude before the zone: `None` is resolved with the longitude of that
    moment).  When the constructor accepts the same values, every assignment is accepted and the
    object is exactly the constructed one with `is_leap_year` set: nothing of the earlier life of the
    object is left. -/
theorem C11_made_by_setters (o0 f : Obj α) (lat lon north : α) (tz : Option α) (period : Option AP)
    (leap : Bool) (h : construct lat lon tz north period = .ok f) :
    (run ofN toRat ofI o0 [.setPeriod (.ok period), .setNorth (.ok north), .setLon (.ok lon),
      .setTz (.ok tz), .setLat (.ok lat), .setLeap leap]).1 = { f with leap := leap } := by
  unfold construct at h
  split at h
  · cases h
  · split at h
    · cases h
    · simp only at h
      split at h
      · cases h
      · split at h
        · cases h
        · rename_i h1 h2 h3 h4
          cases h
          simp only [Bool.not_eq_false] at h1 h2 h3 h4
          simp [run, step, h1, h2, h3, h4]

end Made

end SunpathObj

/-! ### Round 6: Sunpath, period and date-time of different year kinds

The Sunpath, its daylight-saving period and a DateTime argument each carry their own calendar
(`is_leap_year`).  The code compares their minutes of the year as they are, so the answer is a
function of three year-agnostic ordinals; an implementation that compares the objects themselves
(which carry the stand-in year 2016 / 2017) is a different function as soon as two calendars meet. -/

namespace SunTimes

open Cal

/-- Table fact: the leap calendar has one more day before every month from March on. -/
theorem daysBefore_leap_shift : ∀ m ∈ List.range 13,
    daysBefore true m = daysBefore false m + (if 3 ≤ m then 1 else 0) := by decide

/-- THE TWO CALENDARS NUMBER THE MINUTES AT MOST ONE DAY APART.  The same (month, day, hour, minute)
    read in the leap calendar is the same minute of the year in January and February and exactly
    1440 minutes later from March on. -/
theorem C11_moy_other_calendar (d : DT) (h12 : d.month ≤ 12) (hd : 1 ≤ d.day) :
    ({ d with leap := true } : DT).moy =
      ({ d with leap := false } : DT).moy + (if 3 ≤ d.month then 1440 else 0) := by
  have h := daysBefore_leap_shift d.month (List.mem_range.mpr (by omega))
  unfold DT.moy DT.intHoy DT.doy
  simp only
  rw [h]
  split <;> omega

/-- THE ANSWER CHANGES ONLY ACROSS AN END OF THE PERIOD: two minute numbers with no end of the
    period in between (`m < end ≤ m'`) get the same daylight-saving answer (northern and wrapping). -/
theorem C11_dst_changes_only_at_ends (ap : AP) (m m' : Nat) (hmm : m ≤ m')
    (hst : ¬ (m < ap.stMoy ∧ ap.stMoy ≤ m')) (hen : ¬ (m < ap.endMoy ∧ ap.endMoy ≤ m')) :
    isDst (some ap) m = isDst (some ap) m' := by
  unfold isDst
  simp only
  split
  · rw [decide_eq_decide]; omega
  · rw [decide_eq_decide]; omega

/-- YEAR-KIND MISMATCH.  A date-time handed over in the leap calendar gets the daylight-saving answer
    of the same date in the normal calendar (and the reverse) unless an end of the period lies within
    the one day by which the two calendars number that date apart.  (Whatever the calendar of the
    period: only its two minute numbers enter.)  This is the clause the oracle op `dst_mixed` judges. -/
theorem C11_dst_other_calendar (ap : AP) (d : DT) (h12 : d.month ≤ 12) (hd : 1 ≤ d.day)
    (hst : ¬ (({ d with leap := false } : DT).moy < ap.stMoy ∧
              ap.stMoy ≤ ({ d with leap := false } : DT).moy + 1440))
    (hen : ¬ (({ d with leap := false } : DT).moy < ap.endMoy ∧
              ap.endMoy ≤ ({ d with leap := false } : DT).moy + 1440)) :
    isDst (some ap) ({ d with leap := true } : DT).moy =
      isDst (some ap) ({ d with leap := false } : DT).moy := by
  rw [C11_moy_other_calendar d h12 hd]
  symm
  apply C11_dst_changes_only_at_ends
  · omega
  · split <;> omega
  · split <;> omega

/-- The one-day band is real (so the oracle does not judge it): the normal-year period that starts on
    8 March 2h already flags 7 March 12h of a leap-year date-time, and the leap-year date 8 March 12h
    is flagged although one end lies in between the two numberings. -/
theorem C11_dst_other_calendar_band_counterexample :
    isDst (some ⟨3, 8, 2, 11, 1, 2, 1, false⟩) (⟨3, 7, 12, 0, true⟩ : DT).moy = true ∧
    isDst (some ⟨3, 8, 2, 11, 1, 2, 1, false⟩) (⟨3, 7, 12, 0, false⟩ : DT).moy = false := by decide

/-- YEAR-AGNOSTIC: the test sees a date-time only through its minute of the year – two date-times of
    different calendars (different stand-in years) with the same minute number get the same answer,
    for every period.  (An implementation ordering the date-time objects themselves violates this:
    a 2016 object is before every 2017 object.) -/
theorem C11_dst_year_agnostic (p : Option AP) (d d' : DT) (h : d.moy = d'.moy) :
    isDst p d.moy = isDst p d'.moy := by rw [h]

end SunTimes

-- non-vacuity (round 6)
example : (⟨4, 15, 9, 0, true⟩ : DT).month ≤ 12 ∧ 1 ≤ (⟨4, 15, 9, 0, true⟩ : DT).day ∧
    SunTimes.isDst (some ⟨3, 8, 2, 11, 1, 2, 1, false⟩) (⟨4, 15, 9, 0, true⟩ : DT).moy = true ∧
    SunTimes.isDst (some ⟨3, 8, 2, 11, 1, 2, 1, false⟩) (⟨4, 15, 9, 0, false⟩ : DT).moy = true := by decide
example : (⟨1, 1, 0, 0, true⟩ : DT).moy = (⟨1, 1, 0, 0, false⟩ : DT).moy ∧
    (⟨3, 1, 0, 0, true⟩ : DT).moy = (⟨3, 1, 0, 0, false⟩ : DT).moy + 1440 := by decide

-- non-vacuity (round 4)
example : (⟨10, 4, 2, 4, 5, 3, 1, false⟩ : AP).WF ∧ (⟨3, 8, 2, 11, 1, 2, 1, true⟩ : AP).WF := by decide
example : C11Forms.lexLt (4, 5, 3) (10, 4, 2) ∧ ¬ C11Forms.lexLt (11, 1, 2) (3, 8, 2) := by decide
example : SunTimes.isDst (some ⟨3, 8, 2, 11, 1, 2, 1, false⟩) 0 = false := by decide
