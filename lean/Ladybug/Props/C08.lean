/-
  C08 — Date-time <-> hour/minute/day-of-year conversions are exact bijections.
  Property theorems only (helper lemmas live in Proofs/CalLemmas.lean).  No Mathlib.
  The model (Model/Cal.lean) is tied to ladybug/dt.py by Gen/DtTables (translator) and by the
  correspondence ops of Drv/C08.lean (harness/props/c08.py).
-/
import Ladybug.Proofs.CalLemmas
import Ladybug.Proofs.C08Hist
import Ladybug.Proofs.C08R4

namespace Cal

/-! ### The code's month tables are the calendar's -/

/-- `from_moy`'s tables are the cumulative month lengths times 1440, normal and leap year. -/
theorem C08_tables_minutes (leap : Bool) :
    minuteTable leap = (cumDays leap).map (· * 1440) := by
  cases leap <;> decide

/-- `from_doy`'s tables: cumulative days for the 12 months, and one past the year length last. -/
theorem C08_tables_days (leap : Bool) :
    (dayTable leap).take 12 = (cumDays leap).take 12 ∧
    (dayTable leap).getLast? = some (daysInYear leap + 1) := by
  cases leap <;> decide

theorem C08_tables_names :
    Gen.Dt.monthNames = ["Jan", "Feb", "Mar", "Apr", "May", "Jun", "Jul", "Aug", "Sep", "Oct", "Nov", "Dec"] := by
  decide

/-! ### from_moy / moy -/

/-- Every minute of the year builds a valid date-time that reads back the same minute, with the
    right minute, hour, day of year and leap flag. -/
theorem C08_fromMoy_moy (leap : Bool) (m : Nat) (h : m < minutesInYear leap) :
    ∃ d, fromMoy leap m = .ok d ∧ d.valid ∧ d.moy = m ∧ d.minute = m % 60 ∧
      d.hour = m / 60 % 24 ∧ d.doy = m / 1440 + 1 ∧ d.leap = leap := by
  have hq : m / 1440 < daysInYear leap := by
    unfold minutesInYear at h; omega
  have hf := dayFact_of_lt leap (m / 1440) hq
  unfold dayFact at hf
  have hscale : findMonth (minuteTable leap) m = findMonth (cumDays leap) (m / 1440) := by
    rw [C08_tables_minutes, findMonth_scale _ _ (by decide)]
  cases hm : findMonth (cumDays leap) (m / 1440) with
  | none => simp [hm] at hf
  | some mon =>
    simp only [hm, decide_eq_true_eq] at hf
    obtain ⟨h1, h12, hle, hlen, hdb⟩ := hf
    have htab : (minuteTable leap).getD (mon - 1) 0 = (cumDays leap).getD (mon - 1) 0 * 1440 := by
      rw [C08_tables_minutes]
      simp only [List.getD_eq_getElem?_getD, List.getElem?_map]
      cases (cumDays leap)[mon - 1]? <;> simp
    have hnorm : normHM (m / 60 % 24) (m % 60) = (m / 60 % 24, m % 60) := by
      unfold normHM
      have : m % 60 / 60 = 0 := by omega
      have h2 : m % 60 % 60 = m % 60 := by omega
      simp [this, h2]
    refine ⟨⟨mon, m / 1440 - (cumDays leap).getD (mon - 1) 0 + 1, m / 60 % 24, m % 60, leap⟩, ?_, ?_, ?_, rfl, rfl, ?_, rfl⟩
    · have : (0 : Int) ≤ (m : Int) := by omega
      simp only [fromMoy, this, if_true, Int.toNat_natCast, fromMoyNat, hscale, hm, htab, DT.make, hnorm]
      have hday : (m - (cumDays leap).getD (mon - 1) 0 * 1440) / 1440 + 1
          = m / 1440 - (cumDays leap).getD (mon - 1) 0 + 1 := by omega
      rw [hday]
      have hv : (⟨mon, m / 1440 - (cumDays leap).getD (mon - 1) 0 + 1, m / 60 % 24, m % 60, leap⟩ : DT).valid := by
        unfold DT.valid; simp only; omega
      exact if_pos hv
    · unfold DT.valid; simp only; omega
    · simp only [DT.moy, DT.intHoy, DT.doy, hdb]; omega
    · simp only [DT.doy, hdb]; omega

/-- A valid date-time's minute of the year lies inside the year. -/
theorem C08_moy_lt (d : DT) (hv : d.valid) : d.moy < minutesInYear d.leap := by
  obtain ⟨h1, h2, h3, h4, h5, h6⟩ := hv
  have := (dateFact_of_valid d.leap d.month d.day ⟨h1, h2, h3, h4⟩).2
  unfold DT.moy DT.intHoy DT.doy minutesInYear; omega

/-- Conversely every valid date-time is the one built from its own minute of the year
    (with `C08_fromMoy_moy`: `from_moy` and `moy` are mutually inverse bijections between the
    minutes of the year and the valid date-times). -/
theorem C08_moy_fromMoy (d : DT) (hv : d.valid) : fromMoy d.leap d.moy = .ok d := by
  obtain ⟨d', hd', hv', hmoy, hmin, hhour, hdoy, hleap⟩ := C08_fromMoy_moy d.leap d.moy (C08_moy_lt d hv)
  rw [hd']
  obtain ⟨h1, h2, h3, h4, h5, h6⟩ := hv
  obtain ⟨g1, g2, g3, g4, g5, g6⟩ := hv'
  have hmoyd : d.moy = ((daysBefore d.leap d.month + d.day - 1) * 24 + d.hour) * 60 + d.minute := rfl
  have e1 : d'.minute = d.minute := by rw [hmin, hmoyd]; omega
  have e2 : d'.hour = d.hour := by rw [hhour, hmoyd]; omega
  have e3 : daysBefore d.leap d'.month + d'.day = daysBefore d.leap d.month + d.day := by
    have : d'.doy = daysBefore d'.leap d'.month + d'.day := rfl
    rw [hleap] at this; rw [← this, hdoy, hmoyd]; omega
  rw [hleap] at g4
  obtain ⟨e4, e5⟩ := doy_inj d.leap d'.month d'.day d.month d.day ⟨g1, g2, g3, g4⟩ ⟨h1, h2, h3, h4⟩ e3
  cases d; cases d'; simp_all

/-- Minutes outside the year are rejected (ValueError), they never wrap into the year. -/
theorem C08_fromMoy_reject (leap : Bool) (m : Nat) (h : minutesInYear leap ≤ m) :
    fromMoy leap m = .error .value := by
  have hq : daysInYear leap ≤ m / 1440 := by unfold minutesInYear at h; omega
  have : (0 : Int) ≤ (m : Int) := by omega
  simp only [fromMoy, this, if_true, Int.toNat_natCast, fromMoyNat]
  rw [C08_tables_minutes, findMonth_scale _ _ (by decide), findMonth_none_of_ge leap _ hq]

/-- Date-times order exactly as their minutes of the year (same leap flag): `moy` is strictly
    monotone for the lexicographic order on (month, day, hour, minute), hence injective. -/
theorem C08_order (a b : DT) (ha : a.valid) (hb : b.valid) (hl : a.leap = b.leap) :
    a.moy < b.moy ↔
      (a.month < b.month ∨ (a.month = b.month ∧ (a.day < b.day ∨ (a.day = b.day ∧
        (a.hour < b.hour ∨ (a.hour = b.hour ∧ a.minute < b.minute)))))) := by
  obtain ⟨a1, a2, a3, a4, a5, a6⟩ := ha
  obtain ⟨b1, b2, b3, b4, b5, b6⟩ := hb
  -- months compare like their first days
  have hmono : ∀ m1 m2, 1 ≤ m1 → m1 < m2 → m2 ≤ 12 →
      daysBefore a.leap m1 + monthLen a.leap m1 ≤ daysBefore a.leap m2 := by
    intro m1 m2 h1 h2 h3
    have : ∀ m1 m2 : Fin 13, 1 ≤ m1.val → m1.val < m2.val →
        daysBefore a.leap m1 + monthLen a.leap m1 ≤ daysBefore a.leap m2 := by
      cases a.leap <;> decide
    exact this ⟨m1, by omega⟩ ⟨m2, by omega⟩ h1 h2
  rw [← hl] at b4
  have hA : a.moy = ((daysBefore a.leap a.month + a.day - 1) * 24 + a.hour) * 60 + a.minute := rfl
  have hB : b.moy = ((daysBefore a.leap b.month + b.day - 1) * 24 + b.hour) * 60 + b.minute := by
    rw [hl]; rfl
  rw [hA, hB]
  rcases Nat.lt_trichotomy a.month b.month with hlt | heq | hgt
  · have := hmono a.month b.month a1 hlt b2
    constructor
    · intro _; exact Or.inl hlt
    · intro _; omega
  · rw [heq]
    constructor
    · intro h
      refine Or.inr ⟨rfl, ?_⟩
      omega
    · intro h
      rcases h with h | ⟨_, h⟩
      · omega
      · omega
  · have := hmono b.month a.month b1 hgt a2
    constructor
    · intro h; omega
    · intro h
      rcases h with h | ⟨h, _⟩ <;> omega

/-! ### from_hoy -/

/-- On the minute grid, `from_hoy(m / 60)` is `from_moy(m)`. -/
theorem C08_fromHoy_grid (leap : Bool) (m : Int) : fromHoyTimes60 leap (m : Rat) = fromMoy leap m := by
  unfold fromHoyTimes60
  congr 1
  unfold Py.round
  have h0 : (m : Rat) - (m : Rat) = 0 := Rat.sub_self
  have h1 : (0 : Rat) < 1 / 2 := by decide +kernel
  simp [Rat.floor_intCast, h0, h1]

/-- Python's `round` returns an integer within one half of its argument. -/
theorem round_near (x : Rat) :
    ((Py.round x : Int) : Rat) - x ≤ 1 / 2 ∧ x - ((Py.round x : Int) : Rat) ≤ 1 / 2 := by
  have h1 := Rat.floor_le x
  have h2 := Rat.lt_floor_add_one x
  unfold Py.round
  simp only []
  split
  · constructor <;> grind
  · split
    · constructor <;> grind
    · split <;> constructor <;> grind

/-- Float hours at arbitrary resolution: `from_hoy(h)` is `from_moy` of a whole minute that lies
    within half a minute of `60·h` (so it is the nearest minute; with `C08_fromMoy_moy` it reads
    back as that minute). -/
theorem C08_fromHoy_round (leap : Bool) (x : Rat) :
    ∃ n : Int, fromHoyTimes60 leap x = fromMoy leap n ∧ (n : Rat) - x ≤ 1 / 2 ∧ x - (n : Rat) ≤ 1 / 2 :=
  ⟨Py.round x, rfl, round_near x⟩

/-! ### from_doy / doy -/

/-- Every day of the year builds the valid date with that day of the year. -/
theorem C08_fromDoy_doy (leap : Bool) (n : Nat) (h1 : 1 ≤ n) (h2 : n ≤ daysInYear leap) :
    ∃ d, fromDoy leap n = .ok d ∧ d.valid ∧ d.doy = n ∧ d.leap = leap := by
  have hall := doyFact_all leap
  rw [List.all_eq_true] at hall
  have : n < 367 := by unfold daysInYear at h2; split at h2 <;> omega
  have hk := hall n (List.mem_range.mpr this)
  simp only [Bool.or_eq_true, Bool.not_eq_true', decide_eq_false_iff_not] at hk
  rcases hk with hk | hk
  · exact absurd ⟨h1, h2⟩ hk
  · unfold doyFact at hk
    cases hf : fromDoy leap (n : Int) with
    | error e => simp [hf] at hk
    | ok d =>
      simp only [hf, decide_eq_true_eq] at hk
      exact ⟨d, rfl, hk⟩

/-- ... and every valid date is the one built from its own day of the year. -/
theorem C08_doy_fromDoy (d : D) (hv : d.valid) : fromDoy d.leap d.doy = .ok d := by
  obtain ⟨h1, h2, h3, h4⟩ := hv
  have hle := (dateFact_of_valid d.leap d.month d.day ⟨h1, h2, h3, h4⟩).2
  obtain ⟨d', hd', hv', hdoy, hleap⟩ := C08_fromDoy_doy d.leap d.doy (by unfold D.doy; omega) hle
  rw [hd']
  obtain ⟨g1, g2, g3, g4⟩ := hv'
  rw [hleap] at g4
  have e : daysBefore d.leap d'.month + d'.day = daysBefore d.leap d.month + d.day := by
    have : d'.doy = daysBefore d'.leap d'.month + d'.day := rfl
    rw [hleap] at this; rw [← this, hdoy]; rfl
  obtain ⟨e1, e2⟩ := doy_inj d.leap d'.month d'.day d.month d.day ⟨g1, g2, g3, g4⟩ ⟨h1, h2, h3, h4⟩ e
  cases d; cases d'; simp_all

/-- Day numbers outside 1..365/366 are rejected. -/
theorem C08_fromDoy_reject (leap : Bool) (n : Nat) (h : n = 0 ∨ daysInYear leap < n) :
    ∃ e, fromDoy leap n = .error e := by
  rcases h with h | h
  · subst h; cases leap <;> exact ⟨.value, by decide⟩
  · have hq : findMonth (dayTable leap) n = none := by
      have key : ∀ t ∈ dayTable leap, t ≤ daysInYear leap + 1 := by cases leap <;> decide
      have gen : ∀ fuel k, findMonth.go (dayTable leap) n fuel k = none := by
        intro fuel
        induction fuel with
        | zero => intro k; simp [findMonth.go]
        | succ f ih =>
          intro k
          unfold findMonth.go
          cases hk : (dayTable leap)[k + 1]? with
          | none => rfl
          | some t =>
            have ht : t ∈ dayTable leap := List.mem_of_getElem? hk
            have : ¬ n < t := by have := key t ht; omega
            simp [this, ih]
      exact gen 12 0
    refine ⟨.value, ?_⟩
    have : ¬ ((n : Int) < 0) := by omega
    simp only [fromDoy, this, if_false, Int.toNat_natCast, hq]

/-! ### offsets -/

/-- Adding and then subtracting any number of minutes that stays inside the year returns the
    starting date-time. -/
theorem C08_add_sub_minute (d : DT) (hv : d.valid) (k : Int)
    (h0 : 0 ≤ (d.moy : Int) + k) (h1 : (d.moy : Int) + k < minutesInYear d.leap) :
    ∃ e, d.addMinute k = .ok e ∧ e.valid ∧ e.moy = (d.moy : Int) + k ∧ e.subMinute k = .ok d := by
  obtain ⟨n, hn⟩ := Int.eq_ofNat_of_zero_le h0
  have hlt : n < minutesInYear d.leap := by omega
  obtain ⟨e, he, hev, hemoy, _, _, _, heleap⟩ := C08_fromMoy_moy d.leap n hlt
  refine ⟨e, ?_, hev, ?_, ?_⟩
  · unfold DT.addMinute; rw [hn]; exact he
  · rw [hemoy, hn]
  · unfold DT.subMinute DT.addMinute
    rw [heleap, hemoy]
    have : (n : Int) + -k = d.moy := by omega
    rw [this]
    exact C08_moy_fromMoy d hv

/-- Hours: `add_hour(h)` is `add_minute(int(h * 60))`; on whole minutes it inverts likewise. -/
theorem C08_add_sub_hour (d : DT) (hv : d.valid) (k : Int)
    (h0 : 0 ≤ (d.moy : Int) + k) (h1 : (d.moy : Int) + k < minutesInYear d.leap) :
    ∃ e, d.addHourTimes60 (k : Rat) = .ok e ∧ e.addHourTimes60 ((-k : Int) : Rat) = .ok d := by
  obtain ⟨e, he, _, _, hsub⟩ := C08_add_sub_minute d hv k h0 h1
  have tr : ∀ z : Int, Py.truncRat (z : Rat) = z := by
    intro z; unfold Py.truncRat; split <;> simp [Rat.floor_intCast, Rat.ceil_intCast]
  refine ⟨e, ?_, ?_⟩
  · unfold DT.addHourTimes60; rw [tr]; exact he
  · unfold DT.addHourTimes60; rw [tr]; exact hsub

/-! ### serial forms -/

theorem make_of_valid (d : DT) (hv : d.valid) : DT.make d.month d.day d.hour d.minute d.leap = .ok d := by
  obtain ⟨h1, h2, h3, h4, h5, h6⟩ := hv
  have hn : normHM d.hour d.minute = (d.hour, d.minute) := by
    unfold normHM
    have : d.minute / 60 = 0 := by omega
    have h2 : d.minute % 60 = d.minute := by omega
    simp [this, h2]
  unfold DT.make
  simp only [hn]
  have : (⟨d.month, d.day, d.hour, d.minute, d.leap⟩ : DT).valid := ⟨h1, h2, h3, h4, h5, h6⟩
  exact if_pos this

/-- Array form: `from_array(to_array(d)) = d`, Feb 29 included (leap years append a `1`). -/
theorem C08_array_roundtrip (d : DT) (hv : d.valid) : DT.fromArray d.toArray = .ok d := by
  have := make_of_valid d hv
  rcases d with ⟨mo, da, h, mi, leap⟩
  cases leap <;> exact this

/-- Dictionary form: `from_dict(to_dict(d)) = d`; `leap_year` is written only when set and
    defaults to False when absent. -/
theorem C08_dict_roundtrip (d : DT) (hv : d.valid) : DT.fromDict d.toDict = .ok d := by
  unfold DT.toDict DT.fromDict
  cases hl : d.leap with
  | false =>
    have : DT.make d.month d.day d.hour d.minute false = .ok d := by rw [← hl]; exact make_of_valid d hv
    simpa [lookupD, List.find?] using this
  | true =>
    have : DT.make d.month d.day d.hour d.minute true = .ok d := by rw [← hl]; exact make_of_valid d hv
    simpa [lookupD, List.find?] using this

/-- Reading does not depend on key order (any permutation of the written pairs). -/
theorem C08_dict_key_order (d : DT) (kv : List (String × Nat)) (hp : kv.Perm d.toDict) :
    DT.fromDict kv = DT.fromDict d.toDict := by
  have hnd : (d.toDict.map (·.1)).Nodup := by
    rcases d with ⟨mo, da, h, mi, leap⟩
    cases leap <;> simp [DT.toDict] <;> decide
  have hnd' : (kv.map (·.1)).Nodup := ((hp.map (·.1)).nodup_iff).mpr hnd
  have look : ∀ k dflt, lookupD kv k dflt = lookupD d.toDict k dflt := by
    intro k dflt
    unfold lookupD
    rw [find_key_perm hp hnd' k]
  unfold DT.fromDict
  simp only [look]

/-- Pickle / copy / deepcopy form: the class is re-invoked with `__reduce_ex__`'s arguments. -/
theorem C08_pickle_roundtrip (d : DT) (hv : d.valid) : DT.rebuild d.reduceArgs = .ok d := by
  have := make_of_valid d hv
  rcases d with ⟨mo, da, h, mi, leap⟩
  cases leap <;> exact this

theorem date_make_of_valid (d : D) (hv : d.valid) : D.make d.month d.day d.leap = .ok d := by
  obtain ⟨h1, h2, h3, h4⟩ := hv
  unfold D.make
  have : (1 : Int) ≤ d.month ∧ (1 : Int) ≤ d.day := by omega
  simp only [this, and_self, if_true, Int.toNat_natCast]
  exact if_pos ⟨h1, h2, h3, h4⟩

theorem C08_date_array_roundtrip (d : D) (hv : d.valid) : D.fromArray d.toArray = .ok d := by
  have := date_make_of_valid d hv
  rcases d with ⟨mo, da, leap⟩
  cases leap <;> exact this

theorem C08_date_pickle_roundtrip (d : D) (hv : d.valid) : D.rebuild d.reduceArgs = .ok d := by
  have := date_make_of_valid d hv
  rcases d with ⟨mo, da, leap⟩
  cases leap <;> exact this

theorem C08_date_dict_roundtrip (d : D) (hv : d.valid) : D.fromDict d.toDict = .ok d := by
  have := date_make_of_valid d hv
  rcases d with ⟨mo, da, leap⟩
  cases leap <;> simpa [D.fromDict, D.toDict, lookupD, List.find?] using this

theorem C08_time_roundtrip (t : T) (hv : t.valid) :
    T.fromArray t.toArray = .ok t ∧ T.fromDict t.toDict = .ok t ∧ fromMod t.mod = .ok t := by
  obtain ⟨h1, h2⟩ := hv
  have mk : T.make t.hour t.minute = .ok t := by
    unfold T.make normHM
    have a : t.minute / 60 = 0 := by omega
    have b : t.minute % 60 = t.minute := by omega
    simp only [a, b, Nat.add_zero]
    exact if_pos ⟨h1, h2⟩
  refine ⟨mk, ?_, ?_⟩
  · simpa [T.fromDict, T.toDict, lookupD, List.find?] using mk
  · unfold fromMod T.mod
    have a : (t.hour * 60 + t.minute) / 60 = t.hour := by omega
    have b : (t.hour * 60 + t.minute) % 60 = t.minute := by omega
    rw [a, b]; exact mk

/-- Text form `dd Mon HH:MM` (token level: day, month name, hour, minute): parsing the printed
    tokens gives the date-time back for every valid date-time of a normal or leap year, 29 Feb
    included.  The character-level lexing/zero padding is tied by correspondence only. -/
theorem C08_str_roundtrip (d : DT) (hv : d.valid) : DT.parseTokens d.strTokens d.leap = .ok d := by
  have hmk := make_of_valid d hv
  obtain ⟨h1, h2, h3, h4, h5, h6⟩ := hv
  have hidx := monthName_idx ⟨d.month - 1, by omega⟩
  have hle : monthLen d.leap d.month ≤ monthLen true d.month := by
    have : ∀ m : Fin 13, monthLen d.leap m ≤ monthLen true m := by cases d.leap <;> decide
    exact this ⟨d.month, by omega⟩
  unfold DT.parseTokens DT.strTokens
  simp only [hidx]
  have hm : d.month - 1 + 1 = d.month := by omega
  rw [hm]
  have : 1 ≤ d.day ∧ d.day ≤ monthLen true d.month ∧ d.hour ≤ 23 ∧ d.minute ≤ 59 := ⟨h3, by omega, h5, h6⟩
  rw [if_pos this]
  exact hmk


/-! ### Round 3: operation histories on one date-time variable (Model/C08Hist.lean)

  dt.py keeps no state per object and none per module.  The machine `Hist.step` is a pure function
  of the current date-time; the theorems below say what that means for arbitrary histories, and the
  harness compares the real classes with the machine step by step (op `hist`). -/

namespace Hist

/-- The value kept after a step: the result, or the old value when the call was refused. -/
def orKeep (r : Except Err DT) (cur : DT) : DT :=
  match r with
  | .ok d => d
  | .error _ => cur

theorem step_cur (o : Obj) (op : Op) : (step o op).1.cur = orKeep (apply o.cur op) o.cur := by
  unfold step orKeep
  cases apply o.cur op <;> rfl

/-- Every serial form (array, dictionary, pickle/copy, text, date + time) gives a valid date-time
    back unchanged, 29 Feb included. -/
theorem C08_via_identity (d : DT) (hv : d.valid) (f : Form) : viaForm d f = .ok d := by
  cases f with
  | array => exact C08_array_roundtrip d hv
  | dict => exact C08_dict_roundtrip d hv
  | reduce => exact C08_pickle_roundtrip d hv
  | text => exact C08_str_roundtrip d hv
  | dateAndTime =>
    obtain ⟨h1, h2, h3, h4, h5, h6⟩ := hv
    have hd : D.make d.month d.day d.leap = .ok ⟨d.month, d.day, d.leap⟩ :=
      date_make_of_valid ⟨d.month, d.day, d.leap⟩ ⟨h1, h2, h3, h4⟩
    have ht : T.make d.hour d.minute = .ok ⟨d.hour, d.minute⟩ :=
      (C08_time_roundtrip ⟨d.hour, d.minute⟩ ⟨h5, h6⟩).1
    simp only [viaForm, hd, ht, fromDateAndTime]
    exact make_of_valid d ⟨h1, h2, h3, h4, h5, h6⟩

/-- **History refines fresh.**  After ANY history of operations (constructors of either year kind,
    offsets, refused calls, changes of the leap flag, serial trips, reads – in any order and
    repetition) the current date-time is valid and is exactly the fresh object built from its
    public state: from its (leap flag, minute of the year) by `from_moy`, from its five fields by
    the constructor, and through every serial form.  Hence every observation after the history
    equals the observation of that fresh object. -/
theorem C08_history_refines_fresh (o : Obj) (hv : o.cur.valid) (ops : List Op) :
    (run o ops).cur.valid ∧
    fromMoy (run o ops).cur.leap (run o ops).cur.moy = .ok (run o ops).cur ∧
    DT.make (run o ops).cur.month (run o ops).cur.day (run o ops).cur.hour (run o ops).cur.minute
      (run o ops).cur.leap = .ok (run o ops).cur ∧
    ∀ f, viaForm (run o ops).cur f = .ok (run o ops).cur := by
  have h := run_valid hv ops
  exact ⟨h, C08_moy_fromMoy _ h, make_of_valid _ h, C08_via_identity _ h⟩

/-- Observation form of the previous theorem: whatever fresh object is built from the final public
    state reads the same on every index the property speaks about. -/
theorem C08_history_observation (o : Obj) (hv : o.cur.valid) (ops : List Op) (d' : DT)
    (h : fromMoy (run o ops).cur.leap (run o ops).cur.moy = .ok d') :
    observe d' = observe (run o ops).cur := by
  rw [(C08_history_refines_fresh o hv ops).2.1] at h
  cases h; rfl

/-- **Refused operations preserve.**  An operation the code refuses (raises) leaves the state – hence
    every later observation – exactly as if it had not been attempted. -/
theorem C08_refused_preserves (o : Obj) (op : Op) (e : Err) (h : apply o.cur op = .error e)
    (rest : List Op) :
    step o op = (o, .refused e) ∧ run o (op :: rest) = run o rest ∧
      trace o (op :: rest) = .refused e :: trace o rest := by
  have hs : step o op = (o, .refused e) := by unfold step; rw [h]
  refine ⟨hs, ?_, ?_⟩
  · simp only [run, hs]
  · simp only [trace, hs]

/-- **Reads are pure.**  Reading returns the observation of the current date-time and changes nothing. -/
theorem C08_read_pure (o : Obj) : step o .read = (o, .obs (observe o.cur)) := rfl

/-- ... so reads may be inserted, repeated or dropped anywhere in a history (order independence). -/
theorem C08_reads_do_not_matter (o : Obj) (ops : List Op) :
    run o (ops.filter fun op => !op.isRead) = run o ops := by
  induction ops generalizing o with
  | nil => rfl
  | cons op rest ih =>
    cases op <;> simp only [List.filter, Op.isRead, Bool.not_true, Bool.not_false, run] <;> first
      | exact ih _
      | (rw [C08_read_pure]; exact ih o)

/-- `from_moy` on the public state, all four ranges of the argument. -/
theorem fromMoy_pub (cur : DT) (leap : Bool) (m : Int) :
    pub (orKeep (fromMoy leap m) cur) = specMoy (pub cur) leap m := by
  unfold specMoy
  by_cases h0 : 0 ≤ m
  · obtain ⟨n, hn⟩ := Int.eq_ofNat_of_zero_le h0
    subst hn
    by_cases h1 : n < minutesInYear leap
    · obtain ⟨d, hd, _, hmoy, _, _, _, hleap⟩ := C08_fromMoy_moy leap n h1
      have hc : (0 : Int) ≤ (n : Int) ∧ (n : Int) < (minutesInYear leap : Int) := ⟨h0, by omega⟩
      rw [hd, if_pos hc]
      simp only [orKeep, pub, hmoy, hleap, Int.toNat_natCast]
    · have hr := C08_fromMoy_reject leap n (by omega)
      have hc : ¬ ((0 : Int) ≤ (n : Int) ∧ (n : Int) < (minutesInYear leap : Int)) := by omega
      have hc2 : ¬ ((-1440 : Int) < (n : Int) ∧ (n : Int) < 0) := by omega
      rw [hr, if_neg hc, if_neg hc2]
      rfl
  · have hc : ¬ ((0 : Int) ≤ m ∧ m < (minutesInYear leap : Int)) := by omega
    rw [if_neg hc]
    by_cases h1 : -1440 < m
    · obtain ⟨d, hd, _, hleap, hmoy⟩ := fromMoy_negative_band leap m h1 (by omega)
      have hc2 : (-1440 : Int) < m ∧ m < 0 := ⟨h1, by omega⟩
      rw [hd, if_pos hc2]
      simp only [orKeep, pub, hleap]
      congr 1
      omega
    · have hr := fromMoy_far_negative leap m (by omega)
      have hc2 : ¬ ((-1440 : Int) < m ∧ m < 0) := by omega
      rw [hr, if_neg hc2]
      rfl

theorem time_make_ok (h mi : Nat) (h1 : h ≤ 23) (h2 : mi ≤ 59) : T.make h mi = .ok ⟨h, mi⟩ :=
  (C08_time_roundtrip ⟨h, mi⟩ ⟨h1, h2⟩).1

theorem fromDoy_pub (d : DT) (hv : d.valid) (leap : Bool) (k : Int) :
    pub (orKeep (apply d (.fromDoy leap k)) d) = specDoy (pub d) leap k := by
  obtain ⟨h1, h2, h3, h4, h5, h6⟩ := hv
  have ht := time_make_ok d.hour d.minute h5 h6
  unfold specDoy
  by_cases hk : 1 ≤ k ∧ k ≤ (daysInYear leap : Int)
  · obtain ⟨n, hn⟩ := Int.eq_ofNat_of_zero_le (show 0 ≤ k by omega)
    subst hn
    obtain ⟨da, hda, hdv, hdoy, hleap⟩ := C08_fromDoy_doy leap n (by omega) (by omega)
    obtain ⟨g1, g2, g3, g4⟩ := hdv
    have hmk : DT.make da.month da.day d.hour d.minute da.leap = .ok ⟨da.month, da.day, d.hour, d.minute, da.leap⟩ :=
      make_of_valid ⟨da.month, da.day, d.hour, d.minute, da.leap⟩ ⟨g1, g2, g3, g4, h5, h6⟩
    rw [if_pos hk]
    rw [hleap] at hmk
    have e1 : daysBefore leap da.month + da.day = n := by rw [← hleap]; exact hdoy
    simp only [apply, hda, ht, fromDateAndTime, hleap, hmk, orKeep, pub, Int.toNat_natCast]
    congr 1
    simp only [DT.moy, DT.intHoy, DT.doy]
    omega
  · rw [if_neg hk]
    have herr : ∃ e, fromDoy leap k = .error e := by
      by_cases hneg : k < 0
      · exact ⟨.value, by simp only [fromDoy, hneg, if_true]⟩
      · obtain ⟨n, hn⟩ := Int.eq_ofNat_of_zero_le (show 0 ≤ k by omega)
        subst hn
        exact C08_fromDoy_reject leap n (by omega)
    obtain ⟨e, he⟩ := herr
    simp only [apply, he, orKeep]

theorem setMod_pub (d : DT) (hv : d.valid) (m : Nat) :
    pub (orKeep (apply d (.setMod m)) d) = specMod (pub d) m := by
  obtain ⟨h1, h2, h3, h4, h5, h6⟩ := hv
  have hd : D.make d.month d.day d.leap = .ok ⟨d.month, d.day, d.leap⟩ :=
    date_make_of_valid ⟨d.month, d.day, d.leap⟩ ⟨h1, h2, h3, h4⟩
  unfold specMod
  by_cases hm : m < 1440
  · have ht : fromMod m = .ok ⟨m / 60, m % 60⟩ := time_make_ok (m / 60) (m % 60) (by omega) (by omega)
    have hmk : DT.make d.month d.day (m / 60) (m % 60) d.leap = .ok ⟨d.month, d.day, m / 60, m % 60, d.leap⟩ :=
      make_of_valid ⟨d.month, d.day, m / 60, m % 60, d.leap⟩ ⟨h1, h2, h3, h4, (by show m / 60 ≤ 23; omega), (by show m % 60 ≤ 59; omega)⟩
    rw [if_pos hm]
    simp only [apply, hd, ht, fromDateAndTime, hmk, orKeep, pub]
    congr 1
    simp only [DT.moy, DT.intHoy, DT.doy]
    omega
  · rw [if_neg hm]
    have ht : fromMod m = .error .value := by
      unfold fromMod T.make normHM
      have a : m % 60 / 60 = 0 := by omega
      have hnv : ¬ (⟨m / 60 + m % 60 / 60, m % 60 % 60⟩ : T).valid := by
        unfold T.valid; simp only [a]; omega
      exact if_neg hnv
    simp only [apply, hd, ht, orKeep]

theorem step_index_spec (o : Obj) (hv : o.cur.valid) (op : Op) (hi : op.isIndex = true) :
    pub (step o op).1.cur = specStep (pub o.cur) op := by
  rw [step_cur]
  cases op with
  | fromMoy leap m => exact fromMoy_pub o.cur leap m
  | fromHoy leap x => exact fromMoy_pub o.cur leap (Py.round x)
  | addMin k => exact fromMoy_pub o.cur o.cur.leap ((o.cur.moy : Int) + k)
  | subMin k => exact fromMoy_pub o.cur o.cur.leap ((o.cur.moy : Int) + -k)
  | addHour x => exact fromMoy_pub o.cur o.cur.leap ((o.cur.moy : Int) + Py.truncRat x)
  | subHour x => exact fromMoy_pub o.cur o.cur.leap ((o.cur.moy : Int) + Py.truncRat (-x))
  | via f =>
    simp only [apply, C08_via_identity o.cur hv f, orKeep, specStep]
  | read => rfl
  | fromDoy leap k => exact fromDoy_pub o.cur hv leap k
  | setMod m => exact setMod_pub o.cur hv m
  | make _ _ _ _ _ => cases hi
  | setLeap _ => cases hi

/-- **Histories of index operations follow integer arithmetic.**  For every history made of
    from_moy / from_hoy / from_doy / from_mod / add / sub minutes / hours, serial trips and reads – refused calls and both
    year kinds included – the (leap flag, minute of the year) of the current date-time is the one
    obtained by plain integer arithmetic on the public state (`specRun`): a refused step keeps it, an
    accepted step sets it to the requested minute.  With `C08_history_refines_fresh` this fixes
    every observation after such a history. -/
theorem C08_history_index_arith (o : Obj) (hv : o.cur.valid) (ops : List Op)
    (hi : ∀ op ∈ ops, op.isIndex = true) :
    pub (run o ops).cur = specRun (pub o.cur) ops := by
  induction ops generalizing o with
  | nil => rfl
  | cons op rest ih =>
    simp only [run, specRun]
    rw [← step_index_spec o hv op (hi op (List.mem_cons_self ..))]
    exact ih (step o op).1 (step_valid hv op) (fun op' h' => hi op' (List.mem_cons_of_mem _ h'))

/-- Add then subtract inside a history: when the sum stays inside the year the two steps cancel
    (state and all later observations), whatever happened before. -/
theorem C08_history_add_sub (o : Obj) (hv : o.cur.valid) (pre : List Op) (k : Int)
    (h0 : 0 ≤ ((run o pre).cur.moy : Int) + k)
    (h1 : ((run o pre).cur.moy : Int) + k < minutesInYear (run o pre).cur.leap) :
    run o (pre ++ [.addMin k, .subMin k]) = run o pre := by
  have hrun : ∀ (o : Obj) (a b : List Op), run o (a ++ b) = run (run o a) b := by
    intro o a b
    induction a generalizing o with
    | nil => rfl
    | cons x xs ih => exact ih _
  rw [hrun]
  have hvp := run_valid hv pre
  obtain ⟨e, he, _, _, hsub⟩ := C08_add_sub_minute (run o pre).cur hvp k h0 h1
  have s1 : step (run o pre) (.addMin k) = (⟨e⟩, .obs (observe e)) := by
    unfold step; simp only [apply, he]
  have s2 : step ⟨e⟩ (.subMin k) = (⟨(run o pre).cur⟩, .obs (observe (run o pre).cur)) := by
    unfold step; simp only [apply, hsub]
  simp only [run, s1, s2]

end Hist

example : (Hist.run Hist.Obj.fresh [.fromMoy true 86399, .setLeap false, .addMin 1]).cur = ⟨3, 1, 0, 0, true⟩ := by
  decide
example : Hist.apply ⟨2, 29, 23, 59, true⟩ (.setLeap false) = .error .value := by decide
example : Hist.apply ⟨12, 31, 23, 59, true⟩ (.addMin 1) = .error .value := by decide
example : Hist.specRun (false, 0) [.fromMoy true 527039, .addMin 1, .fromMoy false 525600, .subMin 1439] =
    (true, 525600) := by decide
example : Hist.specRun (false, 61) [.fromDoy true 366, .fromDoy true 367, .setMod 1440, .setMod 7] =
    (true, 525607) := by decide

/-! ### Round 4: fractional offsets, fractional constructor arguments, sibling classes, branches -/

/-- **Offsets that are not whole minutes.**  `add_minute(x)` uses `int(x)` (toward zero) and
    `sub_minute(x)` negates first; because truncation is odd the pair is inverse for EVERY real
    offset that keeps the sum inside the year, and the sum is within one minute of the exact one. -/
theorem C08_add_sub_fraction (d : DT) (hv : d.valid) (x : Rat)
    (h0 : 0 ≤ (d.moy : Int) + Py.truncRat x) (h1 : (d.moy : Int) + Py.truncRat x < minutesInYear d.leap) :
    ∃ e, d.addMinuteQ x = .ok e ∧ e.valid ∧ (e.moy : Int) = (d.moy : Int) + Py.truncRat x ∧
      ((e.moy : Int) : Rat) - ((d.moy : Int) + x) < 1 ∧ ((d.moy : Int) + x) - ((e.moy : Int) : Rat) < 1 ∧
      e.subMinuteQ x = .ok d := by
  obtain ⟨e, he, hev, hemoy, hsub⟩ := C08_add_sub_minute d hv (Py.truncRat x) h0 h1
  obtain ⟨n1, n2⟩ := truncRat_near x
  refine ⟨e, he, hev, hemoy, ?_, ?_, ?_⟩
  · rw [hemoy, Rat.intCast_add]; grind
  · rw [hemoy, Rat.intCast_add]; grind
  · unfold DT.subMinuteQ DT.addMinuteQ
    rw [truncRat_neg]
    exact hsub

/-- The same with the subtraction first: `d.sub_minute(x).add_minute(x) = d`. -/
theorem C08_sub_add_fraction (d : DT) (hv : d.valid) (x : Rat)
    (h0 : 0 ≤ (d.moy : Int) - Py.truncRat x) (h1 : (d.moy : Int) - Py.truncRat x < minutesInYear d.leap) :
    ∃ e, d.subMinuteQ x = .ok e ∧ e.valid ∧ e.addMinuteQ x = .ok d := by
  have h0' : 0 ≤ (d.moy : Int) + Py.truncRat (-x) := by rw [truncRat_neg]; omega
  have h1' : (d.moy : Int) + Py.truncRat (-x) < minutesInYear d.leap := by rw [truncRat_neg]; omega
  obtain ⟨e, he, hev, _, _, _, hback⟩ := C08_add_sub_fraction d hv (-x) h0' h1'
  refine ⟨e, he, hev, ?_⟩
  unfold DT.subMinuteQ at hback
  rw [Rat.neg_neg] at hback
  exact hback

/-- Hours at any resolution (full strength of `C08_add_sub_hour`, which covered whole minutes only):
    `add_hour(h)` then `sub_hour(h)` returns the start for every real product `x = 60·h`. -/
theorem C08_add_sub_hour_fraction (d : DT) (hv : d.valid) (x : Rat)
    (h0 : 0 ≤ (d.moy : Int) + Py.truncRat x) (h1 : (d.moy : Int) + Py.truncRat x < minutesInYear d.leap) :
    ∃ e, d.addHourTimes60 x = .ok e ∧ e.addHourTimes60 (-x) = .ok d := by
  obtain ⟨e, he, _, _, _, _, hsub⟩ := C08_add_sub_fraction d hv x h0 h1
  exact ⟨e, he, hsub⟩

/-- Inside ANY history: `add_hour(h)` followed by `sub_hour(h)` cancels for every real `h` (not only
    whole minutes) as long as the truncated sum stays inside the year. -/
theorem Hist.C08_history_add_sub_hour_fraction (o : Hist.Obj) (hv : o.cur.valid) (pre : List Hist.Op) (x : Rat)
    (h0 : 0 ≤ ((Hist.run o pre).cur.moy : Int) + Py.truncRat x)
    (h1 : ((Hist.run o pre).cur.moy : Int) + Py.truncRat x < minutesInYear (Hist.run o pre).cur.leap) :
    Hist.run o (pre ++ [.addHour x, .subHour x]) = Hist.run o pre := by
  have hrun : ∀ (o : Hist.Obj) (a b : List Hist.Op), Hist.run o (a ++ b) = Hist.run (Hist.run o a) b := by
    intro o a b
    induction a generalizing o with
    | nil => rfl
    | cons x xs ih => exact ih _
  rw [hrun]
  have hvp := Hist.run_valid hv pre
  obtain ⟨e, he, hsub⟩ := C08_add_sub_hour_fraction (Hist.run o pre).cur hvp x h0 h1
  have s1 : Hist.step (Hist.run o pre) (.addHour x) = (⟨e⟩, .obs (Hist.observe e)) := by
    unfold Hist.step; simp only [Hist.apply, he]
  have s2 : Hist.step ⟨e⟩ (.subHour x) = (⟨(Hist.run o pre).cur⟩, .obs (Hist.observe (Hist.run o pre).cur)) := by
    unfold Hist.step; simp only [Hist.apply, hsub]
  simp only [Hist.run, s1, s2]

/-- **Both branches of `_calculate_hour_and_minute`.**  For a fractional part `0 ≤ prod < 60` minutes:
    the `minute == 60` branch is taken exactly from 59.5 minutes on and carries into the next hour;
    otherwise the hour is kept; in both branches the minute is 0..59 and the (hour, minute) pair is
    within half a minute of the exact time. -/
theorem C08_calc_hm_branches (hour : Int) (prod : Rat) (h0 : 0 ≤ prod) (h1 : prod < 60) :
    ((119 : Rat) / 2 ≤ prod → calcHM hour prod = (hour + 1, 0)) ∧
    (prod < (119 : Rat) / 2 → (calcHM hour prod).1 = hour ∧ (calcHM hour prod).2 = Py.round prod) ∧
    0 ≤ (calcHM hour prod).2 ∧ (calcHM hour prod).2 ≤ 59 ∧
    ((((calcHM hour prod).1 * 60 + (calcHM hour prod).2 : Int) : Rat) - ((hour * 60 : Int) + prod) ≤ 1 / 2) ∧
    (((hour * 60 : Int) + prod) - (((calcHM hour prod).1 * 60 + (calcHM hour prod).2 : Int) : Rat) ≤ 1 / 2) := by
  obtain ⟨r1, r2⟩ := round_near prod
  -- the rounded minute is an integer between 0 and 60
  have hlo : (0 : Int) ≤ Py.round prod := by
    have : ((-1 : Int) : Rat) < ((Py.round prod : Int) : Rat) := by
      have e : ((-1 : Int) : Rat) = -1 := by decide +kernel
      rw [e]; grind
    have := Rat.intCast_lt_intCast.mp this
    omega
  have hhi : Py.round prod ≤ 60 := by
    have : ((Py.round prod : Int) : Rat) < ((61 : Int) : Rat) := by
      have e : ((61 : Int) : Rat) = 61 := by decide +kernel
      rw [e]; grind
    have := Rat.intCast_lt_intCast.mp this
    omega
  have c60 : ((60 : Int) : Rat) = 60 := by decide +kernel
  by_cases hr : Py.round prod = 60
  · have hge : (119 : Rat) / 2 ≤ prod := by
      have : ((Py.round prod : Int) : Rat) = 60 := by rw [hr]; exact c60
      grind
    have hc : calcHM hour prod = (hour + 1, 0) := by unfold calcHM; rw [if_pos hr]
    refine ⟨fun _ => hc, fun hlt => ?_, ?_, ?_, ?_, ?_⟩
    · exact absurd hge (by grind)
    · rw [hc]; show (0 : Int) ≤ 0; omega
    · rw [hc]; show (0 : Int) ≤ 59; omega
    · rw [hc]
      have e : (((hour + 1) * 60 + 0 : Int) : Rat) = ((hour * 60 : Int) : Rat) + 60 := by
        rw [show (hour + 1) * 60 + 0 = hour * 60 + 60 by omega, Rat.intCast_add, c60]
      simp only [e]; grind
    · rw [hc]
      have e : (((hour + 1) * 60 + 0 : Int) : Rat) = ((hour * 60 : Int) : Rat) + 60 := by
        rw [show (hour + 1) * 60 + 0 = hour * 60 + 60 by omega, Rat.intCast_add, c60]
      simp only [e]; grind
  · have hc : calcHM hour prod = (hour, Py.round prod) := by unfold calcHM; rw [if_neg hr]
    have hlt : prod < (119 : Rat) / 2 := by
      -- otherwise the rounded value is at least 59.5 - 0.5 = 59 ... and in fact 60
      apply Classical.byContradiction
      intro hn
      have h59 : ((59 : Int) : Rat) < ((Py.round prod : Int) : Rat) ∨ ((Py.round prod : Int) : Rat) = 59 := by
        have e : ((59 : Int) : Rat) = 59 := by decide +kernel
        rw [e]; grind
      rcases h59 with h | h
      · have := Rat.intCast_lt_intCast.mp h; omega
      · -- round = 59 with prod ≥ 59.5 forces the tie 59.5, which rounds to the even 60
        have hp : prod = (119 : Rat) / 2 := by
          have e : ((59 : Int) : Rat) = 59 := by decide +kernel
          grind
        rw [hp] at hr
        exact hr (by decide +kernel)
    refine ⟨fun hge => absurd hge (by grind), fun _ => ⟨by rw [hc], by rw [hc]⟩, ?_, ?_, ?_, ?_⟩
    · rw [hc]; exact hlo
    · rw [hc]; show Py.round prod ≤ 59; omega
    · rw [hc]
      have e : ((hour * 60 + Py.round prod : Int) : Rat) = ((hour * 60 : Int) : Rat) + ((Py.round prod : Int) : Rat) :=
        Rat.intCast_add _ _
      simp only [e]; grind
    · rw [hc]
      have e : ((hour * 60 + Py.round prod : Int) : Rat) = ((hour * 60 : Int) : Rat) + ((Py.round prod : Int) : Rat) :=
        Rat.intCast_add _ _
      simp only [e]; grind

/-- On whole hour / minute arguments the general normalisation is the integer carry of `normHM`
    used by Model/Cal (the exact product of a whole minute `mi < 60` is `mi`). -/
theorem C08_calc_hm_whole (hour : Int) (mi : Nat) (h : mi ≤ 59) : calcHM hour (mi : Rat) = (hour, (mi : Int)) := by
  have hr : Py.round ((mi : Nat) : Rat) = (mi : Int) := by
    have : ((mi : Nat) : Rat) = (((mi : Int)) : Rat) := rfl
    rw [this]
    unfold Py.round
    have h0 : ((mi : Int) : Rat) - ((mi : Int) : Rat) = 0 := Rat.sub_self
    have h1 : (0 : Rat) < 1 / 2 := by decide +kernel
    simp [Rat.floor_intCast, h0, h1]
  unfold calcHM
  rw [hr]
  have : ¬ ((mi : Int) = 60) := by omega
  rw [if_neg this]

/-- **The three sibling classes describe one instant.**  For a valid date-time, its `Date` and `Time`
    parts are valid objects of their own classes with the same day of the year and the minute of the
    day; `Date.from_doy` / `Time.from_mod` / `from_date_and_time` rebuild them from those indices; the
    date-time's array is the date's (month, day), the time's (hour, minute) and the leap mark. -/
theorem C08_siblings (d : DT) (hv : d.valid) :
    let da : D := ⟨d.month, d.day, d.leap⟩
    let t : T := ⟨d.hour, d.minute⟩
    D.make d.month d.day d.leap = .ok da ∧ T.make d.hour d.minute = .ok t ∧
    da.doy = d.doy ∧ t.mod = d.moy % 1440 ∧ d.moy = (da.doy - 1) * 1440 + t.mod ∧
    fromDoy d.leap d.doy = .ok da ∧ fromMod (d.moy % 1440) = .ok t ∧
    Hist.fromDateAndTime da t = .ok d ∧
    d.toArray = [da.month, da.day] ++ t.toArray ++ (if d.leap then [1] else []) := by
  obtain ⟨h1, h2, h3, h4, h5, h6⟩ := hv
  have hdv : (⟨d.month, d.day, d.leap⟩ : D).valid := ⟨h1, h2, h3, h4⟩
  have htv : (⟨d.hour, d.minute⟩ : T).valid := ⟨h5, h6⟩
  have hmod : (⟨d.hour, d.minute⟩ : T).mod = d.moy % 1440 := by
    simp only [T.mod, DT.moy, DT.intHoy]; omega
  have hdoy1 : 1 ≤ d.doy := by unfold DT.doy; omega
  refine ⟨date_make_of_valid _ hdv, (C08_time_roundtrip _ htv).1, rfl, hmod, ?_, ?_, ?_, ?_, ?_⟩
  · show d.moy = (d.doy - 1) * 1440 + (d.hour * 60 + d.minute)
    simp only [DT.moy, DT.intHoy]; omega
  · exact C08_doy_fromDoy ⟨d.month, d.day, d.leap⟩ hdv
  · rw [← hmod]; exact (C08_time_roundtrip _ htv).2.2
  · exact make_of_valid d ⟨h1, h2, h3, h4, h5, h6⟩
  · rcases d with ⟨mo, da, h, mi, leap⟩
    cases leap <;> rfl

/-- **Branches of `Date.from_doy`.**  Inside the year the `day == 0` branch (`month -= 1`) is taken
    exactly on the days that end a month other than December, and there the result is that month's
    last day (29 Feb for day 60 of a leap year); every other day takes the plain branch. -/
theorem C08_fromDoy_branches (leap : Bool) (n : Nat) (h1 : 1 ≤ n) (h2 : n ≤ daysInYear leap) :
    ((doyBranch leap n = .monthEnd) ↔ n ∈ monthEndDays leap) ∧
    (doyBranch leap n = .monthEnd ∨ doyBranch leap n = .plain) ∧
    (doyBranch leap n = .monthEnd →
      ∃ m, 1 ≤ m ∧ m ≤ 11 ∧ n = daysBefore leap (m + 1) ∧ fromDoy leap n = .ok ⟨m, monthLen leap m, leap⟩) := by
  have hall := doyBranchFact_all leap
  rw [List.all_eq_true] at hall
  have : n < 367 := by unfold daysInYear at h2; split at h2 <;> omega
  have hk := hall n (List.mem_range.mpr this)
  unfold doyBranchFact at hk
  simp only [Bool.or_eq_true, Bool.not_eq_true', decide_eq_false_iff_not, Bool.and_eq_true,
    decide_eq_true_eq] at hk
  rcases hk with hk | ⟨⟨a, b⟩, c⟩
  · exact absurd ⟨h1, h2⟩ hk
  · refine ⟨a, b, fun hb => ?_⟩
    obtain ⟨m, hm, hm1, hmn, hf⟩ := c hb
    exact ⟨m, hm1, by have := List.mem_range.mp hm; omega, hmn, hf⟩

/-- ... the other two branches: a negative day is refused, and past the end of the year the search
    loop falls through (`UnboundLocalError` turned into `ValueError`). -/
theorem C08_fromDoy_branches_outside (leap : Bool) :
    (∀ k : Int, k < 0 → doyBranch leap k = .negative ∧ fromDoy leap k = .error .value) ∧
    (∀ n : Nat, daysInYear leap < n → doyBranch leap n = .fallThrough ∧ fromDoy leap n = .error .value) := by
  constructor
  · intro k hk
    simp [doyBranch, fromDoy, hk]
  · intro n hn
    have hq := findMonth_dayTable_none leap n hn
    have : ¬ ((n : Int) < 0) := by omega
    simp only [doyBranch, fromDoy, this, if_false, Int.toNat_natCast, hq, and_self]

/-- **Branch of `DateTime.from_moy`.**  The month at which the search loop breaks is the month of the
    date-time that comes back; past the end of the year the loop falls through. -/
theorem C08_fromMoy_branch (leap : Bool) (m : Nat) :
    (∀ d, fromMoy leap m = .ok d → moyBranch leap m = some d.month) ∧
    (minutesInYear leap ≤ m → moyBranch leap m = none) := by
  have h0 : (0 : Int) ≤ (m : Int) := by omega
  have hn : ¬ ((m : Int) < 0) := by omega
  constructor
  · intro d hd
    simp only [fromMoy, h0, if_true, Int.toNat_natCast, fromMoyNat] at hd
    simp only [moyBranch, hn, if_false, Int.toNat_natCast]
    cases hf : findMonth (minuteTable leap) m with
    | none => rw [hf] at hd; cases hd
    | some mon =>
      rw [hf] at hd
      rw [make_ok_month hd]
  · intro hge
    have hq : daysInYear leap ≤ m / 1440 := by unfold minutesInYear at hge; omega
    simp only [moyBranch, hn, if_false, Int.toNat_natCast]
    rw [C08_tables_minutes, findMonth_scale _ _ (by decide), findMonth_none_of_ge leap _ hq]

example : (⟨1, 1, 0, 10, false⟩ : DT).addMinuteQ (-3 / 5) = .ok ⟨1, 1, 0, 10, false⟩ := by decide +kernel
example : (⟨1, 1, 0, 10, false⟩ : DT).subMinuteQ (5 / 2) = .ok ⟨1, 1, 0, 8, false⟩ := by decide +kernel
example : (⟨1, 1, 0, 8, false⟩ : DT).addMinuteQ (5 / 2) = .ok ⟨1, 1, 0, 10, false⟩ := by decide +kernel
example : calcHM 5 (597 / 10) = (6, 0) := by decide +kernel
example : doyBranch true 60 = .monthEnd ∧ fromDoy true 60 = .ok ⟨2, 29, true⟩ := by decide
example : 60 ∈ monthEndDays true ∧ 59 ∈ monthEndDays false := by decide

/-! ### Non-vacuity: the hypotheses above are met by concrete non-trivial states -/

example : (⟨2, 29, 23, 59, true⟩ : DT).valid := by decide
example : (⟨2, 29, 23, 59, true⟩ : DT).moy = 86399 := by decide
example : fromMoy true 86399 = .ok ⟨2, 29, 23, 59, true⟩ := by decide
example : fromMoy false 525599 = .ok ⟨12, 31, 23, 59, false⟩ := by decide
example : fromMoy false 525600 = .error .value := by decide
example : fromDoy true 60 = .ok ⟨2, 29, true⟩ := by decide
example : fromDoy false 59 = .ok ⟨2, 28, false⟩ := by decide
example : DT.rebuild (DT.reduceArgs ⟨2, 29, 3, 0, true⟩) = .ok ⟨2, 29, 3, 0, true⟩ := by decide
example : DT.parseTokens (DT.strTokens ⟨2, 29, 3, 5, true⟩) true = .ok ⟨2, 29, 3, 5, true⟩ := by decide

end Cal
