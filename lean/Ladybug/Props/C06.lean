/-
  C06 — Unit conversions agree with the SI definitions of the units and invert.

  The formulas and tables are regenerated from ladybug/datatype/*.py on every run
  (`Gen/Units.lean`); the generated modules `Gen/UnitsProofs1..4` prove, per formula, that it is the
  affine map `A*x + B` (theorems `C06_affine_*`, by `ring`) and, per data type, a kernel-checked
  certificate (`C06_legs_*`, `C06_si_*`, `C06_roundtrip_*`, `C06_targets_*`, `C06_valid_*`).
  This file lifts the certificates to statements for every value, every ordered pair of listed
  units and every listed/unlisted unit string, for all 33 base types whose formulas are rational
  (`Gen.Units.ratBaseTypes`); `Angle` (formulas in π) is proved symbolically at the end.
  The 75 subtypes inherit units and formulas (the translator refuses a subtype that overrides them).

  Index level: `T.convIdx i j x` is the value-level composite that `to_unit(·, units[j], units[i])`
  performs.  String level: `T.toUnit xs unit from_unit` is `_to_unit_base`.
-/
import Mathlib.Tactic.FieldSimp
import Ladybug.Gen.UnitsProofs1
import Ladybug.Gen.UnitsProofs2
import Ladybug.Gen.UnitsProofs3
import Ladybug.Gen.UnitsProofs4
import Ladybug.Gen.UnitsSym

open Units Gen.UnitsProofs

namespace C06

/-- The certificates of all rational base types (generated, one per type). -/
def allCerts : List Cert := certs1 ++ certs2 ++ certs3 ++ certs4

/-- Every generated certificate is valid (legs are the stated affine maps; SI, round-trip and
    target checks passed in the kernel). -/
theorem C06_all_valid : ∀ c ∈ allCerts, c.Valid := by
  intro c hc
  simp only [allCerts, List.mem_append] at hc
  rcases hc with ((h | h) | h) | h
  · exact C06_valid_certs1 c h
  · exact C06_valid_certs2 c h
  · exact C06_valid_certs3 c h
  · exact C06_valid_certs4 c h

/-- Every base type with rational formulas has a certificate (33 types; `Angle` is separate). -/
theorem C06_all_covered :
    (Gen.Units.ratBaseTypes.map (·.name)).all (fun n => (allCerts.map (·.T.name)).contains n) = true
    ∧ Gen.Units.ratBaseTypes.length + 1 = (Gen.Units.baseTypes 3).length := by
  decide +kernel

example : allCerts.length = 33 := by decide +kernel

/-- ROUND TRIP, every ordered pair of listed units of every type, every rational value:
    converting there and back returns the start to within 2 parts in 100 000. -/
theorem C06_roundtrip (c : Cert) (hc : c ∈ allCerts) {i j : Nat} (hi : i < c.n) (hj : j < c.n) (x : Rat) :
    |c.T.convIdx j i (c.T.convIdx i j x) - x| ≤ (2 / 100000) * |x| := by
  have h := C06_all_valid c hc
  rw [Cert.convIdx_eq c h.1 hi hj, Cert.convIdx_eq c h.1 hj hi, ← Aff.eval_comp]
  have := Cert.nearId_spec _ (Cert.rtOk_spec c h.2.2.1 hi hj).2 x
  norm_num at this ⊢
  exact this

/-- IDENTITY: converting to the unit already held changes a value by at most 2e-5 of itself (it
    goes through the base unit and back; for the base unit itself it is literally the identity). -/
theorem C06_same_unit (c : Cert) (hc : c ∈ allCerts) {i : Nat} (hi : i < c.n) (x : Rat) :
    |c.T.convIdx i i x - x| ≤ (2 / 100000) * |x| := by
  have h := C06_all_valid c hc
  rw [Cert.convIdx_eq c h.1 hi hi]
  have := Cert.nearId_spec _ (Cert.rtOk_spec c h.2.2.1 hi hi).1 x
  norm_num at this ⊢
  exact this

theorem C06_base_unit_identity (c : Cert) (x : Rat) : c.T.convIdx c.T.baseIdx c.T.baseIdx x = x := by
  simp [UType.convIdx]

/-- What the SI table says: if `x` units `u` are the quantity `su.eval x`, the same quantity in
    units `v` is `(siPair su sv).eval x`. -/
theorem C06_si_meaning (su sv : Aff) (hv : sv.a ≠ 0) (x : Rat) :
    sv.eval ((Cert.siPair su sv).eval x) = su.eval x := by
  simp only [Aff.eval, Cert.siPair]
  field_simp
  ring

/-- SI AGREEMENT, every ordered pair of listed units of every type: the factor of the code is within
    0.2 % of the factor that follows from the SI definitions, and so is the offset (temperatures);
    the SI table used names exactly the units the type lists, with positive scales. -/
theorem C06_si_factor (c : Cert) (hc : c ∈ allCerts) {i j : Nat} (hi : i < c.n) (hj : j < c.n) :
    c.si.map (·.1) = c.T.units ∧ (∀ s ∈ c.si, 0 < s.2.a) ∧
    (∀ x, c.T.convIdx i j x = (c.pair i j).a * x + (c.pair i j).b) ∧
    |(c.pair i j).a - (Cert.siPair (c.siOf i) (c.siOf j)).a|
      ≤ (2 / 1000) * |(Cert.siPair (c.siOf i) (c.siOf j)).a| ∧
    |(c.pair i j).b - (Cert.siPair (c.siOf i) (c.siOf j)).b|
      ≤ (2 / 1000) * |(Cert.siPair (c.siOf i) (c.siOf j)).b| := by
  have h := C06_all_valid c hc
  obtain ⟨h1, h2, h3, h4⟩ := Cert.siOk_spec c h.2.1 hi hj
  refine ⟨h1, h2, fun x => by rw [Cert.convIdx_eq c h.1 hi hj]; rfl, ?_, ?_⟩
  · norm_num at h3 ⊢; exact h3
  · norm_num at h4 ⊢; exact h4

/-- SI AGREEMENT on values: for every rational `x`, the converted value differs from the value that
    follows from the SI definitions by at most 0.2 % of (|SI factor · x| + |SI offset|). -/
theorem C06_si_value (c : Cert) (hc : c ∈ allCerts) {i j : Nat} (hi : i < c.n) (hj : j < c.n) (x : Rat) :
    |c.T.convIdx i j x - (Cert.siPair (c.siOf i) (c.siOf j)).eval x|
      ≤ (2 / 1000) * (|(Cert.siPair (c.siOf i) (c.siOf j)).a * x| + |(Cert.siPair (c.siOf i) (c.siOf j)).b|) := by
  obtain ⟨_, _, hx, ha, hb⟩ := C06_si_factor c hc hi hj
  rw [hx x]
  set p := c.pair i j
  set s := Cert.siPair (c.siOf i) (c.siOf j)
  have e : p.a * x + p.b - s.eval x = (p.a - s.a) * x + (p.b - s.b) := by simp only [Aff.eval]; ring
  rw [e]
  calc |(p.a - s.a) * x + (p.b - s.b)| ≤ |(p.a - s.a) * x| + |p.b - s.b| := abs_add_le _ _
    _ = |p.a - s.a| * |x| + |p.b - s.b| := by rw [abs_mul]
    _ ≤ (2 / 1000) * |s.a| * |x| + (2 / 1000) * |s.b| := by
        have := mul_le_mul_of_nonneg_right ha (abs_nonneg x)
        linarith
    _ = (2 / 1000) * (|s.a * x| + |s.b|) := by rw [abs_mul]; ring

/-- DISPATCH: `_to_unit_base` on two units the type lists succeeds and is, element by element, the
    index-level composite the theorems above speak about. -/
theorem C06_to_unit_listed (c : Cert) (hc : c ∈ allCerts) {u v : String}
    (hu : u ∈ c.T.units) (hv : v ∈ c.T.units) (xs : List Rat) :
    ∃ i j, i < c.n ∧ j < c.n ∧ c.T.units[i]? = some u ∧ c.T.units[j]? = some v ∧
      c.T.toUnit xs v u = .ok (xs.map (c.T.convIdx i j)) := by
  have h := (C06_all_valid c hc).1.1
  obtain ⟨i, hi⟩ := findIdx_of_mem hu
  obtain ⟨j, hj⟩ := findIdx_of_mem hv
  exact ⟨i, j, findIdx_lt hi, findIdx_lt hj, findIdx_some hi, findIdx_some hj,
    UType.toUnit_listed c.T h hi hj xs⟩

/-- ROUND TRIP at the API: `to_unit([x], v, u)` then `to_unit(·, u, v)` on listed units succeeds and
    returns `x` to within 2e-5. -/
theorem C06_to_unit_roundtrip (c : Cert) (hc : c ∈ allCerts) {u v : String}
    (hu : u ∈ c.T.units) (hv : v ∈ c.T.units) (x : Rat) :
    ∃ y z, c.T.toUnit [x] v u = .ok [y] ∧ c.T.toUnit [y] u v = .ok [z] ∧ |z - x| ≤ (2 / 100000) * |x| := by
  have h := (C06_all_valid c hc).1.1
  obtain ⟨i, hi⟩ := findIdx_of_mem hu
  obtain ⟨j, hj⟩ := findIdx_of_mem hv
  refine ⟨c.T.convIdx i j x, c.T.convIdx j i (c.T.convIdx i j x), ?_, ?_, ?_⟩
  · simpa using UType.toUnit_listed c.T h hi hj [x]
  · simpa using UType.toUnit_listed c.T h hj hi [c.T.convIdx i j x]
  · exact C06_roundtrip c hc (findIdx_lt hi) (findIdx_lt hj) x

/-- REJECTION: a `from_unit` the type does not list raises ValueError. -/
theorem C06_reject_from (c : Cert) (hc : c ∈ allCerts) {u : String} (hu : u ∉ c.T.units) (v : String)
    (xs : List Rat) : c.T.toUnit xs v u = .error Err.value :=
  UType.toUnit_reject_from c.T (C06_all_valid c hc).1.1 hu v xs

/-- REJECTION: a target unit the type does not list raises ValueError. -/
theorem C06_reject_to (c : Cert) (hc : c ∈ allCerts) {u v : String} (hu : u ∈ c.T.units)
    (hv : v ∉ c.T.units) (xs : List Rat) : c.T.toUnit xs v u = .error Err.value :=
  UType.toUnit_reject_to c.T (C06_all_valid c hc).1.1 hu hv xs

/-- REJECTION: `Header.__init__` accepts exactly the listed units (any type). -/
theorem C06_header_accepts_iff (T : UType) (u : String) : Coll.headerOk T u = true ↔ u ∈ T.units := by
  simp [Coll.headerOk, UType.acceptable]

/-- REJECTION: `is_in_range` with an unlisted unit raises ValueError (any type with ≥ 1 unit). -/
theorem C06_in_range_rejects (T : UType) (u : String) (hu : u ∉ T.units) (h0 : 0 < T.units.length)
    (xs : List Rat) : T.isInRange xs (some u) = .error Err.value := by
  have hn : T.idx? u = none := findIdx_eq_none.2 hu
  have hb : ¬ u = T.units.getD 0 "" := by
    intro e; apply hu; rw [e]
    cases hl : T.units with
    | nil => simp [hl] at h0
    | cons a as => simp
  simp only [UType.isInRange, if_neg hb, hn]
  rfl

/-- IP / SI TARGETS (index level, every type): the unit `to_ip` converts `units[i]` to is listed in
    `ip_units`, is a fixed point of the map (idempotent), and a unit already listed is left alone;
    likewise for `to_si`. -/
theorem C06_targets (c : Cert) (hc : c ∈ allCerts) {i : Nat} (hi : i < c.n) :
    (∃ j, c.T.ipTarget[i]? = some j ∧ j < c.n ∧ c.T.units.getD j "" ∈ c.T.ipUnits ∧
        c.T.ipTarget[j]? = some j ∧ (c.T.units.getD i "" ∈ c.T.ipUnits → j = i)) ∧
    (∃ j, c.T.siTarget[i]? = some j ∧ j < c.n ∧ c.T.units.getD j "" ∈ c.T.siUnits ∧
        c.T.siTarget[j]? = some j ∧ (c.T.units.getD i "" ∈ c.T.siUnits → j = i)) := by
  have h := (C06_all_valid c hc).2.2.2
  simp only [UType.targetsOk, UType.targetOk, Bool.and_eq_true, List.all_eq_true, List.mem_range] at h
  have hi' : i < c.T.n := hi
  constructor
  · have := h.1 i hi'
    cases ht : c.T.ipTarget[i]? with
    | none => simp [ht] at this
    | some j =>
      simp only [ht, Bool.and_eq_true, decide_eq_true_eq, List.contains_iff_mem, beq_iff_eq,
        Bool.or_eq_true, Bool.not_eq_true', beq_iff_eq] at this
      refine ⟨j, rfl, this.1.1.1, this.1.1.2, this.1.2, ?_⟩
      intro hm
      rcases this.2 with hf | he
      · exact absurd (List.contains_iff_mem.2 hm) (by rw [hf]; simp)
      · exact he
  · have := h.2 i hi'
    cases ht : c.T.siTarget[i]? with
    | none => simp [ht] at this
    | some j =>
      simp only [ht, Bool.and_eq_true, decide_eq_true_eq, List.contains_iff_mem, beq_iff_eq,
        Bool.or_eq_true, Bool.not_eq_true', beq_iff_eq] at this
      refine ⟨j, rfl, this.1.1.1, this.1.1.2, this.1.2, ?_⟩
      intro hm
      rcases this.2 with hf | he
      · exact absurd (List.contains_iff_mem.2 hm) (by rw [hf]; simp)
      · exact he

/-- COLLECTIONS: a successful `convert_to_unit(u)` (necessarily on a mutable collection) replaces
    values and unit label together and keeps the data type and the class: the new values are exactly
    `to_unit(old values, u, old unit)` and the label is `u`; a rejected conversion changes nothing (the
    model returns the error instead of a new state). -/
theorem C06_collection_in_step (c : Coll) (u : String) (c' : Coll) (h : c.convertToUnit u = .ok c') :
    c.immutable = false ∧ c'.unit = u ∧ c'.T.name = c.T.name ∧ c'.T.units = c.T.units ∧
    c'.immutable = c.immutable ∧ c.T.toUnit c.values u c.unit = .ok c'.values := by
  unfold Coll.convertToUnit at h
  cases hi : c.immutable with
  | true => simp [hi] at h
  | false =>
    simp only [hi, Bool.false_eq_true, if_false, Coll.convUnit] at h
    cases hv : c.T.toUnit c.values u c.unit with
    | error e => simp [hv] at h
    | ok v =>
      simp only [hv, Except.ok.injEq] at h
      subst h
      exact ⟨rfl, rfl, rfl, rfl, hi.symm ▸ rfl, rfl⟩

/-- COLLECTIONS, immutable classes: `convert_to_unit / convert_to_ip / convert_to_si` are rejected
    (AttributeError) whatever the unit; nothing is returned, so values, label and data type stay as they
    were. -/
theorem C06_immutable_convert_rejected (c : Coll) (h : c.immutable = true) (u : String) :
    c.convertToUnit u = .error Err.attr ∧ c.convertToIp = .error Err.attr ∧ c.convertToSi = .error Err.attr := by
  simp [Coll.convertToUnit, Coll.convertToIp, Coll.convertToSi, h]

/-- COLLECTIONS, `to_unit(u)` (every class, mutable or immutable): the copy carries the new label, the
    same data type and the same (im)mutability, and its values are exactly `to_unit(values, u, unit)`. -/
theorem C06_collection_copy_in_step (c : Coll) (u : String) (c' : Coll) (h : c.toUnitCopy u = .ok c') :
    c'.unit = u ∧ c'.T.name = c.T.name ∧ c'.T.units = c.T.units ∧ c'.immutable = c.immutable ∧
    c.T.toUnit c.values u c.unit = .ok c'.values := by
  simp only [Coll.toUnitCopy, Coll.convUnit] at h
  cases hv : c.T.toUnit c.values u c.unit with
  | error e => simp [hv] at h
  | ok v =>
    simp only [hv, Except.ok.injEq] at h
    subst h
    exact ⟨rfl, rfl, rfl, rfl, rfl⟩

/-- COLLECTIONS, physical meaning: `to_unit` (any class) and `convert_to_unit` (mutable) from a listed
    unit `units[i]` to a listed unit `units[j]` succeed, and every new value is the index-level conversion
    of the old one, hence (by `C06_si_value`) within 0.2 % of what the SI definitions give, and converting
    back returns the old values within 2e-5 (`C06_roundtrip`). -/
theorem C06_collection_meaning (k : Cert) (hk : k ∈ allCerts) (vals : List Rat) (imm : Bool) {u v : String}
    (hu : u ∈ k.T.units) (hv : v ∈ k.T.units) :
    ∃ i j c', i < k.n ∧ j < k.n ∧ (⟨k.T, u, vals, imm⟩ : Coll).toUnitCopy v = .ok c' ∧
      (imm = false → (⟨k.T, u, vals, imm⟩ : Coll).convertToUnit v = .ok c') ∧ c'.unit = v ∧
      c'.immutable = imm ∧ c'.values = vals.map (k.T.convIdx i j) := by
  obtain ⟨i, j, hi, hj, _, _, ht⟩ := C06_to_unit_listed k hk hu hv vals
  refine ⟨i, j, ⟨k.T, v, vals.map (k.T.convIdx i j), imm⟩, hi, hj, ?_, ?_, rfl, rfl, rfl⟩
  · simp [Coll.toUnitCopy, Coll.convUnit, ht]
  · intro h; subst h; simp [Coll.convertToUnit, Coll.convUnit, ht]

/-! ### Angle (formulas in π): symbolic, over any field of characteristic 0 and any non-zero π -/

open Gen.UnitsSym in
/-- Degrees → radians is multiplication by π/180 — exactly the SI definition of the degree. -/
theorem C06_angle_si {K : Type} [Field K] [CharZero K] (pi x : K) :
    Angle.degrees_to_radians pi x = (pi / 180) * x ∧
    (pi ≠ 0 → Angle.radians_to_degrees pi x = (180 / pi) * x) := by
  constructor
  · simp only [Angle.degrees_to_radians]; ring
  · intro _; simp only [Angle.radians_to_degrees]; ring

open Gen.UnitsSym in
/-- Degrees → radians → degrees and radians → degrees → radians are exact identities (π ≠ 0). -/
theorem C06_angle_roundtrip {K : Type} [Field K] [CharZero K] (pi x : K) (hpi : pi ≠ 0) :
    Angle.radians_to_degrees pi (Angle.degrees_to_radians pi x) = x ∧
    Angle.degrees_to_radians pi (Angle.radians_to_degrees pi x) = x := by
  constructor
  · simp only [Angle.degrees_to_radians, Angle.radians_to_degrees]; field_simp
  · simp only [Angle.degrees_to_radians, Angle.radians_to_degrees]; field_simp

/-- The executable `Rat` formulas of Angle (what the driver runs) round-trip exactly for every
    non-zero rational stand-in of π. -/
theorem C06_angle_roundtrip_rat (pi x : Rat) (hpi : pi ≠ 0) :
    Gen.Units.Angle.radians_to_degrees pi (Gen.Units.Angle.degrees_to_radians pi x) = x := by
  rw [Gen.UnitsSym.C06_sym_Angle_radians_to_degrees, Gen.UnitsSym.C06_sym_Angle_degrees_to_radians]
  exact (C06_angle_roundtrip pi x hpi).1

/-! ### Non-vacuity -/

example : cert_Energy ∈ allCerts := by simp [allCerts, certs1, certs2, certs3, certs4]
example : cert_Temperature.T.convIdx 1 0 212 = 100 := by decide +kernel      -- 212 °F = 100 °C
example : cert_Temperature.T.toUnit [212] "K" "F" = .ok [37315 / 100] := by decide +kernel
example : cert_Energy.T.toUnit [1] "kwh" "kBtu" = .error Err.value := by decide +kernel
example : cert_Fraction.T.convIdx 0 4 1 = 8 := by decide +kernel             -- fraction 1 = 8 okta
example : (Cert.siPair SI.Temperature.F SI.Temperature.C).eval 212 = 100 := by decide +kernel
example : Gen.Units.EnergyFluxT.toIp [1] "met" = .ok ([1], "met") := by decide +kernel

end C06
