/-
  C06 — Unit conversions agree with the SI definitions of the units and invert.

  The formulas and tables are regenerated from ladybug/datatype/*.py on every run
  (`Gen/Units.lean`); the generated modules `Gen/UnitsProofs1..4` prove, per formula, that it is the
  affine map `A*x + B` (theorems `C06_affine_*`, by `ring`) and, per data type, a kernel-checked
  certificate (`C06_legs_*`, `C06_si_*`, `C06_roundtrip_*`, `C06_targets_*`, `C06_valid_*`).
  This file lifts the certificates to statements for every value, every ordered pair of listed
  units and every listed/unlisted unit string, for all 33 base types whose formulas are rational
  (`Gen.Units.ratBaseTypes`); `Angle` (formulas in π) is proved symbolically at the end.
  The 75 subtypes inherit units and formulas (the translator refuses a subtype that overrides them).

  Index level: `T.convIdx i j x` is the value-level composite that `to_unit(·, units[j], units[i])`
  performs.  String level: `T.toUnit xs unit from_unit` is `_to_unit_base`.
-/
import Mathlib.Tactic.FieldSimp
import Ladybug.Gen.UnitsProofs1
import Ladybug.Gen.UnitsProofs2
import Ladybug.Gen.UnitsProofs3
import Ladybug.Gen.UnitsProofs4
import Ladybug.Gen.UnitsSym
import Ladybug.Proofs.C06Hist

open Units Gen.UnitsProofs

namespace C06

/-- The certificates of all rational base types (generated, one per type). -/
def allCerts : List Cert := certs1 ++ certs2 ++ certs3 ++ certs4

/-- Every generated certificate is valid (legs are the stated affine maps; SI, round-trip and
    target checks passed in the kernel). -/
theorem C06_all_valid : ∀ c ∈ allCerts, c.Valid := by
  intro c hc
  simp only [allCerts, List.mem_append] at hc
  rcases hc with ((h | h) | h) | h
  · exact C06_valid_certs1 c h
  · exact C06_valid_certs2 c h
  · exact C06_valid_certs3 c h
  · exact C06_valid_certs4 c h

/-- Every base type with rational formulas has a certificate (33 types; `Angle` is separate). -/
theorem C06_all_covered :
    (Gen.Units.ratBaseTypes.map (·.name)).all (fun n => (allCerts.map (·.T.name)).contains n) = true
    ∧ Gen.Units.ratBaseTypes.length + 1 = (Gen.Units.baseTypes 3).length := by
  decide +kernel

example : allCerts.length = 33 := by decide +kernel

/-- ROUND TRIP, every ordered pair of listed units of every type, every rational value:
    converting there and back returns the start to within 2 parts in 100 000. -/
theorem C06_roundtrip (c : Cert) (hc : c ∈ allCerts) {i j : Nat} (hi : i < c.n) (hj : j < c.n) (x : Rat) :
    |c.T.convIdx j i (c.T.convIdx i j x) - x| ≤ (2 / 100000) * |x| := by
  have h := C06_all_valid c hc
  rw [Cert.convIdx_eq c h.1 hi hj, Cert.convIdx_eq c h.1 hj hi, ← Aff.eval_comp]
  have := Cert.nearId_spec _ (Cert.rtOk_spec c h.2.2.1 hi hj).2 x
  norm_num at this ⊢
  exact this

/-- IDENTITY: converting to the unit already held changes a value by at most 2e-5 of itself (it
    goes through the base unit and back; for the base unit itself it is literally the identity). -/
theorem C06_same_unit (c : Cert) (hc : c ∈ allCerts) {i : Nat} (hi : i < c.n) (x : Rat) :
    |c.T.convIdx i i x - x| ≤ (2 / 100000) * |x| := by
  have h := C06_all_valid c hc
  rw [Cert.convIdx_eq c h.1 hi hi]
  have := Cert.nearId_spec _ (Cert.rtOk_spec c h.2.2.1 hi hi).1 x
  norm_num at this ⊢
  exact this

theorem C06_base_unit_identity (c : Cert) (x : Rat) : c.T.convIdx c.T.baseIdx c.T.baseIdx x = x := by
  simp [UType.convIdx]

/-- What the SI table says: if `x` units `u` are the quantity `su.eval x`, the same quantity in
    units `v` is `(siPair su sv).eval x`. -/
theorem C06_si_meaning (su sv : Aff) (hv : sv.a ≠ 0) (x : Rat) :
    sv.eval ((Cert.siPair su sv).eval x) = su.eval x := by
  simp only [Aff.eval, Cert.siPair]
  field_simp
  ring

/-- SI AGREEMENT, every ordered pair of listed units of every type: the factor of the code is within
    0.2 % of the factor that follows from the SI definitions, and so is the offset (temperatures);
    the SI table used names exactly the units the type lists, with positive scales. -/
theorem C06_si_factor (c : Cert) (hc : c ∈ allCerts) {i j : Nat} (hi : i < c.n) (hj : j < c.n) :
    c.si.map (·.1) = c.T.units ∧ (∀ s ∈ c.si, 0 < s.2.a) ∧
    (∀ x, c.T.convIdx i j x = (c.pair i j).a * x + (c.pair i j).b) ∧
    |(c.pair i j).a - (Cert.siPair (c.siOf i) (c.siOf j)).a|
      ≤ (2 / 1000) * |(Cert.siPair (c.siOf i) (c.siOf j)).a| ∧
    |(c.pair i j).b - (Cert.siPair (c.siOf i) (c.siOf j)).b|
      ≤ (2 / 1000) * |(Cert.siPair (c.siOf i) (c.siOf j)).b| := by
  have h := C06_all_valid c hc
  obtain ⟨h1, h2, h3, h4⟩ := Cert.siOk_spec c h.2.1 hi hj
  refine ⟨h1, h2, fun x => by rw [Cert.convIdx_eq c h.1 hi hj]; rfl, ?_, ?_⟩
  · norm_num at h3 ⊢; exact h3
  · norm_num at h4 ⊢; exact h4

/-- SI AGREEMENT on values: for every rational `x`, the converted value differs from the value that
    follows from the SI definitions by at most 0.2 % of (|SI factor · x| + |SI offset|). -/
theorem C06_si_value (c : Cert) (hc : c ∈ allCerts) {i j : Nat} (hi : i < c.n) (hj : j < c.n) (x : Rat) :
    |c.T.convIdx i j x - (Cert.siPair (c.siOf i) (c.siOf j)).eval x|
      ≤ (2 / 1000) * (|(Cert.siPair (c.siOf i) (c.siOf j)).a * x| + |(Cert.siPair (c.siOf i) (c.siOf j)).b|) := by
  obtain ⟨_, _, hx, ha, hb⟩ := C06_si_factor c hc hi hj
  rw [hx x]
  set p := c.pair i j
  set s := Cert.siPair (c.siOf i) (c.siOf j)
  have e : p.a * x + p.b - s.eval x = (p.a - s.a) * x + (p.b - s.b) := by simp only [Aff.eval]; ring
  rw [e]
  calc |(p.a - s.a) * x + (p.b - s.b)| ≤ |(p.a - s.a) * x| + |p.b - s.b| := abs_add_le _ _
    _ = |p.a - s.a| * |x| + |p.b - s.b| := by rw [abs_mul]
    _ ≤ (2 / 1000) * |s.a| * |x| + (2 / 1000) * |s.b| := by
        have := mul_le_mul_of_nonneg_right ha (abs_nonneg x)
        linarith
    _ = (2 / 1000) * (|s.a * x| + |s.b|) := by rw [abs_mul]; ring

/-- DISPATCH: `_to_unit_base` on two units the type lists succeeds and is, element by element, the
    index-level composite the theorems above speak about. -/
theorem C06_to_unit_listed (c : Cert) (hc : c ∈ allCerts) {u v : String}
    (hu : u ∈ c.T.units) (hv : v ∈ c.T.units) (xs : List Rat) :
    ∃ i j, i < c.n ∧ j < c.n ∧ c.T.units[i]? = some u ∧ c.T.units[j]? = some v ∧
      c.T.toUnit xs v u = .ok (xs.map (c.T.convIdx i j)) := by
  have h := (C06_all_valid c hc).1.1
  obtain ⟨i, hi⟩ := findIdx_of_mem hu
  obtain ⟨j, hj⟩ := findIdx_of_mem hv
  exact ⟨i, j, findIdx_lt hi, findIdx_lt hj, findIdx_some hi, findIdx_some hj,
    UType.toUnit_listed c.T h hi hj xs⟩

/-- ROUND TRIP at the API: `to_unit([x], v, u)` then `to_unit(·, u, v)` on listed units succeeds and
    returns `x` to within 2e-5. -/
theorem C06_to_unit_roundtrip (c : Cert) (hc : c ∈ allCerts) {u v : String}
    (hu : u ∈ c.T.units) (hv : v ∈ c.T.units) (x : Rat) :
    ∃ y z, c.T.toUnit [x] v u = .ok [y] ∧ c.T.toUnit [y] u v = .ok [z] ∧ |z - x| ≤ (2 / 100000) * |x| := by
  have h := (C06_all_valid c hc).1.1
  obtain ⟨i, hi⟩ := findIdx_of_mem hu
  obtain ⟨j, hj⟩ := findIdx_of_mem hv
  refine ⟨c.T.convIdx i j x, c.T.convIdx j i (c.T.convIdx i j x), ?_, ?_, ?_⟩
  · simpa using UType.toUnit_listed c.T h hi hj [x]
  · simpa using UType.toUnit_listed c.T h hj hi [c.T.convIdx i j x]
  · exact C06_roundtrip c hc (findIdx_lt hi) (findIdx_lt hj) x

/-- REJECTION: a `from_unit` the type does not list raises ValueError. -/
theorem C06_reject_from (c : Cert) (hc : c ∈ allCerts) {u : String} (hu : u ∉ c.T.units) (v : String)
    (xs : List Rat) : c.T.toUnit xs v u = .error Err.value :=
  UType.toUnit_reject_from c.T (C06_all_valid c hc).1.1 hu v xs

/-- REJECTION: a target unit the type does not list raises ValueError. -/
theorem C06_reject_to (c : Cert) (hc : c ∈ allCerts) {u v : String} (hu : u ∈ c.T.units)
    (hv : v ∉ c.T.units) (xs : List Rat) : c.T.toUnit xs v u = .error Err.value :=
  UType.toUnit_reject_to c.T (C06_all_valid c hc).1.1 hu hv xs

/-- REJECTION: `Header.__init__` accepts exactly the listed units (any type). -/
theorem C06_header_accepts_iff (T : UType) (u : String) : Coll.headerOk T u = true ↔ u ∈ T.units := by
  simp [Coll.headerOk, UType.acceptable]

/-- REJECTION: `is_in_range` with an unlisted unit raises ValueError (any type with ≥ 1 unit). -/
theorem C06_in_range_rejects (T : UType) (u : String) (hu : u ∉ T.units) (h0 : 0 < T.units.length)
    (xs : List Rat) : T.isInRange xs (some u) = .error Err.value := by
  have hn : T.idx? u = none := findIdx_eq_none.2 hu
  have hb : ¬ u = T.units.getD 0 "" := by
    intro e; apply hu; rw [e]
    cases hl : T.units with
    | nil => simp [hl] at h0
    | cons a as => simp
  simp only [UType.isInRange, if_neg hb, hn]

/-- ORDER: every conversion between listed units is increasing (its factor is within 0.2 % of a positive
    SI factor). -/
theorem C06_conversion_monotone (c : Cert) (hc : c ∈ allCerts) {i j : Nat} (hi : i < c.n) (hj : j < c.n)
    {x y : Rat} (hxy : x ≤ y) : c.T.convIdx i j x ≤ c.T.convIdx i j y :=
  Cert.convIdx_mono c (C06_all_valid c hc) hi hj hxy

/-- A limit carried to another unit: finite limits go through `f`, infinite ones stay. -/
def mapBound (f : Rat → Rat) : Bound → Bound
  | .fin r => .fin (f r)
  | b => b

/-- What the loop of `is_in_range` decides, for finite limits. -/
theorem C06_range_check_fin (a b : Rat) (xs : List Rat) :
    UType.rangeCheck (.fin a) (.fin b) xs = true ↔ ∀ x ∈ xs, a ≤ x ∧ x ≤ b := by
  simp [UType.rangeCheck, UType.belowMin, UType.aboveMax, not_lt]

/-- RANGE LIMITS IN ANOTHER UNIT (every rational base type and every subtype limits `lo`, `hi`; `u` a listed
    unit at position `j`): `is_in_range(values, u)` runs the range loop with the limits converted from the
    first unit to `u` by exactly the conversion `to_unit` uses for values (`convIdx 0 j`, i.e. the formula
    `_<units[0]>_to_<u>`; the identity for `u = units[0]`); infinite limits stay infinite. -/
theorem C06_in_range_listed (c : Cert) (hc : c ∈ allCerts) (lo hi : Bound) {u : String} {j : Nat}
    (hj : c.T.idx? u = some j) (xs : List Rat) :
    ({ c.T with min := lo, max := hi } : UType).isInRange xs (some u) =
      .ok (UType.rangeCheck (mapBound (c.T.convIdx 0 j) lo) (mapBound (c.T.convIdx 0 j) hi) xs) := by
  have h := C06_all_valid c hc
  have hwf := h.1.1
  obtain ⟨hb0, hn0, _, hlf, _, _, _⟩ := (UType.wf_iff c.T).1 hwf
  have hjn : j < c.n := findIdx_lt hj
  have hbase := UType.idx_base_iff c.T hwf hj
  have hbu : c.T.base = c.T.units.getD 0 "" := by simp [UType.base, hb0]
  by_cases hj0 : j = 0
  · have hu : u = c.T.units.getD 0 "" := by rw [← hbu]; exact hbase.2 (by rw [hj0, hb0])
    have hid : c.T.convIdx 0 j = id := by
      funext x; simp [UType.convIdx, hj0, hb0]
    have hm : ∀ b, mapBound id b = b := by intro b; cases b <;> rfl
    simp only [UType.isInRange, hid, hm]
    rw [if_pos hu]
  · have hu : ¬ u = c.T.units.getD 0 "" := by
      rw [← hbu]; intro e; exact hj0 (by rw [hbase.1 e, hb0])
    have hjl : j < c.T.fromBase.length := by rw [hlf]; exact hjn
    have hf : c.T.fromBase[j]? = some (c.T.fromBase.getD j id) := by
      simp [List.getD, List.getElem?_eq_getElem hjl]
    have hfe : c.T.fromBase.getD j id = c.T.convIdx 0 j := by
      funext x; simp [UType.convIdx, hb0, hj0]
    have h0n : 0 < c.n := hn0
    have hslope : 0 < c.T.convIdx 0 j 1 - c.T.convIdx 0 j 0 := by
      rw [Cert.convIdx_eq c h.1 h0n hjn, Cert.convIdx_eq c h.1 h0n hjn]
      have := Cert.pair_slope_pos c h h0n hjn
      simp only [Aff.eval]; linarith
    have hcb : ∀ b, UType.convBound (c.T.convIdx 0 j) b = mapBound (c.T.convIdx 0 j) b := by
      intro b; cases b <;> simp [UType.convBound, mapBound, hslope]
    have hj' : ({ c.T with min := lo, max := hi } : UType).idx? u = some j := hj
    simp only [UType.isInRange]
    rw [if_neg hu, hj']
    simp only [hf, hfe, hcb]

/-- `is_in_range(values)` without a unit uses the limits as they are. -/
theorem C06_in_range_none (T : UType) (xs : List Rat) :
    T.isInRange xs none = .ok (UType.rangeCheck T.min T.max xs) := rfl

/-- RANGE, meaning in the first unit: a value `x` (in unit `units[j]`) that is not below the converted
    lower limit `r` corresponds to a first-unit value not below `r` by more than the round-trip bound, and
    likewise for the upper limit: limits and values are compared in the same scale. -/
theorem C06_in_range_base_units (c : Cert) (hc : c ∈ allCerts) {j : Nat} (hj : j < c.n) (r x : Rat) :
    (c.T.convIdx 0 j r ≤ x → r - (2 / 100000) * |r| ≤ c.T.convIdx j 0 x) ∧
    (x ≤ c.T.convIdx 0 j r → c.T.convIdx j 0 x ≤ r + (2 / 100000) * |r|) := by
  have h0 : 0 < c.n := ((UType.wf_iff c.T).1 (C06_all_valid c hc).1.1).2.1
  have hrt := abs_le.1 (C06_roundtrip c hc h0 hj r)
  constructor
  · intro hx
    have := C06_conversion_monotone c hc hj h0 hx
    linarith [hrt.1]
  · intro hx
    have := C06_conversion_monotone c hc hj h0 hx
    linarith [hrt.2]

/-- IP / SI TARGETS (index level, every type): the unit `to_ip` converts `units[i]` to is listed in
    `ip_units`, is a fixed point of the map (idempotent), and a unit already listed is left alone;
    likewise for `to_si`. -/
theorem C06_targets (c : Cert) (hc : c ∈ allCerts) {i : Nat} (hi : i < c.n) :
    (∃ j, c.T.ipTarget[i]? = some j ∧ j < c.n ∧ c.T.units.getD j "" ∈ c.T.ipUnits ∧
        c.T.ipTarget[j]? = some j ∧ (c.T.units.getD i "" ∈ c.T.ipUnits → j = i)) ∧
    (∃ j, c.T.siTarget[i]? = some j ∧ j < c.n ∧ c.T.units.getD j "" ∈ c.T.siUnits ∧
        c.T.siTarget[j]? = some j ∧ (c.T.units.getD i "" ∈ c.T.siUnits → j = i)) := by
  have h := (C06_all_valid c hc).2.2.2
  simp only [UType.targetsOk, Bool.and_eq_true] at h
  exact ⟨UType.targetOk_spec c.T _ _ h.1 hi, UType.targetOk_spec c.T _ _ h.2 hi⟩

/-- Within the round-trip bound. -/
def Near (z x : Rat) : Prop := |z - x| ≤ (2 / 100000) * |x|

/-- IP / SI TARGETS at the level of unit NAMES (`to_ip`; every rational base type, every listed unit `u`,
    every value list): the call succeeds and returns a unit name `tgt` that the type lists both as a unit
    and in `ip_units`; the values are untouched when `tgt = u` and otherwise are the conversion `u → tgt`
    of `to_unit`; converting the result again changes nothing (idempotent, for any values); a unit already
    listed in `ip_units` is returned as it is with the values as they are. -/
theorem C06_to_ip_names (c : Cert) (hc : c ∈ allCerts) {u : String} (hu : u ∈ c.T.units) (xs : List Rat) :
    ∃ i j tgt ys, c.T.idx? u = some i ∧ i < c.n ∧ j < c.n ∧ c.T.units[j]? = some tgt ∧
      c.T.idx? tgt = some j ∧ tgt ∈ c.T.ipUnits ∧ c.T.toIp xs u = .ok (ys, tgt) ∧
      ((j = i ∧ ys = xs ∧ tgt = u) ∨ (j ≠ i ∧ ys = xs.map (c.T.convIdx i j))) ∧
      (∀ zs, c.T.toIp zs tgt = .ok (zs, tgt)) ∧ (u ∈ c.T.ipUnits → tgt = u ∧ ys = xs) := by
  have h := C06_all_valid c hc
  have ht := h.2.2.2
  simp only [UType.targetsOk, Bool.and_eq_true] at ht
  exact UType.toSys_listed c.T h.1.1 c.T.ipTarget c.T.ipUnits c.T.strictIp ht.1 hu xs

/-- The same for `to_si` and `si_units`. -/
theorem C06_to_si_names (c : Cert) (hc : c ∈ allCerts) {u : String} (hu : u ∈ c.T.units) (xs : List Rat) :
    ∃ i j tgt ys, c.T.idx? u = some i ∧ i < c.n ∧ j < c.n ∧ c.T.units[j]? = some tgt ∧
      c.T.idx? tgt = some j ∧ tgt ∈ c.T.siUnits ∧ c.T.toSi xs u = .ok (ys, tgt) ∧
      ((j = i ∧ ys = xs ∧ tgt = u) ∨ (j ≠ i ∧ ys = xs.map (c.T.convIdx i j))) ∧
      (∀ zs, c.T.toSi zs tgt = .ok (zs, tgt)) ∧ (u ∈ c.T.siUnits → tgt = u ∧ ys = xs) := by
  have h := C06_all_valid c hc
  have ht := h.2.2.2
  simp only [UType.targetsOk, Bool.and_eq_true] at ht
  exact UType.toSys_listed c.T h.1.1 c.T.siTarget c.T.siUnits c.T.strictSi ht.2 hu xs

/-- REJECTION: `to_ip` / `to_si` of a type that checks the unit (every type whose `to_ip` is not the
    plain `return values, from_unit`) raise ValueError for a unit the type does not list. -/
theorem C06_to_ip_si_reject (T : UType) {u : String} (hu : u ∉ T.units) (xs : List Rat) :
    (T.strictIp = true → T.toIp xs u = .error Err.value) ∧
    (T.strictSi = true → T.toSi xs u = .error Err.value) := by
  constructor
  · intro h; unfold UType.toIp; rw [h]; exact UType.toSys_reject T _ hu xs
  · intro h; unfold UType.toSi; rw [h]; exact UType.toSys_reject T _ hu xs

/-- PHYSICAL MEANING of `to_ip` (same proof for `to_si` below): converting the values returned for the
    unit `tgt` back to `u` with `to_unit` succeeds and returns every value within 2e-5 of the original. -/
theorem C06_to_ip_back (c : Cert) (hc : c ∈ allCerts) {u : String} (hu : u ∈ c.T.units) (xs : List Rat) :
    ∃ tgt ys zs, c.T.toIp xs u = .ok (ys, tgt) ∧ c.T.toUnit ys u tgt = .ok zs ∧ List.Forall₂ Near zs xs := by
  obtain ⟨i, j, tgt, ys, hi, hin, hjn, _, hj, _, hr, hcase, _, _⟩ := C06_to_ip_names c hc hu xs
  have hwf := (C06_all_valid c hc).1.1
  rcases hcase with ⟨hji, hys, htu⟩ | ⟨_, hys⟩
  · rw [hys, htu] at hr
    refine ⟨u, xs, xs.map (c.T.convIdx i i), hr, UType.toUnit_listed c.T hwf hi hi xs, ?_⟩
    exact UType.forall2_map_left (fun x => C06_same_unit c hc hin x) xs
  · rw [hys] at hr
    refine ⟨tgt, _, (xs.map (c.T.convIdx i j)).map (c.T.convIdx j i), hr,
      UType.toUnit_listed c.T hwf hj hi _, ?_⟩
    rw [List.map_map]
    exact UType.forall2_map_left (fun x => C06_roundtrip c hc hin hjn x) xs

theorem C06_to_si_back (c : Cert) (hc : c ∈ allCerts) {u : String} (hu : u ∈ c.T.units) (xs : List Rat) :
    ∃ tgt ys zs, c.T.toSi xs u = .ok (ys, tgt) ∧ c.T.toUnit ys u tgt = .ok zs ∧ List.Forall₂ Near zs xs := by
  obtain ⟨i, j, tgt, ys, hi, hin, hjn, _, hj, _, hr, hcase, _, _⟩ := C06_to_si_names c hc hu xs
  have hwf := (C06_all_valid c hc).1.1
  rcases hcase with ⟨hji, hys, htu⟩ | ⟨_, hys⟩
  · rw [hys, htu] at hr
    refine ⟨u, xs, xs.map (c.T.convIdx i i), hr, UType.toUnit_listed c.T hwf hi hi xs, ?_⟩
    exact UType.forall2_map_left (fun x => C06_same_unit c hc hin x) xs
  · rw [hys] at hr
    refine ⟨tgt, _, (xs.map (c.T.convIdx i j)).map (c.T.convIdx j i), hr,
      UType.toUnit_listed c.T hwf hj hi _, ?_⟩
    rw [List.map_map]
    exact UType.forall2_map_left (fun x => C06_roundtrip c hc hin hjn x) xs

/-- COLLECTIONS: a successful `convert_to_unit(u)` (necessarily on a mutable collection) replaces
    values and unit label together and keeps the data type and the class: the new values are exactly
    `to_unit(old values, u, old unit)` and the label is `u`; a rejected conversion changes nothing (the
    model returns the error instead of a new state). -/
theorem C06_collection_in_step (c : Coll) (u : String) (c' : Coll) (h : c.convertToUnit u = .ok c') :
    c.immutable = false ∧ c'.unit = u ∧ c'.T.name = c.T.name ∧ c'.T.units = c.T.units ∧
    c'.immutable = c.immutable ∧ c.T.toUnit c.values u c.unit = .ok c'.values := by
  unfold Coll.convertToUnit at h
  cases hi : c.immutable with
  | true => simp [hi] at h
  | false =>
    simp only [hi, Bool.false_eq_true, if_false, Coll.convUnit] at h
    cases hv : c.T.toUnit c.values u c.unit with
    | error e => simp [hv] at h
    | ok v =>
      simp only [hv, Except.ok.injEq] at h
      subst h
      exact ⟨rfl, rfl, rfl, rfl, hi.symm ▸ rfl, rfl⟩

/-- COLLECTIONS, immutable classes: `convert_to_unit / convert_to_ip / convert_to_si` are rejected
    (AttributeError) whatever the unit; nothing is returned, so values, label and data type stay as they
    were. -/
theorem C06_immutable_convert_rejected (c : Coll) (h : c.immutable = true) (u : String) :
    c.convertToUnit u = .error Err.attr ∧ c.convertToIp = .error Err.attr ∧ c.convertToSi = .error Err.attr := by
  simp [Coll.convertToUnit, Coll.convertToIp, Coll.convertToSi, h]

/-- COLLECTIONS, `to_unit(u)` (every class, mutable or immutable): the copy carries the new label, the
    same data type and the same (im)mutability, and its values are exactly `to_unit(values, u, unit)`. -/
theorem C06_collection_copy_in_step (c : Coll) (u : String) (c' : Coll) (h : c.toUnitCopy u = .ok c') :
    c'.unit = u ∧ c'.T.name = c.T.name ∧ c'.T.units = c.T.units ∧ c'.immutable = c.immutable ∧
    c.T.toUnit c.values u c.unit = .ok c'.values := by
  simp only [Coll.toUnitCopy, Coll.convUnit] at h
  cases hv : c.T.toUnit c.values u c.unit with
  | error e => simp [hv] at h
  | ok v =>
    simp only [hv, Except.ok.injEq] at h
    subst h
    exact ⟨rfl, rfl, rfl, rfl, rfl⟩

/-- COLLECTIONS, physical meaning: `to_unit` (any class) and `convert_to_unit` (mutable) from a listed
    unit `units[i]` to a listed unit `units[j]` succeed, and every new value is the index-level conversion
    of the old one, hence (by `C06_si_value`) within 0.2 % of what the SI definitions give, and converting
    back returns the old values within 2e-5 (`C06_roundtrip`). -/
theorem C06_collection_meaning (k : Cert) (hk : k ∈ allCerts) (vals : List Rat) (imm : Bool) {u v : String}
    (hu : u ∈ k.T.units) (hv : v ∈ k.T.units) :
    ∃ i j c', i < k.n ∧ j < k.n ∧ (⟨k.T, u, vals, imm⟩ : Coll).toUnitCopy v = .ok c' ∧
      (imm = false → (⟨k.T, u, vals, imm⟩ : Coll).convertToUnit v = .ok c') ∧ c'.unit = v ∧
      c'.immutable = imm ∧ c'.values = vals.map (k.T.convIdx i j) := by
  obtain ⟨i, j, hi, hj, _, _, ht⟩ := C06_to_unit_listed k hk hu hv vals
  refine ⟨i, j, ⟨k.T, v, vals.map (k.T.convIdx i j), imm⟩, hi, hj, ?_, ?_, rfl, rfl, rfl⟩
  · simp [Coll.toUnitCopy, Coll.convUnit, ht]
  · intro h; subst h; simp [Coll.convertToUnit, Coll.convUnit, ht]

/-- COLLECTIONS, `convert_to_ip()` / `convert_to_si()` (mutable) and `to_ip()` / `to_si()` (copy, any
    class): values and unit label are exactly the pair that the data type's `to_ip` / `to_si` returns for the
    old values and the old label; data type and (im)mutability are kept. -/
theorem C06_collection_ip_si_in_step (c c' : Coll) :
    (c.convertToIp = .ok c' → c.immutable = false ∧ c.T.toIp c.values c.unit = .ok (c'.values, c'.unit) ∧
        c'.T.name = c.T.name ∧ c'.immutable = c.immutable) ∧
    (c.convertToSi = .ok c' → c.immutable = false ∧ c.T.toSi c.values c.unit = .ok (c'.values, c'.unit) ∧
        c'.T.name = c.T.name ∧ c'.immutable = c.immutable) ∧
    (c.toIpCopy = .ok c' → c.T.toIp c.values c.unit = .ok (c'.values, c'.unit) ∧
        c'.T.name = c.T.name ∧ c'.immutable = c.immutable) ∧
    (c.toSiCopy = .ok c' → c.T.toSi c.values c.unit = .ok (c'.values, c'.unit) ∧
        c'.T.name = c.T.name ∧ c'.immutable = c.immutable) := by
  have ip : c.convIp = .ok c' → c.T.toIp c.values c.unit = .ok (c'.values, c'.unit) ∧
      c'.T.name = c.T.name ∧ c'.immutable = c.immutable := by
    intro h
    simp only [Coll.convIp] at h
    cases hv : c.T.toIp c.values c.unit with
    | error e => simp [hv] at h
    | ok p => obtain ⟨v, w⟩ := p; simp only [hv, Except.ok.injEq] at h; subst h; exact ⟨rfl, rfl, rfl⟩
  have si : c.convSi = .ok c' → c.T.toSi c.values c.unit = .ok (c'.values, c'.unit) ∧
      c'.T.name = c.T.name ∧ c'.immutable = c.immutable := by
    intro h
    simp only [Coll.convSi] at h
    cases hv : c.T.toSi c.values c.unit with
    | error e => simp [hv] at h
    | ok p => obtain ⟨v, w⟩ := p; simp only [hv, Except.ok.injEq] at h; subst h; exact ⟨rfl, rfl, rfl⟩
  refine ⟨?_, ?_, ip, si⟩
  · intro h
    cases hi : c.immutable with
    | true => simp [Coll.convertToIp, hi] at h
    | false =>
      simp only [Coll.convertToIp, hi, Bool.false_eq_true, if_false] at h
      have := ip h; rw [hi] at this; exact ⟨rfl, this⟩
  · intro h
    cases hi : c.immutable with
    | true => simp [Coll.convertToSi, hi] at h
    | false =>
      simp only [Coll.convertToSi, hi, Bool.false_eq_true, if_false] at h
      have := si h; rw [hi] at this; exact ⟨rfl, this⟩

/-- COLLECTIONS, physical meaning of `to_ip()` (any class) / `convert_to_ip()` (mutable) on a collection
    whose unit `u` the type lists: it succeeds; the new label is a unit of the type listed in `ip_units`;
    data type and (im)mutability are kept; doing it again changes nothing; and converting the result back to
    `u` with `to_unit` returns every value within 2e-5 of the original one. -/
theorem C06_collection_ip_meaning (k : Cert) (hk : k ∈ allCerts) (vals : List Rat) (imm : Bool) {u : String}
    (hu : u ∈ k.T.units) :
    ∃ c' c'', (⟨k.T, u, vals, imm⟩ : Coll).toIpCopy = .ok c' ∧
      (imm = false → (⟨k.T, u, vals, imm⟩ : Coll).convertToIp = .ok c') ∧
      c'.unit ∈ k.T.ipUnits ∧ c'.unit ∈ k.T.units ∧ c'.T.name = k.T.name ∧ c'.immutable = imm ∧
      c'.toIpCopy = .ok c' ∧ (u ∈ k.T.ipUnits → c'.unit = u ∧ c'.values = vals) ∧
      c'.toUnitCopy u = .ok c'' ∧ c''.unit = u ∧ List.Forall₂ Near c''.values vals := by
  obtain ⟨i, j, tgt, ys, _, _, _, hjt, _, hts, hr, _, hidem, hfix⟩ := C06_to_ip_names k hk hu vals
  obtain ⟨tgt', ys', zs, hr', hback, hnear⟩ := C06_to_ip_back k hk hu vals
  rw [hr] at hr'
  simp only [Except.ok.injEq, Prod.mk.injEq] at hr'
  obtain ⟨rfl, rfl⟩ := hr'
  refine ⟨⟨k.T, tgt, ys, imm⟩, ⟨k.T, u, zs, imm⟩, ?_, ?_, hts, List.mem_of_getElem? hjt, rfl, rfl, ?_,
    fun h => ⟨(hfix h).1, (hfix h).2⟩, ?_, rfl, hnear⟩
  · simp [Coll.toIpCopy, Coll.convIp, hr]
  · intro h; subst h; simp [Coll.convertToIp, Coll.convIp, hr]
  · simp [Coll.toIpCopy, Coll.convIp, hidem ys]
  · simp [Coll.toUnitCopy, Coll.convUnit, hback]

/-- The same for `to_si()` / `convert_to_si()` and `si_units`. -/
theorem C06_collection_si_meaning (k : Cert) (hk : k ∈ allCerts) (vals : List Rat) (imm : Bool) {u : String}
    (hu : u ∈ k.T.units) :
    ∃ c' c'', (⟨k.T, u, vals, imm⟩ : Coll).toSiCopy = .ok c' ∧
      (imm = false → (⟨k.T, u, vals, imm⟩ : Coll).convertToSi = .ok c') ∧
      c'.unit ∈ k.T.siUnits ∧ c'.unit ∈ k.T.units ∧ c'.T.name = k.T.name ∧ c'.immutable = imm ∧
      c'.toSiCopy = .ok c' ∧ (u ∈ k.T.siUnits → c'.unit = u ∧ c'.values = vals) ∧
      c'.toUnitCopy u = .ok c'' ∧ c''.unit = u ∧ List.Forall₂ Near c''.values vals := by
  obtain ⟨i, j, tgt, ys, _, _, _, hjt, _, hts, hr, _, hidem, hfix⟩ := C06_to_si_names k hk hu vals
  obtain ⟨tgt', ys', zs, hr', hback, hnear⟩ := C06_to_si_back k hk hu vals
  rw [hr] at hr'
  simp only [Except.ok.injEq, Prod.mk.injEq] at hr'
  obtain ⟨rfl, rfl⟩ := hr'
  refine ⟨⟨k.T, tgt, ys, imm⟩, ⟨k.T, u, zs, imm⟩, ?_, ?_, hts, List.mem_of_getElem? hjt, rfl, rfl, ?_,
    fun h => ⟨(hfix h).1, (hfix h).2⟩, ?_, rfl, hnear⟩
  · simp [Coll.toSiCopy, Coll.convSi, hr]
  · intro h; subst h; simp [Coll.convertToSi, Coll.convSi, hr]
  · simp [Coll.toSiCopy, Coll.convSi, hidem ys]
  · simp [Coll.toUnitCopy, Coll.convUnit, hback]

/-! ### Area normalisation and time aggregation -/

/-- NORMALISE / AGGREGATE, values: dividing by a non-zero area and multiplying by it again (or the other
    way round) returns every value exactly. -/
theorem C06_area_values_inverse (area : Rat) (h : area ≠ 0) (vals : List Rat) :
    (vals.map (· / area)).map (· * area) = vals ∧ (vals.map (· * area)).map (· / area) = vals := by
  constructor
  · rw [List.map_map]; conv_rhs => rw [← List.map_id vals]
    apply List.map_congr_left; intro x _; simp [Function.comp, div_mul_cancel₀ x h]
  · rw [List.map_map]; conv_rhs => rw [← List.map_id vals]
    apply List.map_congr_left; intro x _; simp [Function.comp, mul_div_cancel_right₀ x h]

theorem Reg.find_name (R : Reg) {n : String} {T : UType} (h : R.find n = some T) : T.name = n := by
  have := List.find?_some h
  simpa using this

/-- `normalize_by_area` moves values, label and data type together: every value is divided by the area, the
    label gets the area unit appended, the data type becomes the `_normalized_type` of the old one (which must
    list the new label), the class (mutable / immutable) stays; a zero area or a type without normalised type
    is refused. -/
theorem C06_normalize_in_step (R : Reg) (c c' : Coll) (area : Rat) (au : String)
    (h : R.normalizeByArea c area au = .ok c') :
    area ≠ 0 ∧ c'.values = c.values.map (· / area) ∧ c'.unit = Reg.normUnit c.unit au ∧
    R.normalized.lookup c.T.name = some c'.T.name ∧ c'.T.acceptable c'.unit = true ∧
    c'.immutable = c.immutable := by
  unfold Reg.normalizeByArea at h
  cases hn : R.normalized.lookup c.T.name with
  | none => simp [hn] at h
  | some nt =>
    simp only [hn] at h
    by_cases ha : area = 0
    · simp [ha] at h
    · simp only [ha, if_false] at h
      cases hf : R.find nt with
      | none => simp [hf] at h
      | some T' =>
        simp only [hf] at h
        by_cases hacc : T'.acceptable (Reg.normUnit c.unit au) = true
        · simp only [hacc, if_true, Except.ok.injEq] at h
          subst h
          exact ⟨ha, rfl, rfl, by rw [Reg.find_name R hf], hacc, rfl⟩
        · simp [hacc] at h

/-- `aggregate_by_area` likewise multiplies every value by the area, strips the area unit from the label and
    goes to the type found by the reverse look-up (`Reg.aggTarget`), which must list the new label. -/
theorem C06_aggregate_in_step (R : Reg) (c c' : Coll) (area : Rat) (au : String)
    (h : R.aggregateByArea c area au = .ok c') :
    c'.values = c.values.map (· * area) ∧ c'.unit = Reg.aggUnit c.unit au ∧
    R.aggTarget c.T.name = some c'.T.name ∧ c'.T.acceptable c'.unit = true ∧ c'.immutable = c.immutable := by
  unfold Reg.aggregateByArea at h
  cases hn : R.aggTarget c.T.name with
  | none => simp [hn] at h
  | some b =>
    simp only [hn] at h
    cases hf : R.find b with
    | none => simp [hf] at h
    | some T' =>
      simp only [hf] at h
      by_cases hacc : T'.acceptable (Reg.aggUnit c.unit au) = true
      · simp only [hacc, if_true, Except.ok.injEq] at h
        subst h
        exact ⟨rfl, rfl, by rw [Reg.find_name R hf], hacc, rfl⟩
      · simp [hacc] at h

/-- NORMALISE then AGGREGATE by the same area gives back exactly the values (the label and type round trip is
    a finite fact about strings: `#guard` below and the correspondence op `area`). -/
theorem C06_normalize_aggregate_inverse (R : Reg) (c c' c'' : Coll) (area : Rat) (au : String)
    (h1 : R.normalizeByArea c area au = .ok c') (h2 : R.aggregateByArea c' area au = .ok c'') :
    c''.values = c.values ∧ c''.unit = Reg.aggUnit (Reg.normUnit c.unit au) au ∧ c''.immutable = c.immutable := by
  obtain ⟨ha, hv, hu, _, _, hi⟩ := C06_normalize_in_step R c c' area au h1
  obtain ⟨hv2, hu2, _, _, hi2⟩ := C06_aggregate_in_step R c' c'' area au h2
  refine ⟨?_, by rw [hu2, hu], by rw [hi2, hi]⟩
  rw [hv2, hv]; exact (C06_area_values_inverse area ha c.values).1

/-- Label and type round trip of normalise/aggregate for every type with a normalised type, every unit and
    the area units m2 / ft2 (compile-time test on the regenerated tables, not a theorem: the kernel does not
    evaluate `String.replace`). -/
def areaLabelsOk : Bool :=
  Gen.Units.normalizedType.all fun (t, nt) =>
    match (Gen.Units.reg 3).find t, (Gen.Units.reg 3).find nt with
    | some T, some N => T.units.all fun u => ["m2", "ft2"].all fun au =>
        !(N.acceptable (Reg.normUnit u au)) || ((Reg.aggUnit (Reg.normUnit u au) au == u)
          && (Gen.Units.reg 3).aggTarget nt == some (if t = "ActivityLevel" then "Power" else t))
    | _, _ => false
#guard areaLabelsOk

/-- TIME AGGREGATION, values: multiplying by `factor / timestep` and dividing by it again is exact. -/
theorem C06_time_values_inverse (f ts : Rat) (hf : f ≠ 0) (hts : ts ≠ 0) (vals : List Rat) :
    (vals.map (· * (f / ts))).map (· / (f / ts)) = vals := by
  have h : f / ts ≠ 0 := div_ne_zero hf hts
  exact (C06_area_values_inverse (f / ts) h vals).2

/-- `to_time_aggregated`: the collection is first converted to the first unit of its type (`to_unit`), then
    every value is multiplied by `_time_aggregated_factor / timestep`; type and label become the aggregated
    type and its first unit; class kept.  (That the factor is 3600 s of the rate in SI terms is the generated
    family `C06_timefactor_*`.) -/
theorem C06_time_aggregated_in_step (R : Reg) (c c' : Coll) (ts : Rat) (h : R.timeAggregated c ts = .ok c') :
    ∃ tt f c1, R.timeAgg.lookup c.T.name = some (tt, f) ∧ c.toUnitCopy (c.T.units.getD 0 "") = .ok c1 ∧
      c'.values = c1.values.map (· * (f / ts)) ∧ c'.T.name = tt ∧ c'.unit = c'.T.units.getD 0 "" ∧
      c'.immutable = c.immutable := by
  unfold Reg.timeAggregated at h
  cases hn : R.timeAgg.lookup c.T.name with
  | none => simp [hn] at h
  | some p =>
    obtain ⟨tt, f⟩ := p
    simp only [hn] at h
    cases hc : c.toUnitCopy (c.T.units[0]?.getD "") with
    | error e => simp [hc] at h
    | ok c1 =>
      rw [show c.T.units.getD 0 "" = c.T.units[0]?.getD "" from rfl] at h
      simp only [hc] at h
      cases hf : R.find tt with
      | none => simp [hf] at h
      | some T' =>
        simp only [hf, Except.ok.injEq] at h
        subst h
        have hi : c1.immutable = c.immutable := (C06_collection_copy_in_step c _ c1 hc).2.2.2.1
        exact ⟨tt, f, c1, rfl, hc, rfl, Reg.find_name R hf, rfl, hi⟩

/-- `to_time_rate_of_change`: the same with a division, going to the base type found by the reverse look-up. -/
theorem C06_time_rate_in_step (R : Reg) (c c' : Coll) (ts : Rat) (h : R.timeRateOfChange c ts = .ok c') :
    ∃ b f c1, R.rateTarget c.T.name = some (b, f) ∧ c.toUnitCopy (c.T.units.getD 0 "") = .ok c1 ∧
      c'.values = c1.values.map (· / (f / ts)) ∧ c'.T.name = b ∧ c'.unit = c'.T.units.getD 0 "" ∧
      c'.immutable = c.immutable := by
  unfold Reg.timeRateOfChange at h
  cases hn : R.rateTarget c.T.name with
  | none => simp [hn] at h
  | some p =>
    obtain ⟨b, f⟩ := p
    simp only [hn] at h
    cases hc : c.toUnitCopy (c.T.units[0]?.getD "") with
    | error e => simp [hc] at h
    | ok c1 =>
      rw [show c.T.units.getD 0 "" = c.T.units[0]?.getD "" from rfl] at h
      simp only [hc] at h
      cases hf : R.find b with
      | none => simp [hf] at h
      | some T' =>
        simp only [hf, Except.ok.injEq] at h
        subst h
        have hi : c1.immutable = c.immutable := (C06_collection_copy_in_step c _ c1 hc).2.2.2.1
        exact ⟨b, f, c1, rfl, hc, rfl, Reg.find_name R hf, rfl, hi⟩

/-! ### The `_is_numeric` assertion and GenericType -/

/-- `_is_numeric`: when the first value is not a number, `to_unit` fails with the AssertionError before any
    unit is looked at (listed or not). -/
theorem C06_numeric_guard (T : UType) (vs : List (Option Rat)) (u f : String) :
    T.toUnitRaw (none :: vs) u f = .error Err3.assert := by
  simp [UType.toUnitRaw, UType.isNumeric]

/-- Error of the number-only model seen through the model with non-numbers. -/
def liftErr3 : Err → Err3
  | .value => .value
  | .attr => .attr

def liftRes (r : Except Err (List Rat)) : Except Err3 (List (Option Rat)) :=
  match r with
  | .ok l => .ok (l.map some)
  | .error e => .error (liftErr3 e)

/-- On lists of numbers the guarded `_to_unit_base` is the one all other theorems speak about. -/
theorem C06_numeric_all_numbers (T : UType) (xs : List Rat) (u f : String) :
    T.toUnitRaw (xs.map some) u f = liftRes (T.toUnit xs u f) := by
  have hnum : UType.isNumeric (xs.map some) = true := by cases xs <;> simp [UType.isNumeric]
  have hall : ∀ l : List Rat, (l.map some).all Option.isSome = true := by intro l; simp
  have hleg : ∀ (fns : List (Rat → Rat)) (ar : List Bool) (w : String) (l : List Rat),
      T.legRaw fns ar w (l.map some) =
        liftRes (if w = T.base then .ok l else match T.idx? w with
          | none => .error Err.value
          | some i => match fns[i]? with
            | none => .error Err.attr
            | some g => .ok (l.map g)) := by
    intro fns ar w l
    unfold UType.legRaw
    by_cases hw : w = T.base
    · simp [hw, liftRes]
    · simp only [hw, if_false]
      cases T.idx? w with
      | none => simp [liftRes, liftErr3]
      | some i =>
        simp only []
        cases hfi : fns[i]? with
        | none => simp [liftRes, liftErr3]
        | some g => simp [liftRes, List.map_map, Function.comp_def]
  unfold UType.toUnitRaw UType.toUnit
  simp only [hnum, Bool.not_true, Bool.false_eq_true, if_false]
  rw [hleg T.toBase T.toBaseArith f xs]
  show _ = liftRes (match T.legFrom f xs with | .error e => .error e | .ok v1 => T.legTo u v1)
  unfold UType.legFrom
  cases hr : (if f = T.base then (Except.ok xs : Except Err (List Rat)) else match T.idx? f with
          | none => .error Err.value
          | some i => match T.toBase[i]? with
            | none => .error Err.attr
            | some g => .ok (xs.map g)) with
  | error e => simp [liftRes]
  | ok v1 =>
    simp only [liftRes]
    rw [hleg T.fromBase T.fromBaseArith u v1]
    rfl

/-- GenericType: `to_unit` is not implemented (raises for any units, also for the unit it holds);
    `to_ip` / `to_si` hand values and unit back untouched; the Header accepts exactly the type's own unit;
    `is_in_range` with another unit is rejected. -/
theorem C06_generic (g : Generic) (xs : List Rat) (u f : String) :
    g.toUnit xs u f = .error GErr.notimpl ∧ g.toSys xs f = (xs, f) ∧ (g.acceptable u = true ↔ u = g.unit) ∧
    (u ≠ g.unit → g.isInRange xs (some u) = .error GErr.value) ∧
    g.isInRange xs (some g.unit) = g.isInRange xs none := by
  refine ⟨rfl, rfl, by simp [Generic.acceptable], ?_, by simp [Generic.isInRange]⟩
  intro h; simp [Generic.isInRange, h]

/-! ### Angle (formulas in π): symbolic, over any field of characteristic 0 and any non-zero π -/

open Gen.UnitsSym in
/-- Degrees → radians is multiplication by π/180 — exactly the SI definition of the degree. -/
theorem C06_angle_si {K : Type} [Field K] [CharZero K] (pi x : K) :
    Angle.degrees_to_radians pi x = (pi / 180) * x ∧
    (pi ≠ 0 → Angle.radians_to_degrees pi x = (180 / pi) * x) := by
  constructor
  · simp only [Angle.degrees_to_radians]; ring
  · intro _; simp only [Angle.radians_to_degrees]; ring

open Gen.UnitsSym in
/-- Degrees → radians → degrees and radians → degrees → radians are exact identities (π ≠ 0). -/
theorem C06_angle_roundtrip {K : Type} [Field K] [CharZero K] (pi x : K) (hpi : pi ≠ 0) :
    Angle.radians_to_degrees pi (Angle.degrees_to_radians pi x) = x ∧
    Angle.degrees_to_radians pi (Angle.radians_to_degrees pi x) = x := by
  constructor
  · simp only [Angle.degrees_to_radians, Angle.radians_to_degrees]; field_simp
  · simp only [Angle.degrees_to_radians, Angle.radians_to_degrees]; field_simp

/-- The executable `Rat` formulas of Angle (what the driver runs) round-trip exactly for every
    non-zero rational stand-in of π. -/
theorem C06_angle_roundtrip_rat (pi x : Rat) (hpi : pi ≠ 0) :
    Gen.Units.Angle.radians_to_degrees pi (Gen.Units.Angle.degrees_to_radians pi x) = x := by
  rw [Gen.UnitsSym.C06_sym_Angle_radians_to_degrees, Gen.UnitsSym.C06_sym_Angle_degrees_to_radians]
  exact (C06_angle_roundtrip pi x hpi).1


/-! ### Histories on one object / several objects in one process (round 3)

`Model/UnitsHist.lean` has two machines over the same operations (in-place conversions, copies, immutable /
mutable twins, item and values assignment, area / time derivations, range reads; refused operations return an
error).  `Hist.rstep` is the code as it is (an object refers to a Header cell; in-place conversions write through
the reference; every constructor allocates a Header of its own) and is what the driver runs against the real
objects step by step; `Hist.step` is the specification (an operation is a function of the public state of the
object it is called on, nothing else).  The data-type layer (`to_unit`, `to_ip`, `to_si`, `is_in_range`) is a
family of pure functions in the model: it has no state at all, which IS the statement that answers do not depend
on earlier calls; the harness checks the real objects against it along call histories and in fresh processes. -/

open Units.Hist

/-- HISTORY REFINES FRESH: start from any objects with public states `cs` (each with a Header of its own) and run
    any history `ops` on the reference-level machine.  Then (1) the public states of all objects are those the
    value-level specification computes from `cs` alone, (2) every output along the way (results, refusals, range
    flags) is the specification's, and (3) whatever is asked next (`op`) is answered exactly as by FRESH objects
    built from the final public states: nothing but the public state survives a history. -/
theorem C06_history_refines_fresh (R : Reg) (cs : List Coll) (ops : List Op) (op : Op) :
    (rrun R (RHeap.fresh cs) ops).1.abs = (run R cs ops).1 ∧
    (rrun R (RHeap.fresh cs) ops).2 = (run R cs ops).2 ∧
    (rstep R (rrun R (RHeap.fresh cs) ops).1 op).2
      = (rstep R (RHeap.fresh (rrun R (RHeap.fresh cs) ops).1.abs) op).2 ∧
    (rstep R (rrun R (RHeap.fresh cs) ops).1 op).1.abs
      = (rstep R (RHeap.fresh (rrun R (RHeap.fresh cs) ops).1.abs) op).1.abs := by
  obtain ⟨hinv, habs, hout⟩ := rrun_sim R ops (RHeap.fresh cs) (fresh_inv cs)
  rw [fresh_abs] at habs hout
  obtain ⟨_, ha1, ho1⟩ := rstep_sim R _ hinv op
  obtain ⟨_, ha2, ho2⟩ := rstep_sim R _ (fresh_inv (rrun R (RHeap.fresh cs) ops).1.abs) op
  rw [fresh_abs] at ha2 ho2
  exact ⟨habs, hout, by rw [ho1, ho2], by rw [ha1, ha2]⟩

/-- REFUSED PRESERVES: an operation that raises (unlisted unit, in-place operation on an immutable collection,
    values of the wrong length, index out of range, zero area, a type without normalised / aggregated type, ...)
    leaves the whole heap — every Header cell, every object, hence every observation — exactly as it was; at the
    value level likewise. -/
theorem C06_refused_preserves (R : Reg) (h : RHeap) (op : Op) (e : HErr) (hr : (rstep R h op).2 = .err e) :
    (rstep R h op).1 = h ∧ (rstep R h op).1.abs = h.abs ∧
    ∀ hv : List Coll, (step R hv op).2 = .err e → (step R hv op).1 = hv := by
  have h1 := rstep_refused R h op e hr
  exact ⟨h1, by rw [h1], fun hv hr' => step_refused R hv op e hr'⟩

/-- READS ARE PURE and their order does not matter: a range read leaves the heap as it is, so two reads give the
    same two answers in either order, and a repeated read gives the same answer. -/
theorem C06_read_pure (R : Reg) (h : RHeap) (op1 op2 : Op) (h1 : op1.isRead = true) (h2 : op2.isRead = true) :
    (rstep R h op1).1 = h ∧
    (rrun R h [op1, op2]).2 = [(rstep R h op1).2, (rstep R h op2).2] ∧
    (rrun R h [op2, op1]).2 = [(rstep R h op2).2, (rstep R h op1).2] ∧
    (rrun R h [op1, op1]).2 = [(rstep R h op1).2, (rstep R h op1).2] ∧
    (rrun R h [op1, op2]).1 = h := by
  have pure : ∀ op : Op, op.isRead = true → (rstep R h op).1 = h := by
    intro op hr
    cases op <;> simp [Op.isRead] at hr
    unfold rstep
    cases ho : h.objs[(Op.rng _).target]? with
    | none => rfl
    | some o =>
      simp only [act]
      cases (view h.cells o).T.isInRange (view h.cells o).values (some (view h.cells o).unit) <;> rfl
  have p1 := pure op1 h1
  have p2 := pure op2 h2
  refine ⟨p1, ?_, ?_, ?_, ?_⟩ <;> simp only [rrun, p1, p2]

/-- NO ACTION AT A DISTANCE (immutable twins, copies, derived collections): on a heap built by the operations, an
    operation called on object `op.target` leaves the public state of every OTHER object `j` as it was — in
    particular an in-place conversion of a collection never relabels the immutable twin taken from it before. -/
theorem C06_history_frame (R : Reg) (h : RHeap) (hinv : h.Inv) (op : Op) (j : Nat) (hj : j ≠ op.target)
    (hjl : j < h.objs.length) : (rstep R h op).1.abs[j]? = h.abs[j]? := by
  rw [(rstep_sim R h hinv op).2.1]
  exact step_frame R h.abs op j hj (by rw [abs_length]; exact hjl)

/-- IN-PLACE CONVERSION INSIDE A HISTORY keeps the physical meaning: when object `t` is a mutable collection of a
    certified type in a listed unit `u`, `convert_to_unit(v)` to a listed unit succeeds and replaces exactly that
    object's label by `v` and its values by the index-level conversion (to which `C06_si_value` and
    `C06_roundtrip` apply); a unit the type does not list is refused with ValueError and (by
    `C06_refused_preserves`) nothing changes. -/
theorem C06_history_convert (R : Reg) (k : Cert) (hk : k ∈ allCerts) (h : List Coll) (t : Nat) (vals : List Rat)
    {u v : String} (hu : u ∈ k.T.units) (ht : h[t]? = some ⟨k.T, u, vals, false⟩) :
    (v ∈ k.T.units → ∃ i j, i < k.n ∧ j < k.n ∧
        step R h (.cu t v) = (h.set t ⟨k.T, v, vals.map (k.T.convIdx i j), false⟩, .done)) ∧
    (v ∉ k.T.units → step R h (.cu t v) = (h, .err .value)) := by
  constructor
  · intro hv
    obtain ⟨i, j, hi, hj, _, _, hto⟩ := C06_to_unit_listed k hk hu hv vals
    refine ⟨i, j, hi, hj, ?_⟩
    simp [step, Op.target, ht, act, Coll.convertToUnit, Coll.convUnit, hto, lift]
  · intro hv
    have := C06_reject_to k hk hu hv vals
    simp [step, Op.target, ht, act, Coll.convertToUnit, Coll.convUnit, this, lift, ofErr]

/-- Non-vacuity: a twin taken before an in-place conversion keeps unit and values (C -> F on the original). -/
example :
    ((rrun (Gen.Units.reg 3) (RHeap.fresh [⟨cert_Temperature.T, "C", [20], false⟩]) [.imm 0, .cu 0 "F", .cu 1 "K",
        .cu 0 "foo", .rng 1]).1.abs.map fun c => (c.unit, c.values, c.immutable))
      = [("F", [68], false), ("C", [20], true)] := by decide +kernel

example :
    (rrun (Gen.Units.reg 3) (RHeap.fresh [⟨cert_Temperature.T, "C", [20], false⟩]) [.imm 0, .cu 0 "F", .cu 1 "K",
        .cu 0 "foo", .rng 1, .set 0 5 1]).2
      = [.made 1, .done, .err .attr, .err .value, .flag true, .err .index] := by decide +kernel

/-! ### Round 4: sibling types, container independence, the branches of the dispatch, homogeneity -/

/-- The record update by which `Gen.Units.allTypes` makes a subtype out of its base type. -/
def renamed (B : UType) (n : String) (lo hi : Bound) : UType := { B with name := n, min := lo, max := hi }

/-- OVERRIDE GAP, model side: a subtype (its base type under another name and with its own limits) converts
    exactly like the base type: `to_unit`, `to_ip`, `to_si`, unit acceptance and the Header test give the same
    answer on every input.  (The translator refuses a subtype that overrides a formula or a table; the check runs
    every ordered pair of every subtype against this model.) -/
theorem C06_subtype_converts_like_base (B : UType) (n : String) (lo hi : Bound) (xs : List Rat) (u v : String) :
    (renamed B n lo hi).toUnit xs v u = B.toUnit xs v u ∧
    (renamed B n lo hi).toIp xs u = B.toIp xs u ∧
    (renamed B n lo hi).toSi xs u = B.toSi xs u ∧
    (renamed B n lo hi).acceptable u = B.acceptable u ∧
    Coll.headerOk (renamed B n lo hi) u = Coll.headerOk B u := ⟨rfl, rfl, rfl, rfl, rfl⟩

/-- Every type of the regenerated registry is a base type or a renamed base type. -/
theorem C06_all_types_base_or_renamed (pi : Rat) (T : UType) (h : T ∈ Gen.Units.allTypes pi) :
    T ∈ Gen.Units.baseTypes pi ∨ ∃ B ∈ Gen.Units.baseTypes pi, ∃ n lo hi, T = renamed B n lo hi := by
  unfold Gen.Units.allTypes at h
  rcases List.mem_append.mp h with h | h
  · exact Or.inl h
  · right
    obtain ⟨⟨n, p, lo, hi⟩, _, hx⟩ := List.mem_filterMap.mp h
    cases hf : (Gen.Units.baseTypes pi).find? (·.name = p) with
    | none => simp [hf] at hx
    | some B =>
      simp only [hf, Option.map_some, Option.some.injEq] at hx
      exact ⟨B, List.mem_of_find?_eq_some hf, n, lo, hi, hx.symm⟩

/-- SIBLINGS AGREE: every one of the 109 types converts like one of the base types, on every value list and every
    pair of unit strings (listed or not): siblings of one base type cannot differ from each other. -/
theorem C06_siblings_agree (pi : Rat) (T : UType) (h : T ∈ Gen.Units.allTypes pi) :
    ∃ B ∈ Gen.Units.baseTypes pi, ∀ (xs : List Rat) (u v : String),
      T.toUnit xs v u = B.toUnit xs v u ∧ T.toIp xs u = B.toIp xs u ∧ T.toSi xs u = B.toSi xs u := by
  rcases C06_all_types_base_or_renamed pi T h with hb | ⟨B, hB, n, lo, hi, rfl⟩
  · exact ⟨T, hb, fun _ _ _ => ⟨rfl, rfl, rfl⟩⟩
  · exact ⟨B, hB, fun xs u v => ⟨rfl, rfl, rfl⟩⟩

/-- CONTAINER INDEPENDENCE / NO ALIASING between elements and between calls (any type, any unit strings): when
    `to_unit` answers at all, there is ONE function of a single number such that the answer for EVERY value list is
    that function applied to each element.  So the answer for a list is the list of the answers for its elements,
    in order and of the same length (tuple, list, array: the same data), it does not depend on what was asked
    before, and two equal inputs give equal outputs. -/
theorem C06_to_unit_pointwise (T : UType) (u v : String) (xs ys : List Rat) (h : T.toUnit xs v u = .ok ys) :
    ∃ g : Rat → Rat, ys = xs.map g ∧ ∀ zs, T.toUnit zs v u = .ok (zs.map g) := by
  unfold UType.toUnit at h
  cases h1 : T.legFrom u xs with
  | error e => simp [h1] at h
  | ok w =>
    simp only [h1] at h
    obtain ⟨g1, hw, hg1⟩ := UType.legFrom_pointwise T u xs w h1
    obtain ⟨g2, hy, hg2⟩ := UType.legTo_pointwise T v w ys h
    refine ⟨g2 ∘ g1, ?_, fun zs => ?_⟩
    · rw [hy, hw, List.map_map]
    · unfold UType.toUnit
      rw [hg1 zs]
      simp only []
      rw [hg2 (zs.map g1), List.map_map]

/-- ... hence splitting a list, converting the parts and joining them is converting the whole list. -/
theorem C06_to_unit_append (T : UType) (u v : String) (xs zs ys : List Rat) (h : T.toUnit (xs ++ zs) v u = .ok ys) :
    ∃ a b, T.toUnit xs v u = .ok a ∧ T.toUnit zs v u = .ok b ∧ ys = a ++ b := by
  obtain ⟨g, hy, hg⟩ := C06_to_unit_pointwise T u v (xs ++ zs) ys h
  exact ⟨xs.map g, zs.map g, hg xs, hg zs, by rw [hy, List.map_append]⟩

/-- THE BRANCHES OF `_to_unit_base` (any type): both units the base unit: the list comes back as it is; `from_unit`
    the base unit: only the second leg runs; target the base unit: only the first leg runs (and its refusal is the
    refusal of the call); a refused first leg is the answer whatever the target is. -/
theorem C06_dispatch_branches (T : UType) (xs : List Rat) (u v : String) :
    T.toUnit xs T.base T.base = .ok xs ∧
    T.toUnit xs v T.base = T.legTo v xs ∧
    T.toUnit xs T.base u = T.legFrom u xs ∧
    (∀ e, T.legFrom u xs = .error e → T.toUnit xs v u = .error e) := by
  refine ⟨by simp [UType.toUnit, UType.legFrom, UType.legTo], by simp [UType.toUnit, UType.legFrom], ?_, ?_⟩
  · unfold UType.toUnit
    cases T.legFrom u xs <;> simp [UType.legTo]
  · intro e he
    simp [UType.toUnit, he]

/-- THE BRANCHES OF `to_ip` / `to_si` (any type, any target map): an unlisted unit is returned as it is by the
    types that do not check it and refused by the ones that do; a unit that is its own target comes back untouched;
    every other listed unit is the `to_unit` conversion to its target, labelled with the target's name. -/
theorem C06_to_sys_branches (T : UType) (targets : List Nat) (strict : Bool) (xs : List Rat) (u : String) :
    (T.idx? u = none → strict = false → T.toSys targets strict xs u = .ok (xs, u)) ∧
    (T.idx? u = none → strict = true → T.toSys targets strict xs u = .error Err.value) ∧
    (∀ i, T.idx? u = some i → targets[i]? = some i → T.toSys targets strict xs u = .ok (xs, u)) ∧
    (∀ i j ys, T.idx? u = some i → targets[i]? = some j → j ≠ i → T.toUnit xs (T.units.getD j "") u = .ok ys →
      T.toSys targets strict xs u = .ok (ys, T.units.getD j "")) ∧
    (∀ i j e, T.idx? u = some i → targets[i]? = some j → j ≠ i → T.toUnit xs (T.units.getD j "") u = .error e →
      T.toSys targets strict xs u = .error e) := by
  refine ⟨?_, ?_, ?_, ?_, ?_⟩
  · intro h hs; simp [UType.toSys, h, hs]
  · intro h hs; simp [UType.toSys, h, hs]
  · intro i h ht; simp [UType.toSys, h, ht]
  · intro i j ys h ht hne hy
    simp only [UType.toSys, h, ht, hne, if_false]
    rw [hy]
  · intro i j e h ht hne hy
    simp only [UType.toSys, h, ht, hne, if_false]
    rw [hy]

/-- No conversion of the pair has an offset. -/
def offsetFree (c : Cert) : Bool :=
  (List.range c.n).all fun i => (List.range c.n).all fun j => (c.pair i j).b == 0

/-- NUMERIC EDGES, model side: for a type without offsets the conversion of every ordered pair is homogeneous,
    `conv (k * x) = k * conv x`: relative accuracy (0.2 % / 2e-5, theorems above, stated for EVERY rational `x`) is
    the same at 1e-30 and at 1e+25; an absolute rounding step in a formula is not such a map. -/
theorem C06_scale_invariant (c : Cert) (hc : c ∈ allCerts) (ho : offsetFree c = true) {i j : Nat}
    (hi : i < c.n) (hj : j < c.n) (k x : Rat) :
    c.T.convIdx i j (k * x) = k * c.T.convIdx i j x := by
  have h := C06_all_valid c hc
  simp only [offsetFree, List.all_eq_true, List.mem_range, beq_iff_eq] at ho
  have hb := ho i hi j hj
  rw [Cert.convIdx_eq c h.1 hi hj, Cert.convIdx_eq c h.1 hi hj]
  simp only [Aff.eval, hb]
  ring

/-- Exactly one rational base type has offsets (Temperature: 32 °F, 273.15 K); all others are homogeneous. -/
theorem C06_offset_free_types :
    (allCerts.filter fun c => !offsetFree c).map (·.T.units) = [["C", "F", "K"]] := by decide +kernel

example : (renamed cert_Speed.T "WindSpeed" (.fin 0) .posInf).toUnit [10] "km/h" "m/s" = .ok [36] := by decide +kernel
example : cert_Temperature.T.toUnit [0, 100] "C" "C" = .ok [0, 100] := by decide +kernel
example : offsetFree cert_Energy = true := by decide +kernel

/-! ### Non-vacuity -/

example : cert_Energy ∈ allCerts := by simp [allCerts, certs1, certs2, certs3, certs4]
example : cert_Temperature.T.convIdx 1 0 212 = 100 := by decide +kernel      -- 212 °F = 100 °C
example : cert_Temperature.T.toUnit [212] "K" "F" = .ok [37315 / 100] := by decide +kernel
example : cert_Energy.T.toUnit [1] "kwh" "kBtu" = .error Err.value := by decide +kernel
example : cert_Fraction.T.convIdx 0 4 1 = 8 := by decide +kernel             -- fraction 1 = 8 okta
example : (Cert.siPair SI.Temperature.F SI.Temperature.C).eval 212 = 100 := by decide +kernel
example : Gen.Units.EnergyFluxT.toIp [1] "met" = .ok ([1], "met") := by decide +kernel

end C06
